"""C07 - linear least-squares fits reproduce the closed-form GLS estimator.

impl   = pe.least_squares (single and combined fits, priors, correlated fits, all minimisers, num_grad)
oracle = (A^T W A)^-1 A^T W y built here from the data: central values, every per-configuration
         fluctuation (S delta_y propagated by configuration number with the C01 oracle) and every
         covariance-input gradient; chi-square, dof, p-value.
theorems: PV/Props/C07.lean (normal equations unique, chi-square decomposition / minimiser,
         -H^-1 M = GLS sensitivity, row permutation invariance, priors as augmented rows).
"""
import json
import os
import warnings
from pe_util import np, pe, gen_idl, close, quiet
from props.c01 import Q, combine, compare_q

RULE = ('polynomial / linear-basis models with 1-4 parameters and 1-2 abscissa dimensions, 1-3 keyed data sets sharing parameters, '
        'data on 1-3 ensembles with cross-correlations, priors as list / dict (incl. non-leading keys) / Obs / strings, correlated fits '
        'with estimated and supplied factor, methods LM / migrad / Nelder-Mead / Powell, num_grad, permuted points and keys. '
        'non-trivial = distinct case.')
TRUSTED = ['scipy least_squares / minimize, iminuit (contract: stationary point; measured by the GLS residual)',
           'autograd / numdifftools Hessians', 'scipy.stats chi2 for the p-value']
ASSUMPTIONS = ['values and fluctuations compared at 1e-6 (LM, migrad) and 2e-4 (Nelder-Mead, Powell) relative to the parameter errors']

import autograd.numpy as anp


def basis(kind, npar):
    if kind == 'poly':
        return lambda x: [x ** k for k in range(npar)], (lambda a, x: sum(a[k] * x ** k for k in range(npar)))
    if kind == 'mixed':
        fs = [lambda x: 1.0 + 0 * x, lambda x: x, lambda x: np.exp(-0.5 * x), lambda x: np.cos(x)]
        afs = [lambda x: 1.0 + 0 * x, lambda x: x, lambda x: anp.exp(-0.5 * x), lambda x: anp.cos(x)]
        return lambda x: [f(x) for f in fs[:npar]], (lambda a, x: sum(a[k] * afs[k](x) for k in range(npar)))
    # two abscissa dimensions
    return lambda x: [1.0 + 0 * x[0], x[0], x[1], x[0] * x[1]][:npar], (lambda a, x: sum(a[k] * t for k, t in enumerate([1.0 + 0 * x[0], x[0], x[1], x[0] * x[1]][:npar])))


def make_data(case):
    rng = __import__('random').Random(case['seed'])
    nprng = np.random.default_rng(case['seed'])
    npar = case['npar']
    truth = [1.0, 0.5, -0.3, 0.2][:npar]
    layout = {}
    for e in case['ens']:
        step = rng.choice([1, 1, 2, 3])          # one spacing per ensemble (replicas need a common one)
        for r in range(rng.choice([1, 2])):
            n0 = rng.randint(20, 40)
            start = rng.randint(1, 30) * step
            full = [start + i * step for i in range(n0)]
            if rng.random() < 0.4:
                drop = set(rng.sample(range(2, n0), 3))
                full = [c for i, c in enumerate(full) if i not in drop]
            layout['%s|r%d' % (e, r + 1)] = full
    common = {n: nprng.normal(size=len(il)) for n, il in layout.items()}
    keys = case['keys']
    xs, ys, fb = {}, {}, {}
    for ki, key in enumerate(keys):
        npts = case['npts'][ki]
        if case['basis'] == '2d':
            x = np.array([nprng.uniform(0.2, 2.0, size=npts), nprng.uniform(-1, 1, size=npts)])
        elif case.get('via_corr'):
            # integer timeslices of a correlator, with undefined slices in between
            x = np.array(sorted(rng.sample(range(npts + 3), npts)), dtype=float)
        else:
            x = np.sort(nprng.uniform(0.1, 3.0, size=npts))
        feat, func = basis(case['basis'], npar)
        # shared-parameter structure for combined fits: key k uses parameters rotated by k (param 0 common)
        idx = [0] + [((j - 1 + ki) % max(1, npar - 1)) + 1 for j in range(1, npar)] if case['combined'] and npar > 1 else list(range(npar))
        fb[key] = (feat, idx)
        F = np.array(feat(x)).T if case['basis'] != '2d' else np.array(feat(x)).T
        yv = F @ np.array([truth[i] for i in idx])
        yo = []
        for p in range(npts):
            e = case['ens'][p % len(case['ens'])]
            o = None
            for n in [m for m in layout if m.startswith(e + '|')]:
                il = layout[n]
                sig = 0.05 * (1 + p % 3)
                smp = yv[p] + sig * (case['corr'] * common[n] + nprng.normal(size=len(il)))
                # 'zfac': every point on ensembles of its own ...
                b = pe.Obs([smp], [('P%d%s' % (p, n)) if case.get('zfac') else n], idl=[il])
                o = b if o is None else pe.merge_obs([o, b])
            if case.get('zfac'):
                # ... times one common factor of central value exactly 1: the name lists of the points differ pairwise
                # but overlap, the points are correlated through the factor
                if 'Z' not in common:
                    zs_ = nprng.normal(size=30)
                    common['Z'] = pe.Obs([1.0 + 0.03 * (zs_ - np.mean(zs_))], ['Zq|r1'])
                o = o * common['Z']
            yo.append(o)
        xs[key], ys[key] = x, yo
    return xs, ys, fb, truth


def parse_prior(s):
    """'value(err)' as documented, parsed from the written text (independent of the library):
    an error without a decimal point behind a value with decimals counts in units of the last written digit"""
    vtxt, etxt = s.rstrip(')').split('(')
    v, e = float(vtxt), float(etxt)
    if '.' in vtxt and '.' not in etxt:
        e = e * 10.0 ** (-len(vtxt.split('.')[1]))
    return v, e


def gls(case, xs, ys, fb, priors, ctx=None, snap=None):
    """closed form: returns (parameters as Q objects, chisq, dof)"""
    keys = sorted(xs)
    npar = case['npar']
    rows, yobs = [], []
    for key in keys:
        feat, idx = fb[key]
        F = np.array(feat(xs[key])).T
        for p in range(F.shape[0]):
            row = np.zeros(npar)
            for j, i in enumerate(idx):
                row[i] += F[p, j]
            rows.append(row)
            yobs.append(ys[key][p])
    A = np.array(rows)
    n = len(yobs)
    yv = np.array([o.value for o in yobs])
    # the weights are frozen at the errors present when the fit was called (snapshot taken before the call)
    dy = np.array([snap['dy'][id(o)] for o in yobs]) if snap else np.array([o.dvalue for o in yobs])
    if case['correlated'] and snap and 'W_user' in snap:
        W = snap['W_user']       # the user's inverse covariance L^T L, in the oracle's order of points
    elif case['correlated']:
        corr = snap['corr'] if snap else pe.covariance(yobs, correlation=True)
        cov = np.diag(dy) @ corr @ np.diag(dy)
        W = np.linalg.inv(cov)
    else:
        W = np.diag(1 / dy ** 2)
    pobs = []
    if priors:
        for i, (pv, pd, po) in sorted(priors.items()):
            row = np.zeros(npar)
            row[i] = 1
            A = np.vstack([A, row])
            W = np.block([[W, np.zeros((W.shape[0], 1))], [np.zeros((1, W.shape[1])), np.array([[1 / pd ** 2]])]])
            yv = np.append(yv, pv)
            pobs.append(po)
    N = A.T @ W @ A
    S = np.linalg.solve(N, A.T @ W)
    phat = S @ yv
    res = yv - A @ phat
    chisq = float(res @ W @ res)
    # the closed form in exact rational arithmetic (Lean model PV.Model.Gls, checked normal equations):
    # estimator, sensitivities and chi-square of exactly these A, W, y
    if ctx is not None and ctx.lean is not None:
        from fractions import Fraction
        from pe_util import q2j
        if not case['correlated']:
            # uncorrelated fits: the Lean model assembles the problem itself (data sets in the order handed over - it stacks
            # them by key -, prior rows, weights) and solves it; sensitivities come back in stacked order
            order = keys if not case.get('perm') else keys[::-1]
            blocks, pos = [], 0
            span = {}
            for key in keys:
                span[key] = (pos, pos + len(ys[key]))
                pos += len(ys[key])
            for key in order:
                a_, b_ = span[key]
                blocks.append({'key': key, 'rows': [[q2j(float(v)) for v in A[i][:npar]] for i in range(a_, b_)],
                               'y': [q2j(float(v)) for v in yv[a_:b_]], 'dy': [q2j(float(v)) for v in dy[a_:b_]]})
            pri = [[int(i), q2j(float(pv)), q2j(float(pd))] for i, (pv, pd, po) in sorted(priors.items())] if priors else []
            rr = ctx.lean.call({'op': 'fitlinear', 'blocks': blocks, 'npar': npar, 'priors': pri})
            if 'order' in rr and rr['order'] != keys:
                ctx.count('lean-stacking-order-differs')
                rr = {'exc': 'order'}
            else:
                ctx.count('assembled-by-the-lean-model')
        else:
            rr = ctx.lean.call({'op': 'gls', 'A': [[q2j(float(v)) for v in row] for row in A], 'W': [[q2j(float(v)) for v in row] for row in W],
                                'y': [q2j(float(v)) for v in yv]})
        if '_err' in rr or 'exc' in rr:
            ctx.count('exact-gls-unavailable')
        else:
            pL = np.array([float(Fraction(a_, b_)) for a_, b_ in rr['p']])
            SL = np.array([[float(Fraction(a_, b_)) for a_, b_ in row] for row in rr['S']])
            cL = float(Fraction(*rr['chisq']))
            ctx.residual('numpy_vs_exact_gls_estimator', float(np.max(np.abs(pL - phat) / (np.abs(pL) + 1e-300))))
            ctx.residual('numpy_vs_exact_gls_sensitivity', float(np.max(np.abs(SL - S)) / max(np.max(np.abs(SL)), 1e-300)))
            phat, S, chisq = pL, SL, cL
            ctx.count('exact-gls')
    qs = [Q.of(o) for o in yobs] + [Q.of(o) for o in pobs]
    params = []
    for i in range(npar):
        params.append(combine(lambda v, i=i: float(S[i] @ np.array(v)), list(S[i]), qs))
    return params, chisq, n + len(pobs) - npar, phat


def check_case(ctx, case):
    probs = []
    with warnings.catch_warnings(), quiet():
        warnings.simplefilter('ignore')
        np.random.seed(case['seed'] % (2 ** 31))
        xs, ys, fb, truth = make_data(case)
        keys = sorted(xs)
        npar = case['npar']
        _, func = basis(case['basis'], npar)
        for k in keys:
            [o.gamma_method(S=case.get('S_data', 2.0)) for o in ys[k]]
        # priors
        priors_arg, priors = None, {}
        if case['priors']:
            rng = __import__('random').Random(case['seed'] + 5)
            which = case['prior_idx']
            pd_ = {}
            for i in which:
                pv, pe_ = truth[i] + 0.05, rng.choice([0.1, 0.25, 0.5])
                kind = case['prior_kind']
                if kind == 'str':
                    # the documented short-hand in all its written forms: trailing zeros, 1-3 decimals,
                    # error in units of the last written digit or with its own decimal point, integers
                    form = rng.choice(['digits', 'digits', 'digits', 'decimal', 'integer'])
                    if form == 'digits':
                        nd = rng.choice([1, 2, 3])
                        pv = round(rng.choice([pv, round(pv, 1), round(pv, 1) + 0.1]), nd)
                        s = '%.*f(%d)' % (nd, pv, max(1, int(round(pe_ * 10 ** nd))))
                    elif form == 'decimal':
                        s = '%.2f(%.2f)' % (pv, pe_)
                    else:
                        s = '%d(%d)' % (int(round(pv)) , rng.choice([1, 2]))
                    v2, d2 = parse_prior(s)
                    po = pe.cov_Obs(v2, d2 ** 2, 'prior%d' % i)
                    pd_[i] = s
                    priors[i] = (v2, d2, po)
                else:
                    po = pe.cov_Obs(pv, pe_ ** 2, 'prior%d' % i)
                    po.gamma_method()
                    pd_[i] = po
                    priors[i] = (pv, pe_, po)
            if case['prior_form'] == 'list' and len(which) == npar:
                priors_arg = [pd_[i] for i in range(npar)]
            else:
                priors_arg = {i: pd_[i] for i in (which if not case.get('prior_rev') else which[::-1])}
        kw = {'silent': True}
        if case['method'] != 'LM':
            kw['method'] = case['method']
            kw['tol'] = 1e-12
        # switches as users hand them over: python bool, numpy bool (result of a comparison), int
        truthy = [True, np.True_, 1, True][(case['seed'] // 7) % 4]
        if case['correlated']:
            kw['correlated_fit'] = truthy
        if case['num_grad']:
            kw['num_grad'] = True
        if priors_arg is not None:
            kw['priors'] = priors_arg
        if case.get('exp_chisq') and not case['correlated'] and priors_arg is None and not case.get('via_corr'):
            kw['expected_chisquare'] = truthy
        if case.get('guess') is not None:
            # the starting point of the minimiser is not part of the answer of a linear fit
            kw['initial_guess'] = [truth[i] * case['guess'] + 0.1 * (i + 1) * (case['guess'] - 1.0) for i in range(npar)]
        # permutation of points / keys must not matter
        if case['combined']:
            idxs = {k: list(range(len(xs[k]))) for k in keys}
            funcs = {}
            for k in keys:
                feat, idx = fb[k]
                if case['basis'] == '2d':
                    funcs[k] = (lambda a, x, idx=idx: func([a[i] for i in idx], x))
                else:
                    funcs[k] = (lambda a, x, idx=idx: func([a[i] for i in idx], x))
            order = keys if not case['perm'] else keys[::-1]
            xd = {k: xs[k] for k in order}
            yd = {k: ys[k] for k in order}
            fd = {k: funcs[k] for k in order}
            call = lambda: pe.least_squares(xd, yd, fd, **kw)  # noqa: E731
        else:
            k = keys[0]
            x, y = xs[k], ys[k]
            if case['perm']:
                p = np.random.RandomState(case['seed'] % 1000).permutation(len(y))
                x = x[..., p] if case['basis'] == '2d' else x[p]
                y = [y[i] for i in p]
            call = lambda: pe.least_squares(x, y, func, **kw)  # noqa: E731
        allpts_ = [o for k_ in (keys if case['combined'] else keys[:1]) for o in ys[k_]]
        snap = {'dy': {id(o): float(o.dvalue) for o in allpts_}}
        if case['correlated']:
            snap['corr'] = pe.covariance(allpts_, correlation=True)
        if case['correlated'] and case.get('user_chol'):
            # a user-supplied inverse covariance: [L, keys] with L lower triangular, L^T L = C^-1, rows in the order
            # in which the points are handed over (single fit) / in the order of the listed keys (combined fit)
            from scipy.linalg import solve_triangular
            n_ = len(allpts_)
            rngu = np.random.RandomState(case['seed'] % 77777)
            B_ = rngu.normal(size=(n_, n_))
            C_ = B_ @ B_.T + n_ * np.eye(n_)
            dd_ = np.sqrt(np.diag(C_))
            corr_u = C_ / np.outer(dd_, dd_)
            dy_u = np.array([snap['dy'][id(o)] for o in allpts_]) * rngu.uniform(0.7, 1.5, size=n_)
            if case['combined']:
                listed = keys if case['user_chol'] == 'ok' else keys[::-1]
                start, off_ = {}, 0
                for k_ in keys:
                    start[k_] = off_
                    off_ += len(ys[k_])
                order_idx = [start[k_] + j for k_ in listed for j in range(len(ys[k_]))]
            else:
                listed = ['']
                order_idx = list(p) if (case['perm'] and not case.get('via_corr')) else list(range(n_))   # a correlator is fitted in timeslice order
            corr_h = corr_u[np.ix_(order_idx, order_idx)]
            L_ = solve_triangular(np.linalg.cholesky(corr_h), np.diag(1 / dy_u[order_idx]), lower=True)
            kw['inv_chol_cov_matrix'] = [L_, listed]
            W_ = np.zeros((n_, n_))
            W_[np.ix_(order_idx, order_idx)] = L_.T @ L_
            snap['W_user'] = W_
            ctx.count('user-supplied-inverse-covariance:' + case['user_chol'])
        if case.get('via_corr') and not case['combined']:
            T_ = int(x[-1]) + 2 if not case['perm'] else int(max(x)) + 2
            xo, yo_ = (xs[keys[0]], ys[keys[0]])
            content = [None] * T_
            for xi, oi in zip(xo, yo_):
                content[int(xi)] = oi
            if int(min(xo)) > 0:
                content[0] = yo_[0] * 3.0 + 1.0        # a defined slice outside the fit range
            content[T_ - 1] = yo_[-1] * 0.5 - 2.0
            [o_.gamma_method() for o_ in (content[0], content[T_ - 1]) if o_ is not None and o_ not in yo_]
            cobj = pe.Corr(content)
            call = lambda: cobj.fit(func, fitrange=[int(min(xo)), int(max(xo))], **kw)  # noqa: E731
        try:
            res = call()
            if case.get('via_fitlin') and not case['combined'] and not case.get('via_corr') and case['basis'] == 'poly' and case['npar'] == 2:
                # the straight-line convenience entry point: same problem, same answer (x as a list of floats or as an array)
                xl = [float(v) for v in x] if case['seed'] % 2 else np.array(x)
                fl = pe.fits.fit_lin(xl, y, **kw)
                ctx.count('fit_lin')
                for a_, b_ in zip(fl, res.fit_parameters):
                    db_ = {n_: np.asarray(b_.deltas[n_]) for n_ in b_.names if n_ not in b_.covobs}
                    if len(fl) != 2 or abs(float(a_.value) - float(b_.value)) > 1e-8 * max(1.0, abs(float(b_.value))) or any(
                            n_ not in a_.deltas or np.max(np.abs(np.asarray(a_.deltas[n_]) - db_[n_])) > 1e-6 * max(np.max(np.abs(db_[n_])), 1e-300) for n_ in db_):
                        probs.append(('violation', 'fit_lin-differs-from-least_squares', '%r vs %r' % (float(a_.value), float(b_.value))))
                        break
        except Exception as e:
            if 'Cannot invert correlation matrix' in str(e):
                # more points than configurations: the estimated correlation matrix is singular and the library refuses
                ctx.count('refused:singular-correlation-matrix')
                return probs
            if case.get('user_chol') == 'listed_order' and isinstance(e, ValueError) and 'keys of inverse covariance matrix' in str(e):
                # keys listed in another than alphabetical order: refused (accepting them is fine only if the result is
                # the closed form for the matrix as labelled, which is checked below when the call goes through)
                ctx.count('refused:key-order-of-supplied-matrix')
                return probs
            if 'did not converge' in str(e):
                # the minimiser reports its own failure: no result to judge (contract of the external engine)
                ctx.count('minimiser-did-not-converge:' + case['method'])
                return probs
            probs.append(('violation', 'fit-exception:' + case['method'], '%s: %s' % (type(e).__name__, str(e)[:200])))
            return probs
        if case['correlated'] and case['priors']:
            # correlated fits treat prior rows as uncorrelated extra rows: same closed form
            pass
        params, chisq, dof, phat = gls(case, xs if case['combined'] else {keys[0]: xs[keys[0]]}, ys if case['combined'] else {keys[0]: ys[keys[0]]}, fb, priors, ctx, snap)
        loose = case['method'] in ('Nelder-Mead', 'Powell')
        [p.gamma_method() for p in res.fit_parameters]
        for i in range(npar):
            perr = max(res.fit_parameters[i].dvalue, 1e-12)
            tol = (2e-4 if loose else 1e-5)
            if abs(res.fit_parameters[i].value - phat[i]) > tol * perr + 1e-9 * abs(phat[i]):
                probs.append(('violation', 'gls-value:' + case['method'], 'parameter %d: %r vs closed form %r (error %r)' % (i, res.fit_parameters[i].value, phat[i], perr)))
                break
            # string priors become covariance inputs named '#prior<i>_<random digits>': rename the oracle's
            ren = {}
            for cn in res.fit_parameters[i].covobs:
                if cn.startswith('#prior'):
                    ren['prior' + cn[len('#prior'):].split('_')[0]] = cn
            params[i].cov = {ren.get(k, k): v for k, v in params[i].cov.items()}
            d = compare_q(res.fit_parameters[i], params[i], rtol=(5e-3 if loose else 2e-5))
            d = [x for x in d if not x.startswith('value') and not x.startswith('r_value')]
            if d:
                probs.append(('violation', 'gls-fluctuations:' + case['method'], ['parameter %d' % i] + d[:3]))
                break
        ctx.residual('chisq_rel', abs(res.chisquare - chisq) / max(chisq, 1e-12))
        if not close(res.chisquare, chisq, rtol=(1e-3 if loose else 1e-7), scale=max(chisq, 1e-6)):
            probs.append(('violation', 'chisquare', '%r vs %r' % (res.chisquare, chisq)))
        if res.dof != dof:
            probs.append(('violation', 'dof', '%r vs points - parameters + priors = %r' % (res.dof, dof)))
        if kw.get('expected_chisquare') and dof > 0:      # (with as many parameters as points both chisquare and its expectation vanish)
            # chisquare / expected chisquare (arXiv:2209.14188): E = tr[(1 - P) W C W], W = diag(1/dy), C the covariance of the data,
            # P the projector on the column space of W J (J the design matrix, rows stacked by sorted key)
            kk = sorted(keys) if case['combined'] else keys[:1]
            rows_, pts_ = [], []
            for key in kk:
                feat, idx = fb[key]
                F = np.array(feat(xs[key])).T
                for p_ in range(F.shape[0]):
                    row = np.zeros(npar)
                    for j, i in enumerate(idx):
                        row[i] += F[p_, j]
                    rows_.append(row)
                    pts_.append(ys[key][p_])
            J_ = np.array(rows_)
            Wd = np.diag(1 / np.array([snap['dy'][id(o)] for o in pts_]))
            C_ = pe.covariance(pts_)
            A_ = Wd @ J_
            P_ = A_ @ np.linalg.pinv(A_.T @ A_) @ A_.T
            E_ = float(np.trace((np.eye(len(pts_)) - P_) @ Wd @ C_ @ Wd))
            ctx.count('expected-chisquare')
            got_ = getattr(res, 'chisquare_by_expected_chisquare', None)
            if got_ is None or not close(float(got_), chisq / E_, rtol=(1e-3 if loose else 1e-6), scale=max(abs(chisq / E_), 1e-9)):
                probs.append(('violation', 'chisquare-by-expected-chisquare', '%r vs chisquare %r / tr[(1-P) W C W] %r = %r' % (got_, chisq, E_, chisq / E_)))
        if case['correlated'] and dof > 0:
            # Hotelling t^2: the covariance was estimated from n_cov samples = the smallest N of the fitted points
            from scipy.stats import f as fdist
            allpts = [o for k in (keys if case['combined'] else keys[:1]) for o in ys[k]]
            n_cov = min(o.N for o in allpts)
            if not hasattr(res, 't2_p_value'):
                probs.append(('violation', 't2-p-value-missing', ''))
            elif n_cov - dof > 0:
                ref = float(1 - fdist.cdf((n_cov - dof) / (dof * (n_cov - 1)) * res.chisquare, dof, n_cov - dof))
                if not close(res.t2_p_value, ref, rtol=1e-8, scale=1.0):
                    probs.append(('violation', 't2-p-value', '%r vs %r (n_cov=%d, N of the points %r)' % (res.t2_p_value, ref, n_cov, sorted(set(o.N for o in allpts)))))
        if hasattr(res, 'p_value') and dof > 0:
            from scipy.stats import chi2
            if not close(res.p_value, float(1 - chi2.cdf(res.chisquare, dof)), rtol=1e-8, scale=1.0):
                probs.append(('violation', 'p-value', '%r' % res.p_value))
    return probs


def gen_case(ctx):
    rng = ctx.rng
    npar = rng.randint(1, 4)
    combined = rng.random() < 0.35
    nk = rng.choice([2, 3]) if combined else 1
    b = rng.choice(['poly', 'poly', 'mixed', '2d'])
    case = {'seed': rng.getrandbits(28), 'npar': npar, 'combined': combined, 'keys': ['k%s' % c for c in 'bac'[:nk]], 'basis': b,
            'npts': [rng.randint(npar + 2, npar + 6) for _ in range(nk)], 'ens': sorted(rng.sample(['A', 'B', 'C'], rng.choice([1, 2, 3]))),
            'corr': rng.choice([0.0, 0.5, 1.5]), 'method': rng.choice(['LM', 'LM', 'LM', 'migrad', 'Nelder-Mead', 'Powell']),
            'correlated': rng.random() < 0.3, 'num_grad': rng.random() < 0.2, 'perm': rng.random() < 0.5, 'priors': rng.random() < 0.4}
    if b == '2d' and rng.random() < 0.35:
        # as many data points as abscissa dimensions: x is a square array in the documented (n_dims, n_points) layout
        case['npar'] = npar = rng.choice([1, 1, 2])
        case['npts'] = [2 for _ in range(nk)]
    case['S_data'] = rng.choice([2.0, 2.0, 0.0, 4.0])
    case['guess'] = [None, None, 1.3, 0.6][case['seed'] % 4]
    if case['correlated'] and rng.random() < 0.5:
        case['user_chol'] = 'listed_order' if (combined and rng.random() < 0.5) else 'ok'
    case['via_corr'] = (not combined) and b == 'poly' and rng.random() < 0.4
    case['via_fitlin'] = (not combined) and b == 'poly' and npar == 2
    if case['correlated'] and not combined and not case['via_corr'] and rng.random() < 0.6:
        case['zfac'] = True      # (a Corr holds observables of one ensemble layout only: not together with via_corr)
    case['exp_chisq'] = rng.random() < 0.3
    if case['via_corr']:
        case['ens'] = case['ens'][:1]       # a correlator needs all timeslices on the same chains
    if case['priors']:
        which = sorted(rng.sample(range(npar), rng.randint(1, npar)))
        case.update({'prior_idx': which, 'prior_kind': rng.choice(['str', 'obs']), 'prior_form': rng.choice(['list', 'dict']), 'prior_rev': rng.random() < 0.5})
    if case['method'] in ('Nelder-Mead', 'Powell') and npar > 2:
        case['method'] = 'migrad'
    return case


def run(ctx):
    n = ctx.budget(70, 1500)
    corpus = os.path.join(os.path.dirname(os.path.dirname(os.path.dirname(os.path.abspath(__file__)))), 'corpus', 'C07')
    cases = []
    if os.path.isdir(corpus):
        for fn in sorted(os.listdir(corpus)):
            cases.append(json.load(open(os.path.join(corpus, fn)))['case'])
    for _ in range(n):
        cases.append(gen_case(ctx))
    for case in cases:
        ctx.count('method=' + case['method'])
        ctx.count('npar=%d' % case['npar'])
        for k in ('combined', 'correlated', 'priors', 'num_grad', 'perm'):
            if case[k]:
                ctx.count(k)
        ctx.case(case)
        for (kind, key, info) in check_case(ctx, case):
            (ctx.violation if kind == 'violation' else ctx.disagree)(key, {'case': case, 'info': info})
        if len(ctx.violations) + len(ctx.disagreements) > 15:
            break
