"""C08 - non-linear and total least-squares fits obey the implicit-function rule.

impl   = pe.least_squares (non-linear models) and pe.total_least_squares
oracle = (this file) the documented chi-square coded independently with plain numpy; stationarity of
         the returned point; sensitivities from the implicit-function theorem -H^-1 d(grad)/d(data)
         by finite differences of the independent chi-square (high-order central differences of a
         Newton re-minimisation), applied to the data fluctuations by configuration number;
         TLS with negligible x errors against the ordinary fit.
theorems: PV/Props/C08Alg.lean.
"""
import json
import os
import warnings
from pe_util import np, pe, close, quiet
from props.c01 import Q, combine, compare_q
import autograd.numpy as anp

RULE = ('model families a0*exp(-a1 x), a0*cosh(a1 (x - 5)), a0/(1 + a1 x) (+ a2), a0*exp(-a1 x1) + a2*x2 with 2-4 parameters in '
        'well-conditioned regions, 6-12 data points on independent or shared ensembles, uncorrelated and correlated chi-square, with '
        'and without priors, autograd and num_grad, LM and migrad; total least squares with x observables. non-trivial = distinct case.')
TRUSTED = ['scipy least_squares / minimize / ODR, iminuit (contract: stationary point, gradient norm measured)', 'autograd / numdifftools Hessians']
ASSUMPTIONS = ['sensitivities compared at 2e-4 relative to the parameter error (finite-difference oracle)']

MODELS = {
    'exp': (lambda a, x: a[0] * anp.exp(-a[1] * x), lambda a, x: a[0] * np.exp(-a[1] * x), [2.0, 0.4]),
    'cosh': (lambda a, x: a[0] * anp.cosh(a[1] * (x - 2.0)), lambda a, x: a[0] * np.cosh(a[1] * (x - 2.0)), [1.0, 0.5]),
    'rat': (lambda a, x: a[0] / (1 + a[1] * x) + a[2], lambda a, x: a[0] / (1 + a[1] * x) + a[2], [2.0, 0.7, 0.3]),
    'exp2': (lambda a, x: a[0] * anp.exp(-a[1] * x) + a[2] * anp.exp(-a[3] * x), lambda a, x: a[0] * np.exp(-a[1] * x) + a[2] * np.exp(-a[3] * x), [2.0, 0.3, 1.0, 1.5]),
}


def make(case):
    rng = __import__('random').Random(case['seed'])
    nprng = np.random.default_rng(case['seed'])
    af, nf, truth = MODELS[case['model']]
    npts = case['npts']
    x = np.linspace(0.3, 4.0, npts)
    if case.get('xint') and case.get('kind') == 'tls' and case.get('xdim', 1) == 1:
        x[0] = 1.0          # an abscissa that is known as an integer (handed over as `cov_Obs(1, ...)`); the order of the points is immaterial
    yv = nf(np.array(truth), x)
    k_int = None
    if case.get('yint') and case.get('kind') == 'ls':
        # the first data point is an external input given with an integer mean (`cov_Obs(3, ...)`, central value a Python int);
        # the amplitudes of the model are rescaled so that the data stay consistent with the model
        k_int = max(1, int(round(float(yv[0]))))
        s_ = k_int / float(yv[0])
        amp = {'exp': [0], 'cosh': [0], 'rat': [0, 2], 'exp2': [0, 2]}[case['model']]
        truth = [t * s_ if i in amp else t for i, t in enumerate(truth)]
        yv = nf(np.array(truth), x)
    ysc = 1.0
    if case.get('yscale2') and case.get('kind') == 'ls' and k_int is None:
        # data of small / large overall size (correlators in lattice units, quantities in MeV): amplitudes rescaled
        ysc = 10.0 ** case['yscale2']
        amp = {'exp': [0], 'cosh': [0], 'rat': [0, 2], 'exp2': [0, 2]}[case['model']]
        truth = [t * ysc if i in amp else t for i, t in enumerate(truth)]
        yv = nf(np.array(truth), x)
    n = 60
    common = nprng.normal(size=n)
    ys = []
    for p in range(npts):
        ens = 'E%d' % (p % case['nens'])
        sig = 0.01 * abs(yv[p]) * (1 + 0.3 * (p % 3)) + 1e-3 * ysc
        smp = yv[p] + sig * (case['corr'] * common + nprng.normal(size=n)) / np.sqrt(1 + case['corr'] ** 2)
        o_ = pe.Obs([smp], [ens + '|r1'])
        if case.get('zfac') and case.get('kind') == 'ls':
            # every point on its own ensemble times one common factor of central value exactly 1 on a further ensemble:
            # the name lists of the points differ pairwise but overlap, the points are correlated through the factor
            if p == 0:
                zs_ = nprng.normal(size=n)
                case_z = pe.Obs([1.0 + 0.02 * (zs_ - np.mean(zs_))], ['Zens|r1'])
                make._z = case_z
            o_ = pe.Obs([smp], ['P%d|r1' % p]) * make._z
        ys.append(o_)
    if k_int is not None:
        ys[0] = pe.cov_Obs(k_int, (0.01 * k_int) ** 2, 'YI')
    return x, ys, af, nf, truth


def ift_solve(ctx, H, M):
    """X with H X + M = 0: by the Lean model (exact rational arithmetic, every column checked) when the driver
    is available, else by LAPACK"""
    X = -np.linalg.solve(H, M)
    if ctx is not None and ctx.lean is not None:
        from fractions import Fraction
        from pe_util import q2j
        rr = ctx.lean.call({'op': 'ift', 'H': [[q2j(float(v)) for v in row] for row in np.asarray(H)], 'M': [[q2j(float(v)) for v in row] for row in np.asarray(M)]})
        if '_err' not in rr and 'exc' not in rr:
            XL = np.array([[float(Fraction(a_, b_)) for a_, b_ in row] for row in rr['X']])
            ctx.residual('lapack_vs_exact_ift', float(np.max(np.abs(XL - X)) / max(np.max(np.abs(XL)), 1e-300)))
            ctx.count('exact-ift')
            return XL
    return X


def newton_min(chi, p0, iters=60):
    """minimise an independent chi-square by damped Newton with finite-difference derivatives"""
    p = np.array(p0, dtype=float)
    n = len(p)
    h = 1e-5
    for _ in range(iters):
        g = np.zeros(n)
        H = np.zeros((n, n))
        f0 = chi(p)
        for i in range(n):
            ei = np.zeros(n)
            ei[i] = h * max(1.0, abs(p[i]))
            g[i] = (chi(p + ei) - chi(p - ei)) / (2 * ei[i])
            for j in range(i, n):
                ej = np.zeros(n)
                ej[j] = h * max(1.0, abs(p[j]))
                H[i, j] = H[j, i] = (chi(p + ei + ej) - chi(p + ei - ej) - chi(p - ei + ej) + chi(p - ei - ej)) / (4 * ei[i] * ej[j])
        try:
            step = np.linalg.solve(H, g)
        except np.linalg.LinAlgError:
            break
        p = p - step
        if np.max(np.abs(step)) < 1e-13 * max(1.0, np.max(np.abs(p))):
            break
    return p



def cmp_prior_aware(res_obs, q, rtol):
    """string priors become covariance inputs named '#prior<i>_<random digits>': give the oracle's inputs that name"""
    ren = {}
    for cn in res_obs.covobs:
        if cn.startswith('#prior'):
            ren['prior' + cn[len('#prior'):].split('_')[0]] = cn
    if ren:
        q.cov = {ren.get(k, k): v for k, v in q.cov.items()}
    return compare_q(res_obs, q, rtol=rtol)


def check_combined_userchol(ctx, case):
    """a combined non-linear fit with a user-supplied inverse covariance `[L, keys]`: the matrix is labelled by `keys`; a key list
    in another than the library's (alphabetical) order is either refused or honoured - the returned parameters must be a stationary
    point of the chi-square built from the matrix AS LABELLED"""
    import autograd
    from scipy.linalg import solve_triangular
    probs = []
    nprng = np.random.default_rng(case['seed'])
    truth = [2.0, 0.4, 0.9]
    fa = lambda a, x: a[0] * anp.exp(-a[1] * x)  # noqa: E731
    fb = lambda a, x: a[2] * anp.exp(-a[1] * x)  # noqa: E731
    na, nb = case['na'], case['nb']
    xs = {'a': np.linspace(0.3, 3.0, na), 'b': np.linspace(0.5, 2.5, nb)}
    fs = {'a': fa, 'b': fb}
    common = nprng.normal(size=80)
    ys = {}
    for k in ('a', 'b'):
        yv = fs[k](truth, xs[k])
        ys[k] = [pe.Obs([yv[i] + 0.01 * (1 + i % 3) * abs(yv[i]) * (0.6 * common + nprng.normal(size=80))], ['E|r1']) for i in range(len(xs[k]))]
        [o.gamma_method() for o in ys[k]]
    listed = case['listed']                    # order in which the user labels the blocks of his matrix
    pts = [o for k in listed for o in ys[k]]
    n = len(pts)
    B_ = nprng.normal(size=(n, n))
    C_ = B_ @ B_.T + n * np.eye(n)
    dd = np.sqrt(np.diag(C_))
    corr = C_ / np.outer(dd, dd)
    dy = np.array([o.dvalue for o in pts]) * nprng.uniform(0.7, 1.5, size=n)
    L_ = solve_triangular(np.linalg.cholesky(corr), np.diag(1 / dy), lower=True)
    order = ['a', 'b'] if case['dict_order'] else ['b', 'a']
    ctx.count('combined-userchol:' + ''.join(listed))
    with warnings.catch_warnings(), quiet():
        warnings.simplefilter('ignore')
        try:
            res = pe.least_squares({k: xs[k] for k in order}, {k: ys[k] for k in order}, {k: fs[k] for k in order}, silent=True, correlated_fit=True,
                                   inv_chol_cov_matrix=[L_, list(listed)], initial_guess=[t * 1.03 for t in truth])
        except Exception as e:
            if listed != ['a', 'b']:
                ctx.count('combined-userchol:refused')
                return probs                      # refusing a key list in another order is fine
            return [('violation', 'fit-exception', '%s: %s' % (type(e).__name__, str(e)[:160]))]
    yv = np.concatenate([[o.value for o in ys[k]] for k in listed])

    def chi(p):
        f_ = anp.concatenate([fs[k](p, xs[k]) for k in listed])
        r = anp.dot(L_, yv - f_)
        return anp.sum(r ** 2)
    phat = np.array([p.value for p in res.fit_parameters])
    g = autograd.grad(chi)(phat)
    H = autograd.hessian(chi)(phat)
    step = np.linalg.solve(H, g)
    [p.gamma_method() for p in res.fit_parameters]
    perr = np.array([max(p.dvalue, 1e-12) for p in res.fit_parameters])
    if np.max(np.abs(step) / perr) > 1e-3:
        probs.append(('violation', 'not-stationary', 'combined fit with the user matrix labelled %r: Newton step %r in units of the errors' % (listed, (step / perr).tolist())))
    return probs


def check_tls_slow(ctx, case):
    """total least squares from starts far from the minimum (y = a0 exp(-a1 x) + a2 with errors on x and y): the
    orthogonal-distance search may stop at its iteration limit - then the fit is refused; whatever is returned is the minimum"""
    probs = []
    nprng = np.random.default_rng(case['seed'])
    p_true = [2.0, 0.3, 0.5]
    xs = np.arange(1, 11, dtype=float)
    dx = np.full(len(xs), 0.02 * xs.mean())

    def nf(p, x):
        return p[0] * np.exp(-p[1] * x) + p[2]

    def af(a, x):
        return a[0] * anp.exp(-a[1] * x) + a[2]
    dy = 0.02 * nf(p_true, xs)
    xv = xs + nprng.normal(0, 1, len(xs)) * dx
    yv = nf(p_true, xs) + nprng.normal(0, 1, len(xs)) * dy
    with warnings.catch_warnings(), quiet():
        warnings.simplefilter('ignore')
        ox = [pe.pseudo_Obs(xv[i], dx[i], 'x%d' % i) for i in range(len(xs))]
        oy = [pe.pseudo_Obs(yv[i], dy[i], 'y%d' % i) for i in range(len(xs))]

        def chi2(fit):
            # the documented orthogonal-distance chi-square, profiled over the x shifts by a dense re-minimisation
            from scipy.optimize import minimize
            p = np.array([q.value for q in fit.fit_parameters])
            r = minimize(lambda xh: np.sum(((yv - nf(p, xh)) / dy) ** 2) + np.sum(((xv - xh) / dx) ** 2), xv, method='BFGS')
            return float(r.fun)
        try:
            ref = pe.total_least_squares(ox, oy, af, silent=True, initial_guess=[2.0, 0.3, 0.5])
        except Exception as e:
            return [('violation', 'tls-exception', 'control fit from the true parameters: %r' % (e,))]
        c_ref = chi2(ref)
        for g in ([0.1, 1.0, 1.0], [0.05, 2.0, 1.0], [0.1, 0.5, 3.0], [0.3, 1.5, 0.0], [0.1, 1.0, 0.1]):
            try:
                fit = pe.total_least_squares(ox, oy, af, silent=True, initial_guess=g)
            except Exception:
                ctx.count('tls-slow:refused')
                continue
            ctx.count('tls-slow:returned')
            c = chi2(fit)
            if not c <= c_ref * (1 + 1e-4) + 1e-6:
                probs.append(('violation', 'tls-not-stationary', 'start %r: returned %r with chi-square %r, the minimum is %r' % (
                    g, [float(q.value) for q in fit.fit_parameters], c, c_ref)))
                break
    return probs


def check_case(ctx, case):
    probs = []
    if case.get('kind') == 'combined_userchol':
        return check_combined_userchol(ctx, case)
    if case.get('kind') == 'tls_slow':
        return check_tls_slow(ctx, case)
    with warnings.catch_warnings(), quiet():
        warnings.simplefilter('ignore')
        x, ys, af, nf, truth = make(case)
        [o.gamma_method() for o in ys]
        yv = np.array([o.value for o in ys])
        dy = np.array([o.dvalue for o in ys])
        kw = {'silent': True, 'initial_guess': [t * 1.05 for t in truth]}
        if case['method'] == 'migrad':
            kw['method'] = 'migrad'
            kw['tol'] = 1e-10
        if case['correlated']:
            kw['correlated_fit'] = [True, np.True_, 1, True][(case['seed'] // 7) % 4]      # python bool, numpy bool, int
        if case['num_grad']:
            kw['num_grad'] = True
        priors = {}
        if case['prior']:
            i = case['prior_i'] % len(truth)
            pk = case.get('prior_kind', 'obs')
            if pk == 'obs':
                po = pe.cov_Obs(truth[i] * 1.02, (0.1 * abs(truth[i])) ** 2, 'prior%d' % i)
                po.gamma_method()
                kw['priors'] = {i: po}
            else:
                # the documented string forms 'value(error)': error in units of the last digit, or with its own decimal point
                from props.c07 import parse_prior
                v_, e_ = truth[i] * 1.02, 0.1 * abs(truth[i])
                txt = ('%.2f(%.2f)' % (v_, max(e_, 0.01))) if pk == 'str_dec' else ('%.3f(%d)' % (v_, max(1, int(round(e_ * 1000)))))
                v2, e2 = parse_prior(txt)
                po = pe.cov_Obs(v2, e2 ** 2, 'prior%d' % i)
                po.gamma_method()
                kw['priors'] = {i: txt}
            priors[i] = po
        if case['kind'] == 'ls':
            try:
                res = pe.least_squares(x, ys, af, **kw)
            except Exception as e:
                probs.append(('violation', 'fit-exception', '%s: %s' % (type(e).__name__, str(e)[:200])))
                return probs
            if case['correlated']:
                corr = pe.covariance(ys, correlation=True)
                W = np.linalg.inv(np.diag(dy) @ corr @ np.diag(dy))
            else:
                W = np.diag(1 / dy ** 2)
            pri = [(i, o.value, o.dvalue) for i, o in priors.items()]

            def chi(p, y=None, pv=None):
                y = yv if y is None else y
                r = y - nf(p, x)
                c = r @ W @ r
                for k, (i, v, d) in enumerate(pri):
                    vv = v if pv is None else pv[k]
                    c += ((p[i] - vv) / d) ** 2
                return c
            phat = np.array([p.value for p in res.fit_parameters])
            [p.gamma_method() for p in res.fit_parameters]
            perr = np.array([max(p.dvalue, 1e-12) for p in res.fit_parameters])
            # stationarity: an independent Newton re-minimisation must not move the point
            pstar = newton_min(chi, phat)
            ctx.residual('stationarity_in_sigma', float(np.max(np.abs(pstar - phat) / perr)))
            if np.max(np.abs(pstar - phat) / perr) > 1e-4:
                probs.append(('violation', 'not-stationary', 'returned %r, stationary point of the documented chi-square %r (errors %r)' % (phat, pstar, perr)))
                return probs
            if not close(res.chisquare, chi(phat), rtol=1e-7, scale=max(chi(phat), 1e-6)):
                probs.append(('violation', 'chisquare', '%r vs %r' % (res.chisquare, chi(phat))))
            # the rule itself: -H^-1 d(grad chi2)/d(data) of the independently coded chi-square at the returned
            # point (derivatives by autograd, the linear solve by the Lean model in exact arithmetic), applied to the
            # data fluctuations by configuration number
            import autograd

            def chi_ad(p, dat):
                r = dat[:len(yv)] - af(p, x)
                c = anp.dot(r, anp.dot(W, r))
                for k, (i_, v_, d_) in enumerate(pri):
                    c = c + ((p[i_] - dat[len(yv) + k]) / d_) ** 2
                return c
            dat0 = np.concatenate([yv, [z[1] for z in pri]])
            Hh = autograd.hessian(chi_ad, 0)(phat, dat0)
            Mh = autograd.jacobian(autograd.grad(chi_ad, 0), 1)(phat, dat0)
            Sx = ift_solve(ctx, Hh, Mh)
            qs0 = [Q.of(o) for o in ys] + [Q.of(o) for o in priors.values()]
            for a in range(len(phat)):
                qa = combine(lambda v, a=a: float(phat[a]), list(Sx[a]), qs0)
                da = cmp_prior_aware(res.fit_parameters[a], qa, 1e-6)
                da = [z for z in da if not z.startswith('value') and not z.startswith('r_value')]
                if da:
                    probs.append(('violation', 'implicit-function-fluctuations', ['parameter %d (rule evaluated at the returned point)' % a] + da[:3]))
                    return probs
            # its consequence: sensitivities dp/dy_i (and dp/dprior) by shifting one datum and re-minimising
            def sens(rel):
                S = np.zeros((len(phat), len(yv) + len(pri)))
                for i in range(len(yv)):
                    h = rel * dy[i]
                    yp, ym = yv.copy(), yv.copy()
                    yp[i] += h
                    ym[i] -= h
                    S[:, i] = (newton_min(lambda p: chi(p, yp), pstar) - newton_min(lambda p: chi(p, ym), pstar)) / (2 * h)
                for k in range(len(pri)):
                    h = rel * pri[k][2]
                    pvp = [v for _, v, _ in pri]
                    pvm = list(pvp)
                    pvp[k] += h
                    pvm[k] -= h
                    S[:, len(yv) + k] = (newton_min(lambda p: chi(p, None, pvp), pstar) - newton_min(lambda p: chi(p, None, pvm), pstar)) / (2 * h)
                return S
            S = sens(1e-4)
            qs = [Q.of(o) for o in ys] + [Q.of(o) for o in priors.values()]
            for a in range(len(phat)):
                q = combine(lambda v, a=a: float(phat[a]), list(S[a]), qs)
                d = cmp_prior_aware(res.fit_parameters[a], q, 3e-4)
                d = [z for z in d if not z.startswith('value') and not z.startswith('r_value')]
                if d:
                    # the finite-difference oracle must be stable under a change of its own step before it may accuse
                    S2 = sens(5e-4)
                    sc_ = np.sqrt(np.sum((S * np.concatenate([dy, [z[2] for z in pri]])) ** 2, axis=1))
                    inst = float(np.max(np.abs(S - S2) * np.concatenate([dy, [z[2] for z in pri]]) / sc_[:, None]))
                    ctx.residual('oracle_step_instability', inst)
                    if inst > 5e-5:
                        ctx.count('oracle-ill-conditioned')
                        break
                    # the rule is stated at the returned point; the minimiser stops within its tolerance of the
                    # stationary point, and close to a flat direction the sensitivities move by more than that.
                    # -H^-1 d(grad)/d(data) of the independent chi-square at the returned point decides.
                    import autograd
                    npri = len(pri)
                    pd = np.array([z[2] for z in pri])

                    def chi_a(p, dat):
                        r = dat[:len(yv)] - af(p, x)
                        c = anp.dot(r, anp.dot(W, r))
                        for k, (i_, v_, d_) in enumerate(pri):
                            c = c + ((p[i_] - dat[len(yv) + k]) / d_) ** 2
                        return c
                    dat0 = np.concatenate([yv, [z[1] for z in pri]])
                    H = autograd.hessian(chi_a, 0)(phat, dat0)
                    M = autograd.jacobian(autograd.grad(chi_a, 0), 1)(phat, dat0)
                    Sa = ift_solve(ctx, H, M)
                    qa = combine(lambda v, a=a: float(phat[a]), list(Sa[a]), qs)
                    da = cmp_prior_aware(res.fit_parameters[a], qa, 1e-6)
                    da = [z for z in da if not z.startswith('value') and not z.startswith('r_value')]
                    if not da:
                        ctx.count('minimiser-tolerance-amplified')
                        break
                    probs.append(('violation', 'implicit-function-fluctuations', ['parameter %d' % a] + d[:3]))
                    break
        else:
            # total least squares: x as observables with small or sizeable errors
            nprng = np.random.default_rng(case['seed'] + 1)
            sx = case['sx']
            if case.get('xdim', 1) == 2:
                # two abscissa coordinates per point, both with errors: x has shape (2, N)
                truth = [2.0, 0.4, 0.7]
                af = lambda a, x: a[0] * anp.exp(-a[1] * x[0]) + a[2] * x[0] * x[1]  # noqa: E731
                nf = lambda a, x: a[0] * np.exp(-a[1] * x[0]) + a[2] * x[0] * x[1]  # noqa: E731
                x = np.array([x, nprng.uniform(0.5, 2.0, size=len(x))])
                yv0 = nf(np.array(truth), x)
                ys = [pe.Obs([yv0[i] + (0.01 * abs(yv0[i]) + 1e-3) * nprng.normal(size=60)], ['E%d|r1' % (i % max(case['nens'], 1))]) for i in range(x.shape[1])]
                [o.gamma_method() for o in ys]
                yv = np.array([o.value for o in ys])
                dy = np.array([o.dvalue for o in ys])
                xs = [[pe.Obs([x[c][i] + max(sx, 0.01) * nprng.normal(size=60)], ['X%d_%d|r1' % (c, i)]) for i in range(x.shape[1])] for c in range(2)]
                [o.gamma_method() for row in xs for o in row]
                sx = max(sx, 0.01)
                xflat = [o for row in xs for o in row]
            else:
                xs = [pe.Obs([xi + sx * nprng.normal(size=60)], ['X%d|r1' % i]) for i, xi in enumerate(x)]
                if case.get('xint'):
                    # an abscissa known as an external input with an integer mean (`cov_Obs(2, ...)`): its central value is a Python int
                    xs[0] = pe.cov_Obs(1, sx ** 2, 'XI')
                [o.gamma_method() for o in xs]
                xflat = list(xs)
            far_ = bool(case.get('far_guess')) and sx > 1e-7 and case.get('xdim', 1) == 1
            try:
                # 'far_guess': a start so far from the minimum that the orthogonal-distance search may run into its iteration
                # limit - then the fit is refused; whatever is RETURNED has to be a stationary point
                g0_ = [1e-3, 5.0, 1.0, 1.0][:len(truth)] if far_ else [t * 1.05 for t in truth]
                rt = pe.total_least_squares(xs, ys, af, silent=True, initial_guess=g0_)
            except Exception as e:
                if not far_:
                    probs.append(('violation', 'tls-exception', '%s: %s' % (type(e).__name__, str(e)[:200])))
                    return probs
            if far_:
                # further starts: every one is either refused or ends in a stationary point
                xv_f = np.array([o.value for o in xs])
                dx_f = np.array([o.dvalue for o in xs])

                def chi2_f(z, npar=len(truth)):
                    p, xh = z[:npar], z[npar:]
                    return np.sum(((yv - nf(p, xh)) / dy) ** 2) + np.sum(((xv_f - xh) / dx_f) ** 2)
                for g_ in ([1e-3, 5.0, 1.0, 1.0], [0.1, 1.0, 1.0, 1.0], [0.01, 0.01, 0.01, 0.01], [1e3, 1e-3, 1.0, 1.0], [5.0, 5.0, 5.0, 5.0], [0.1, 3.0, 0.1, 1.0]):
                    try:
                        rf = pe.total_least_squares(xs, ys, af, silent=True, initial_guess=g_[:len(truth)])
                    except Exception:
                        ctx.count('tls-far-guess:refused')
                        continue
                    ctx.count('tls-far-guess:returned')
                    [p.gamma_method() for p in rf.fit_parameters]
                    z0f = np.concatenate([[p.value for p in rf.fit_parameters], xv_f])
                    try:
                        zsf = newton_min(chi2_f, z0f, iters=80)
                        devf = np.abs(zsf[:len(truth)] - z0f[:len(truth)]) / np.array([max(p.dvalue, 1e-12) for p in rf.fit_parameters])
                        bad_ = not np.all(np.isfinite(devf)) or np.max(devf) > 1e-3
                    except Exception:
                        bad_ = True
                    if bad_ and chi2_f(z0f) > 10.0 * max(1.0, chi2_f(np.concatenate([truth, xv_f]))):
                        probs.append(('violation', 'tls-not-stationary', 'start %r: returned %r with chi-square %r (at the true parameters: %r)' % (
                            g_[:len(truth)], z0f[:len(truth)], float(chi2_f(z0f)), float(chi2_f(np.concatenate([truth, xv_f]))))))
                        return probs
                return probs
            [p.gamma_method() for p in rt.fit_parameters]
            if sx > 1e-7 and not far_:
                # sensitivities: implicit-function theorem applied to the stationarity of the documented chi-square
                # in (p, xhat), with respect to the y AND the x data, at the stationary point
                import autograd
                xv_ = np.array([o.value for o in xflat])
                dx_ = np.array([o.dvalue for o in xflat])
                npar_ = len(truth)
                shp = np.shape(x)

                def chi_t(z, dat):
                    p_, xh = z[:npar_], z[npar_:]
                    r = (dat[:len(yv)] - af(p_, anp.reshape(xh, shp))) / dy
                    return anp.sum(r ** 2) + anp.sum(((dat[len(yv):] - xh) / dx_) ** 2)
                dat0 = np.concatenate([yv, xv_])
                z = np.concatenate([[q_.value for q_ in rt.fit_parameters], xv_])
                for _ in range(30):
                    g_ = autograd.grad(chi_t, 0)(z, dat0)
                    H_ = autograd.hessian(chi_t, 0)(z, dat0)
                    st = np.linalg.solve(H_, g_)
                    z = z - st
                    if np.max(np.abs(st)) < 1e-14 * max(1.0, np.max(np.abs(z))):
                        break
                H_ = autograd.hessian(chi_t, 0)(z, dat0)
                M_ = autograd.jacobian(autograd.grad(chi_t, 0), 1)(z, dat0)
                St = ift_solve(ctx, H_, M_)
                qs_t = [Q.of(o) for o in ys] + [Q.of(o) for o in xflat]
                for a in range(npar_):
                    qa = combine(lambda v, a=a: float(z[a]), list(St[a]), qs_t)
                    dd = compare_q(rt.fit_parameters[a], qa, rtol=2e-5)
                    dd = [w_ for w_ in dd if not w_.startswith('value') and not w_.startswith('r_value')]
                    if dd:
                        probs.append(('violation', 'tls-implicit-function-fluctuations', ['parameter %d' % a] + dd[:3]))
                        break
            if case.get('xdim', 1) == 2:
                return probs
            if sx <= 1e-7:
                ro = pe.least_squares(np.array([o.value for o in xs]), ys, af, silent=True, initial_guess=[t * 1.05 for t in truth])
                [p.gamma_method() for p in ro.fit_parameters]
                for a in range(len(truth)):
                    pa, pb = rt.fit_parameters[a], ro.fit_parameters[a]
                    if abs(pa.value - pb.value) > 1e-4 * pb.dvalue or abs(pa.dvalue - pb.dvalue) > 1e-3 * pb.dvalue:
                        probs.append(('violation', 'tls-limit', 'parameter %d: TLS %r(%r) vs ordinary %r(%r)' % (a, pa.value, pa.dvalue, pb.value, pb.dvalue)))
                        break
            else:
                # stationarity of the documented ODR chi-square in (p, xhat)
                xv = np.array([o.value for o in xs])
                dx = np.array([o.dvalue for o in xs])
                npar = len(truth)

                def chi2(z):
                    p, xh = z[:npar], z[npar:]
                    return np.sum(((yv - nf(p, xh)) / dy) ** 2) + np.sum(((xv - xh) / dx) ** 2)
                z0 = np.concatenate([[p.value for p in rt.fit_parameters], xv])
                zs = newton_min(chi2, z0, iters=80)
                perr = np.array([max(p.dvalue, 1e-12) for p in rt.fit_parameters])
                dev = np.abs(zs[:npar] - z0[:npar]) / perr
                ctx.residual('tls_stationarity_in_sigma', float(np.max(dev)))
                if np.max(dev) > 1e-3:
                    probs.append(('violation', 'tls-not-stationary', 'returned %r vs stationary %r' % (z0[:npar], zs[:npar])))
    return probs


def gen_case(ctx):
    rng = ctx.rng
    if rng.random() < 0.12:
        return {'kind': 'combined_userchol', 'seed': rng.getrandbits(28), 'na': rng.randint(4, 7), 'nb': rng.randint(3, 6), 'listed': rng.choice([['a', 'b'], ['b', 'a'], ['b', 'a']]),
                'dict_order': rng.random() < 0.5, 'model': 'exp', 'correlated': True, 'num_grad': False, 'prior': False}
    if rng.random() < 0.07:
        return {'kind': 'tls_slow', 'seed': rng.getrandbits(28), 'model': 'expc', 'correlated': False, 'num_grad': False, 'prior': False}
    model = rng.choice(['exp', 'cosh', 'rat', 'exp2', 'exp', 'cosh'])
    kind = rng.choice(['ls', 'ls', 'tls'])
    case = {'seed': rng.getrandbits(28), 'model': model, 'kind': kind, 'npts': rng.randint(7, 11), 'nens': rng.choice([1, 3, 12]),
            'corr': rng.choice([0.0, 0.0, 1.0]), 'method': rng.choice(['LM', 'LM', 'migrad']), 'correlated': rng.random() < 0.3,
            'num_grad': rng.random() < 0.25, 'prior': rng.random() < 0.35, 'prior_i': rng.randrange(4), 'prior_kind': rng.choice(['obs', 'obs', 'str_dec', 'str_dig']), 'sx': rng.choice([1e-9, 1e-9, 0.01, 0.03])}
    if case['nens'] == 12:
        case['nens'] = case['npts']
    if kind == 'tls' and model == 'exp2':
        case['model'] = 'exp'
    case['xint'] = kind == 'tls' and rng.random() < 0.3
    case['yint'] = kind == 'ls' and not case['correlated'] and rng.random() < 0.25
    # (not together with num_grad: the step sizes of numdifftools are absolute, its Hessian is taken on contract at scale 1)
    if kind == 'ls' and case['correlated'] and not case['yint'] and rng.random() < 0.4:
        case['zfac'] = True
    if kind == 'ls' and not case['yint'] and not case['num_grad'] and rng.random() < 0.35:
        case['yscale2'] = rng.choice([-10, -12, 7])
    if kind == 'tls' and rng.random() < 0.35:
        case['xdim'] = 2
    elif kind == 'tls' and case['sx'] > 1e-7 and not case['xint'] and rng.random() < 0.7:
        case['far_guess'] = True
    if case['correlated'] and rng.random() < 0.6:
        case['prior'] = True          # priors inside the correlated chi-square, on any parameter index
    if case['correlated'] and case['nens'] != 1:
        case['nens'] = 1
        case['corr'] = 1.0
    return case


def run(ctx):
    n = ctx.budget(60, 600)
    corpus = os.path.join(os.path.dirname(os.path.dirname(os.path.dirname(os.path.abspath(__file__)))), 'corpus', 'C08')
    cases = []
    if os.path.isdir(corpus):
        for fn in sorted(os.listdir(corpus)):
            cases.append(json.load(open(os.path.join(corpus, fn)))['case'])
    for _ in range(n):
        cases.append(gen_case(ctx))
    for case in cases:
        ctx.count('model=' + case['model'])
        ctx.count('kind=' + case['kind'])
        for k in ('correlated', 'num_grad', 'prior'):
            if case[k]:
                ctx.count(k)
        ctx.case(case)
        for (kind, key, info) in check_case(ctx, case):
            (ctx.violation if kind == 'violation' else ctx.disagree)(key, {'case': case, 'info': info})
        if len(ctx.violations) + len(ctx.disagreements) > 12:
            break
