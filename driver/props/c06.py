"""C06 - covariance and correlation matrices are consistent with the individual errors.

impl   = pe.covariance, pe.obs.invert_corr_cov_cholesky, pe.obs.sort_corr, pe.obs._smooth_eigenvalues,
         pe.fits.error_band
model  = PV.Model.Cov.covarianceMatrix (op "cov", run at Float)
oracle = the statement (this file): symmetry, diagonal = squared errors, unit diagonal, entries in
         [-1,1], disjoint => 0, permutation equivariance, Pearson correlation on common
         configurations of single chains, PSD for identical configurations, J1 Sigma J2^T,
         helpers (Cholesky inverse, sort_corr permutation, smoothing trace, error band).
theorems: PV/Props/C06.lean (Cauchy-Schwarz over replicas, Gram PSD, permutation conjugation, trace
         under orthogonal conjugation, Cholesky inverse identity, error band quadratic form).
"""
import itertools
import json
import os
import warnings
from pe_util import np, pe, gen_idl, gen_data, dump_obs, close, f2b, b2f, quiet

RULE = ('lists of 2-8 analysed observables on 1-3 ensembles and replica sets with identical / nested / partly overlapping idl, with '
        'and without shared covariance inputs, replicas whose variance is split unevenly between two strongly correlated observables, '
        'every list order, correlation True/False, admissible smoothing parameters. non-trivial = distinct case.')
TRUSTED = ['LAPACK eigh / cholesky / solve_triangular / cond (contracts measured: reconstruction residuals)']
ASSUMPTIONS = ['comparison tolerance 1e-9; PSD up to -1e-10 of the largest eigenvalue']


def gen_list(case):
    rng = __import__('random').Random(case['seed'])
    nprng = np.random.default_rng(case['seed'])
    k = case['n']
    layout = {}
    for e in case['ens']:
        nrep = rng.choice([1, 2, 3])
        for r in range(nrep):
            layout['%s|r%d' % (e, r + 1)] = list(gen_idl(rng, rng.randint(10, 30), rng.choice(['contig', 'strided', 'irregular', 'deceptive', 'deceptive'])))
    base = {n: nprng.normal(size=len(il)) for n, il in layout.items()}
    grid = {}
    cov = None
    if case.get('cov'):
        cov = pe.cov_Obs([0.3, 0.6], [[0.04, 0.01], [0.01, 0.09]], 'cvX')
    obs = []
    for i in range(k):
        o = None
        enss = [e for e in case['ens'] if rng.random() < 0.7] or [rng.choice(case['ens'])]
        if case['mode'] in ('single', 'strides', 'touch'):
            enss = [case['ens'][0]]
        for e in enss:
            names = [n for n in layout if n.startswith(e + '|')]
            if case['mode'] in ('single', 'strides', 'touch'):
                names = names[:1] if case['mode'] in ('single', 'touch') or rng.random() < 0.6 else names[:2]
            samples, idl = [], []
            obs_stride = rng.choice([1, 2, 3, 4, 5, 6, 7])
            for n in names:
                il = layout[n]
                if case['mode'] == 'strides':
                    # every observable on its own regular sub-grid of the chain: strides that do not divide each
                    # other and starts that are not aligned, so that the common configurations are found only
                    # by intersecting by configuration number
                    if n not in grid:
                        grid[n] = (rng.randint(1, 9), rng.randint(150, 260))
                        base[n] = nprng.normal(size=grid[n][1])
                        layout[n] = list(range(grid[n][0], grid[n][0] + grid[n][1]))
                    g0, glen = grid[n]
                    st = obs_stride
                    a = g0 + rng.randint(0, 12)
                    b = g0 + glen - rng.randint(0, 12)
                    il = range(a, b, st)
                    if rng.random() < 0.3:
                        il = list(il)
                        if len(il) > 8 and rng.random() < 0.5:
                            del il[rng.randrange(1, len(il) - 1)]
                if case['mode'] == 'touch':
                    # two stretches of the chain that share exactly ONE configuration (or two): the smallest non-empty overlap
                    h_ = len(il) // 2
                    il = il[:h_ + 1 + (case['seed'] % 2)] if i % 2 == 0 else il[h_:]
                    if len(il) < 5:
                        il = layout[n]
                if case['mode'] == 'nested':
                    il = il[:rng.randint(max(5, len(il) // 2), len(il))]
                elif case['mode'] == 'overlap':
                    il = sorted(rng.sample(il, max(6, len(il) - rng.randint(0, 5))))
                pos = [layout[n].index(c) for c in il]
                # correlated with the common base signal, with replica-dependent strength
                w = rng.choice([0.0, 0.5, 2.0, 5.0]) if case.get('uneven') else 1.0
                sc2 = 2.0 ** case.get('scale2', 0)     # overall size of the fluctuations: correlations do not depend on it
                x = ((1.0 + w * (n.endswith('r2'))) * base[n][pos] * rng.choice([1.0, -1.0, 0.5]) + 0.3 * nprng.normal(size=len(il))) * sc2 + i
                if case.get('identical') and i > 0 and rng.random() < 0.3:
                    x = base[n][pos] * 2.0 * sc2 + i
                samples.append(x)
                idl.append(il)
            b = pe.Obs(samples, names, idl=idl)
            o = b if o is None else o + b
        if cov and rng.random() < 0.6:
            o = o + (i + 1) * 0.1 * cov[0] - 0.05 * cov[1]
        obs.append(o)
    if case.get('disjoint'):
        obs.append(pe.Obs([nprng.normal(size=12)], ['Z|r1']))
    for o in obs:
        o.gamma_method(S=case['S'])
    return obs


def check_case(ctx, case):
    probs = []
    with warnings.catch_warnings(), quiet():
        warnings.simplefilter('ignore')
        try:
            obs = gen_list(case)
        except Exception as e:
            ctx.count('generator-exception')
            return probs
        n = len(obs)
        try:
            # the switch as users hand it over: a python bool, a numpy bool (result of a comparison), an int
            flag = [True, np.True_, 1, np.bool_(True)][case['seed'] % 4]
            cov = pe.covariance(obs, **({'correlation': [False, np.False_, 0][case['seed'] % 3]} if case['seed'] % 5 == 0 else {}))
            cor = pe.covariance(obs, correlation=flag)
        except Exception as e:
            probs.append(('violation', 'covariance-exception', repr(e)[:200]))
            return probs
        dv = np.array([o.dvalue for o in obs])
        if np.any(dv == 0):
            return probs
        if not (np.all(np.isfinite(cov)) and np.all(np.isfinite(cor))) and np.all(np.isfinite(dv)):
            probs.append(('violation', 'covariance-not-finite', 'errors %r finite, matrix %r' % (dv[:3], np.asarray(cor)[:2, :2].tolist())))
            return probs
        sc = np.outer(dv, dv)
        if np.max(np.abs(cov - cov.T)) > 1e-12 * np.max(sc):
            probs.append(('violation', 'not-symmetric', ''))
        if np.max(np.abs(np.diag(cov) - dv ** 2)) > 1e-9 * np.max(dv ** 2):
            probs.append(('violation', 'diagonal-not-squared-errors', '%r vs %r' % (np.diag(cov)[:3], (dv ** 2)[:3])))
        if np.max(np.abs(np.diag(cor) - 1)) > 1e-9:
            probs.append(('violation', 'correlation-diagonal-not-one', ''))
        if np.max(np.abs(cor)) > 1 + 1e-9:
            i, j = np.unravel_index(np.argmax(np.abs(cor)), cor.shape)
            probs.append(('violation', 'correlation-outside-unit-interval', 'corr[%d,%d] = %r' % (i, j, cor[i, j])))
        for i in range(n):
            for j in range(n):
                if set(obs[i].names).isdisjoint(obs[j].names) and cov[i, j] != 0:
                    probs.append(('violation', 'disjoint-not-zero', '(%d,%d): %r' % (i, j, cov[i, j])))
        # permutation equivariance
        perm = list(range(n))
        __import__('random').Random(case['seed'] + 1).shuffle(perm)
        cp = pe.covariance([obs[p] for p in perm])
        if np.max(np.abs(cp - cov[np.ix_(perm, perm)])) > 1e-9 * np.max(sc):
            i, j = np.unravel_index(np.argmax(np.abs(cp - cov[np.ix_(perm, perm)])), cp.shape)
            probs.append(('violation', 'not-permutation-equivariant', 'order %r: entry (%d,%d) %r vs %r' % (perm, i, j, cp[i, j], cov[perm[i], perm[j]])))
        # Pearson on common configurations for single chains
        if True:
            for i, j in itertools.combinations(range(n), 2):
                a, b = obs[i], obs[j]
                if len(a.names) == 1 and a.names == b.names and not a.covobs and not b.covobs:
                    nm = a.names[0]
                    common = sorted(set(a.idl[nm]) & set(b.idl[nm]))
                    if len(common) < 1:
                        continue
                    da = np.array([a.deltas[nm][list(a.idl[nm]).index(c)] for c in common])
                    db = np.array([b.deltas[nm][list(b.idl[nm]).index(c)] for c in common])
                    if (da @ da) * (db @ db) == 0:
                        continue
                    ref = float(da @ db / np.sqrt((da @ da) * (db @ db)))
                    if not close(cor[i, j], ref, rtol=1e-9):
                        probs.append(('violation', 'pearson', '(%d,%d): %r vs %r' % (i, j, cor[i, j], ref)))
            if case.get('sameidl'):
                ev = np.linalg.eigvalsh(cov)
                if ev[0] < -1e-10 * max(ev[-1], 1e-300):
                    probs.append(('violation', 'not-psd', 'eigenvalues %r' % ev[:3]))
        # model correspondence
        if ctx.lean is not None:
            rr = ctx.lean.call({'op': 'cov', 'obs': [dump_obs(o) for o in obs], 'dv': [f2b(x) for x in dv], 'correlation': False})
            if '_err' in rr:
                probs.append(('disagree', 'lean-driver-error', rr['_err']))
            else:
                m = np.array([[b2f(x) for x in row] for row in rr['m']])
                if m.shape != cov.shape or np.max(np.abs(m - cov)) > 1e-9 * np.max(sc):
                    i, j = np.unravel_index(np.argmax(np.abs(m - cov)), cov.shape) if m.shape == cov.shape else (0, 0)
                    probs.append(('disagree', 'model-vs-impl-covariance', 'entry (%d,%d): model %r impl %r' % (i, j, m[i, j] if m.shape == cov.shape else None, cov[i, j])))
        # helpers
        if n >= 2 and np.linalg.cond(cor) < 1e8:
            try:
                ci = pe.obs.invert_corr_cov_cholesky(cor, np.diag(1 / dv))
                inv = ci.T @ ci
                ref = np.linalg.inv(cov)
                ctx.residual('chol_inverse_rel', float(np.max(np.abs(inv - ref)) / np.max(np.abs(ref))))
                if np.max(np.abs(inv - ref)) > 1e-6 * np.max(np.abs(ref)):
                    probs.append(('violation', 'cholesky-inverse', 'max dev %r' % float(np.max(np.abs(inv - ref)))))
            except Exception as e:
                pass
        if n >= 5:
            E = rng_choice_E(case, n)
            if E is not None:
                sm = pe.obs._smooth_eigenvalues(cor, E)
                if abs(np.trace(sm) - np.trace(cor)) > 1e-9 * n:
                    probs.append(('violation', 'smoothing-trace', '%r vs %r' % (np.trace(sm), np.trace(cor))))
                # the public option: covariance(..., smooth=E) is the smoothed correlation matrix, rescaled by the errors
                try:
                    Earg = [E, np.int64(E), np.int32(E)][case['seed'] % 3]      # index computed with numpy
                    cs = pe.covariance(obs, correlation=True, smooth=Earg)
                    cv = pe.covariance(obs, smooth=Earg)
                    if np.max(np.abs(cs - sm)) > 1e-10:
                        probs.append(('violation', 'smooth-option-correlation', 'covariance(correlation=True, smooth=%d) is not the smoothed correlation matrix (max dev %r)' % (E, float(np.max(np.abs(cs - sm))))))
                    ref_ = np.diag(dv) @ sm @ np.diag(dv)
                    if np.max(np.abs(cv - ref_)) > 1e-10 * np.max(sc):
                        probs.append(('violation', 'smooth-option-covariance', 'covariance(smooth=%d) is not D corr_smoothed D (max dev %r)' % (E, float(np.max(np.abs(cv - ref_))))))
                    if np.max(np.abs(cs - cs.T)) > 1e-12:
                        probs.append(('violation', 'smooth-option-asymmetric', ''))
                except Exception as e:
                    probs.append(('violation', 'smooth-option-exception', '%s: %s' % (type(e).__name__, str(e)[:120])))
        # purely external inputs with a caller-supplied gradient (documented `grad` argument of cov_Obs): J1 Sigma J2^T
        grng = np.random.default_rng(case['seed'] + 11)
        Sg = np.array([[0.04, 0.01, 0.0], [0.01, 0.09, -0.02], [0.0, -0.02, 0.16]])
        g1, g2 = grng.normal(size=3), grng.normal(size=3)
        try:
            e1 = pe.cov_Obs([0.3, 0.6, 0.9], Sg, 'cvg', grad=list(g1))[0]
            e2 = pe.cov_Obs([0.3, 0.6, 0.9], Sg, 'cvg', grad=np.array(g2))[1]
            e3 = 2.0 * e1 - e2
            [x.gamma_method() for x in (e1, e2, e3)]
            ce = pe.covariance([e1, e2, e3])
            J = np.array([g1, g2, 2 * g1 - g2])
            ref_e = J @ Sg @ J.T
            if np.max(np.abs(ce - ref_e)) > 1e-10 * np.max(np.abs(ref_e)):
                probs.append(('violation', 'external-inputs-with-gradient', 'covariance of cov_Obs(..., grad=g) is not J Sigma J^T: %r vs %r' % (ce.tolist()[0], ref_e.tolist()[0])))
        except Exception as e:
            probs.append(('violation', 'external-inputs-with-gradient-exception', '%s: %s' % (type(e).__name__, str(e)[:120])))
        # sort_corr: key list, block sizes and the insertion order of the dictionary are independent
        srng = __import__('random').Random(case['seed'] + 7)
        nk = srng.randint(1, min(4, n))
        kl = srng.sample(['b', 'a', 'c', 'ab', 'B'], nk)
        cuts = sorted(srng.sample(range(1, n), nk - 1)) if nk > 1 else []
        sizes = [b_ - a_ for a_, b_ in zip([0] + cuts, cuts + [n])]
        order = list(kl)
        srng.shuffle(order)
        size_of = dict(zip(kl, sizes))
        yd = {k_: list(range(size_of[k_])) for k_ in order}
        srt = pe.obs.sort_corr(cor, list(kl), yd)
        pos = {}
        ofs = 0
        for k_, s_ in zip(kl, sizes):
            pos[k_] = list(range(ofs, ofs + s_))
            ofs += s_
        mapping = [p for k_ in sorted(kl) for p in pos[k_]]
        if srt.shape != cor.shape or np.max(np.abs(srt - cor[np.ix_(mapping, mapping)])) > 0:
            probs.append(('violation', 'sort-corr-not-the-permutation', 'kl=%r sizes=%r dict order=%r' % (kl, sizes, order)))
        elif nk == n:
            # one observable per key: the re-sorted matrix is the correlation matrix of the re-sorted list
            c2 = pe.covariance([obs[kl.index(k_)] for k_ in sorted(kl)], correlation=True)
            if np.max(np.abs(c2 - srt)) > 1e-9:
                probs.append(('violation', 'sort-corr-not-the-covariance-of-the-sorted-list', 'kl=%r' % (kl,)))
    return probs


def rng_choice_E(case, n):
    cands = [e for e in range(3, n - 1)]
    return cands[case['seed'] % len(cands)] if cands else None


def gen_case(ctx):
    rng = ctx.rng
    mode = rng.choice(['single', 'single', 'same', 'nested', 'overlap', 'strides', 'strides', 'touch'])
    return {'seed': rng.getrandbits(28), 'n': rng.randint(2, 8), 'ens': sorted(rng.sample(['A', 'B', 'C'], rng.choice([1, 2, 3]))), 'mode': mode,
            'cov': rng.random() < 0.3, 'uneven': rng.random() < 0.5, 'identical': rng.random() < 0.3, 'disjoint': rng.random() < 0.3,
            'S': rng.choice([0.0, 1.0, 2.0]), 'sameidl': mode == 'single' and rng.random() < 0.7,
            'scale2': rng.choice([0, 0, 0, 0, -17, -24, -33, 20])}


def run(ctx):
    n = ctx.budget(200, 4000)
    corpus = os.path.join(os.path.dirname(os.path.dirname(os.path.dirname(os.path.abspath(__file__)))), 'corpus', 'C06')
    cases = []
    if os.path.isdir(corpus):
        for fn in sorted(os.listdir(corpus)):
            cases.append(json.load(open(os.path.join(corpus, fn)))['case'])
    for _ in range(n):
        cases.append(gen_case(ctx))
    for case in cases:
        ctx.count('mode=' + case['mode'])
        ctx.count('nens=%d' % len(case['ens']))
        ctx.count('scale2=%s' % case.get('scale2', 0))
        ctx.case(case)
        for (kind, key, info) in check_case(ctx, case):
            (ctx.violation if kind == 'violation' else ctx.disagree)(key, {'case': case, 'info': info})
        if len(ctx.violations) + len(ctx.disagreements) > 25:
            break
