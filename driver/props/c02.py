"""C02 - gamma_method equals Wolff's estimator on every chain layout.

impl  = pyerrors Obs.gamma_method (fft on / off; argument / dict / global parameters)
model = PV.Model.Gamma.gammaMethod     (op "gamma", run at Float)
spec  = PV.Spec.Wolff.gammaMethod      (op "wolff", by configuration number)

correspondence: impl vs model;  predicate P: impl vs spec  (failing-input search);
theorems (PV/Props/C02.lean): model = spec, piece by piece, for all inputs.
"""
import math
from pe_util import np, pe, gen_idl, gen_data, dump_obs, dump_idl, reset_globals, close, f2b, b2f

RULE = ('1-3 ensembles x 1-3 replicas; idl contiguous / strided / gapped / irregular with common spacing, '
        'length 5-60; data white / AR(1) a=0.5,0.9,0.99 / constant / alternating / integer; S, tau_exp, N_sigma '
        'from {0,0.5,1,2,3.7} given as argument, dict or global; fft on/off; optional covariance input. '
        'non-trivial = distinct canonical case (hash of full input).')
TRUSTED = ['np.fft.rfft/irfft (contract: FFT autocorrelation = direct sum, measured per case)',
           'libm sqrt/log/exp (Lean Float vs numpy agree to rounding)']
ASSUMPTIONS = ['theorems are over the reals; IEEE rounding absorbed by rtol 1e-9 (1e-7 for quantities downstream of sqrt of small numbers)',
               'cases whose window decision margin is below 1e-9 are skipped and counted']

FIELDS = ['tauint', 'dtauint', 'dvalue', 'ddvalue']


def gen_case(ctx):
    rng = ctx.rng
    nprng = np.random.default_rng(rng.getrandbits(32))
    nens = rng.choice([1, 1, 1, 2, 3])
    reps = []
    for e in range(nens):
        ens = ['A', 'B', 'C'][e]
        nrep = rng.choice([1, 1, 2, 3])
        g = None
        prev_il = None
        for r in range(nrep):
            n = rng.randint(5, 60) if rng.random() < 0.8 else rng.randint(5, 9)
            kind = rng.choice(['contig', 'strided', 'gapped', 'irregular', 'coprime', 'deceptive'])
            il = gen_idl(rng, n, kind)
            if r > 0 and rng.random() < 0.3 and prev_il is not None and len(prev_il) >= 6 and (prev_il[-1] - prev_il[0] + 1) > len(prev_il):
                # a replica with the same number of configurations, the same first and last one and the same spacing
                # as its predecessor, but with the holes elsewhere
                import math as _m
                pl = list(prev_il)
                g_ = 0
                for a_, b_ in zip(pl, pl[1:]):
                    g_ = _m.gcd(g_, b_ - a_)
                grid = list(range(pl[0] + g_, pl[-1], g_))
                if len(grid) > len(pl) - 2:
                    cand = [pl[0]] + sorted(rng.sample(grid, len(pl) - 2)) + [pl[-1]]
                    g2_ = 0
                    for a_, b_ in zip(cand, cand[1:]):
                        g2_ = _m.gcd(g2_, b_ - a_)
                    if g2_ == g_ and len(set(b_ - a_ for a_, b_ in zip(cand, cand[1:]))) > 1:
                        il = cand
            prev_il = list(il)
            name = '%s|r%d' % (ens, r + 1) if (nrep > 1 or rng.random() < 0.6) else ens
            reps.append({'name': name, 'idl': dump_idl(il),
                         'samples': [float(x).hex() for x in gen_data(rng, nprng, len(il))]})
    pv = [0.0, 0.5, 1.0, 2.0, 3.7]
    case = {'reps': reps,
            'S': rng.choice(pv + [2.0, 2.0]), 'tau_exp': rng.choice([0.0, 0.0, 0.0] + pv),
            'N_sigma': rng.choice([1.0, 1.0] + pv), 'fft': rng.random() < 0.5,
            'how': rng.choice(['arg', 'dict', 'global', 'mixed']),
            'src': [rng.choice(['arg', 'dict', 'global']) for _ in range(3)],
            'cov': rng.choice([None, None, 1, 2])}
    # overall scale of the data (exact power of two): the estimator is scale covariant, no absolute threshold may enter
    case['ptype'] = rng.choice(['float', 'float', 'int', 'np.int64', 'np.int32', 'np.float32', 'np.float64'])
    case['scale2'] = rng.choice([0, 0, 0, 0, 0, -70, -58, -30, 45, 100])
    case['via'] = [None, None, None, 'gm', 'corr', 'corrmat', 'cobs', None][(len(reps) + sum(len(r['samples']) for r in reps)) % 8]     # entry point of the analysis (no extra random draw)
    return case


def build_obs(case):
    byens = {}
    for r in case['reps']:
        byens.setdefault(r['name'].split('|')[0], []).append(r)
    total = None
    for ens, rl in sorted(byens.items()):
        idl = []
        for r in rl:
            d = r['idl']
            idl.append(range(d['range'][0], d['range'][0] + d['range'][1] * d['range'][2], d['range'][2]) if 'range' in d else list(d['list']))
        o = pe.Obs([np.array([float.fromhex(x) for x in r['samples']]) * 2.0 ** case.get('scale2', 0) for r in rl], [r['name'] for r in rl], idl=idl)
        total = o if total is None else total + 0.5 * o
    # the covariance matrices are handed over as arrays from a work buffer that the caller reuses afterwards:
    # the observable must have taken a copy (COV_ORIG holds what was handed over)
    if case.get('cov') == 1:
        buf = np.array([[0.25]]) if len(case['reps'][0]['samples']) % 2 else 0.25
        total = total + pe.cov_Obs(1.5, buf, 'cvA')
        if isinstance(buf, np.ndarray):
            buf *= 9.0
    elif case.get('cov') == 2:
        buf = np.array([[0.5, 0.1], [0.1, 0.3]])
        c = pe.cov_Obs([1.0, 2.0], buf, 'cvB')
        total = total + 0.5 * c[0] - 2 * c[1]
        buf *= 4.0
        buf[0, 1] = -7.0
    return total


COV_ORIG = {'cvA': np.array([[0.25]]), 'cvB': np.array([[0.5, 0.1], [0.1, 0.3]])}


def run_impl(case, o):
    reset_globals()
    kw = {}
    ens = o.mc_names
    # each of the three parameters reaches the analysis through its own channel: explicit argument, per-ensemble
    # dictionary or global default ('mixed': independently per parameter; decoys sit in the channels of lower rank)
    how = case['how']
    src = {'S': how, 'tau_exp': how, 'N_sigma': how}
    if how == 'mixed':
        src = dict(zip(['S', 'tau_exp', 'N_sigma'], case['src']))
    glob = {'S': 'S_global', 'tau_exp': 'tau_exp_global', 'N_sigma': 'N_sigma_global'}
    dic = {'S': pe.Obs.S_dict, 'tau_exp': pe.Obs.tau_exp_dict, 'N_sigma': pe.Obs.N_sigma_dict}
    decoy = {'S': 3.7, 'tau_exp': 4.5, 'N_sigma': 2.5}
    def wrap(v, explicit=False):
        # the number types a parameter may arrive in: Python float / int, numpy scalars of any width
        # (an explicit keyword argument is type-checked by the library: int / float and their subclasses only)
        t = case.get('ptype', 'float')
        if explicit and t in ('np.int64', 'np.int32', 'np.float32'):
            t = 'float'
        if t == 'int' and float(v) == int(v):
            return int(v)
        if t == 'np.int64' and float(v) == int(v):
            return np.int64(int(v))
        if t == 'np.int32' and float(v) == int(v):
            return np.int32(int(v))
        if t == 'np.float32' and float(np.float32(v)) == float(v):
            return np.float32(v)
        if t == 'np.float64':
            return np.float64(v)
        return v
    for name in ('S', 'tau_exp', 'N_sigma'):
        if src[name] == 'arg':
            kw[name] = wrap(case[name], explicit=True)
            if how == 'mixed':
                for e in ens:
                    dic[name][e] = decoy[name]
                setattr(pe.Obs, glob[name], decoy[name] * 1.3)
        elif src[name] == 'dict':
            for e in ens:
                dic[name][e] = wrap(case[name])
            if how == 'mixed':
                setattr(pe.Obs, glob[name], decoy[name])
        else:
            setattr(pe.Obs, glob[name], wrap(case[name]))
    try:
        # `gm` is the documented short form of `gamma_method`: both entry points are exercised
        # every entry point to the analysis: `Obs.gamma_method`, its short form `gm`, and the containers that forward to it
        via = case.get('via') or ('gm' if case.get('alias') else None)
        if via == 'gm':
            o.gm(fft=case['fft'], **kw)
        elif via == 'corr':
            pe.Corr([o, None, o]).gamma_method(fft=case['fft'], **kw)
        elif via == 'corrmat':
            pe.Corr([np.array([[o, 1.0 * o], [1.0 * o, o]], dtype=object)]).gm(fft=case['fft'], **kw)
        elif via == 'cobs':
            pe.CObs(2.0 * o, o).gamma_method(fft=case['fft'], **kw)
        else:
            o.gamma_method(fft=case['fft'], **kw)
    except Exception as e:
        reset_globals()
        return {'exc': type(e).__name__ + ': ' + str(e)[:80]}
    reset_globals()
    out = {'dvalue': float(o.dvalue), 'ddvalue': float(o.ddvalue), 'ens': {}, 'cov': {}}
    for e in ens:
        out['ens'][e] = {'tauint': float(o.e_tauint[e]), 'dtauint': float(o.e_dtauint[e]),
                         'dvalue': float(o.e_dvalue[e]), 'ddvalue': float(o.e_ddvalue[e]),
                         'windowsize': int(o.e_windowsize[e]),
                         'rho': [float(x) for x in o.e_rho[e]], 'drho': [float(x) for x in o.e_drho[e]],
                         'n_tauint': [float(x) for x in o.e_n_tauint.get(e, [])],
                         'n_dtauint': [float(x) for x in o.e_n_dtauint.get(e, [])]}
    for c in o.cov_names:
        out['cov'][c] = float(o.e_dvalue[c])
    return out


def decode_lean(r):
    if '_err' in r:
        return {'lean_err': r['_err']}
    if 'exc' in r:
        return {'exc': r['exc']}
    out = {'dvalue': b2f(r['dvalue']), 'ddvalue': b2f(r['ddvalue']), 'ens': {}, 'cov': {}}
    for e in r['ens']:
        out['ens'][e['ens']] = {'tauint': b2f(e['tauint']), 'dtauint': b2f(e['dtauint']), 'dvalue': b2f(e['dvalue']),
                                'ddvalue': b2f(e['ddvalue']), 'windowsize': e['windowsize'],
                                'rho': [b2f(x) for x in e['rho']], 'drho': [b2f(x) for x in e['drho']],
                                'n_tauint': [b2f(x) for x in e['n_tauint']], 'n_dtauint': [b2f(x) for x in e['n_dtauint']],
                                'margin': b2f(e['margin'])}
    for c in r['cov']:
        out['cov'][c[0]] = b2f(c[1])
    return out


def compare(a, b, rtol=1e-8):
    """a = impl, b = model/spec; returns (list of differences, illconditioned?)"""
    diffs = []
    if ('exc' in a) != ('exc' in b):
        return ['exception mismatch: impl=%s other=%s' % (a.get('exc'), b.get('exc'))], False
    if 'exc' in a:
        return [], False
    for e in a['ens']:
        if e not in b['ens']:
            diffs.append('ensemble %s missing' % e)
            continue
        x, y = a['ens'][e], b['ens'][e]
        if x['windowsize'] != y['windowsize']:
            scale = max(1.0, abs(y.get('margin', 1.0)))
            if abs(y.get('margin', 1.0)) < 1e-8:
                return [], True
            diffs.append('%s windowsize %d vs %d' % (e, x['windowsize'], y['windowsize']))
            continue
        for f in FIELDS:
            if not close(x[f], y[f], scale=max(abs(x['dvalue']), 1e-300) if 'value' in f else 1.0, rtol=rtol):
                diffs.append('%s %s %r vs %r' % (e, f, x[f], y[f]))
        for f in ['rho', 'drho', 'n_tauint', 'n_dtauint']:
            if len(x[f]) != len(y[f]):
                diffs.append('%s len(%s) %d vs %d' % (e, f, len(x[f]), len(y[f])))
            else:
                for k, (u, v) in enumerate(zip(x[f], y[f])):
                    if not close(u, v, scale=1.0, rtol=rtol):
                        diffs.append('%s %s[%d] %r vs %r' % (e, f, k, u, v))
                        break
    for c in a['cov']:
        if not close(a['cov'][c], b['cov'].get(c, float('nan')), rtol=rtol):
            diffs.append('cov %s %r vs %r' % (c, a['cov'][c], b['cov'].get(c)))
    for f in ['dvalue', 'ddvalue']:
        if not close(a[f], b[f], scale=abs(a['dvalue']), rtol=rtol):
            diffs.append('%s %r vs %r' % (f, a[f], b[f]))
    return diffs, False


def direct_checks(case, o, impl):
    """clauses of the property that are evaluated directly on the implementation's output"""
    probs = []
    if 'exc' in impl:
        return probs
    # total squared error = sum of squared per-ensemble errors + J Sigma J^T
    tot = sum(v['dvalue'] ** 2 for v in impl['ens'].values()) + sum(v ** 2 for v in impl['cov'].values())
    if not close(math.sqrt(tot), impl['dvalue'], rtol=1e-10):
        probs.append('total error is not the quadrature sum')
    for cn in o.cov_names:
        c = o.covobs[cn]
        j = np.asarray(c.grad, dtype=float).ravel()
        ref = float(j @ COV_ORIG[cn] @ j)
        if not close(float(c.errsq()), ref, rtol=1e-12):
            probs.append('covariance input %s: errsq() %r vs J Sigma J^T %r' % (cn, float(c.errsq()), ref))
        if not close(impl['cov'][cn] ** 2, ref, rtol=1e-10):
            probs.append('covariance input %s: %r vs J Sigma J^T %r' % (cn, impl['cov'][cn] ** 2, ref))
    # S = 0: naive standard error of the mean
    if case['S'] == 0.0 and case['tau_exp'] == 0.0:
        for e in o.mc_names:
            d = np.concatenate([o.deltas[n] for n in o.e_content[e]])
            n = len(d)
            naive = math.sqrt(float(np.sum(d * d)) / n / (n - 1))
            if not close(impl['ens'][e]['dvalue'], naive, rtol=1e-9, scale=naive):
                probs.append('S=0 error %r is not the naive standard error %r' % (impl['ens'][e]['dvalue'], naive))
            if impl['ens'][e]['tauint'] != 0.5 or impl['ens'][e]['windowsize'] != 0:
                probs.append('S=0 but tauint/window not 0.5/0')
    return probs


def check_case(ctx, case):
    probs = []
    o = build_obs(case)
    impl = run_impl(case, o)
    ens = o.mc_names
    req = {'obs': dump_obs(o), 'S': [[e, f2b(case['S'])] for e in ens],
           'tau_exp': [[e, f2b(case['tau_exp'])] for e in ens],
           'N_sigma': [[e, f2b(case['N_sigma'])] for e in ens]}
    for p in direct_checks(case, o, impl):
        probs.append(('violation', 'direct:' + p.split(' ')[0], p))
    if ctx.lean is None:
        return probs
    spec = decode_lean(ctx.lean.call(dict(req, op='wolff')))
    model = decode_lean(ctx.lean.call(dict(req, op='gamma')))
    if 'lean_err' in spec or 'lean_err' in model:
        probs.append(('disagree', 'lean-driver-error', str(spec.get('lean_err') or model.get('lean_err'))))
        return probs
    d_spec, ill1 = compare(impl, spec)
    d_model, ill2 = compare(impl, model)
    if ill1 or ill2:
        ctx.illcond += 1
        return probs
    if d_spec:
        probs.append(('violation', 'wolff-spec', d_spec[:6]))
    if d_model:
        probs.append(('disagree', 'model-vs-impl', d_model[:6]))
    # contract of the FFT path: run both paths and record the residual
    if 'exc' not in impl:
        c2 = dict(case, fft=not case['fft'])
        o2 = build_obs(c2)
        other = run_impl(c2, o2)
        if 'exc' not in other:
            ctx.residual('fft_vs_direct_rel_dvalue', abs(other['dvalue'] - impl['dvalue']) / max(abs(impl['dvalue']), 1e-300))
            d_fft, _ = compare(impl, other, rtol=1e-7)
            if d_fft and not any('windowsize' in x for x in d_fft):
                probs.append(('violation', 'fft-vs-direct', d_fft[:4]))
    return probs


def run(ctx):
    n = ctx.budget(400, 12000)
    import os, json
    corpus = os.path.join(os.path.dirname(os.path.dirname(os.path.dirname(os.path.abspath(__file__)))), 'corpus', 'C02')
    cases = []
    if os.path.isdir(corpus):
        for fn in sorted(os.listdir(corpus)):
            cases.append(json.load(open(os.path.join(corpus, fn)))['case'])
    for _ in range(n):
        cases.append(gen_case(ctx))
    for case in cases:
        ctx.count('how=' + case['how'])
        ctx.count('fft=%s' % case['fft'])
        ctx.count('S=%s' % case['S'])
        ctx.count('scale2=%s' % case.get('scale2', 0))
        ctx.count('tau_exp>0' if case['tau_exp'] > 0 else 'tau_exp=0')
        ctx.count('nreps=%d' % len(case['reps']))
        for r in case['reps']:
            ctx.count('idl=' + ('range' if 'range' in r['idl'] else 'list'))
        ctx.case(case, sample={k: (v if k != 'reps' else [{'name': r['name'], 'idl': r['idl'], 'n': len(r['samples'])} for r in v]) for k, v in case.items()})
        for (kind, key, info) in check_case(ctx, case):
            if kind == 'violation':
                ctx.violation(key, {'case': case, 'info': info})
            else:
                ctx.disagree(key, {'case': case, 'info': info})
        if len(ctx.violations) + len(ctx.disagreements) > 20:
            break
