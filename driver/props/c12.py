"""C12 - dobs / pobs XML export and import are mutually inverse.

impl   = pyerrors.input.dobs (create_dobs_string / import_dobs_string, write_dobs / read_dobs,
         write_pobs / read_pobs)
model  = PV.Model.Dobs (op "dobs"): the per-replica table with `0` meaning "not measured"
oracle = the statement: every observable of the list comes back with its central value, chains,
         configuration numbers, per-configuration samples and covariance gradients (this file)

Known findings (format-inherent): pobs holds no central value (derived observables on >= 2 replicas come back with the
weighted mean of the replica means); dobs: a sample whose written number delta + (r - value) is exactly 0 is
indistinguishable from "not measured" and is dropped on import.
"""
import json
import os
import shutil
import tempfile
import warnings
from pe_util import np, pe, gen_idl, gen_data, close, quiet, dump_obs
import pyerrors.input.dobs as dio

RULE = ('lists of 1-4 observables on 1-2 ensembles x 1-3 replicas, each on its own subset of the configurations and replicas; '
        'range / strided / irregular idl; covariance inputs of dimension 1-3 incl. exactly cancelling gradients; real-valued and '
        'count-like data (zeros, samples equal to the mean); gz on/off; separator_insertion True / int / str; pobs: lists of primary observables, of derived observables (non-linear functions), and lists '
        'with one member on other configurations / chains (must be refused), separator positions 0 / 1 / 2. '
        'non-trivial = distinct case.')
TRUSTED = ['lxml / gzip containers', "'%1.16e' / '%1.14e' text conversion of doubles (covariances carry 15 digits)"]
ASSUMPTIONS = ['samples compared at 1e-13 of the data scale, covariance matrices and gradients at 1e-13 (15 printed digits)']


def build_list(case):
    rng = __import__('random').Random(case['seed'])
    nprng = np.random.default_rng(case['seed'])
    layout = {}
    for e in case['ens']:
        for r in range(case['nrep'][e]):
            # 'bare': a single chain that is called exactly like its ensemble
            layout[e if case.get('bare') == e else '%s|r%d' % (e, r + 1)] = list(gen_idl(rng, rng.randint(8, 16), rng.choice(['contig', 'strided', 'irregular'])))
    obs = []
    cov = None
    if case.get('cov'):
        dim = case['cov']
        cov = pe.cov_Obs(list(0.2 + 0.1 * np.arange(dim)), (np.eye(dim) * 0.04 + 0.01) if dim > 1 else 0.04, 'cv%d' % dim)
        if dim == 1:
            cov = [cov]
    for i in range(case['n']):
        o = None
        for e in case['ens']:
            names = [n for n in layout if n.startswith(e + '|') or n == e]
            if case['subsets'] and len(names) > 1 and rng.random() < 0.5:
                names = sorted(rng.sample(names, rng.randint(1, len(names))))
            if case['subsets'] and len(case['ens']) > 1 and i > 0 and rng.random() < 0.3:
                continue
            samples, idl = [], []
            for n in names:
                il = layout[n]
                if case['subsets']:
                    k = rng.choice(['all', 'prefix', 'random', 'stride'])
                    il = {'all': il, 'prefix': il[:max(5, len(il) * 2 // 3)], 'random': sorted(rng.sample(il, max(5, len(il) - 3))),
                          'stride': il[::2] if len(il[::2]) >= 5 else il}[k]
                if case['data'] == 'count':
                    x = nprng.integers(0, 3, size=len(il)).astype(float)
                    if case.get('mean_hit') and len(il) % 2 == 0:
                        x = np.array([0.0, 2.0] * (len(il) // 2))      # mean 1.0 ... and then one sample equal to it
                        x[0] = 1.0
                        x[1] = 1.0
                else:
                    x = gen_data(rng, nprng, len(il), 'white') + 1.3
                if case.get('frozen') is not None and n == names[-1] and len(names) > 1:
                    # measured on this replica, but every sample identical (a frozen charge): still measured
                    x = np.full(len(il), float(case['frozen']))
                samples.append(x)
                idl.append(il)
            b = pe.Obs(samples, names, idl=idl)
            o = b if o is None else o + b
        if o is None:
            e = case['ens'][0]
            n0 = [n for n in layout if n.startswith(e + '|') or n == e][0]
            o = pe.Obs([gen_data(rng, nprng, len(layout[n0]), 'white') + 1.3], [n0], idl=[layout[n0]])
        if cov:
            if case.get('cancel') and len(cov) >= 3:
                o = o + cov[0] - cov[2]
            else:
                o = o + sum(0.1 * (i + 1) * (k + 1) * c for k, c in enumerate(cov))
        obs.append(o)
    return obs


def build_pobs(case):
    """pobs lists: observables of ONE ensemble.  kind = primary (straight from samples), derived (non-linear functions
    of primaries: the central value is not the weighted mean of the replica means), mixed (one observable on other
    configurations / other chains than the first: cannot be stored in one table, must be refused)"""
    rng = __import__('random').Random(case['seed'])
    nprng = np.random.default_rng(case['seed'])
    e = case['ens'][0]
    layout = {'%s|r%d' % (e, r + 1): list(gen_idl(rng, rng.randint(6, 14), rng.choice(['contig', 'strided', 'irregular']))) for r in range(case['nrep'][e])}
    names = sorted(layout)
    prim = []
    for i in range(case['n']):
        if case['data'] == 'count':
            samples = [nprng.integers(0, 3, size=len(layout[n])).astype(float) for n in names]
        else:
            samples = [gen_data(rng, nprng, len(layout[n]), 'white') * rng.choice([1.0, 1e-3, 40.0]) + rng.choice([1.3, -0.7, 0.0, 250.0]) + 0.2 * k for k, n in enumerate(names)]
        prim.append(pe.Obs(samples, names, idl=[layout[n] for n in names]))
    kind = case.get('pobs_kind', 'primary')
    obs = list(prim)
    if kind == 'derived':
        for i in range(len(obs)):
            f = rng.choice(['sq', 'exp', 'prod', 'lin'])
            a, b = prim[i], prim[rng.randrange(len(prim))]
            obs[i] = {'sq': lambda: a * a, 'exp': lambda: np.exp(0.3 * a), 'prod': lambda: a * b + 1.0, 'lin': lambda: 2.0 * a - 0.5 * b}[f]()
    elif kind == 'mixed' and len(obs) > 1:
        j = rng.randrange(1, len(obs))
        how = rng.choice(['stride', 'shorter', 'longer', 'shift', 'chain', 'one_differs'])
        n0 = names[-1]
        il = list(layout[n0])
        alt = {'stride': [il[0] + 2 * (c - il[0]) for c in il], 'shorter': il[:-1] if len(il) > 5 else il + [il[-1] + 1], 'longer': il + [il[-1] + 1, il[-1] + 3],
               'shift': [c + 1 for c in il], 'chain': il, 'one_differs': il[:-1] + [il[-1] + 2]}[how]
        nn = list(names)
        if how == 'chain':
            nn[-1] = '%s|r%d' % (e, len(names) + 1)
        ils = [layout[n] for n in names[:-1]] + [alt]
        obs[j] = pe.Obs([gen_data(rng, nprng, len(x), 'white') + 0.4 for x in ils], nn, idl=ils)
    return obs


def pobs_blocks_of_string(s):
    """the replica blocks of a pobs XML string, read independently of pyerrors: id, layout numbers, rows of tokens"""
    import xml.etree.ElementTree as et
    root = et.fromstring(s)
    out = []
    for arr in root.find('pobs').findall('array'):
        kids = list(arr)
        lay = arr.find('layout').text.split()
        txt = kids[-1].tail
        rows = [ln.split() for ln in txt.strip().split('\n') if ln.strip()]
        out.append({'id': arr.find('id').text.strip(), 'nc': int(lay[0]), 'na': int(lay[2].lstrip('f')), 'rows': rows})
    return out


def check_pobs(ctx, case, probs):
    obs = build_pobs(case)
    kind = case.get('pobs_kind', 'primary')
    k = case.get('sep_k', 1)
    wkw = {}
    if case.get('meta'):
        wkw = {'spec': 'x', 'origin': 'somewhere', 'symbol': ['sym%d' % i for i in range(len(obs))], 'enstag': 'tg'}
    ctx.count('pobs:' + kind)
    d = tempfile.mkdtemp(prefix='c12_', dir='/dev/shm' if os.path.isdir('/dev/shm') else None)
    try:
        same = all(sorted(o.names) == sorted(obs[0].names) and all(list(o.idl[n]) == list(obs[0].idl[n]) for n in o.names) for o in obs)
        raised = None
        try:
            s = dio.create_pobs_string(obs, 'nm', **wkw)
            dio.write_pobs(obs, os.path.join(d, 'f'), 'nm', gz=case['gz'], **wkw)
        except Exception as e:
            raised = e
        # the model
        mr = None
        if ctx.lean is not None:
            mr = ctx.lean.call({'op': 'pobs', 'obs': [dump_obs(o) for o in obs], 'k': k})
            if '_err' in mr:
                probs.append(('disagree', 'lean-driver-error', mr['_err']))
                mr = None
        if not same:
            # one table per replica with ONE configuration column: observables on other configurations cannot be stored
            if raised is None:
                probs.append(('violation', 'pobs-accepts-different-configuration-lists', 'lists %r written under the numbers of the first observable' % ([{n: list(o.idl[n])[:4] for n in o.names} for o in obs],)))
            if mr is not None and 'exc' not in mr:
                probs.append(('disagree', 'pobs-model-refusal', 'model accepts a list the format cannot hold'))
            return
        if raised is not None:
            probs.append(('violation', 'roundtrip-exception:pobs', '%s: %s' % (type(raised).__name__, str(raised)[:200])))
            return
        if mr is not None and 'exc' in mr:
            probs.append(('disagree', 'pobs-model-refusal', 'model refuses (%s) what the implementation writes' % mr['exc']))
            mr = None
        # written blocks: model tokens = file tokens, number for number
        if mr is not None:
            from lean import b2f
            fb = pobs_blocks_of_string(s)
            if len(fb) != len(mr['blocks']):
                probs.append(('disagree', 'pobs-model-blocks', '%d blocks in the file, %d in the model' % (len(fb), len(mr['blocks']))))
            for a, b in zip(fb, mr['blocks']):
                cfg = [int(r[0]) for r in a['rows']]
                num = [float(x) for r in a['rows'] for x in r[1:]]
                kinds = ''.join('c' + 'n' * (len(r) - 1) for r in a['rows'])
                mnum = [b2f(x) for x in b['num']]
                if (a['id'], a['nc'], a['na'], cfg, kinds) != (b['id'], b['nc'], b['na'], b['cfg'], b['kinds']) or num != mnum:
                    probs.append(('disagree', 'pobs-model-blocks', 'block %s: file (nc %d na %d cfg %r num %r) vs model (nc %d na %d cfg %r num %r)' % (
                        a['id'], a['nc'], a['na'], cfg[:4], num[:4], b['nc'], b['na'], b['cfg'][:4], mnum[:4])))
                    break
            ctx.count('pobs-model:blocks')
        got = dio.read_pobs(os.path.join(d, 'f'), gz=case['gz'], separator_insertion=k, **({'full_output': True} if case.get('meta') else {}))
        if case.get('meta'):
            got = got['obsdata']
        # the statement
        stored = {n: n.replace('|', '') for n in obs[0].names}
        ren = {n: stored[n][:k] + '|' + stored[n][k:] for n in stored}
        if any(ren[n] != n for n in ren):
            # documented: the separator goes where separator_insertion says
            for a, b in zip(obs, got):
                if sorted(ren.values()) != sorted(b.names):
                    probs.append(('violation', 'separator-treatment', 'pobs k=%d: chains %r, documented %r' % (k, b.names, sorted(ren.values()))))
                    return
                for n in a.names:
                    if list(a.idl[n]) != list(b.idl[ren[n]]) or np.max(np.abs((a.deltas[n] + a.r_values[n]) - (b.deltas[ren[n]] + b.r_values[ren[n]]))) > 1e-13 * max(1.0, np.max(np.abs(a.deltas[n] + a.r_values[n]))):
                        probs.append(('violation', 'separator-treatment-data', 'pobs chain %s -> %s' % (n, ren[n])))
                        return
            return
        diffs, _ = compare(obs, got, 'pobs', drops_allowed=False)
        vd = [x for x in diffs if ': value ' in x]
        if diffs and len(vd) == len(diffs) and kind == 'derived':
            # the file holds no central value: the reader can only return the weighted mean of the replica means
            ok = all(close(float(b.value), float(sum(len(a.idl[n]) * a.r_values[n] for n in a.names) / a.N), rtol=1e-13, scale=max(1.0, abs(float(a.value)))) for a, b in zip(obs, got))
            if ok:
                probs.append(('violation', 'pobs-central-value-of-derived-observable', diffs[:2]))
            else:
                probs.append(('violation', 'roundtrip:pobs', diffs[:4]))
        elif diffs:
            probs.append(('violation', 'roundtrip:pobs', diffs[:4]))
        elif case.get('analyse'):
            for a, b in zip(obs, got):
                try:
                    a.gamma_method()
                    b.gamma_method()
                except Exception:
                    continue
                if not close(a.dvalue, b.dvalue, rtol=1e-10):
                    probs.append(('violation', 'analysis-differs-after-roundtrip', '%r vs %r' % (a.dvalue, b.dvalue)))
                    break
        # reader model against the implementation
        if mr is not None:
            from lean import b2f
            if 'rexc' in mr:
                probs.append(('disagree', 'pobs-model-read', 'model reader refuses: %s' % mr['rexc']))
            else:
                for i, (mo, go) in enumerate(zip(mr['obs'], got)):
                    w = dump_obs(go)
                    sc = max([1.0, abs(float(go.value))] + [abs(float(x) + float(go.r_values[n])) for n in go.names for x in go.deltas[n]])
                    d_ = None
                    if [rp['name'] for rp in mo['reps']] != [rp['name'] for rp in w['reps']]:
                        d_ = 'chain names %r vs %r' % ([rp['name'] for rp in mo['reps']], [rp['name'] for rp in w['reps']])
                    elif [rp['idl'] for rp in mo['reps']] != [rp['idl'] for rp in w['reps']]:
                        d_ = 'configuration lists %r vs %r' % ([rp['idl'] for rp in mo['reps']], [rp['idl'] for rp in w['reps']])
                    elif not close(b2f(mo['value']), b2f(w['value']), rtol=1e-13, scale=sc):
                        d_ = 'value %r vs %r' % (b2f(mo['value']), b2f(w['value']))
                    else:
                        for a, b in zip(mo['reps'], w['reps']):
                            if len(a['deltas']) != len(b['deltas']) or not all(close(b2f(p_), b2f(q_), rtol=1e-13, scale=sc) for p_, q_ in zip(a['deltas'], b['deltas'])) \
                                    or not close(b2f(a['rvalue']), b2f(b['rvalue']), rtol=1e-13, scale=sc):
                                d_ = 'fluctuations / replica mean of %s' % a['name']
                                break
                    if d_:
                        probs.append(('disagree', 'pobs-model-read', 'observable %d: %s' % (i, d_)))
                        break
                if len(mr['obs']) != len(got):
                    probs.append(('disagree', 'pobs-model-read', '%d observables vs %d' % (len(mr['obs']), len(got))))
                ctx.count('pobs-model:read')
    finally:
        shutil.rmtree(d, ignore_errors=True)


def table(o):
    return {n: {int(c): float(d + o.r_values[n]) for c, d in zip(o.idl[n], o.deltas[n])} for n in o.names if n not in o.covobs}


def written_zero(o, n):
    """configurations whose written number delta + (r - value) is exactly zero"""
    off = o.r_values[n] - o.value
    return {int(c) for c, d in zip(o.idl[n], o.deltas[n]) if d + off == 0}


def compare(orig, got, what, drops_allowed):
    """returns (list of differences, list of known-finding drops)"""
    out, known = [], []
    if len(orig) != len(got):
        return ['%s: %d observables, expected %d' % (what, len(got), len(orig))], known
    for i, (a, b) in enumerate(zip(orig, got)):
        scale = max([1.0, abs(a.value)] + [abs(v) for t in table(a).values() for v in t.values()])
        if not close(float(a.value), float(b.value), rtol=1e-14, scale=scale):
            out.append('%s[%d]: value %r vs %r' % (what, i, float(b.value), float(a.value)))
        ta, tb = table(a), table(b)
        for n in ta:
            expd = dict(ta[n])
            dropped = written_zero(a, n) if drops_allowed else set()
            if n not in tb:
                if dropped and len(dropped) == len(expd):
                    known.append((i, n, sorted(dropped)))
                    continue
                out.append('%s[%d]: chain %s missing (chains %r)' % (what, i, n, sorted(tb)))
                continue
            missing = set(expd) - set(tb[n])
            extra = set(tb[n]) - set(expd)
            if extra:
                out.append('%s[%d]: %s has configurations %r that were never measured' % (what, i, n, sorted(extra)[:5]))
            if missing:
                if missing <= dropped:
                    known.append((i, n, sorted(missing)))
                else:
                    out.append('%s[%d]: %s lost configurations %r' % (what, i, n, sorted(missing - dropped)[:6]))
            for c in set(expd) & set(tb[n]):
                if not close(tb[n][c], expd[c], rtol=2e-14, scale=scale):
                    out.append('%s[%d]: %s config %d sample %r vs %r' % (what, i, n, c, tb[n][c], expd[c]))
                    break
        for n in tb:
            if n not in ta:
                out.append('%s[%d]: unexpected chain %s' % (what, i, n))
        # covariance inputs
        for cn in a.covobs:
            ga = np.asarray(a.covobs[cn].grad, dtype=float).ravel()
            if cn not in b.covobs:
                if np.any(ga != 0):
                    out.append('%s[%d]: covariance input %s lost (gradient %r)' % (what, i, cn, ga))
                continue
            gb = np.asarray(b.covobs[cn].grad, dtype=float).ravel()
            if ga.shape != gb.shape or np.max(np.abs(ga - gb)) > 1e-13 * max(1.0, np.max(np.abs(ga))):
                out.append('%s[%d]: gradient of %s %r vs %r' % (what, i, cn, gb, ga))
            ca, cb = np.atleast_2d(a.covobs[cn].cov), np.atleast_2d(b.covobs[cn].cov)
            if ca.shape != cb.shape or np.max(np.abs(ca - cb)) > 1e-13 * np.max(np.abs(ca)):
                out.append('%s[%d]: covariance matrix of %s differs' % (what, i, cn))
        for cn in b.covobs:
            if cn not in a.covobs:
                out.append('%s[%d]: unexpected covariance input %s' % (what, i, cn))
    return out, known


def check_cov_conflict(ctx, case, probs):
    """two observables of one list carry a covariance input of the SAME name with DIFFERENT matrices: one table cannot hold
    both, the list must be refused at every scale of the matrices (never written with the first one's matrix)"""
    rng = __import__('random').Random(case['seed'])
    nprng = np.random.default_rng(case['seed'])
    sc = case['cov_conflict']
    a = pe.Obs([gen_data(rng, nprng, 12, 'white') + 1.3], ['A|r1'])
    b = pe.Obs([gen_data(rng, nprng, 12, 'white') + 0.7], ['A|r1'])
    if case.get('cov') == 2:
        m1 = np.array([[2.0, 0.5], [0.5, 1.0]]) * sc
        m2 = m1 * (1 + case['cov_rel'])
        c1, c2 = pe.cov_Obs([0.3, 0.6], m1, 'ZA'), pe.cov_Obs([0.3, 0.6], m2, 'ZA')
        o1, o2 = a * c1[0] + c1[1], b * c2[0] - c2[1]
    else:
        c1, c2 = pe.cov_Obs(0.75, sc, 'ZA'), pe.cov_Obs(0.75, sc * (1 + case['cov_rel']), 'ZA')
        o1, o2 = a * c1, b * c2
    ctx.count('cov-conflict')
    try:
        s = dio.create_dobs_string([o1, o2], 'nm')
    except Exception:
        return
    got = dio.import_dobs_string(s.encode())
    covs = [np.atleast_2d(np.asarray(g.covobs['ZA'].cov, dtype=float)) for g in got if 'ZA' in g.covobs]
    probs.append(('violation', 'dobs-accepts-inconsistent-covariance', 'two different matrices under the name ZA (scale %g, relative difference %g) were written; read back: %r' % (
        sc, case['cov_rel'], [c.ravel()[:2].tolist() for c in covs])))


def check_case(ctx, case):
    probs = []
    if case.get('cov_conflict'):
        with warnings.catch_warnings(), quiet():
            warnings.simplefilter('ignore')
            check_cov_conflict(ctx, case, probs)
        return probs
    if case['fmt'] == 'pobs' and 'pobs_kind' in case:
        with warnings.catch_warnings(), quiet():
            warnings.simplefilter('ignore')
            check_pobs(ctx, case, probs)
        return probs
    obs = build_list(case)
    d = tempfile.mkdtemp(prefix='c12_', dir='/dev/shm' if os.path.isdir('/dev/shm') else None)
    try:
        with warnings.catch_warnings(), quiet():
            warnings.simplefilter('ignore')
            fmt = case['fmt']
            try:
                if fmt == 'dobs':
                    si = case['sep']
                    kw = {}
                    if si == 'int':
                        kw['separator_insertion'] = case.get('sep_k', 1)
                    elif si == 'str':
                        kw['separator_insertion'] = 'r'
                    elif si == 'none':
                        kw['separator_insertion'] = None
                    elif si == 'false':
                        kw['separator_insertion'] = False
                    # the documented optional arguments are descriptive metadata: the numbers must not depend on them
                    wkw = {}
                    meta = case.get('meta')
                    if meta:
                        enss = sorted(set(n.split('|')[0] for o in obs for n in o.names if n not in o.covobs))
                        wkw = {'spec': 'dobs v1.0', 'origin': 'somewhere', 'symbol': ['sym%d' % i for i in range(len(obs))], 'who': 'me'}
                        if meta == 'enstags' and enss:
                            wkw['enstags'] = {enss[0]: 'tag_' + enss[0]}
                        kw['full_output'] = True
                    if case['via'] == 'string':
                        s = dio.create_dobs_string(obs, 'nm', **wkw)
                        # the documented argument is the str that create_dobs_string returns; bytes work as well
                        got = dio.import_dobs_string(s if case.get('str_arg') else s.encode(), **kw)
                    else:
                        dio.write_dobs(obs, os.path.join(d, 'f'), 'nm', gz=case['gz'], **wkw)
                        got = dio.read_dobs(os.path.join(d, 'f'), gz=case['gz'], **kw)
                    if meta:
                        if not isinstance(got, dict) or 'obsdata' not in got:
                            probs.append(('violation', 'full-output', 'full_output=True did not return the documented dictionary'))
                            return probs
                        got = got['obsdata']
                        kw.pop('full_output')
                else:
                    wkw = {}
                    if case.get('meta'):
                        wkw = {'spec': 'x', 'origin': 'somewhere', 'symbol': ['sym%d' % i for i in range(len(obs))], 'enstag': 'tg'}
                    dio.write_pobs(obs, os.path.join(d, 'f'), 'nm', gz=case['gz'], **wkw)
                    got = dio.read_pobs(os.path.join(d, 'f'), gz=case['gz'], separator_insertion=1, **({'full_output': True} if case.get('meta') else {}))
                    if case.get('meta'):
                        got = got['obsdata']
            except Exception as e:
                probs.append(('violation', 'roundtrip-exception:' + fmt, '%s: %s' % (type(e).__name__, str(e)[:200])))
                return probs
            # the documented treatment of the replica separator: the file stores the chain name without '|';
            # the reader re-inserts it according to the mode
            if fmt == 'dobs':
                def expected_name(n):
                    stored = n.replace('|', '')
                    if si == 'true':
                        # documented: the separator goes after the ensemble tag written to the file, if that tag is a
                        # prefix of the stored name (with an alternative enstag it usually is not)
                        tag = (wkw.get('enstags') or {}).get(n.split('|')[0], n.split('|')[0])
                        # (a chain called exactly like its ensemble has nothing after the tag and keeps its name)
                        return (stored[:len(tag)] + '|' + stored[len(tag):]) if stored.startswith(tag) and len(stored) > len(tag) else stored
                    if si == 'int':
                        k = kw['separator_insertion']
                        return stored[:k] + '|' + stored[k:]
                    if si == 'str':
                        return stored.replace('r', '|r')
                    return stored
                chains = sorted(set(n for o in obs for n in o.names if n not in o.covobs))
                ren = {n: expected_name(n) for n in chains}
                if any(ren[n] != n for n in chains):
                    for i, (a, b) in enumerate(zip(obs, got)):
                        # a chain on which every written number is 0 is indistinguishable from "not measured"
                        an = [n for n in a.names if n not in a.covobs and np.any(np.asarray(a.deltas[n]) + (a.r_values[n] - a.value) != 0)]
                        bn = [n for n in b.names if n not in b.covobs]
                        if sorted(ren[n] for n in an) != sorted(bn):
                            probs.append(('violation', 'separator-treatment', 'mode %r: chains %r, documented %r' % (kw.get('separator_insertion', True), bn, sorted(ren[n] for n in an))))
                            break
                        for n in an:
                            sa = np.asarray(a.deltas[n]) + a.r_values[n]
                            m = ren[n]
                            keep = [k_ for k_, v in enumerate(np.asarray(a.deltas[n]) + (a.r_values[n] - a.value)) if v != 0]
                            sb = np.asarray(b.deltas[m]) + b.r_values[m]
                            if list(np.asarray(a.idl[n])[keep]) != list(b.idl[m]) or np.max(np.abs(sa[keep] - sb)) > 1e-10 * max(1.0, np.max(np.abs(sa))):
                                probs.append(('violation', 'separator-treatment-data', 'chain %s -> %s' % (n, m)))
                                break
                    return probs
            diffs, known = compare(obs, got, fmt, drops_allowed=(fmt == 'dobs'))
            if diffs:
                probs.append(('violation', 'roundtrip:' + fmt, diffs[:4]))
            elif known:
                probs.append(('violation', 'dobs-drops-sample-equal-to-central-value', 'configurations whose sample equals the central value are written as 0 = "not measured" and dropped: %r' % (known[:2],)))
            elif case.get('analyse'):
                for a, b in zip(obs, got):
                    try:
                        a.gamma_method()
                        b.gamma_method()
                    except Exception:
                        continue
                    if not close(a.dvalue, b.dvalue, rtol=1e-10):
                        probs.append(('violation', 'analysis-differs-after-roundtrip', '%r vs %r' % (a.dvalue, b.dvalue)))
                        break
            # table model: which configurations survive
            if ctx.lean is not None and fmt == 'dobs':
                from lean import f2b, b2f
                for i, o in enumerate(obs):
                    for n in [x for x in o.names if x not in o.covobs]:
                        off = float(o.r_values[n] - o.value)
                        nums = [float(dd + off) for dd in o.deltas[n]]
                        # the rows of the table: merged configurations of every observable that has this replica
                        merged = sorted(set(int(c) for oo in obs if n in oo.idl and n not in oo.covobs for c in oo.idl[n]))
                        rr = ctx.lean.call({'op': 'dobs', 'idl': [int(c) for c in o.idl[n]], 'nums': [f2b(v) for v in nums],
                                            'merged': merged, 'value': f2b(float(o.value))})
                        if '_err' in rr:
                            probs.append(('disagree', 'lean-driver-error', rr['_err']))
                            break
                        exp_keep = [int(c) for c, v in zip(o.idl[n], nums) if v != 0]
                        if rr['kept'] != exp_keep:
                            probs.append(('disagree', 'table-model', 'model keeps %r' % (rr['kept'][:6],)))
                        if i < len(got) and n in got[i].idl:
                            if list(got[i].idl[n]) != rr['kept']:
                                probs.append(('disagree', 'model-vs-impl-kept-configs', '%s: impl %r model %r' % (n, list(got[i].idl[n])[:8], rr['kept'][:8])))
                            else:
                                gs = [float(x) + float(got[i].r_values[n]) for x in got[i].deltas[n]]
                                ms = [b2f(x) for x in rr['samples']]
                                sc = max([1.0] + [abs(x) for x in ms])
                                if any(abs(a - b) > 1e-11 * sc for a, b in zip(gs, ms)):
                                    probs.append(('disagree', 'model-vs-impl-samples', '%s: impl %r model %r' % (n, gs[:4], ms[:4])))
    finally:
        shutil.rmtree(d, ignore_errors=True)
    return probs


def gen_case(ctx):
    rng = ctx.rng
    fmt = rng.choice(['dobs', 'dobs', 'dobs', 'pobs'])
    ens = rng.sample(rng.choice([['A', 'B'], ['A', 'B'], ['ens', 'Ab'], ['Bq', 'A']]), rng.choice([1, 1, 2])) if fmt == 'dobs' else ['A']
    case = {'fmt': fmt, 'seed': rng.getrandbits(28), 'ens': sorted(ens), 'nrep': {e: rng.choice([1, 2, 3]) for e in ens}, 'n': rng.randint(1, 4),
            'subsets': fmt == 'dobs' and rng.random() < 0.6, 'data': rng.choice(['real', 'real', 'count']), 'gz': rng.random() < 0.5,
            'via': rng.choice(['string', 'file']), 'sep': rng.choice(['true', 'true', 'true', 'int', 'str', 'none', 'false']), 'sep_k': rng.choice([1, 1, 2, 3]), 'analyse': rng.random() < 0.3}
    if fmt == 'dobs':
        case['str_arg'] = rng.random() < 0.4
        one = [e for e in ens if case['nrep'][e] == 1]
        if one and rng.random() < 0.25:
            case['bare'] = rng.choice(sorted(one))
        case['cov'] = rng.choice([None, None, 1, 2, 3])
        case['cancel'] = rng.random() < 0.5
        case['mean_hit'] = case['data'] == 'count' and rng.random() < 0.15
        if rng.random() < 0.35 and any(v > 1 for v in case['nrep'].values()):
            case['frozen'] = rng.choice([0.0, 0.0, 0.0, 1.0, 2.0, -1.0])
    case['meta'] = rng.choice([None, None, 'plain', 'enstags'])
    if fmt == 'dobs' and rng.random() < 0.08:
        case['cov_conflict'] = rng.choice([2.5e-9, 1e-12, 0.04, 1.0, 1e6])
        case['cov_rel'] = rng.choice([3.0, 0.3, 1e-3, 1e-7])
        case['cov'] = rng.choice([1, 2])
    if fmt == 'pobs':
        case['pobs_kind'] = rng.choice(['primary', 'primary', 'derived', 'mixed'])
        case['sep_k'] = rng.choice([1, 1, 1, 2, 0])
        if case['pobs_kind'] == 'mixed':
            case['n'] = rng.randint(2, 4)
    return case


def run(ctx):
    n = ctx.budget(250, 5000)
    corpus = os.path.join(os.path.dirname(os.path.dirname(os.path.dirname(os.path.abspath(__file__)))), 'corpus', 'C12')
    cases = []
    if os.path.isdir(corpus):
        for fn in sorted(os.listdir(corpus)):
            cases.append(json.load(open(os.path.join(corpus, fn)))['case'])
    for _ in range(n):
        cases.append(gen_case(ctx))
    for case in cases:
        ctx.count('fmt=' + case['fmt'])
        ctx.count('data=' + case['data'])
        ctx.count('sep=' + case['sep'])
        if case.get('frozen') is not None:
            ctx.count('frozen=%r' % case['frozen'])
        ctx.case(case)
        for (kind, key, info) in check_case(ctx, case):
            (ctx.violation if kind == 'violation' else ctx.disagree)(key, {'case': case, 'info': info})
        if len([v for v in ctx.violations if v[0] not in ('dobs-drops-sample-equal-to-central-value', 'pobs-central-value-of-derived-observable')]) + len(ctx.disagreements) > 25:
            break
