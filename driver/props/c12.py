"""C12 - dobs / pobs XML export and import are mutually inverse.

impl   = pyerrors.input.dobs (create_dobs_string / import_dobs_string, write_dobs / read_dobs,
         write_pobs / read_pobs)
model  = PV.Model.Dobs (op "dobs"): the per-replica table with `0` meaning "not measured"
oracle = the statement: every observable of the list comes back with its central value, chains,
         configuration numbers, per-configuration samples and covariance gradients (this file)

Known finding (format-inherent): a sample whose written number delta + (r - value) is exactly 0 is
indistinguishable from "not measured" and is dropped on import.
"""
import json
import os
import shutil
import tempfile
import warnings
from pe_util import np, pe, gen_idl, gen_data, close, quiet
import pyerrors.input.dobs as dio

RULE = ('lists of 1-4 observables on 1-2 ensembles x 1-3 replicas, each on its own subset of the configurations and replicas; '
        'range / strided / irregular idl; covariance inputs of dimension 1-3 incl. exactly cancelling gradients; real-valued and '
        'count-like data (zeros, samples equal to the mean); gz on/off; separator_insertion True / int / str; pobs on common layouts. '
        'non-trivial = distinct case.')
TRUSTED = ['lxml / gzip containers', "'%1.16e' / '%1.14e' text conversion of doubles (covariances carry 15 digits)"]
ASSUMPTIONS = ['samples compared at 1e-13 of the data scale, covariance matrices and gradients at 1e-13 (15 printed digits)']


def build_list(case):
    rng = __import__('random').Random(case['seed'])
    nprng = np.random.default_rng(case['seed'])
    layout = {}
    for e in case['ens']:
        for r in range(case['nrep'][e]):
            layout['%s|r%d' % (e, r + 1)] = list(gen_idl(rng, rng.randint(8, 16), rng.choice(['contig', 'strided', 'irregular'])))
    obs = []
    cov = None
    if case.get('cov'):
        dim = case['cov']
        cov = pe.cov_Obs(list(0.2 + 0.1 * np.arange(dim)), (np.eye(dim) * 0.04 + 0.01) if dim > 1 else 0.04, 'cv%d' % dim)
        if dim == 1:
            cov = [cov]
    for i in range(case['n']):
        o = None
        for e in case['ens']:
            names = [n for n in layout if n.startswith(e + '|')]
            if case['subsets'] and len(names) > 1 and rng.random() < 0.5:
                names = sorted(rng.sample(names, rng.randint(1, len(names))))
            if case['subsets'] and len(case['ens']) > 1 and i > 0 and rng.random() < 0.3:
                continue
            samples, idl = [], []
            for n in names:
                il = layout[n]
                if case['subsets']:
                    k = rng.choice(['all', 'prefix', 'random', 'stride'])
                    il = {'all': il, 'prefix': il[:max(5, len(il) * 2 // 3)], 'random': sorted(rng.sample(il, max(5, len(il) - 3))),
                          'stride': il[::2] if len(il[::2]) >= 5 else il}[k]
                if case['data'] == 'count':
                    x = nprng.integers(0, 3, size=len(il)).astype(float)
                    if case.get('mean_hit') and len(il) % 2 == 0:
                        x = np.array([0.0, 2.0] * (len(il) // 2))      # mean 1.0 ... and then one sample equal to it
                        x[0] = 1.0
                        x[1] = 1.0
                else:
                    x = gen_data(rng, nprng, len(il), 'white') + 1.3
                if case.get('frozen') and n == names[-1] and len(names) > 1:
                    # measured on this replica, but every sample identical (a frozen charge): still measured
                    x = np.full(len(il), float(case['frozen']))
                samples.append(x)
                idl.append(il)
            b = pe.Obs(samples, names, idl=idl)
            o = b if o is None else o + b
        if o is None:
            e = case['ens'][0]
            n0 = [n for n in layout if n.startswith(e + '|')][0]
            o = pe.Obs([gen_data(rng, nprng, len(layout[n0]), 'white') + 1.3], [n0], idl=[layout[n0]])
        if cov:
            if case.get('cancel') and len(cov) >= 3:
                o = o + cov[0] - cov[2]
            else:
                o = o + sum(0.1 * (i + 1) * (k + 1) * c for k, c in enumerate(cov))
        obs.append(o)
    return obs


def table(o):
    return {n: {int(c): float(d + o.r_values[n]) for c, d in zip(o.idl[n], o.deltas[n])} for n in o.names if n not in o.covobs}


def written_zero(o, n):
    """configurations whose written number delta + (r - value) is exactly zero"""
    off = o.r_values[n] - o.value
    return {int(c) for c, d in zip(o.idl[n], o.deltas[n]) if d + off == 0}


def compare(orig, got, what, drops_allowed):
    """returns (list of differences, list of known-finding drops)"""
    out, known = [], []
    if len(orig) != len(got):
        return ['%s: %d observables, expected %d' % (what, len(got), len(orig))], known
    for i, (a, b) in enumerate(zip(orig, got)):
        scale = max([1.0, abs(a.value)] + [abs(v) for t in table(a).values() for v in t.values()])
        if not close(float(a.value), float(b.value), rtol=1e-14, scale=scale):
            out.append('%s[%d]: value %r vs %r' % (what, i, float(b.value), float(a.value)))
        ta, tb = table(a), table(b)
        for n in ta:
            expd = dict(ta[n])
            dropped = written_zero(a, n) if drops_allowed else set()
            if n not in tb:
                if dropped and len(dropped) == len(expd):
                    known.append((i, n, sorted(dropped)))
                    continue
                out.append('%s[%d]: chain %s missing (chains %r)' % (what, i, n, sorted(tb)))
                continue
            missing = set(expd) - set(tb[n])
            extra = set(tb[n]) - set(expd)
            if extra:
                out.append('%s[%d]: %s has configurations %r that were never measured' % (what, i, n, sorted(extra)[:5]))
            if missing:
                if missing <= dropped:
                    known.append((i, n, sorted(missing)))
                else:
                    out.append('%s[%d]: %s lost configurations %r' % (what, i, n, sorted(missing - dropped)[:6]))
            for c in set(expd) & set(tb[n]):
                if not close(tb[n][c], expd[c], rtol=2e-14, scale=scale):
                    out.append('%s[%d]: %s config %d sample %r vs %r' % (what, i, n, c, tb[n][c], expd[c]))
                    break
        for n in tb:
            if n not in ta:
                out.append('%s[%d]: unexpected chain %s' % (what, i, n))
        # covariance inputs
        for cn in a.covobs:
            ga = np.asarray(a.covobs[cn].grad, dtype=float).ravel()
            if cn not in b.covobs:
                if np.any(ga != 0):
                    out.append('%s[%d]: covariance input %s lost (gradient %r)' % (what, i, cn, ga))
                continue
            gb = np.asarray(b.covobs[cn].grad, dtype=float).ravel()
            if ga.shape != gb.shape or np.max(np.abs(ga - gb)) > 1e-13 * max(1.0, np.max(np.abs(ga))):
                out.append('%s[%d]: gradient of %s %r vs %r' % (what, i, cn, gb, ga))
            ca, cb = np.atleast_2d(a.covobs[cn].cov), np.atleast_2d(b.covobs[cn].cov)
            if ca.shape != cb.shape or np.max(np.abs(ca - cb)) > 1e-13 * np.max(np.abs(ca)):
                out.append('%s[%d]: covariance matrix of %s differs' % (what, i, cn))
        for cn in b.covobs:
            if cn not in a.covobs:
                out.append('%s[%d]: unexpected covariance input %s' % (what, i, cn))
    return out, known


def check_case(ctx, case):
    probs = []
    obs = build_list(case)
    d = tempfile.mkdtemp(prefix='c12_', dir='/dev/shm' if os.path.isdir('/dev/shm') else None)
    try:
        with warnings.catch_warnings(), quiet():
            warnings.simplefilter('ignore')
            fmt = case['fmt']
            try:
                if fmt == 'dobs':
                    si = case['sep']
                    kw = {}
                    if si == 'int':
                        kw['separator_insertion'] = case.get('sep_k', 1)
                    elif si == 'str':
                        kw['separator_insertion'] = 'r'
                    elif si == 'none':
                        kw['separator_insertion'] = None
                    # the documented optional arguments are descriptive metadata: the numbers must not depend on them
                    wkw = {}
                    meta = case.get('meta')
                    if meta:
                        enss = sorted(set(n.split('|')[0] for o in obs for n in o.names if n not in o.covobs))
                        wkw = {'spec': 'dobs v1.0', 'origin': 'somewhere', 'symbol': ['sym%d' % i for i in range(len(obs))], 'who': 'me'}
                        if meta == 'enstags' and enss:
                            wkw['enstags'] = {enss[0]: 'tag_' + enss[0]}
                        kw['full_output'] = True
                    if case['via'] == 'string':
                        s = dio.create_dobs_string(obs, 'nm', **wkw)
                        got = dio.import_dobs_string(s.encode(), **kw)
                    else:
                        dio.write_dobs(obs, os.path.join(d, 'f'), 'nm', gz=case['gz'], **wkw)
                        got = dio.read_dobs(os.path.join(d, 'f'), gz=case['gz'], **kw)
                    if meta:
                        if not isinstance(got, dict) or 'obsdata' not in got:
                            probs.append(('violation', 'full-output', 'full_output=True did not return the documented dictionary'))
                            return probs
                        got = got['obsdata']
                        kw.pop('full_output')
                else:
                    wkw = {}
                    if case.get('meta'):
                        wkw = {'spec': 'x', 'origin': 'somewhere', 'symbol': ['sym%d' % i for i in range(len(obs))], 'enstag': 'tg'}
                    dio.write_pobs(obs, os.path.join(d, 'f'), 'nm', gz=case['gz'], **wkw)
                    got = dio.read_pobs(os.path.join(d, 'f'), gz=case['gz'], separator_insertion=1, **({'full_output': True} if case.get('meta') else {}))
                    if case.get('meta'):
                        got = got['obsdata']
            except Exception as e:
                probs.append(('violation', 'roundtrip-exception:' + fmt, '%s: %s' % (type(e).__name__, str(e)[:200])))
                return probs
            # the documented treatment of the replica separator: the file stores the chain name without '|';
            # the reader re-inserts it according to the mode
            if fmt == 'dobs':
                def expected_name(n):
                    stored = n.replace('|', '')
                    if si == 'true':
                        # documented: the separator goes after the ensemble tag written to the file, if that tag is a
                        # prefix of the stored name (with an alternative enstag it usually is not)
                        tag = (wkw.get('enstags') or {}).get(n.split('|')[0], n.split('|')[0])
                        return (stored[:len(tag)] + '|' + stored[len(tag):]) if stored.startswith(tag) else stored
                    if si == 'int':
                        k = kw['separator_insertion']
                        return stored[:k] + '|' + stored[k:]
                    if si == 'str':
                        return stored.replace('r', '|r')
                    return stored
                chains = sorted(set(n for o in obs for n in o.names if n not in o.covobs))
                ren = {n: expected_name(n) for n in chains}
                if any(ren[n] != n for n in chains):
                    for i, (a, b) in enumerate(zip(obs, got)):
                        # a chain on which every written number is 0 is indistinguishable from "not measured"
                        an = [n for n in a.names if n not in a.covobs and np.any(np.asarray(a.deltas[n]) + (a.r_values[n] - a.value) != 0)]
                        bn = [n for n in b.names if n not in b.covobs]
                        if sorted(ren[n] for n in an) != sorted(bn):
                            probs.append(('violation', 'separator-treatment', 'mode %r: chains %r, documented %r' % (kw.get('separator_insertion', True), bn, sorted(ren[n] for n in an))))
                            break
                        for n in an:
                            sa = np.asarray(a.deltas[n]) + a.r_values[n]
                            m = ren[n]
                            keep = [k_ for k_, v in enumerate(np.asarray(a.deltas[n]) + (a.r_values[n] - a.value)) if v != 0]
                            sb = np.asarray(b.deltas[m]) + b.r_values[m]
                            if list(np.asarray(a.idl[n])[keep]) != list(b.idl[m]) or np.max(np.abs(sa[keep] - sb)) > 1e-10 * max(1.0, np.max(np.abs(sa))):
                                probs.append(('violation', 'separator-treatment-data', 'chain %s -> %s' % (n, m)))
                                break
                    return probs
            diffs, known = compare(obs, got, fmt, drops_allowed=(fmt == 'dobs'))
            if diffs:
                probs.append(('violation', 'roundtrip:' + fmt, diffs[:4]))
            elif known:
                probs.append(('violation', 'dobs-drops-sample-equal-to-central-value', 'configurations whose sample equals the central value are written as 0 = "not measured" and dropped: %r' % (known[:2],)))
            elif case.get('analyse'):
                for a, b in zip(obs, got):
                    try:
                        a.gamma_method()
                        b.gamma_method()
                    except Exception:
                        continue
                    if not close(a.dvalue, b.dvalue, rtol=1e-10):
                        probs.append(('violation', 'analysis-differs-after-roundtrip', '%r vs %r' % (a.dvalue, b.dvalue)))
                        break
            # table model: which configurations survive
            if ctx.lean is not None and fmt == 'dobs':
                from lean import f2b, b2f
                for i, o in enumerate(obs):
                    for n in [x for x in o.names if x not in o.covobs]:
                        off = float(o.r_values[n] - o.value)
                        nums = [float(dd + off) for dd in o.deltas[n]]
                        # the rows of the table: merged configurations of every observable that has this replica
                        merged = sorted(set(int(c) for oo in obs if n in oo.idl and n not in oo.covobs for c in oo.idl[n]))
                        rr = ctx.lean.call({'op': 'dobs', 'idl': [int(c) for c in o.idl[n]], 'nums': [f2b(v) for v in nums],
                                            'merged': merged, 'value': f2b(float(o.value))})
                        if '_err' in rr:
                            probs.append(('disagree', 'lean-driver-error', rr['_err']))
                            break
                        exp_keep = [int(c) for c, v in zip(o.idl[n], nums) if v != 0]
                        if rr['kept'] != exp_keep:
                            probs.append(('disagree', 'table-model', 'model keeps %r' % (rr['kept'][:6],)))
                        if i < len(got) and n in got[i].idl:
                            if list(got[i].idl[n]) != rr['kept']:
                                probs.append(('disagree', 'model-vs-impl-kept-configs', '%s: impl %r model %r' % (n, list(got[i].idl[n])[:8], rr['kept'][:8])))
                            else:
                                gs = [float(x) + float(got[i].r_values[n]) for x in got[i].deltas[n]]
                                ms = [b2f(x) for x in rr['samples']]
                                sc = max([1.0] + [abs(x) for x in ms])
                                if any(abs(a - b) > 1e-11 * sc for a, b in zip(gs, ms)):
                                    probs.append(('disagree', 'model-vs-impl-samples', '%s: impl %r model %r' % (n, gs[:4], ms[:4])))
    finally:
        shutil.rmtree(d, ignore_errors=True)
    return probs


def gen_case(ctx):
    rng = ctx.rng
    fmt = rng.choice(['dobs', 'dobs', 'dobs', 'pobs'])
    ens = rng.sample(rng.choice([['A', 'B'], ['A', 'B'], ['ens', 'Ab'], ['Bq', 'A']]), rng.choice([1, 1, 2])) if fmt == 'dobs' else ['A']
    case = {'fmt': fmt, 'seed': rng.getrandbits(28), 'ens': sorted(ens), 'nrep': {e: rng.choice([1, 2, 3]) for e in ens}, 'n': rng.randint(1, 4),
            'subsets': fmt == 'dobs' and rng.random() < 0.6, 'data': rng.choice(['real', 'real', 'count']), 'gz': rng.random() < 0.5,
            'via': rng.choice(['string', 'file']), 'sep': rng.choice(['true', 'true', 'int', 'str', 'none']), 'sep_k': rng.choice([1, 1, 2, 3]), 'analyse': rng.random() < 0.3}
    if fmt == 'dobs':
        case['cov'] = rng.choice([None, None, 1, 2, 3])
        case['cancel'] = rng.random() < 0.5
        case['mean_hit'] = case['data'] == 'count' and rng.random() < 0.15
        if rng.random() < 0.2 and any(v > 1 for v in case['nrep'].values()):
            case['frozen'] = rng.choice([0.0, 1.0, 2.0, -1.0])
    case['meta'] = rng.choice([None, None, 'plain', 'enstags'])
    return case


def run(ctx):
    n = ctx.budget(250, 5000)
    corpus = os.path.join(os.path.dirname(os.path.dirname(os.path.dirname(os.path.abspath(__file__)))), 'corpus', 'C12')
    cases = []
    if os.path.isdir(corpus):
        for fn in sorted(os.listdir(corpus)):
            cases.append(json.load(open(os.path.join(corpus, fn)))['case'])
    for _ in range(n):
        cases.append(gen_case(ctx))
    for case in cases:
        ctx.count('fmt=' + case['fmt'])
        ctx.count('data=' + case['data'])
        ctx.count('sep=' + case['sep'])
        ctx.case(case)
        for (kind, key, info) in check_case(ctx, case):
            (ctx.violation if kind == 'violation' else ctx.disagree)(key, {'case': case, 'info': info})
        if len([v for v in ctx.violations if v[0] != 'dobs-drops-sample-equal-to-central-value']) + len(ctx.disagreements) > 25:
            break
