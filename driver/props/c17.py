"""C17 - file readers return exactly the stored numbers at the right configurations.
(also the machinery for C18: see props/c18.py)

impl   = pyerrors.input.openQCD.read_rwms / read_qtop / _extract_flowed_energy_density / read_ms5_xsf,
         pyerrors.input.sfcf.read_sfcf
model  = PV.Model.Bytes (record structure, configuration renumbering and selection) via ops
         "readfile" / "renumber"
oracle = the writer's own record of what it stored (driver/files/writers.py): every number is
         distinct and encodes (replica, configuration, slot)
"""
import json
import math
import os
import random as _random
import shutil
import struct
import tempfile
import warnings
from pe_util import np, pe, close, quiet
from files import writers as W

RULE = ('synthetic file sets: rwms 1.4 / 1.6 / 2.0, openQCD ms.dat (read_qtop, flowed energy density), sfqcd gfms.dat, ms5_xsf, sfcf '
        'compact / separate / appended; 1-3 replicas (numbers with differing digit counts, e.g. r2 and r10), 5-30 configurations, '
        'arbitrary first configuration and spacing, 1-3 factors / sources / flow times / timeslices / correlators; r_start / r_stop / '
        'r_step / idl / files / names selections; directory listings shuffled. non-trivial = distinct file set + selection.')
TRUSTED = ['struct / numpy conversions of doubles (bit exact)', 'the regular-expression engine for sfcf names beyond literal patterns']
ASSUMPTIONS = ['reductions (source average of exp(-x), timeslice sums) compared at 1e-12', 'Hadrons hdf5 files are not generated (see DESIGN.md section 10)']

import pyerrors.input.openQCD as oq
import pyerrors.input.sfcf as sfin


def tab(o):
    return {n: {int(c): float(d + o.r_values[n]) for c, d in zip(o.idl[n], o.deltas[n])} for n in o.names if n not in o.covobs}


def cmp_tab(got, exp, what, rtol=1e-12):
    out = []
    if sorted(got) != sorted(exp):
        return ['%s: replica names %r, expected %r' % (what, sorted(got), sorted(exp))]
    for n in exp:
        if sorted(got[n]) != sorted(exp[n]):
            out.append('%s: configurations of %s %r..., expected %r...' % (what, n, sorted(got[n])[:8], sorted(exp[n])[:8]))
            continue
        for c in exp[n]:
            if not close(got[n][c], exp[n][c], rtol=rtol, scale=abs(exp[n][c])):
                out.append('%s: %s config %d holds %r, stored %r' % (what, n, c, got[n][c], exp[n][c]))
                break
    return out


class Shuffled:
    """make the operating system list directories in a random order"""

    def __init__(self, seed):
        self.rng = _random.Random(seed)

    def __enter__(self):
        self.walk, self.listdir = os.walk, os.listdir
        rng = self.rng

        def walk(*a, **k):
            for dp, dn, fn in self.walk(*a, **k):
                dn2, fn2 = list(dn), list(fn)
                rng.shuffle(dn2)
                rng.shuffle(fn2)
                dn[:] = dn2
                yield dp, dn, fn2

        def listdir(*a, **k):
            l = list(self.listdir(*a, **k))
            rng.shuffle(l)
            return l
        os.walk, os.listdir = walk, listdir
        return self

    def __exit__(self, *a):
        os.walk, os.listdir = self.walk, self.listdir


def renumbered(cfgs, thermal=True, need_dm_gt1=False):
    """the documented configuration numbering: trajectory number // spacing, shifted to start at 1"""
    dm = cfgs[-1] - cfgs[-2]
    cl = [c // dm for c in cfgs]
    if thermal and cl[0] > 1 and (dm > 1 or not need_dm_gt1):
        off = cl[0] - 1
        cl = [c - off for c in cl]
    return cl


def select(cl, rstart, rstop, rstep):
    i0 = 0 if rstart is None else cl.index(rstart)
    i1 = len(cl) - 1 if rstop is None else cl.index(rstop)
    return list(range(i0, i1 + 1))[::rstep]


def gen_reps(rng, nrep=None):
    nrep = nrep or rng.choice([1, 2, 3])
    nums = rng.sample([1, 2, 3, 9, 10, 11, 12], nrep)
    reps = {}
    for r in nums:
        n = rng.randint(12, 30)
        dm = rng.choice([1, 1, 2, 4, 10])
        first = rng.choice([1, 1, 2, 7, 30]) * dm
        if rng.random() < 0.15:
            first = rng.choice([0, dm // 2])      # first trajectory below the spacing: the stored configuration numbers start at 0
        reps[r] = [first + i * dm for i in range(n)]
    return reps


# --------------------------------------------------------------------------- formats

def gen_case(ctx, fmt=None):
    rng = ctx.rng
    if fmt is None and rng.random() < 0.08:
        n = rng.randint(4, 20)
        return {'fmt': 'fit_t0', 'seed': rng.getrandbits(24), 'n': n, 'zc': rng.choice([1, 2, n - 1, n - 2, rng.randint(1, n - 1)]) if n > 4 else rng.randint(1, n - 1),
                'fit_range': rng.choice([1, 2, 3, 5, 5, 8]), 'dt': rng.choice([1, 2, 4]), 'slope': rng.choice([1.0, 0.3, 4.0]), 'curv': rng.choice([0.0, 0.2, 0.5]),
                'noise': rng.choice([1e-3, 1e-4])}
    if fmt is None and rng.random() < 0.12:
        step = rng.choice([1, 1, 2, 5])
        start = rng.randint(1, 40)
        n = rng.randint(7, 14)
        regular = rng.random() < 0.7
        cfgs = [start + i * step for i in range(n)]
        if not regular:
            cfgs = sorted(set(cfgs[:3] + [c + 1 for c in cfgs[3:]] + [cfgs[-1] + step + 3]))
        c_ = {'fmt': 'hadrons', 'seed': rng.getrandbits(24), 'cfgs': cfgs, 'step': step, 'regular': regular, 'T': rng.choice([2, 3, 5]),
              'entry': rng.randrange(4), 'how': rng.choice(['meson', 'gammas', 'gammas', 'attrs', 'int']), 'part': rng.choice(['real', 'imag', 'complex']),
              'sel': rng.choice(['all', 'all', 'range', 'list']), 'shuffle': rng.getrandbits(20)}
        if rng.random() < 0.4:
            # the other Hadrons readers: external legs, bilinears, t0 from the flow observables
            nfl = rng.randint(4, 14)
            c_.update({'what': rng.choice(['leg', 'bilinear', 'fourquark', 't0', 't0']), 'nflow': nfl, 'zc': rng.choice([0, 1, nfl - 2, rng.randrange(nfl)]), 'fit_range': rng.choice([1, 2, 3, 5])})
        return c_
    fmt = fmt or rng.choice(['rwms14', 'rwms16', 'rwms20', 'qtop_openqcd', 'energy', 'qtop_sfqcd', 'ms5_xsf', 'sfcf_c', 'sfcf_o', 'sfcf_a'])
    case = {'fmt': fmt, 'reps': {str(k): v for k, v in gen_reps(rng).items()}, 'shuffle': rng.getrandbits(20)}
    reps = case['reps']
    if fmt.startswith('rwms'):
        nrw = rng.choice([1, 2, 3])
        case['nfct'] = [rng.choice([1, 2, 3]) if fmt != 'rwms14' else 1 for _ in range(nrw)]
        case['nsrc'] = [rng.choice([1, 2, 4]) for _ in range(nrw)]
    elif fmt in ('qtop_openqcd', 'energy'):
        case.update({'dn': rng.choice([1, 2, 9]), 'nn': rng.choice([2, 3, 5]), 'tmax': rng.choice([4, 6, 8]), 'eps': rng.choice([0.01, 0.02, 0.09]),
                     'L': rng.choice([4, 8, 12])})
        case['idx'] = rng.randint(0, case['nn'])       # requested flow index
        if fmt == 'energy' and rng.random() < 0.5:
            case['t0'] = rng.randrange(8)
            case['t0_range'] = rng.choice([1, 2, 3, 5])
        case['off'] = rng.choice([0.0, 0.0, 0.2, -0.2, 0.45, -0.45]) if case['idx'] > 0 else rng.choice([0.0, 0.2])
    elif fmt == 'qtop_sfqcd':
        case.update({'ncs': rng.choice([2, 4, 5]), 'tmax': rng.choice([4, 6]), 'L': rng.choice([4, 8]), 'cmax': rng.choice([0.4, 0.5, 0.3])})
        case['idx'] = rng.randint(0, case['ncs'])
        case['off'] = rng.choice([0.0, 0.0, 0.0, 0.2, -0.2, 0.45]) if case['idx'] > 0 else rng.choice([0.0, 0.2])
        if case['idx'] == case['ncs'] and case['off'] > 0:
            case['off'] = -0.2       # requests beyond cmax are refused by the reader
        case['sector'] = rng.choice([None, 0, 1, 2])
        if rng.random() < 0.4:
            # the lattice of the gradient-flow coupling: T = L (tmax = L + 1 stored timeslices), L in the norm table, c = 0.3 on the grid
            case['gf'] = True
            case['L'] = rng.choice([4, 6, 8])
            case['tmax'] = case['L'] + 1
            case['ncs'], case['cmax'] = rng.choice([(3, 0.3), (5, 0.5), (4, 0.4), (6, 0.6)])
            case['idx'] = min(case['idx'], case['ncs'])
            if case['idx'] == case['ncs'] and case['off'] > 0:
                case['off'] = -0.2
            if case['idx'] == 0 and case['off'] < 0:
                case['off'] = 0.0
    elif fmt == 'ms5_xsf':
        case.update({'tmax': rng.choice([3, 4, 6]), 'corr': rng.choice(W.PLACES_BI + W.PLACES_BB)})
    else:
        case.update({'T': rng.choice([2, 3, 4]), 'corrs': [['f_A', 'lquark lquark', 0, 0, False], ['f_A', 'lquark lquark', 1, 0, False],
                                                          ['f_1', 'lquark lquark', 0, 0, True], ['f_1', 'lquark lquark', 0, 1, True],
                                                          ['f_V', 'squark lquark', 0, 0, False]],
                     'want': rng.choice([0, 1, 2, 3, 4])})
        case['im'] = (case['want'] + case['T']) % 3 == 0
        case['im_form'] = [None, 'int', 'np'][(case['want'] + 2 * case['T']) % 3]
        case['multi'] = (case['want'] * 3 + case['T']) % 4 == 2
        case['ens_name'] = 'ens7' if (case['want'] + case['T']) % 4 == 1 else None
        if fmt != 'sfcf_a' and rng.random() < 0.25:
            case['multi_keys'] = [rng.choice(['fA_wf', 'f1_wf2']), rng.random() < 0.4]
        if fmt == 'sfcf_a':
            # the appended-layout reader only finds the FIRST [correlator] block of a file (it raises
            # "Did not find pattern" for later ones: an exception, outside this property) - request those
            case['want'] = rng.choice([0, 2, 4])
    # selection
    sel = {}
    if fmt.startswith('rwms') or fmt in ('qtop_openqcd', 'energy', 'qtop_sfqcd'):
        if rng.random() < 0.5:
            sel['r_start'] = True
        if rng.random() < 0.5:
            sel['r_stop'] = True
        if fmt.startswith('rwms') or fmt == 'energy':
            sel['r_step'] = rng.choice([1, 1, 2, 3])
        sel['pick'] = rng.getrandbits(16)
    if fmt == 'ms5_xsf' and rng.random() < 0.4:
        sel['idl'] = rng.getrandbits(16)
    if fmt in ('qtop_openqcd', 'qtop_sfqcd'):
        case['integer_charge'] = sel.get('pick', 0) % 3 == 0
    if rng.random() < 0.25:
        sel['names'] = True
    if (fmt.startswith('rwms') or fmt in ('qtop_openqcd', 'qtop_sfqcd', 'energy', 'ms5_xsf')) and rng.random() < 0.3:
        sel['files_order'] = rng.getrandbits(16)
    if fmt in ('sfcf_c', 'sfcf_o') and rng.random() < 0.5:
        sel['files'] = rng.getrandbits(16)
    case['sel'] = sel
    return case


def write_set(case, root):
    """returns dict with file bytes per replica and the stored numbers"""
    fmt = case['fmt']
    reps = {int(k): v for k, v in case['reps'].items()}
    info = {'files': {}, 'stored': {}}
    pre = 'ensA'
    for r, cfgs in reps.items():
        if fmt.startswith('rwms'):
            ver = {'rwms14': '1.4', 'rwms16': '1.6', 'rwms20': '2.0'}[fmt]
            b, st = W.rwms_bytes(ver, cfgs, case['nfct'], case['nsrc'], r)
            fn = '%sr%d.ms1.dat' % (pre, r)
        elif fmt in ('qtop_openqcd', 'energy'):
            b, st = W.msdat_bytes(cfgs, case['dn'], case['nn'], case['tmax'], case['eps'], r)
            fn = '%sr%d.ms.dat' % (pre, r)
        elif fmt == 'qtop_sfqcd':
            b, st = W.gfms_bytes(cfgs, 2, case['ncs'], case['tmax'], case['L'], case['cmax'], r)
            fn = '%sr%d.gfms.dat' % (pre, r)
        elif fmt == 'ms5_xsf':
            b, st = W.ms5xsf_bytes(cfgs, case['tmax'], r)
            fn = '%sr%d.ms5_xsf_dd.dat' % (pre, r)
        else:
            continue
        open(os.path.join(root, fn), 'wb').write(b)
        info['files'][r] = (fn, b)
        info['stored'][r] = st
    if fmt.startswith('sfcf'):
        info['exp'] = W.write_sfcf(os.path.join(root, 'data'), fmt[-1], 'data', reps, case['T'], [tuple(c) for c in case['corrs']])
    return info


def selection(case, reps_sorted, cls):
    """materialise r_start / r_stop / r_step from the case's selection seed"""
    sel = case['sel']
    rng = _random.Random(sel.get('pick', 0))
    rstart, rstop = [], []
    for r in reps_sorted:
        cl = cls[r]
        # keep at least five configurations after start / stop / step (the Obs constructor needs them)
        step = sel.get('r_step', 1)
        i0 = rng.randrange(0, max(1, len(cl) // 6)) if sel.get('r_start') else None
        i1 = rng.randrange(len(cl) - max(1, len(cl) // 6), len(cl)) if sel.get('r_stop') else None
        if str(r) in sel.get('r_stop_at', {}):
            i1 = min(sel['r_stop_at'][str(r)], len(cl) - 1)        # r_stop exactly at this record of this replica
        if len(list(range(i0 or 0, (i1 if i1 is not None else len(cl) - 1) + 1))[::step]) < 5:
            i0 = i1 = None
        rstart.append(None if i0 is None else cl[i0])
        rstop.append(None if i1 is None else cl[i1])
    step = sel.get('r_step', 1)
    if any(len(cls[r][::step]) < 5 for r in reps_sorted):
        step = 1
    return rstart, rstop, step


def sort_key(r):
    return r


def apply_files_order(ctx, case, info, rs, k2):
    """explicit `files=` list in an order of the caller's choosing: the per-replica arguments (r_start, r_stop, names) follow that
    order; the result is the same observable whatever the order"""
    fo = case['sel'].get('files_order')
    if fo is None or len(rs) < 2:
        return k2
    order = list(rs)
    _random.Random(fo).shuffle(order)
    if order == list(rs):
        order = order[::-1]
    pos = {r: i for i, r in enumerate(rs)}
    k3 = dict(k2)
    k3['files'] = [info['files'][r][0] for r in order]
    for key in ('r_start', 'r_stop', 'names'):
        if key in k3:
            k3[key] = [k3[key][pos[r]] for r in order]
    ctx.count('explicit-files-in-caller-order')
    if ctx.lean is not None:
        # the model of the assembly: chains sorted by name, each with the data of the file its name was derived from
        nm_ = k3.get('names') or ['ensA|r%d' % r for r in order]
        mr = ctx.lean.call({'op': 'assemblefiles', 'names': list(nm_), 'tags': [int(r) for r in order]})
        want_ = sorted(zip(nm_, [int(r) for r in order]))
        if '_err' in mr or [tuple(p_) for p_ in mr['pairs']] != want_:
            ctx.disagree('file-assembly-model', {'case': case, 'info': 'model %r vs expectation %r' % (mr, want_)})
    return k3


def read_and_expect(ctx, case, root, info):
    """returns list of (label, got_table, expected_table)"""
    fmt = case['fmt']
    reps = {int(k): v for k, v in case['reps'].items()}
    rs = sorted(reps)               # numeric order of replica numbers: r2 < r10
    names = {r: 'ensA|r%d' % r for r in rs}
    out = []
    kw = {}
    if case['sel'].get('names') and not fmt.startswith('sfcf'):
        names = {r: 'custom|r%d' % r for r in rs}
        kw['names'] = [names[r] for r in rs]
    with warnings.catch_warnings(), quiet(), Shuffled(case['shuffle']):
        warnings.simplefilter('ignore')
        if fmt.startswith('rwms'):
            ver = {'rwms14': '1.4', 'rwms16': '1.6', 'rwms20': '2.0'}[fmt]
            cls = {r: renumbered(reps[r], need_dm_gt1=True) for r in rs}
            rstart, rstop, rstep = selection(case, rs, cls)
            k2 = dict(kw)
            if any(x is not None for x in rstart):
                k2['r_start'] = rstart
            if any(x is not None for x in rstop):
                k2['r_stop'] = rstop
            if rstep != 1:
                k2['r_step'] = rstep
            res = oq.read_rwms(root, 'ensA', version=ver, **apply_files_order(ctx, case, info, rs, k2))
            for k in range(len(case['nsrc'])):
                exp = {}
                for r, s0, s1 in zip(rs, rstart, rstop):
                    idx = select(cls[r], s0, s1, rstep)
                    exp[names[r]] = {}
                    for i in idx:
                        c = reps[r][i]
                        facs = info['stored'][r][c][k]
                        v = 1.0
                        for lnr in facs:
                            v *= float(np.mean(np.exp(-np.asarray(lnr))))
                        exp[names[r]][cls[r][i]] = v
                out.append(('rwms factor %d' % k, tab(res[k]), exp))
            if fmt == 'rwms16' and 'names' not in kw:
                # the same record layout read as <psibar psi>: per factor the product over the Hasenbusch factors of the plain source
                # averages, configurations numbered 1, 2, ... in file order (the format of this reader carries no selection by number)
                import pyerrors.input.misc as pmisc
                pb = pmisc.read_pbp(root, 'ensA')
                for k in range(len(case['nsrc'])):
                    exp = {}
                    for r in rs:
                        exp[names[r]] = {}
                        for i, c in enumerate(reps[r]):
                            v = 1.0
                            for lnr in info['stored'][r][c][k]:
                                v *= float(np.mean(np.asarray(lnr)))
                            exp[names[r]][i + 1] = v
                    out.append(('read_pbp factor %d' % k, tab(pb[k]), exp))
        elif fmt == 'qtop_openqcd':
            cls = {r: renumbered(reps[r]) for r in rs}
            rstart, rstop, _ = selection(case, rs, cls)
            k2 = dict(kw)
            if any(x is not None for x in rstart):
                k2['r_start'] = rstart
            if any(x is not None for x in rstop):
                k2['r_stop'] = rstop
            # c chosen so that (c L)^2 / 8 / eps / dn is the requested index
            # request a smearing radius whose flow time is nearest to the stored index `idx` (on or off the grid)
            cc = math.sqrt(8 * (case['idx'] + case.get('off', 0.0)) * case['eps'] * case['dn']) / case['L']
            ic = bool(case.get('integer_charge'))
            if ic:
                k2['integer_charge'] = True      # documented: the charge of each configuration rounded to the nearest integer
            res = oq.read_qtop(root, 'ensA', cc, version='openQCD', L=case['L'], **apply_files_order(ctx, case, info, rs, k2))
            exp = {}
            tm, nn = case['tmax'], case['nn']
            for r, s0, s1 in zip(rs, rstart, rstop):
                idx = select(cls[r], s0, s1, 1)
                exp[names[r]] = {cls[r][i]: (lambda q: float(round(q)) if ic else q)(float(sum(info['stored'][r][reps[r][i]][2][case['idx'] * tm:(case['idx'] + 1) * tm]))) for i in idx}
            out.append(('read_qtop openQCD flow index %d' % case['idx'], tab(res), exp))
        elif fmt == 'energy':
            cls = {r: renumbered(reps[r]) for r in rs}
            rstart, rstop, rstep = selection(case, rs, cls)
            k2 = dict(kw)
            if any(x is not None for x in rstart):
                k2['r_start'] = rstart
            if any(x is not None for x in rstop):
                k2['r_stop'] = rstop
            if rstep != 1:
                k2['r_step'] = rstep
            xmin = 1
            E = oq._extract_flowed_energy_density(root, 'ensA', 1, xmin, case['L'], **apply_files_order(ctx, case, info, rs, k2))
            tm = case['tmax']
            keys = sorted(E)
            for n in range(case['nn'] + 1):
                exp = {}
                for r, s0, s1 in zip(rs, rstart, rstop):
                    idx = select(cls[r], s0, s1, rstep)
                    exp[names[r]] = {cls[r][i]: float(np.mean(info['stored'][r][reps[r][i]][1][n * tm + xmin:n * tm + tm - xmin])) / case['L'] ** 3 for i in idx}
                out.append(('energy density flow step %d' % n, tab(E[keys[n]]), exp))
            if case.get('t0') is not None and case['nn'] >= 3 and rstep == 1 and case['t0'] % 2 == 1:
                # extract_w0: root of t d/dt (t^2 <E(t)>) - c, the derivative by central differences (one-sided at the ends), then sqrt
                ft = keys
                t2E = [ft[n] ** 2 * E[ft[n]] for n in range(case['nn'] + 1)]
                W_ = [ft[0] * (t2E[1] - t2E[0]) / (ft[1] - ft[0])]
                W_ += [ft[i] * (t2E[i + 1] - t2E[i - 1]) / (ft[i + 1] - ft[i - 1]) for i in range(1, case['nn'])]
                W_ += [ft[-1] * (t2E[-1] - t2E[-2]) / (ft[-1] - ft[-2])]
                wv = [float(o.value) for o in W_]
                if all(wv[n] < wv[n + 1] for n in range(case['nn'])):
                    kz = 1 + (case['t0'] // 2) % (case['nn'] - 1)
                    cval = 0.5 * (wv[kz] + wv[kz + 1])
                    fr_ = max(1, min(case.get('t0_range', 2), kz))       # keep flow time 0 (no fluctuations there) out of the window
                    zc_ = next(n for n in range(case['nn'] + 1) if wv[n] - cval > 0)
                    if zc_ - fr_ > 0:
                        ctx.count('extract_w0')
                        w0 = oq.extract_w0(root, 'ensA', 1, xmin, case['L'], fit_range=fr_, c=cval, **k2)
                        lo_, hi_ = max(0, zc_ - fr_), min(case['nn'] + 1, zc_ + fr_)
                        ref = np.sqrt(line_root([ft[n] for n in range(lo_, hi_)], [W_[n] - cval for n in range(lo_, hi_)]))

                        def fl2_(o):
                            return {n_: {int(c_): float(d_) for c_, d_ in zip(o.idl[n_], o.deltas[n_])} for n_ in o.names}
                        ta, tb = fl2_(w0), fl2_(ref)
                        rel = max(abs(v) for t_ in tb.values() for v in t_.values())
                        bad = [n_ for n_ in tb if sorted(ta.get(n_, {})) != sorted(tb[n_]) or any(abs(ta[n_][c_] - tb[n_][c_]) > 1e-5 * rel for c_ in tb[n_])]
                        if bad or sorted(ta) != sorted(tb) or abs(float(w0.value) - float(ref.value)) > 1e-6 * abs(float(ref.value)):
                            ta['value'], tb['value'] = {0: float(w0.value)}, {0: float(ref.value)}
                            out.append(('extract_w0 (c=%r, fit_range %d)' % (cval, fr_), ta, tb))
            if case.get('t0') is not None and case['nn'] >= 2 and rstep == 1:
                # extract_t0: root of t^2 <E(t)> - c by the straight line through the flow times around the crossing; c is put between
                # two stored flow times, the expectation is built from the energy densities compared above
                kz = 1 + case['t0'] % (case['nn'] - 1) if case['nn'] > 2 else 1
                f_ = [keys[n] ** 2 * float(E[keys[n]].value) for n in range(case['nn'] + 1)]
                if all(f_[n] < f_[n + 1] for n in range(case['nn'])):
                    cval = 0.5 * (f_[kz] + f_[kz + 1]) if kz + 1 <= case['nn'] else 0.5 * (f_[kz - 1] + f_[kz])
                    fr_ = case.get('t0_range', 2)
                    zc0_ = next(n for n in range(case['nn'] + 1) if f_[n] - cval > 0)
                    if zc0_ - fr_ <= 0:
                        fr_ = max(1, zc0_ - 1)      # flow time 0 carries t^2 E - c = -c without fluctuations: a fit through it is refused
                    if zc0_ - fr_ <= 0:
                        return out
                    ctx.count('extract_t0')
                    t0 = oq.extract_t0(root, 'ensA', 1, xmin, case['L'], fit_range=fr_, c=cval, **k2)
                    zc_ = next(n for n in range(case['nn'] + 1) if f_[n] - cval > 0)
                    lo_, hi_ = max(0, zc_ - fr_), min(case['nn'] + 1, zc_ + fr_)
                    ref = line_root([keys[n] for n in range(lo_, hi_)], [keys[n] ** 2 * E[keys[n]] - cval for n in range(lo_, hi_)])
                    # central value and fluctuations by configuration number (the replica means of a non-linear function of data whose
                    # replica means differ are a second-order matter and depend on the route); the fit is iterative: minimiser precision
                    def fl_(o):
                        return {n_: {int(c_): float(d_) for c_, d_ in zip(o.idl[n_], o.deltas[n_])} for n_ in o.names}
                    ta, tb = fl_(t0), fl_(ref)
                    rel = max(abs(v) for t_ in tb.values() for v in t_.values())
                    bad = [n_ for n_ in tb if sorted(ta.get(n_, {})) != sorted(tb[n_]) or any(abs(ta[n_][c_] - tb[n_][c_]) > 1e-5 * rel for c_ in tb[n_])]
                    if bad or sorted(ta) != sorted(tb) or abs(float(t0.value) - float(ref.value)) > 1e-6 * abs(float(ref.value)):
                        ta['value'], tb['value'] = {0: float(t0.value)}, {0: float(ref.value)}
                        out.append(('extract_t0 (c=%r, fit_range %d)' % (cval, fr_), ta, tb))
        elif fmt == 'qtop_sfqcd':
            cls = {r: renumbered(reps[r]) for r in rs}
            rstart, rstop, _ = selection(case, rs, cls)
            k2 = dict(kw)
            if any(x is not None for x in rstart):
                k2['r_start'] = rstart
            if any(x is not None for x in rstop):
                k2['r_stop'] = rstop
            # a decimal literal such as 0.3 with cmax/ncs = 0.1 (quotient 2.9999999999999996) is a legitimate request
            cc = float(repr(round((case['idx'] + case.get('off', 0.0)) * case['cmax'] / case['ncs'], 6)))
            ic = bool(case.get('integer_charge'))
            if ic:
                k2['integer_charge'] = True
            res = oq.read_qtop(root, 'ensA', cc, version='sfqcd', **apply_files_order(ctx, case, info, rs, k2))
            exp = {}
            for r, s0, s1 in zip(rs, rstart, rstop):
                idx = select(cls[r], s0, s1, 1)
                exp[names[r]] = {cls[r][i]: (lambda q: float(round(q)) if ic else q)(float(sum(info['stored'][r][reps[r][i]][case['idx']][8]))) for i in idx}
            out.append(('read_qtop sfqcd c index %d' % case['idx'], tab(res), exp))
            if case.get('sector') is not None and not ic:
                # projection to a topological sector: 1 on the configurations whose charge rounds to the target, 0 elsewhere
                qs_ = sorted(q for t_ in exp.values() for q in t_.values())
                target = int(round(qs_[(case['sector'] * (len(qs_) - 1)) // 2]))
                k3 = {k_: v_ for k_, v_ in k2.items() if k_ != 'integer_charge'}
                sec = oq.read_qtop_sector(root, 'ensA', cc, target=target, version='sfqcd', **k3)
                out.append(('read_qtop_sector target %d' % target, tab(sec), {n_: {c_: (1.0 if round(q) == target else 0.0) for c_, q in t_.items()} for n_, t_ in exp.items()}))
            if case.get('gf'):
                # gradient-flow coupling at c = 0.3: t^2 (5/3 plaquette - 1/12 rectangle) / norm(L) from the Zeuthen-flow observables 6 and 7
                # on the middle timeslice
                normd = {4: 0.012341170468270, 6: 0.010162691462430, 8: 0.009031614807931}
                gi = int(round(0.3 / (case['cmax'] / case['ncs'])))
                tt = (0.3 * case['L']) ** 2 / 8
                k3 = {k_: v_ for k_, v_ in k2.items() if k_ != 'integer_charge'}
                gfc = oq.read_gf_coupling(root, 'ensA', 0.3, **k3)
                tm_ = case['tmax']
                expg = {}
                for r, s0, s1 in zip(rs, rstart, rstop):
                    idx = select(cls[r], s0, s1, 1)
                    expg[names[r]] = {cls[r][i]: tt * tt * (5 / 3 * info['stored'][r][reps[r][i]][gi][6][tm_ // 2] - 1 / 12 * info['stored'][r][reps[r][i]][gi][7][tm_ // 2]) / normd[case['L']] for i in idx}
                out.append(('read_gf_coupling', tab(gfc), expg))
        elif fmt == 'ms5_xsf':
            k2 = dict(kw)
            want = {r: list(reps[r]) for r in rs}
            # per-replicum lists (idl, names) follow the order of the files: the replica-number order of the automatic scan, or the
            # order of an explicit files= list
            files_sorted = list(rs)
            if case['sel'].get('files_order') is not None and len(rs) > 1:
                _random.Random(case['sel']['files_order']).shuffle(files_sorted)
                k2['files'] = [info['files'][r][0] for r in files_sorted]
                ctx.count('explicit-files-in-caller-order')
            if 'idl' in case['sel']:
                rg = _random.Random(case['sel']['idl'])
                want = {r: sorted(rg.sample(reps[r], max(5, len(reps[r]) - 3))) for r in rs}
                k2['idl'] = [want[r] for r in files_sorted]
            if 'names' in k2:
                k2['names'] = [names[r] for r in files_sorted]
            res = oq.read_ms5_xsf(root, 'ensA', 'dd', case['corr'], **k2)
            bb = case['corr'] in W.PLACES_BB
            T = 1 if bb else case['tmax']
            slices = [res] if bb else [res.content[t][0] for t in range(T)]
            for t in range(T):
                for part, sel_ in (('real', 0), ('imag', 1)):
                    exp = {names[r]: {c: info['stored'][r][c][case['corr']][t][sel_] for c in want[r]} for r in rs}
                    out.append(('ms5_xsf %s t=%d %s' % (case['corr'], t, part), tab(getattr(slices[t], part)), exp))
        else:
            lay = fmt[-1]
            nm, quarks, wf, wf2, bb = case['corrs'][case['want']]
            ver = {'c': '2.0c', 'o': '2.0', 'a': '2.0a'}[lay]
            k2 = {}
            want = {r: list(reps[r]) for r in rs}
            if lay in ('c', 'o') and case['sel'].get('files') is not None:
                rg = _random.Random(case['sel']['files'])
                fl = []
                for r in rs:
                    sub = rg.sample(reps[r], max(5, len(reps[r]) - rg.randint(0, 3)))     # unordered on purpose
                    want[r] = sorted(sub)
                    fl.append([('data_r%d_n%d' % (r, c)) if lay == 'c' else ('cfg%d' % c) for c in sub])
                k2['files'] = fl
            # real or imaginary part, optional alternative ensemble label
            part = 1 if case.get('im') else 0
            if case.get('im'):
                # the switch in any of the forms a truth value arrives in
                k2['im'] = {'int': 1, 'np': np.True_}.get(case.get('im_form'), True)
            ens = 'data_'
            if case.get('ens_name'):
                k2['ens_name'] = case['ens_name']
                ens = case['ens_name']
            if case.get('multi_keys'):
                # several keys of ONE correlator name in one call, listed in file order or not
                mk = case['multi_keys']
                if mk[0] == 'fA_wf':
                    wfl, wf2l, nm_, bb_ = ([0, 1] if mk[1] else [1, 0]), [0], 'f_A', False
                else:
                    wfl, wf2l, nm_, bb_ = [0], ([0, 1] if mk[1] else [1, 0]), 'f_1', True
                ret = sfin.read_sfcf_multi(os.path.join(root, 'data'), 'data', [nm_], quarks_list=['lquark lquark'], corr_type_list=['bb' if bb_ else 'bi'],
                                           noffset_list=[0], wf_list=wfl, wf2_list=wf2l, version=ver, silent=True, **k2)
                for w_ in wfl:
                    for w2_ in wf2l:
                        res = ret[nm_]['lquark lquark']['0'][str(w_)][str(w2_)]
                        e = info['exp'][(nm_, w_, w2_)]
                        for t in range(1 if bb_ else case['T']):
                            exp = {'%s|r%d' % (ens, r): {c: e[r][c][t][part] for c in want[r]} for r in rs}
                            out.append(('sfcf multi-keys %s %s wf=%d wf2=%d t=%d%s' % (lay, nm_, w_, w2_, t, ' im' if part else ''), tab(res[t]), exp))
                return out
            if case.get('multi'):
                # several correlators in one call, requested in another order than they are stored in the files
                ret = sfin.read_sfcf_multi(os.path.join(root, 'data'), 'data', ['f_1', 'f_A'], quarks_list=['lquark lquark'], corr_type_list=['bb', 'bi'],
                                           noffset_list=[0], wf_list=[0], wf2_list=[0], version=ver, silent=True, **k2)
                for nm_, bb_ in (('f_1', True), ('f_A', False)):
                    res = ret[nm_]['lquark lquark']['0']['0']['0']
                    e = info['exp'][(nm_, 0, 0)]
                    for t in range(1 if bb_ else case['T']):
                        exp = {'%s|r%d' % (ens, r): {c: e[r][c][t][part] for c in want[r]} for r in rs}
                        out.append(('sfcf multi %s %s t=%d%s' % (lay, nm_, t, ' im' if part else ''), tab(res[t]), exp))
                return out
            res = sfin.read_sfcf(os.path.join(root, 'data'), 'data', nm, quarks=quarks, wf=wf, wf2=wf2, version=ver, corr_type='bb' if bb else 'bi', **k2)
            e = info['exp'][(nm, wf, wf2)]
            T = 1 if bb else case['T']
            for t in range(T):
                exp = {'%s|r%d' % (ens, r): {c: e[r][c][t][part] for c in want[r]} for r in rs}
                out.append(('sfcf %s %s wf=%d wf2=%d t=%d%s' % (lay, nm, wf, wf2, t, ' im' if part else ''), tab(res[t]), exp))
    return out



# ---------------------------------------------------------------------------------------------
# Hadrons hdf5 files: read_hd5 / read_meson_hd5 (one file per configuration, one group entry per gamma pair)
# ---------------------------------------------------------------------------------------------
HAD_GAMMAS = [('Gamma5', 'Gamma5'), ('GammaX', 'Gamma5'), ('Gamma5', 'GammaX'), ('GammaT', 'GammaTGamma5')]


def hadrons_value(cfg, entry, t):
    # offsets chosen so that no entry is (nearly) zero: samples are compared relative to their size
    return complex(0.5137 + 0.0113 * cfg + 0.1071 * entry + 0.0031 * t * (entry + 1), 0.2137 + 0.0211 * cfg * (t + 1) + 0.0537 * entry)


def check_hadrons(ctx, case):
    import h5py
    import pyerrors.input.hadrons as had
    probs = []
    cfgs = list(case['cfgs'])
    T = case['T']
    root = tempfile.mkdtemp(prefix='c17h_', dir=os.environ.get('VERIF_TMP', '/dev/shm' if os.path.isdir('/dev/shm') else None))
    try:
        order = list(range(len(HAD_GAMMAS)))
        _random.Random(case['seed']).shuffle(order)          # the order of the entries inside the file is not guaranteed
        for c in cfgs:
            with h5py.File(os.path.join(root, 'data.%d.h5' % c), 'w') as f:
                g = f.create_group('meson')
                for e in order:
                    sub = g.create_group('meson_%d' % e)
                    sub.attrs['gamma_snk'] = np.array([HAD_GAMMAS[e][0].encode()])
                    sub.attrs['gamma_src'] = np.array([HAD_GAMMAS[e][1].encode()])
                    arr = np.zeros(T, dtype=[('re', '<f8'), ('im', '<f8')])
                    for t in range(T):
                        v = hadrons_value(c, e, t)
                        arr[t] = (v.real, v.imag)
                    sub.create_dataset('corr', data=arr)
        e = case['entry']
        want = cfgs
        kw = {}
        if case['sel'] == 'range' and case['regular']:
            want = cfgs[1:-1]
            kw['idl'] = range(want[0], want[-1] + 1, case['step'])
        elif case['sel'] == 'list':
            want = sorted(_random.Random(case['seed'] + 1).sample(cfgs, max(5, len(cfgs) - 3)))
            kw['idl'] = list(want)
        elif not case['regular']:
            kw['idl'] = list(cfgs)              # unevenly spaced files need an explicit idl (documented)
        how = case['how']
        with warnings.catch_warnings(), quiet(), Shuffled(case['shuffle']):
            warnings.simplefilter('ignore')
            try:
                if how == 'meson':
                    res = had.read_meson_hd5(root, 'data', 'ensH', meson='meson_%d' % e, **kw)
                    part = 'real'
                elif how == 'gammas':
                    res = had.read_meson_hd5(root, 'data', 'ensH', gammas=HAD_GAMMAS[e], **kw)
                    part = 'real'
                else:
                    part = case['part']
                    attrs = e if how == 'int' else {'gamma_snk': HAD_GAMMAS[e][0], 'gamma_src': HAD_GAMMAS[e][1]}
                    res = had.read_hd5(os.path.join(root, 'data'), 'ensH', 'meson', attrs=attrs, part=part, **kw)
            except Exception as ex:
                return [('violation', 'reader-exception:hadrons', '%s: %s' % (type(ex).__name__, str(ex)[:200]))]
        ctx.count('hadrons:%s:%s' % (how, case['sel']))
        if res.T != T:
            return [('violation', 'stored-numbers:hadrons', 'T %d vs %d' % (res.T, T))]
        for t in range(T):
            item = res.content[t][0]
            for comp, sel_ in (('real', lambda z: z.real), ('imag', lambda z: z.imag)):
                if part != 'complex' and part != comp:
                    continue
                o = getattr(item, comp) if part == 'complex' else item
                exp = {'ensH': {c: sel_(hadrons_value(c, e, t)) for c in want}}
                d = cmp_tab(tab(o), exp, 'hadrons %s entry %d t=%d %s' % (how, e, t, comp))
                if d:
                    probs.append(('violation', 'stored-numbers:hadrons', d[:2]))
                    return probs
    finally:
        shutil.rmtree(root, ignore_errors=True)
    return probs


def npr_value(cfg, e, si, sj, ci, cj):
    return complex(0.3137 + 0.0113 * cfg + 0.0171 * e + 0.0411 * si + 0.0057 * sj + 0.0023 * ci + 0.00071 * cj,
                   0.1137 + 0.0071 * cfg * (si + 1) + 0.0037 * e + 0.0019 * sj + 0.0007 * ci + 0.00031 * cj)


BILINEAR_NAMES = ['Gamma%d' % i for i in range(16)]
# four-quark vertices: name -> the (gammaA, gammaB) pairs whose entries are summed (all with sign +; the tensor-tilde structure,
# whose signs are a convention of the library, is stored but not requested)
_LI = ['X', 'Y', 'Z', 'T']
FQ_VERTICES = {
    'VV': [('Gamma' + i, 'Gamma' + i) for i in _LI], 'VA': [('Gamma' + i, 'Gamma' + i + 'Gamma5') for i in _LI],
    'AV': [('Gamma' + i + 'Gamma5', 'Gamma' + i) for i in _LI], 'AA': [('Gamma' + i + 'Gamma5', 'Gamma' + i + 'Gamma5') for i in _LI],
    'SS': [('Identity', 'Identity')], 'SP': [('Identity', 'Gamma5')], 'PS': [('Gamma5', 'Identity')], 'PP': [('Gamma5', 'Gamma5')],
    'TT': [('Sigma' + _LI[i] + _LI[j], 'Sigma' + _LI[i] + _LI[j]) for i in range(4) for j in range(i + 1, 4)]}
FQ_PAIRS = [pr for v in FQ_VERTICES.values() for pr in v] + [('SigmaXY', 'SigmaZT'), ('SigmaXZ', 'SigmaYT'), ('SigmaXT', 'SigmaYZ'), ('SigmaYZ', 'SigmaXT'), ('SigmaYT', 'SigmaXZ'), ('SigmaZT', 'SigmaXY')]
FQ_SHAPE = (2, 2, 1, 1, 2, 2, 1, 1)


def fq_value(cfg, e, ix):
    w = sum((k + 1) * 0.0137 * v for k, v in enumerate(ix))
    return complex(0.2137 + 0.0113 * cfg + 0.0171 * e + w, 0.1137 + 0.0071 * cfg * (ix[0] + 1) + 0.0037 * e + 0.5 * w)


def check_hadrons_npr(ctx, case):
    """the other Hadrons readers: ExternalLeg / Bilinear (spin x spin x colour x colour matrices of complex numbers per
    configuration, momenta in the attributes) and FlowObservables (t0 from the flow of an energy density)"""
    import h5py
    import pyerrors.input.hadrons as had
    probs = []
    cfgs = list(case['cfgs'])
    root = tempfile.mkdtemp(prefix='c17n_', dir=os.environ.get('VERIF_TMP', '/dev/shm' if os.path.isdir('/dev/shm') else None))
    ct = np.dtype([('re', '<f8'), ('im', '<f8')])
    nfl = case['nflow']
    times = [0.05 * (k + 1) for k in range(nfl)]
    zc = case['zc'] % (nfl - 1) + 1
    troot = 0.5 * (times[zc - 1] + times[zc])

    def flow_val(c, k, which):
        return 0.3 + 1.7 * (times[k] - troot) + 0.002 * math.sin(1.3 * c + 0.7 * k + which) + 0.0005 * which

    try:
        order = list(range(16))
        _random.Random(case['seed']).shuffle(order)
        fq_order = list(range(32))
        _random.Random(case['seed'] + 5).shuffle(fq_order)
        for c in cfgs:
            with h5py.File(os.path.join(root, 'data.%d.h5' % c), 'w') as f:
                g = f.create_group('ExternalLeg')
                arr = np.zeros((1, 1, 4, 4, 3, 3), dtype=ct)
                for si, sj, ci, cj in np.ndindex(4, 4, 3, 3):
                    v = npr_value(c, 99, si, sj, ci, cj)
                    arr[0, 0, si, sj, ci, cj] = (v.real, v.imag)
                g.create_dataset('corr', data=arr)
                info = g.create_group('info')
                info.attrs['pIn'] = np.array([b'1 2 0 3'])
                b = f.create_group('Bilinear')
                for slot, e in enumerate(order):
                    sub = b.create_group('Bilinear_%d' % slot)
                    arr = np.zeros((1, 1, 4, 4, 3, 3), dtype=ct)
                    for si, sj, ci, cj in np.ndindex(4, 4, 3, 3):
                        v = npr_value(c, e, si, sj, ci, cj)
                        arr[0, 0, si, sj, ci, cj] = (v.real, v.imag)
                    sub.create_dataset('corr', data=arr)
                    inf = sub.create_group('info')
                    inf.attrs['gamma'] = np.array([BILINEAR_NAMES[e].encode()])
                    inf.attrs['pIn'] = np.array([b'1 2 0 3'])
                    inf.attrs['pOut'] = np.array([b'0 1 1 2'])
                if case['what'] == 'fourquark':
                    fq = f.create_group('FourQuarkFullyConnected')
                    for slot, e in enumerate(fq_order):
                        sub = fq.create_group('FourQuarkFullyConnected_%d' % slot)
                        arr = np.zeros((1, 1) + FQ_SHAPE, dtype=ct)
                        for ix in np.ndindex(*FQ_SHAPE):
                            v = fq_value(c, e, ix)
                            arr[(0, 0) + ix] = (v.real, v.imag)
                        sub.create_dataset('corr', data=arr)
                        inf = sub.create_group('info')
                        inf.attrs['gammaA'] = np.array([FQ_PAIRS[e][0].encode()])
                        inf.attrs['gammaB'] = np.array([FQ_PAIRS[e][1].encode()])
                        inf.attrs['pIn'] = np.array([b'1 2 0 3'])
                        inf.attrs['pOut'] = np.array([b'0 1 1 2'])
                fl = f.create_group('FlowObservables')
                t_ = fl.create_group('FlowObservables_0')
                t_.attrs['description'] = np.array([b'Flow time'])
                t_.create_dataset('data', data=np.array(times))
                for which, (key, desc) in enumerate([('FlowObservables_3', b'Plaquette energy density'), ('FlowObservables_7', b'Clover energy density')]):
                    o_ = fl.create_group(key)
                    o_.attrs['description'] = np.array([desc])
                    o_.create_dataset('data', data=np.array([flow_val(c, k, which) for k in range(nfl)]))
        want = cfgs
        kw = {}
        if case['sel'] == 'range' and case['regular']:
            want = cfgs[1:-1]
            kw['idl'] = range(want[0], want[-1] + 1, case['step'])
        elif case['sel'] == 'list':
            want = sorted(_random.Random(case['seed'] + 1).sample(cfgs, max(5, len(cfgs) - 3)))
            kw['idl'] = list(want)
        elif not case['regular']:
            kw['idl'] = list(cfgs)
        what = case['what']
        ctx.count('hadrons-npr:%s:%s' % (what, case['sel']))
        with warnings.catch_warnings(), quiet(), Shuffled(case['shuffle']):
            warnings.simplefilter('ignore')
            try:
                if what == 'leg':
                    res = {'leg': had.read_ExternalLeg_hd5(root, 'data', 'ensH', **kw)}
                elif what == 'bilinear':
                    res = had.read_Bilinear_hd5(root, 'data', 'ensH', **kw)
                elif what == 'fourquark':
                    verts = _random.Random(case['seed'] + 7).sample(sorted(FQ_VERTICES), 3)
                    res = had.read_Fourquark_hd5(root, 'data', 'ensH', vertices=verts, **kw)
                else:
                    obsname = ['Plaquette energy density', 'Clover energy density'][case['entry'] % 2]
                    t0 = had.extract_t0_hd5(root, 'data', 'ensH', obs=obsname, fit_range=case['fit_range'], **kw)
            except Exception as ex:
                return [('violation', 'reader-exception:hadrons-npr', '%s: %s' % (type(ex).__name__, str(ex)[:200]))]
            if what == 't0':
                which = case['entry'] % 2
                fr = case['fit_range']
                lo, hi = max(0, zc - fr), min(nfl, zc + fr)
                ys_ = [pe.Obs([np.array([flow_val(c, k, which) for c in want])], ['ensH'], idl=[list(want)]) - 0.3 for k in range(lo, hi)]
                ref = line_root(times[lo:hi], ys_)
                if list(t0.idl['ensH']) != list(want):
                    return [('violation', 'stored-numbers:hadrons-npr', 't0 lives on %r..., requested %r...' % (list(t0.idl['ensH'])[:5], list(want)[:5]))]
                if abs(float(t0.value) - float(ref.value)) > 1e-6 * abs(float(ref.value)) or np.max(np.abs(np.asarray(t0.deltas['ensH']) - np.asarray(ref.deltas['ensH']))) > 1e-5 * np.max(np.abs(ref.deltas['ensH'])):
                    return [('violation', 'stored-numbers:hadrons-npr', 'extract_t0_hd5 %s: %r vs straight line through flow times %d..%d %r' % (obsname, float(t0.value), lo, hi - 1, float(ref.value)))]
                return probs
        if what == 'fourquark':
            # every vertex is the sum of the stored entries with its (gammaA, gammaB) pairs
            if sorted(res) != sorted(verts):
                return [('violation', 'stored-numbers:hadrons-npr', 'vertices %r, requested %r' % (sorted(res), sorted(verts)))]
            rr = _random.Random(case['seed'] + 2)
            for vname in verts:
                M = res[vname]
                for _ in range(8):
                    ix = tuple(rr.randrange(n_) for n_ in FQ_SHAPE)
                    z = M[ix]
                    for comp, sel_ in (('real', lambda v: v.real), ('imag', lambda v: v.imag)):
                        exp = {'ensH': {c: sel_(sum(fq_value(c, FQ_PAIRS.index(pr), ix) for pr in FQ_VERTICES[vname])) for c in want}}
                        d = cmp_tab(tab(getattr(z, comp)), exp, 'hadrons fourquark %s %r %s' % (vname, ix, comp))
                        if d:
                            return [('violation', 'stored-numbers:hadrons-npr', d[:2])]
            return probs
        keys = ['leg'] if what == 'leg' else list(BILINEAR_NAMES)
        if sorted(res) != sorted(keys):
            return [('violation', 'stored-numbers:hadrons-npr', 'entries %r' % sorted(res)[:5])]
        rr = _random.Random(case['seed'] + 2)
        for key in (keys if what == 'leg' else rr.sample(keys, 4)):
            e = 99 if what == 'leg' else BILINEAR_NAMES.index(key)
            M = res[key]
            if list(np.asarray(M.mom_in, dtype=float)) != [1.0, 2.0, 0.0, 3.0] or (what == 'bilinear' and list(np.asarray(M.mom_out, dtype=float)) != [0.0, 1.0, 1.0, 2.0]):
                return [('violation', 'stored-numbers:hadrons-npr', 'momenta %r %r' % (M.mom_in, getattr(M, 'mom_out', None)))]
            for _ in range(12):
                si, sj, ci, cj = rr.randrange(4), rr.randrange(4), rr.randrange(3), rr.randrange(3)
                z = M[si, sj, ci, cj]
                for comp, sel_ in (('real', lambda v: v.real), ('imag', lambda v: v.imag)):
                    exp = {'ensH': {c: sel_(npr_value(c, e, si, sj, ci, cj)) for c in want}}
                    d = cmp_tab(tab(getattr(z, comp)), exp, 'hadrons %s %s [%d,%d,%d,%d] %s' % (what, key, si, sj, ci, cj, comp))
                    if d:
                        return [('violation', 'stored-numbers:hadrons-npr', d[:2])]
    finally:
        shutil.rmtree(root, ignore_errors=True)
    return probs


def line_root(xs, yo):
    """root -a0/a1 of the weighted straight-line fit through (xs, yo), written out in Obs arithmetic (weights 1/dy^2 from the default analysis)"""
    [o.gamma_method() for o in yo]
    w = [1.0 / o.dvalue ** 2 for o in yo]
    S = sum(w)
    Sx = sum(wi * xi for wi, xi in zip(w, xs))
    Sxx = sum(wi * xi * xi for wi, xi in zip(w, xs))
    Sy = sum((wi * o for wi, o in zip(w[1:], yo[1:])), w[0] * yo[0])
    Sxy = sum((wi * xi * o for wi, xi, o in zip(w[1:], xs[1:], yo[1:])), w[0] * xs[0] * yo[0])
    det = S * Sxx - Sx * Sx
    a0 = (Sxx * Sy - Sx * Sxy) / det
    a1 = (S * Sxy - Sx * Sy) / det
    return -a0 / a1


def check_fit_t0(ctx, case):
    """`fit_t0` (the reduction behind extract_t0 / extract_w0): the root of the straight line fitted to the `fit_range` flow times
    on either side of the zero crossing - as many as there are when the crossing lies close to either end of the data.
    Oracle: the weighted linear regression written out in Obs arithmetic (weights from the default analysis), root -a0/a1."""
    from pyerrors.input.misc import fit_t0
    probs = []
    nprng = np.random.default_rng(case['seed'])
    n, zc, fr = case['n'], case['zc'], case['fit_range']
    ts = [0.05 * case['dt'] * (k + 1) for k in range(n)]
    troot = 0.5 * (ts[zc - 1] + ts[zc]) + 0.3 * (ts[zc] - ts[zc - 1]) * (case['seed'] % 3 - 1)
    names = ['A|r1'] if case['seed'] % 2 else ['A|r1', 'A|r2']
    ys = {}
    common = [nprng.normal(size=30) for _ in names]
    for t in ts:
        mean = case['slope'] * (t - troot) + case['curv'] * (t - troot) ** 2 * (1 if t > troot else -1)
        ys[t] = pe.Obs([mean + case['noise'] * (0.7 * c_ + 0.7 * nprng.normal(size=30)) for c_ in common], names)
    d = dict(ys)
    with warnings.catch_warnings(), quiet():
        warnings.simplefilter('ignore')
        # the points handed to the straight-line fit are observed at the call of `fit_lin` (recorder in the harness, nothing in /repo)
        import pyerrors.input.misc as pmisc
        seen = {}
        orig_fit_lin = pmisc.fit_lin

        def rec_fit_lin(x_, y_, **kw_):
            seen['x'] = [float(v) for v in x_]
            return orig_fit_lin(x_, y_, **kw_)
        pmisc.fit_lin = rec_fit_lin
        try:
            res = fit_t0(d, fr)
        except Exception as e:
            return [('violation', 'fit_t0-exception', '%s: %s (n=%d, crossing at index %d, fit_range %d)' % (type(e).__name__, str(e)[:100], n, zc, fr))]
        finally:
            pmisc.fit_lin = orig_fit_lin
        if ctx.lean is not None:
            mr = ctx.lean.call({'op': 'flowwindow', 'n': n, 'mask': [bool(float(ys[t].value) > 0.0) for t in ts], 'fr': fr})
            if '_err' in mr:
                probs.append(('disagree', 'lean-driver-error', mr['_err']))
            elif 'exc' in mr or [ts[i] for i in mr['idx']] != seen.get('x'):
                probs.append(('disagree', 'fit-window-model', 'model window %r, points fitted %r' % (mr.get('idx', mr.get('exc')), seen.get('x'))))
            else:
                ctx.count('fit-window-model')
        lo, hi = max(0, zc - fr), min(n, zc + fr)
        xs = ts[lo:hi]
        ref = line_root(xs, [ys[t] for t in xs])
    ctx.count('fit_t0')
    sc = max(abs(float(ref.value)), 1e-12)
    if abs(float(res.value) - float(ref.value)) > 1e-6 * sc:
        probs.append(('violation', 'fit_t0-root', 'n=%d flow times, crossing at index %d, fit_range %d: root %r, straight line through the points %d..%d gives %r' % (
            n, zc, fr, float(res.value), lo, hi - 1, float(ref.value))))
        return probs
    for nm in ref.names:
        da, db = np.asarray(res.deltas[nm]), np.asarray(ref.deltas[nm])
        if da.shape != db.shape or np.max(np.abs(da - db)) > 1e-5 * max(np.max(np.abs(db)), 1e-300):
            probs.append(('violation', 'fit_t0-fluctuations', 'chain %s' % nm))
            break
    return probs


def check_case(ctx, case):
    probs = []
    if case['fmt'] == 'fit_t0':
        return check_fit_t0(ctx, case)
    if case['fmt'] == 'hadrons' and case.get('what'):
        return check_hadrons_npr(ctx, case)
    if case['fmt'] == 'hadrons':
        return check_hadrons(ctx, case)
    if case['fmt'] == 'names':
        return check_names(ctx, case)
    if case['fmt'] == 'select':
        return check_select(ctx, case)
    root = tempfile.mkdtemp(prefix='c17_', dir=os.environ.get('VERIF_TMP', '/dev/shm' if os.path.isdir('/dev/shm') else None))
    try:
        info = write_set(case, root)
        try:
            res = read_and_expect(ctx, case, root, info)
        except Exception as e:
            probs.append(('violation', 'reader-exception:' + case['fmt'], '%s: %s' % (type(e).__name__, str(e)[:200])))
            return probs
        for label, got, exp in res:
            d = cmp_tab(got, exp, label)
            if d:
                probs.append(('violation', 'stored-numbers:' + case['fmt'], d[:3]))
                break
        # model correspondence: record structure of every binary file
        if ctx.lean is not None and info['files']:
            for r, (fn, b) in info['files'].items():
                H, P, chunked = layout(case, b)
                if H is None:
                    continue
                rr = ctx.lean.call({'op': 'readfile', 'hex': b.hex(), 'H': H, 'P': P, 'chunked': chunked})
                if '_err' in rr or 'exc' in rr:
                    probs.append(('disagree', 'model-rejects-complete-file:' + case['fmt'], str(rr)[:200]))
                elif rr['cfgs'] != case['reps'][str(r)]:
                    probs.append(('disagree', 'model-config-numbers:' + case['fmt'], '%r vs %r' % (rr['cfgs'][:6], case['reps'][str(r)][:6])))
                elif case['fmt'] != 'ms5_xsf':
                    thermal_rule = case['fmt'].startswith('rwms')
                    r2 = ctx.lean.call({'op': 'renumber', 'cfgs': rr['cfgs'], 'thermal': True, 'r_start': None, 'r_stop': None, 'r_step': 1})
                    expcl = renumbered(case['reps'][str(r)], need_dm_gt1=thermal_rule)
                    dm = case['reps'][str(r)][-1] - case['reps'][str(r)][-2]
                    if 'configlist' in r2 and r2['configlist'] != expcl and not (thermal_rule and dm == 1):
                        probs.append(('disagree', 'model-renumbering:' + case['fmt'], '%r vs %r' % (r2['configlist'][:6], expcl[:6])))
    finally:
        shutil.rmtree(root, ignore_errors=True)
    return probs


# --------------------------------------------------------------------------- names and selection (no files)

def gen_names(rng):
    """a list of replica / file names as the readers meet them"""
    kind = rng.choice(['r', 'r_id', 'id', 'id_r', 'fallback', 'fallback', 'mixed'])
    n = rng.randint(2, 7)
    pre = rng.choice(['ens', 'run_A', 'b37', 'cA2a'])
    suf = rng.choice(['', '.ms1.dat', '.dat', '_x'])
    rs = rng.sample([1, 2, 3, 5, 9, 10, 11, 12, 20, 100], min(n, 10))
    ids = rng.sample([0, 1, 2, 7, 10, 19, 21, 100, 101], min(n, 9))
    names = []
    for k in range(n):
        r, i = rs[k % len(rs)], ids[k % len(ids)]
        if kind == 'r':
            names.append('%sr%d%s' % (pre, r, suf))
        elif kind == 'r_id':
            names.append('%sr%d_id%d%s' % (pre, rng.choice(rs[:2]), i, suf))
        elif kind == 'id':
            names.append('%s_id%d%s' % (pre.replace('r', 'q'), i, suf.replace('r', 'q')))
        elif kind == 'id_r':
            names.append('%sid%dr%d%s' % (pre, rng.choice(ids[:2]), r, suf))
        elif kind == 'fallback':
            names.append('%s_%d%s' % (pre.replace('r', 'q'), r, suf.replace('r', 'q')))
        else:
            names.append(rng.choice(['%sr%d%s' % (pre, r, suf), '%s_%d%s' % (pre.replace('r', 'q'), i, '')]))
    names = list(dict.fromkeys(names))
    if len(names) < 2:
        names.append(names[0] + '1')
    rng.shuffle(names)
    return names


def check_names(ctx, case):
    import re
    from pyerrors.input.utils import sort_names
    probs = []
    names = list(case['names'])
    try:
        with quiet():
            got = sort_names(list(names))
        how = 'ok'
    except Exception as e:
        got, how = type(e).__name__, 'exc'
    if ctx.lean is not None:
        rr = ctx.lean.call({'op': 'sortnames', 'names': names})
        if '_err' in rr:
            probs.append(('disagree', 'lean-driver-error', rr['_err']))
        elif ('exc' in rr) != (how == 'exc'):
            probs.append(('disagree', 'sort-names-model-vs-impl', [rr.get('exc'), got]))
        elif how == 'ok' and rr['names'] != got:
            probs.append(('disagree', 'sort-names-model-vs-impl', [rr['names'], got]))
    if how == 'exc':
        return probs
    # the statement: a permutation, numeric (r, id) order, independent of the listing order
    if sorted(got) != sorted(names):
        probs.append(('violation', 'sort-names-not-a-permutation', [names, got]))
        return probs
    rk = [re.search(r'r(\d+)', x) for x in names]
    ik = [re.search(r'id(\d+)', x) for x in names]
    if all(rk) and all(ik):
        key = lambda x: (int(re.search(r'r(\d+)', x).group(1)), int(re.search(r'id(\d+)', x).group(1)))
    elif all(rk):
        key = lambda x: int(re.search(r'r(\d+)', x).group(1))
    elif all(ik):
        key = lambda x: int(re.search(r'id(\d+)', x).group(1))
    else:
        key = None
    if key is not None:
        ks = [key(x) for x in got]
        if any(ks[i] > ks[i + 1] for i in range(len(ks) - 1)):
            probs.append(('violation', 'sort-names-not-numeric-order', [got, ks]))
        if len(set(ks)) == len(ks):
            rng = __import__('random').Random(case['seed'])
            for _ in range(3):
                sh = list(names)
                rng.shuffle(sh)
                with quiet():
                    g2 = sort_names(list(sh))
                if g2 != got:
                    probs.append(('violation', 'sort-names-depends-on-listing-order', [sh, g2, got]))
                    break
    return probs


def check_select(ctx, case):
    """the model of `data[i0 : i1 + 1][::step]` with indices found by value, against python's own slicing"""
    probs = []
    cl = case['cl']
    kw = {'r_start': case['r_start'], 'r_stop': case['r_stop'], 'r_step': case['r_step']}
    try:
        exp = select(cl, kw['r_start'], kw['r_stop'], kw['r_step'])
    except ValueError:
        exp = None
    if ctx.lean is not None:
        rr = ctx.lean.call(dict({'op': 'select', 'cl': cl}, **kw))
        if '_err' in rr:
            probs.append(('disagree', 'lean-driver-error', rr['_err']))
        elif ('exc' in rr) != (exp is None):
            probs.append(('disagree', 'select-model-vs-python', [rr.get('exc'), exp]))
        elif exp is not None and (rr['positions'] != exp or rr['selected'] != [cl[i] for i in exp]):
            probs.append(('disagree', 'select-model-vs-python', [rr['positions'], exp]))
    return probs


def layout(case, b):
    """header size, payload size per record, chunked? (None for data-dependent layouts)"""
    fmt = case['fmt']
    if fmt == 'rwms14':
        nrw = len(case['nsrc'])
        return 4 + 4 * nrw, sum(2 * 8 * s for s in case['nsrc']), False
    if fmt == 'rwms16':
        nrw = len(case['nsrc'])
        return 4 + 8 * nrw, sum(f * 2 * 8 * s for f, s in zip(case['nfct'], case['nsrc'])), False
    if fmt == 'rwms20':
        nrw = len(case['nsrc'])
        return 4 + 8 * nrw + 4, sum(2 * (4 + 8 + 4 + f * 2 * s * 8) for f, s in zip(case['nfct'], case['nsrc'])), False
    if fmt in ('qtop_openqcd', 'energy'):
        return 20, 3 * 8 * case['tmax'] * (case['nn'] + 1), False
    if fmt == 'qtop_sfqcd':
        return 40, (case['ncs'] + 1) * 16 * 8 * case['tmax'], False
    if fmt == 'ms5_xsf':
        return 40, 8 * 2 * case['tmax'] * 10 + 8 * 2 * 2, True
    return None, None, None


def run(ctx):
    n = ctx.budget(150, 3000)
    corpus = os.path.join(os.path.dirname(os.path.dirname(os.path.dirname(os.path.abspath(__file__)))), 'corpus', 'C17')
    cases = []
    if os.path.isdir(corpus):
        for fn in sorted(os.listdir(corpus)):
            cases.append(json.load(open(os.path.join(corpus, fn)))['case'])
    for _ in range(n):
        cases.append(gen_case(ctx))
    for _ in range(n // 2):
        cases.append({'fmt': 'names', 'names': gen_names(ctx.rng), 'seed': ctx.rng.getrandbits(20)})
    for _ in range(n // 3):
        rng = ctx.rng
        m = rng.randint(3, 25)
        first, dm = rng.choice([1, 1, 5, 30]), rng.choice([1, 1, 2, 3])
        cl = [first + i * dm for i in range(m)]
        if rng.random() < 0.2:
            cl = sorted(rng.sample(range(1, 80), m))
        pickv = lambda: rng.choice([None, rng.choice(cl), rng.choice(cl), rng.choice(cl) + (1 if rng.random() < 0.2 else 0)])
        cases.append({'fmt': 'select', 'cl': cl, 'r_start': pickv(), 'r_stop': pickv(), 'r_step': rng.choice([1, 1, 2, 3, 5])})
    for case in cases:
        ctx.count('fmt=' + case['fmt'])
        if 'reps' in case:
            ctx.count('nrep=%d' % len(case['reps']))
        for k in case.get('sel', []):
            ctx.count('sel=' + k)
        ctx.case(case)
        for (kind, key, info) in check_case(ctx, case):
            (ctx.violation if kind == 'violation' else ctx.disagree)(key, {'case': case, 'info': info})
        if len(ctx.violations) + len(ctx.disagreements) > 25:
            break
