"""shared pieces of the checks for callers of derived_observable that supply their own gradient
(roots, integrals, matrix functions, GEVP): input generators with prescribed central values and
the three-way comparison impl / oracle-by-configuration-number / Lean model (op "derived")."""
from pe_util import np, pe, gen_idl, dump_obs
from props.c01 import Q, combine, compare_q, decode_obs


class Layout(dict):
    """mode 'subsets': entries may miss replicas but use the full configuration list of a chain;
    mode 'sublists': entries carry every replica of their ensembles but on sub-lists.  In either mode an
    expression evaluated in several steps equals the one-shot evaluation (C01); with both freedoms at once
    the missing-replica factor depends on the intermediate merged lists and the two differ."""
    mode = 'free'


def make_layout(rng, nens=None, mode=None):
    """ensembles -> chains -> configuration lists"""
    nens = nens or rng.choice([1, 1, 2, 3])
    layout = Layout()
    layout.mode = mode or 'free'
    for e in rng.choice([['A', 'B', 'C'], ['A', 'B', 'C'], ['B450', 'sB450', 'B45'], ['A', 'A1', 'xA'], ['N2', 'N20', 'N200']])[:nens]:
        nrep = rng.choice([1, 1, 2, 3])
        names = ['%s|r%d' % (e, i + 1) for i in range(nrep)]
        if nrep > 1 and rng.random() < 0.2:
            names[0] = e      # a first replica called exactly like the ensemble
        layout[e] = {n: list(gen_idl(rng, rng.randint(12, 40), rng.choice(['contig', 'strided', 'irregular', 'gapped']))) for n in names}
    return layout


def make_obs(rng, nprng, layout, mean, rel=0.02, kind=None, exact_mean=False):
    """an observable with central value close to `mean` (exactly `mean` if exact_mean) living on a
    random subset of the layout, possibly on sub-lists of the configurations, possibly with a
    covariance input.  kind: 'mc' | 'cov' | 'mixed'"""
    kind = kind or rng.choice(['mc', 'mc', 'mc', 'cov', 'mixed'])
    sig = rel * max(abs(mean), 0.05)
    o = None
    if kind in ('mc', 'mixed'):
        enss = [e for e in layout if rng.random() < 0.6] or [rng.choice(list(layout))]
        for k, e in enumerate(enss):
            names = list(layout[e])
            if len(names) > 1 and rng.random() < (0.5 if layout.mode == 'subsets' else 0.3) and layout.mode != 'sublists':
                names = sorted(rng.sample(names, rng.randint(1, len(names))))
            samples, idl = [], []
            for n in names:
                il = layout[e][n]
                how = 'all' if layout.mode == 'subsets' else rng.choice(['all', 'all', 'prefix', 'random'])
                if how == 'prefix':
                    il = il[:max(6, len(il) * 2 // 3)]
                elif how == 'random':
                    il = sorted(rng.sample(il, max(6, len(il) - rng.randint(1, 5))))
                x = sig * nprng.normal(size=len(il))
                samples.append(x + (mean if k == 0 else 0.0))
                idl.append(il)
            b = pe.Obs(samples, names, idl=idl)
            o = b if o is None else o + b
        if exact_mean:
            o = o - o.value + mean
    if kind in ('cov', 'mixed'):
        nm = rng.choice(['cvA', 'cvB'])
        m0 = mean if o is None else 0.0
        # one fixed covariance matrix per name (the same name with another matrix is refused by the library)
        if nm == 'cvA':
            c = m0 + sig * pe.cov_Obs(0.0, 1.0, 'cvA')
        else:
            cc = pe.cov_Obs([0.0, 0.0], [[1.0, 0.3], [0.3, 2.0]], 'cvB')
            c = m0 + sig * (cc[0] + 0.5 * cc[1])
        o = c if o is None else o + c
    return o


def expect(ctx, res, value, grads, inputs, rtol=1e-8, tag='', check_value=True, vscale=None):
    """res (impl Obs) against: value, and fluctuations sum_j grads_j * delta_j by configuration number;
    and against the Lean model of derived_observable with that gradient.  returns a list of problems"""
    probs = []
    if not isinstance(res, pe.Obs):
        return [('violation', tag + 'not-an-observable', type(res).__name__)]
    qs = [Q.of(o) for o in inputs]
    q = combine(lambda v: float(value), [float(g) for g in grads], qs)
    d = compare_q(res, q, rtol=rtol)
    d = [z for z in d if not z.startswith('r_value')]
    if not check_value:
        d = [z for z in d if not z.startswith('value')]
    if vscale is not None:
        d = [z for z in d if not z.startswith('value')]
        if check_value and abs(float(res.value) - float(value)) > rtol * vscale:
            d.append('value %r vs %r' % (float(res.value), float(value)))
    if d:
        probs.append(('violation', tag + 'fluctuations', d[:3]))
    if ctx.lean is not None:
        from pe_util import f2b
        rr = ctx.lean.call({'op': 'derived', 'data': [dump_obs(o) for o in inputs], 'value': f2b(float(res.value)), 'grad': [f2b(float(g)) for g in grads]})
        if '_err' in rr:
            probs.append(('disagree', 'lean-driver-error', rr['_err']))
        elif 'exc' in rr:
            probs.append(('disagree', tag + 'model-raises', rr['exc']))
        else:
            m_ = decode_obs(rr['obs'])
            m_.mag = dict(q.mag)     # scale of what was added up (contributions may cancel to rounding noise)
            d2 = compare_q(res, m_, rtol=rtol)
            d2 = [z for z in d2 if not z.startswith('r_value')]
            if d2:
                probs.append(('disagree', tag + 'model-vs-impl', d2[:3]))
    return probs
