"""C16 - GEVP and matrix pencil satisfy the eigen-equation and recover exact spectra.

impl   = pe.Corr.GEVP / Eigenvalue / projected / prune, pe.correlators._GEVP_solver / _sort_vectors,
         pe.mpm.matrix_pencil_method
model  = PV.Model.Gevp (op "gevp"): the control flow of Corr.GEVP around the eigen-solver (padding with
         undefined entries up to t0, undefined timeslices, descending order = reversed ascending output of
         the solver, Cholesky back-substitution L^-T w, the permutation search of _sort_vectors, state
         selection, the refusals), Corr.projected, and the Hankel slicing of the matrix-pencil method.
         The eigen-decompositions themselves enter the model as oracle inputs computed here with LAPACK.
oracle = (this file) matrices G(t) = Psi^T diag(f_n(t)) Psi built from a known spectrum: the exact
         generalised eigenvectors are the columns of Psi^-1, the eigenvalues are f_n(t)/f_n(t0).
theorems: PV/Props/C16.lean (flow / ordering / permutation search) and PV/Props/C16Alg.lean (exact spectrum
         solves the GEVP, projected correlator = exp(-E (t-t0)), Cholesky route equivalence, Hankel /
         Vandermonde factorisation behind the pencil method, pruning, symmetrisation).
"""
import itertools
import json
import math
import os
import sys
import warnings
from pe_util import np, pe, quiet, f2b, b2f

RULE = ('N = 2..5 state matrices G(t) = Psi^T diag(f_n(t)) Psi with random well-conditioned overlaps Psi; kind exact: f_n = exp(-E_n t) '
        'with non-degenerate energies; kind crossing: the eigenvalue order is a different permutation on every timeslice (state following); '
        'T = 8..24, t0 = 1..T/3, every state, methods eigh / cholesky, sort Eigenvalue / Eigenvector / None, vector_obs on / off, '
        'non-symmetric input (antisymmetric part added), undefined timeslices (incl. timeslice 0, t0, ts), prune to 1..N-1 states with and '
        'without a separate base matrix, matrix pencil with k = 1..4 exponentials and all admissible pencil parameters. '
        'non-trivial = distinct case.')
TRUSTED = ['LAPACK generalised / symmetric eigen-solvers, Cholesky, SVD, det (contract: residuals of the eigen-equation measured each run)',
           'autograd vjps of cholesky / inv / eigh / svd / eig for vector_obs=True and the pencil method (contract: differentiated identities measured)']
ASSUMPTIONS = ['eigen-equation residual <= 1e-8 of |G(t0) v| * largest eigenvalue; vectors parallel to 1 - |cos| <= 1e-8; '
               'cases whose conditioning estimate eps * cond(G(t0)) / relative gap exceeds 1e-9 are counted as ill-conditioned and the affected clause skipped']

TOL = 1e-8


# ------------------------------------------------------------------------------------------------ generators

def rand_orth(nprng, n):
    q, r = np.linalg.qr(nprng.normal(size=(n, n)))
    return q * np.sign(np.diag(r))


def build(case):
    """exact data of a case: Psi, per-state factors f[n][t], float matrices G[t] and the Corr of Obs"""
    rng = __import__('random').Random(case['seed'])
    nprng = np.random.default_rng(case['seed'])
    N, T, t0 = case['N'], case['T'], case['t0']
    Psi = rand_orth(nprng, N) @ np.diag(nprng.uniform(0.6, 1.8, size=N)) @ rand_orth(nprng, N)
    if case['kind'] == 'exact':
        hi = 9.0 / (T * max(N - 1, 1))
        E = [nprng.uniform(0.1, 0.5)]
        for _ in range(N - 1):
            E.append(E[-1] + nprng.uniform(hi / 3, hi))
        E = np.array(E)
        f = np.array([[math.exp(-E[n] * t) for t in range(T)] for n in range(N)])
    else:
        # eigenvalues lambda_n(t) = f_n(t)/f_n(t0): on every timeslice a permutation of a well separated set
        E = None
        levels = np.array([0.9, 0.62, 0.4, 0.25, 0.14][:N])
        f = np.ones((N, T))
        for t in range(T):
            if t == t0:
                continue
            perm = list(range(N))
            rng.shuffle(perm)
            g = math.exp(-0.05 * (t - t0))
            for n in range(N):
                f[n][t] = levels[perm[n]] * g * (1 + 0.03 * nprng.random())
    G = np.array([Psi.T @ np.diag(f[:, t]) @ Psi for t in range(T)])
    G = 0.5 * (G + np.transpose(G, (0, 2, 1)))
    k00 = None
    if case.get('int00'):
        # overall normalisation such that G(t0)[0,0] is an integer; that entry is then an external input given with an
        # integer mean (`cov_Obs(2, ...)`), whose central value is a Python int
        k00 = max(1, int(round(G[t0][0][0])))
        s_ = k00 / G[t0][0][0]
        G = G * s_
        Psi = Psi * math.sqrt(s_)
    if case.get('scale2') and k00 is None:
        # overall normalisation of the correlator (quantities in physical units): eigenvalues unchanged, vectors ~ s^-1/2
        s_ = 10.0 ** case['scale2']
        G = G * s_
        Psi = Psi * math.sqrt(s_)
    # observables: exact mean + symmetric noise on one or two ensembles
    ncfg = rng.randint(12, 30)
    names = ['A|r1'] if rng.random() < 0.6 else ['A|r1', 'A|r2']
    rel = case.get('rel', 1e-3)
    content = []
    anti = case.get('nonsym', False)
    for t in range(T):
        if t in case.get('nones', []):
            content.append(None)
            continue
        M = np.empty((N, N), dtype=object)
        for i in range(N):
            for j in range(i, N):
                samples = []
                for _ in names:
                    x = nprng.normal(size=ncfg) * rel * abs(G[t][i][i] * G[t][j][j]) ** 0.5
                    samples.append(x - np.mean(x) + G[t][i][j])
                o = pe.Obs(samples, names)
                if k00 is not None and t == t0 and i == 0 and j == 0:
                    o = pe.cov_Obs(k00, (rel * k00) ** 2, 'cvI')
                M[i, j] = o
                M[j, i] = o
        if anti:
            for i in range(N):
                for j in range(i + 1, N):
                    a = nprng.normal() * 0.3 * abs(G[t][i][j])
                    M[i, j] = M[i, j] + a
                    M[j, i] = M[j, i] - a
        # the memory layout of the matrices handed over must not matter (column-major arrays are passed to LAPACK without a copy)
        content.append(np.asfortranarray(M) if case.get('forder') else M)
    return {'Psi': Psi, 'E': E, 'f': f, 'G': G, 'corr': pe.Corr(content), 'W': np.linalg.inv(Psi)}


def lam_exact(d, t0, t):
    return d['f'][:, t] / d['f'][:, t0]


def cosang(a, b):
    a = np.asarray(a, dtype=float)
    b = np.asarray(b, dtype=float)
    return abs(a @ b) / math.sqrt((a @ a) * (b @ b))


def fl(v):
    return np.array([float(x.value) if isinstance(x, pe.Obs) else float(x) for x in v])


def obs_close(a, b, vs, ds, tol=TOL):
    """two observables (or numbers) agree in value and in every fluctuation"""
    d = a - b
    if not isinstance(d, pe.Obs):
        return abs(float(d)) <= tol * vs
    if abs(d.value) > tol * vs:
        return False
    for n in d.names:
        dd = d.covobs[n].grad if n in d.covobs else d.deltas[n]
        if np.max(np.abs(dd)) > tol * ds:
            return False
    return True


def max_delta(o):
    m = 0.0
    if isinstance(o, pe.Obs):
        for n in o.names:
            if n not in o.covobs:
                m = max(m, float(np.max(np.abs(o.deltas[n]))))
    return m


# ------------------------------------------------------------------------------------------------ the Lean model

def lean_gevp(ctx, case, d, method, sort, ts, state):
    """run the model of the GEVP control flow with LAPACK's decompositions as oracle inputs and return
    its result (same nesting as the implementation's)"""
    N, T, t0 = case['N'], case['T'], case['t0']
    defined = [t not in case.get('nones', []) for t in range(T)]
    G = d['G']
    req = {'op': 'gevp', 'what': 'gevp', 'N': N, 'T': T, 't0': t0, 'ts': ts, 'sort': sort, 'method': method, 'state': state,
           'defined': defined, 'pd': True}
    import scipy.linalg
    asc = []
    cholinv = None
    if defined[t0]:
        try:
            L = np.linalg.cholesky(G[t0])
            cholinv = np.linalg.inv(L)
        except np.linalg.LinAlgError:
            req['pd'] = False
    for t in range(T):
        if not defined[t] or not defined[t0] or not req['pd']:
            asc.append(None)
            continue
        if method == 'eigh':
            w, v = scipy.linalg.eigh(G[t], G[t0], lower=True)
        else:
            w, v = np.linalg.eigh(np.linalg.multi_dot([cholinv, G[t], cholinv.T]))
        asc.append([[f2b(x) for x in v[:, k]] for k in range(N)])
    req['asc'] = asc
    req['cholinv'] = None if cholinv is None else [[f2b(x) for x in row] for row in cholinv]
    return ctx.lean.call(req)


def compare_struct(impl, model, tol=1e-10):
    """nested lists of vectors / None: same shape, same None pattern, entries equal (the same LAPACK output)"""
    if impl is None or model is None:
        return None if (impl is None and model is None) else 'None pattern differs'
    if isinstance(model, list) and model and isinstance(model[0], str):
        a = fl(impl)
        b = np.array([b2f(x) for x in model])
        if a.shape != b.shape:
            return 'vector length differs'
        if np.max(np.abs(a - b)) > tol * max(1.0, np.max(np.abs(b))):
            return 'vector differs: %r vs %r' % (a.tolist(), b.tolist())
        return None
    if not isinstance(model, list) or len(impl) != len(model):
        return 'shape differs'
    for x, y in zip(impl, model):
        w = compare_struct(x, y, tol)
        if w:
            return w
    return None


# ------------------------------------------------------------------------------------------------ GEVP

def call_gevp(corr, t0, **kw):
    try:
        with warnings.catch_warnings():
            warnings.simplefilter('ignore')
            return 'ok', corr.GEVP(t0, **kw)
    except Exception as e:
        return 'exc', type(e).__name__


def check_gevp(ctx, case, d):
    probs = []
    N, T, t0 = case['N'], case['T'], case['t0']
    corr = d['corr']
    G, W = d['G'], d['W']
    nones = set(case.get('nones', []))
    ts = case.get('ts')
    kappa = np.linalg.cond(G[t0])
    results = {}
    for method in case['methods']:
        for sort in case['sorts']:
            kw = {'sort': sort, 'method': method}
            if sort is None or sort == 'Eigenvector' or case.get('pass_ts'):
                kw['ts'] = ts
            how, vecs = call_gevp(corr, t0, **kw)
            results[(method, sort)] = (how, vecs)
            ctx.count('gevp %s/%s' % (method, sort))
            # ---- model of the control flow
            if ctx.lean is not None:
                rr = lean_gevp(ctx, case, d, method, sort, kw.get('ts'), None)
                if '_err' in rr:
                    probs.append(('disagree', 'lean-driver-error', rr['_err']))
                elif 'exc' in rr:
                    if how != 'exc':
                        probs.append(('disagree', 'gevp-model-refuses-impl-returns', [method, sort, rr['exc']]))
                elif how == 'exc':
                    probs.append(('disagree', 'gevp-impl-raises-model-returns', [method, sort, vecs]))
                else:
                    w = compare_struct(vecs, rr['vecs'])
                    if w:
                        probs.append(('disagree', 'gevp-model-vs-impl', [method, sort, w]))
            # ---- the statement
            bad_t0 = t0 in nones
            bad_ts = (sort is None or sort == 'Eigenvector') and (ts in nones)
            if bad_t0 or bad_ts:
                if how != 'exc':
                    probs.append(('violation', 'gevp-accepts-undefined-reference-timeslice', [method, sort, t0, ts]))
                continue
            if how == 'exc':
                probs.append(('violation', 'gevp-raises-on-valid-input', [method, sort, vecs]))
                continue
            if sort is None:
                per_t = {ts: [vecs[s] for s in range(N)]}
            else:
                if len(vecs) != N or any(len(v) != T for v in vecs):
                    probs.append(('violation', 'gevp-wrong-shape', [method, sort]))
                    continue
                per_t = {}
                for t in range(T):
                    col = [vecs[s][t] for s in range(N)]
                    should_be_none = (t <= t0) or (t in nones)
                    is_none = [c is None for c in col]
                    if should_be_none != all(is_none) or (any(is_none) and not all(is_none)):
                        probs.append(('violation', 'gevp-undefined-pattern', [method, sort, t, is_none]))
                        continue
                    if not should_be_none:
                        per_t[t] = col
            # reference labelling for the eigenvector sort: order of the exact eigenvalues at ts
            for t, col in per_t.items():
                lam = lam_exact(d, t0, t)
                lmax = float(np.max(lam))
                srt = sorted(lam, reverse=True)
                gaps = min((srt[i] - srt[i + 1]) / lmax for i in range(N - 1))
                ill = 1e-15 * kappa / max(gaps, 1e-300) > 1e-9
                if ill:
                    ctx.illcond += 1
                if sort == 'Eigenvector':
                    order = list(np.argsort(-lam_exact(d, t0, ts), kind='stable'))
                else:
                    order = list(np.argsort(-lam, kind='stable'))
                lam_seen = []
                for s in range(N):
                    v = fl(col[s])
                    g0v = G[t0] @ v
                    gtv = G[t] @ v
                    lam_s = float(v @ gtv) / float(v @ g0v)
                    lam_seen.append(lam_s)
                    res = float(np.linalg.norm(gtv - lam_s * g0v)) / (float(np.linalg.norm(g0v)) * lmax)
                    ctx.residual('eigen_equation_rel', res)
                    if not res <= TOL:
                        probs.append(('violation', 'eigen-equation-violated', [method, sort, 't=%d state=%d residual=%.3e' % (t, s, res)]))
                        break
                    n_exp = order[s]
                    if abs(lam_s - lam[n_exp]) > 1e-7 * lmax:
                        probs.append(('violation', 'eigenvalue-not-the-expected-state', [method, sort, 't=%d state=%d lambda=%r expected=%r' % (t, s, lam_s, float(lam[n_exp]))]))
                        break
                    if not ill:
                        c = cosang(v, W[:, n_exp])
                        ctx.residual('vector_vs_exact_1mcos', 1 - c)
                        if 1 - c > TOL:
                            probs.append(('violation', 'vector-not-the-exact-eigenvector', [method, sort, 't=%d state=%d 1-|cos|=%.3e' % (t, s, 1 - c)]))
                            break
                    nrm = float(v @ g0v)
                    if abs(nrm - 1) > 1e-7:
                        probs.append(('violation', 'vector-not-normalised-to-G(t0)', [method, sort, 't=%d state=%d v.G0.v=%r' % (t, s, nrm)]))
                        break
                if sort != 'Eigenvector' and len(lam_seen) == N and any(lam_seen[i] <= lam_seen[i + 1] for i in range(N - 1)):
                    probs.append(('violation', 'states-not-ordered-by-decreasing-eigenvalue', [method, sort, t, lam_seen]))
            if probs:
                break
        if probs:
            break
    # eigh and cholesky agree up to sign and normalisation
    if not probs and 'eigh' in case['methods'] and 'cholesky' in case['methods']:
        for sort in case['sorts']:
            a, b = results[('eigh', sort)], results[('cholesky', sort)]
            if a[0] != 'ok' or b[0] != 'ok':
                continue
            if sort is None:
                pairs = [(s, ts, a[1][s], b[1][s]) for s in range(N)]
            else:
                pairs = [(s, t, a[1][s][t], b[1][s][t]) for s in range(N) for t in range(T)]
            for s, t, va, vb in pairs:
                if va is None or vb is None:
                    if (va is None) != (vb is None):
                        probs.append(('violation', 'eigh-cholesky-undefined-pattern', [sort, s, t]))
                    continue
                lam = sorted(lam_exact(d, t0, t), reverse=True)
                gaps = min((lam[i] - lam[i + 1]) / lam[0] for i in range(N - 1))
                if 1e-15 * kappa / max(gaps, 1e-300) > 1e-9:
                    continue
                c = cosang(fl(va), fl(vb))
                ctx.residual('eigh_vs_cholesky_1mcos', 1 - c)
                if 1 - c > TOL:
                    probs.append(('violation', 'eigh-and-cholesky-vectors-differ', [sort, 'state=%d t=%d 1-|cos|=%.3e' % (s, t, 1 - c)]))
                    break
    return probs, results


def check_eigenvalue_corr(ctx, case, d):
    """Corr.Eigenvalue: the projected eigenvalue correlator"""
    probs = []
    N, T, t0 = case['N'], case['T'], case['t0']
    corr = d['corr']
    nones = set(case.get('nones', []))
    ts = case.get('ts')
    if t0 in nones or ts in nones:
        return probs
    rng = __import__('random').Random(case['seed'] + 5)
    for sort in case['sorts']:
        method = rng.choice(case['methods'])
        for state in range(N):
            kw = {'sort': sort, 'method': method, 'state': state}
            if sort is None or sort == 'Eigenvector':
                kw['ts'] = ts
            try:
                with warnings.catch_warnings():
                    warnings.simplefilter('ignore')
                    ev = corr.Eigenvalue(t0, **kw)
                    vec = corr.GEVP(t0, **kw)
            except Exception as e:
                probs.append(('violation', 'Eigenvalue-raises', [sort, state, repr(e)[:200]]))
                return probs
            ctx.count('Eigenvalue sort=%s' % sort)
            if ev.N != 1 or ev.T != T:
                probs.append(('violation', 'Eigenvalue-wrong-shape', [sort, state]))
                return probs
            if ctx.lean is not None and state == 0:
                cont = [None if M is None else [[f2b(x.value) for x in row] for row in M] for M in corr.content]
                if sort is None:
                    rq = {'op': 'gevp', 'what': 'projected', 'content': cont, 'vecs': None, 'v': [f2b(x) for x in fl(vec)]}
                else:
                    rq = {'op': 'gevp', 'what': 'projected', 'content': cont, 'vecs': [None if v is None else [f2b(x) for x in fl(v)] for v in vec]}
                rr = ctx.lean.call(rq)
                if '_err' in rr:
                    probs.append(('disagree', 'lean-driver-error', rr['_err']))
                else:
                    for t in range(T):
                        a, b = ev.content[t], rr['vals'][t]
                        if (a is None) != (b is None) or (a is not None and abs(a[0].value - b2f(b)) > 1e-12 * max(1.0, abs(b2f(b)))):
                            probs.append(('disagree', 'projected-model-vs-impl', [sort, t]))
                            break
            lam_ts = lam_exact(d, t0, ts)
            for t in range(T):
                if sort is None:
                    defined = t not in nones
                    n = int(np.argsort(-lam_ts, kind='stable')[state])
                else:
                    defined = (t > t0) and (t not in nones)
                    lam_t = lam_exact(d, t0, t)
                    n = int(np.argsort(-(lam_ts if sort == 'Eigenvector' else lam_t), kind='stable')[state])
                if (ev.content[t] is not None) != defined:
                    probs.append(('violation', 'Eigenvalue-undefined-pattern', [sort, state, t]))
                    return probs
                if not defined:
                    continue
                want = float(d['f'][n][t] / d['f'][n][t0])
                scale = float(np.max(d['f'][:, t] / d['f'][:, t0]))
                got = ev.content[t][0]
                if abs(got.value - want) > 1e-7 * scale:
                    what = 'exp(-E_n (t - t0))' if case['kind'] == 'exact' else 'f_n(t)/f_n(t0)'
                    probs.append(('violation', 'projected-eigenvalue-not-' + ('exponential' if case['kind'] == 'exact' else 'the-state'),
                                  [sort, 'state=%d t=%d value=%r expected %s=%r' % (state, t, got.value, what, want)]))
                    return probs
                # the projection itself: v^T G(t) v in Obs arithmetic (value and every fluctuation)
                v = vec[t] if sort is not None else vec
                v = fl(v)
                M = corr.content[t]
                if case.get('nonsym'):
                    M = 0.5 * (M + M.T)
                ref = sum(v[i] * v[j] * M[i, j] for i in range(N) for j in range(N))
                if case.get('nonsym'):
                    # the projection acts on the correlator as given (not symmetrised): v^T G v is the same number
                    ref = sum(v[i] * v[j] * corr.content[t][i, j] for i in range(N) for j in range(N))
                ds = max(max_delta(x) for x in corr.content[t].ravel()) * float(np.sum(np.abs(v)) ** 2)
                if not obs_close(got, ref, max(scale, abs(want)), ds, 1e-9):
                    probs.append(('violation', 'projected-not-vGv', [sort, state, t]))
                    return probs
    return probs


def check_vector_obs(ctx, case, d):
    """vector_obs=True: eigenvectors as observables satisfy the eigen-equation in every fluctuation"""
    probs = []
    N, T, t0 = case['N'], case['T'], case['t0']
    corr = d['corr']
    nones = set(case.get('nones', []))
    ts = case.get('ts')
    if t0 in nones or ts in nones:
        return probs
    sort = case['sorts'][0]
    kw = {'sort': sort, 'vector_obs': True}
    if sort is None or sort == 'Eigenvector':
        kw['ts'] = ts
    try:
        with warnings.catch_warnings():
            warnings.simplefilter('ignore')
            vo = corr.GEVP(t0, **kw)
            kw2 = dict(kw, vector_obs=False, method='cholesky')
            vn = corr.GEVP(t0, **kw2)
    except Exception as e:
        return [('violation', 'gevp-vector_obs-raises', [sort, repr(e)[:200]])]
    ctx.count('vector_obs sort=%s' % sort)
    sym = corr.content
    if case.get('nonsym'):
        sym = [None if M is None else 0.5 * (M + M.T) for M in corr.content]
    times = [ts] if sort is None else [t for t in range(t0 + 1, T) if t not in nones]
    rng = __import__('random').Random(case['seed'] + 9)
    if len(times) > 3:
        times = sorted(rng.sample(times, 3))
    for t in times:
        lam = sorted(lam_exact(d, t0, t), reverse=True)
        for s in range(N):
            a = vo[s] if sort is None else vo[s][t]
            b = vn[s] if sort is None else vn[s][t]
            if a is None or b is None:
                probs.append(('violation', 'vector_obs-undefined-pattern', [sort, s, t]))
                return probs
            if not all(isinstance(x, pe.Obs) for x in a):
                probs.append(('violation', 'vector_obs-entries-not-observables', [sort, s, t]))
                return probs
            c = cosang(fl(a), fl(b))
            if 1 - c > TOL:
                probs.append(('violation', 'vector_obs-central-values-differ', [sort, 'state=%d t=%d 1-|cos|=%.3e' % (s, t, 1 - c)]))
                return probs
            v = np.array(list(a), dtype=object)
            g0v = sym[t0] @ v
            gtv = sym[t] @ v
            lam_o = (v @ gtv) / (v @ g0v)
            r = gtv - lam_o * g0v
            vs = float(np.linalg.norm(fl(g0v))) * lam[0]
            dG = max(max_delta(x) for x in list(sym[t].ravel()) + list(sym[t0].ravel()))
            ds = dG * float(np.sum(np.abs(fl(v)))) * (1 + 1 / lam[-1]) * 10
            for k in range(N):
                if not obs_close(r[k], 0.0, vs, ds, 1e-7):
                    rk = r[k]
                    worst = max([abs(rk.value) / vs] + [float(np.max(np.abs(rk.deltas[n]))) / ds for n in rk.deltas])
                    probs.append(('violation', 'vector_obs-eigen-equation-fluctuations', [sort, 'state=%d t=%d component=%d rel=%.3e' % (s, t, k, worst)]))
                    return probs
            nrm = v @ g0v
            if not obs_close(nrm, 1.0, 1.0, dG * float(np.sum(np.abs(fl(v)))) ** 2 * 10, 1e-7):
                probs.append(('violation', 'vector_obs-normalisation-fluctuates', [sort, s, t]))
                return probs
    return probs


# ------------------------------------------------------------------------------------------------ prune

def check_prune(ctx, case, d):
    probs = []
    N, T, t0 = case['N'], case['T'], case['t0']
    corr = d['corr']
    nones = set(case.get('nones', []))
    tproj, t0proj = case['tproj'], case['t0proj']
    Ntrunc = case['Ntrunc']
    ctx.count('prune Ntrunc=%d' % Ntrunc)
    try:
        with warnings.catch_warnings():
            warnings.simplefilter('ignore')
            pr = corr.prune(Ntrunc, tproj=tproj, t0proj=t0proj)
    except Exception as e:
        if tproj in nones or t0proj in nones:
            return probs
        return [('violation', 'prune-raises', repr(e)[:200])]
    if tproj in nones or t0proj in nones:
        return [('violation', 'prune-accepts-undefined-reference-timeslice', [tproj, t0proj])]
    if pr.T != T or pr.N != Ntrunc:
        return [('violation', 'prune-wrong-shape', [pr.T, pr.N])]
    # ... and a usable correlator: blocks (1,) for one retained state, (Ntrunc, Ntrunc) otherwise; the analysis runs
    want_shape = (1,) if Ntrunc == 1 else (Ntrunc, Ntrunc)
    for t in range(T):
        if pr.content[t] is not None and np.asarray(pr.content[t], dtype=object).shape != want_shape:
            return [('violation', 'prune-malformed', 'N=%d but timeslice %d has shape %r' % (pr.N, t, np.asarray(pr.content[t], dtype=object).shape))]
    try:
        pr.gamma_method()
    except Exception as e:
        return [('violation', 'prune-malformed', 'gamma_method of the result: ' + repr(e)[:150])]
    # the documented `basematrix` argument: the basis may be taken from another correlator C; with C = 2 G the
    # eigenvectors are those of G, normalised to v^T C(t0) v = 1, hence 1/sqrt(2) times the default ones
    try:
        with warnings.catch_warnings():
            warnings.simplefilter('ignore')
            pr2 = corr.prune(Ntrunc, tproj=tproj, t0proj=t0proj, basematrix=2.0 * corr)
        for t in range(T):
            if (pr2.content[t] is None) != (pr.content[t] is None):
                return [('violation', 'prune-basematrix-undefined-pattern', t)]
            if pr.content[t] is None:
                continue
            A_ = np.vectorize(lambda o: o.value)(np.asarray(pr.content[t], dtype=object).reshape(Ntrunc, Ntrunc))
            B_ = np.vectorize(lambda o: o.value)(np.asarray(pr2.content[t], dtype=object).reshape(Ntrunc, Ntrunc))
            # the basis vectors are fixed up to sign: compare the symmetric part up to the signs of rows / columns
            if np.max(np.abs(0.5 * np.abs(0.5 * (A_ + A_.T)) - np.abs(0.5 * (B_ + B_.T)))) > 1e-7 * max(1.0, float(np.max(np.abs(A_)))):
                return [('violation', 'prune-basematrix-differs', 't=%d' % t)]
    except Exception as e:
        return [('violation', 'prune-basematrix-raises', repr(e)[:200])]
    order = list(np.argsort(-lam_exact(d, t0proj, tproj), kind='stable'))
    f = d['f']
    for t in range(T):
        if (pr.content[t] is None) != (t in nones):
            return [('violation', 'prune-undefined-pattern', t)]
        if t in nones:
            continue
        M = np.asarray(pr.content[t], dtype=object).reshape(Ntrunc, Ntrunc)
        scale = float(np.max(f[:, t] / f[:, t0proj]))
        for i in range(Ntrunc):
            for j in range(Ntrunc):
                # a non-symmetric input keeps its antisymmetric part under the projection; the energies are
                # carried by the symmetric part (which the GEVP of the pruned matrix uses)
                x = 0.5 * (M[i, j].value + M[j, i].value)
                want = f[order[i]][t] / f[order[i]][t0proj] if i == j else 0.0
                if abs(x - want) > 1e-7 * scale:
                    return [('violation', 'pruned-matrix-not-diagonal-in-the-retained-states', 't=%d (%d,%d) value=%r expected=%r' % (t, i, j, x, want))]
    # the retained energies: GEVP of the pruned matrix
    if Ntrunc >= 2 and case['kind'] == 'exact' and t0 not in nones:
        E = d['E']
        try:
            with warnings.catch_warnings():
                warnings.simplefilter('ignore')
                for state in range(Ntrunc):
                    ev = pr.Eigenvalue(t0, state=state)
                    for t in range(t0 + 1, T):
                        if t in nones:
                            continue
                        want = math.exp(-E[state] * (t - t0))
                        if abs(ev.content[t][0].value - want) > 1e-6 * math.exp(-E[0] * (t - t0)):
                            return [('violation', 'pruning-changes-the-retained-energies', 'state=%d t=%d value=%r expected=%r' % (state, t, ev.content[t][0].value, want))]
        except Exception as e:
            return [('violation', 'gevp-of-pruned-matrix-raises', repr(e)[:200])]
    return probs


# ------------------------------------------------------------------------------------------------ matrix pencil

def np_mpm(y, k, p):
    import scipy.linalg
    n = len(y)
    H = scipy.linalg.hankel(y[:n - p], y[n - p - 1:])
    y1, y2 = H[:, :p], H[:, 1:]
    u, s, vh = np.linalg.svd(y2, full_matrices=False)
    z = np.diag(1. / s[:k]) @ u[:, :k].T @ y1 @ vh.T[:, :k]
    return sorted(np.log(np.abs(np.linalg.eigvals(z))), key=abs)


def grab_locals(func, names, *args, **kwargs):
    """run func and return (result, {name: value}) with the values of its local variables at return"""
    got = {}
    code = func.__code__

    def tracer(frame, event, arg):
        if frame.f_code is code:
            def local(frame, event, arg):
                if event == 'return':
                    for n in names:
                        if n in frame.f_locals:
                            got[n] = frame.f_locals[n]
                return local
            return local
        return None
    old = sys.gettrace()
    sys.settrace(tracer)
    try:
        res = func(*args, **kwargs)
    finally:
        sys.settrace(old)
    return res, got


def check_mpm(ctx, case, d=None):
    probs = []
    rng = __import__('random').Random(case['seed'])
    nprng = np.random.default_rng(case['seed'])
    k, n, p = case['k'], case['n'], case['p']
    E = [nprng.uniform(0.15, 0.4)]
    lo, hi = case.get('spacing', [0.35, 0.6])
    for _ in range(k - 1):
        E.append(E[-1] + nprng.uniform(lo, hi))
    a = nprng.uniform(0.5, 2.0, size=k)
    y = np.array([sum(a[i] * math.exp(-E[i] * t) for i in range(k)) for t in range(n)])
    ncfg = rng.randint(12, 25)
    obs = []
    for t in range(n):
        x = nprng.normal(size=ncfg) * 1e-4 * y[t]
        obs.append(pe.Obs([x - np.mean(x) + y[t]], ['A|r1']))
    ctx.count('mpm k=%d' % k)
    want_exc = (n <= p) or (p < k) or (n - p < k)
    try:
        with warnings.catch_warnings():
            warnings.simplefilter('ignore')
            res, loc = grab_locals(pe.mpm.matrix_pencil_method, ['y1', 'y2'], obs, k=k, p=p)
    except Exception as e:
        if want_exc:
            return probs
        return [('violation', 'mpm-raises', repr(e)[:200])]
    if want_exc:
        return [('violation', 'mpm-accepts-inadmissible-pencil-parameter', [n, k, p])]
    # Hankel slicing against the model: y1[i][j] = y[i+j], y2[i][j] = y[i+j+1]
    if ctx.lean is not None:
        rr = ctx.lean.call({'op': 'gevp', 'what': 'pencil', 'y': [f2b(v) for v in y], 'p': p})
        if '_err' in rr:
            probs.append(('disagree', 'lean-driver-error', rr['_err']))
        elif 'y1' not in loc or 'y2' not in loc:
            probs.append(('disagree', 'pencil-matrices-not-observable', sorted(loc)))
        else:
            for nm in ('y1', 'y2'):
                A = np.vectorize(lambda x: x.value if isinstance(x, pe.Obs) else float(x))(np.asarray(loc[nm], dtype=object)).astype(float)
                B = np.array([[b2f(x) for x in row] for row in rr[nm]])
                if A.shape != B.shape or np.max(np.abs(A - B)) > 1e-12 * np.max(np.abs(y)):
                    probs.append(('disagree', 'pencil-matrix-model-vs-impl', [nm, A.shape, B.shape]))
    # conditioning of the recovery: compare with the same algorithm on the exact numbers
    ref = np_mpm(y, k, p)
    tol = max(1e-7, 50 * max(abs(r - e) for r, e in zip(ref, sorted(E))))
    if tol > 1e-4:
        ctx.illcond += 1
        return probs
    if len(res) != k:
        return [('violation', 'mpm-wrong-number-of-levels', len(res))]
    for i, (r, e) in enumerate(zip(res, sorted(E))):
        ctx.residual('mpm_energy_abs', abs(abs(r.value) - e))
        if abs(abs(r.value) - e) > tol:
            return [('violation', 'mpm-energy-not-recovered', 'level %d: %r expected %r (tol %.1e)' % (i, r.value, e, tol))]
    if any(abs(res[i].value) > abs(res[i + 1].value) for i in range(k - 1)):
        return [('violation', 'mpm-levels-not-sorted', [r.value for r in res])]
    # propagation: directional finite difference of the same algorithm along the fluctuation of one configuration
    cfg = rng.randrange(ncfg)
    dy = np.array([o.deltas['A|r1'][cfg] for o in obs])
    def fdiff(h):
        return (np.array(np_mpm(y + h * dy, k, p)) - np.array(np_mpm(y - h * dy, k, p))) / (2 * h)
    f1, f2 = fdiff(2e-2), fdiff(1e-2)
    fd = (4 * f2 - f1) / 3
    if any(abs(f2[i] - f1[i]) > 1e-3 * abs(fd[i]) + 1e-10 for i in range(k)):
        # the finite-difference reference is not in its linear regime (nearly rank-deficient pencil): no verdict
        ctx.illcond += 1
        return probs
    for i in range(k):
        got = res[i].deltas['A|r1'][cfg]
        sc = max(abs(fd[i]), np.max(np.abs(res[i].deltas['A|r1'])))
        if abs(got - fd[i]) > 1e-5 * sc + 2 * abs(f2[i] - f1[i]) + 1e-12:
            probs.append(('violation', 'mpm-fluctuation-not-the-derivative', 'level %d cfg %d: %r expected %r' % (i, cfg, got, fd[i])))
            break
    return probs


# ------------------------------------------------------------------------------------------------ solver level

def check_solver(ctx, case):
    """_GEVP_solver and _sort_vectors directly, against the model"""
    probs = []
    nprng = np.random.default_rng(case['seed'])
    rng = __import__('random').Random(case['seed'])
    N = case['N']
    from pyerrors.correlators import _GEVP_solver, _sort_vectors
    ctx.count('solver-level N=%d' % N)
    # _sort_vectors: reference at ts, every other timeslice a scaled permutation of the reference
    ref = rand_orth(nprng, N) @ np.diag(nprng.uniform(0.5, 2, size=N)) @ rand_orth(nprng, N)
    Tn = case['T']
    ts = rng.randrange(Tn)
    vec_set, perms = [], []
    for t in range(Tn):
        if t == ts:
            vec_set.append([ref[k].copy() for k in range(N)])
            perms.append(list(range(N)))
        elif rng.random() < 0.2:
            vec_set.append(None)
            perms.append(None)
        else:
            sg = list(range(N))
            rng.shuffle(sg)
            perms.append(sg)
            vec_set.append([ref[sg[k]] * rng.choice([-1, 1]) * rng.uniform(0.5, 2) + 1e-3 * nprng.normal(size=N) for k in range(N)])
    out = _sort_vectors(vec_set, ts)
    for t in range(Tn):
        if (out[t] is None) != (vec_set[t] is None):
            return [('violation', 'sort-vectors-undefined-pattern', t)]
        if out[t] is None:
            continue
        # a permutation of the input of that timeslice ...
        used = []
        for s in range(N):
            idx = [k for k in range(N) if out[t][s] is vec_set[t][k] or np.array_equal(out[t][s], vec_set[t][k])]
            if len(idx) != 1:
                return [('violation', 'sort-vectors-not-a-permutation', t)]
            used.append(idx[0])
        if sorted(used) != list(range(N)):
            return [('violation', 'sort-vectors-not-a-permutation', t)]
        # ... that follows the reference states
        for s in range(N):
            c = cosang(out[t][s], ref[s])
            if 1 - c > 1e-3:
                return [('violation', 'sort-vectors-does-not-follow-the-reference-state', 't=%d state=%d permutation=%r' % (t, s, perms[t]))]
    if ctx.lean is not None:
        rr = ctx.lean.call({'op': 'gevp', 'what': 'sort', 'ts': ts,
                            'vecs': [None if v is None else [[f2b(x) for x in row] for row in v] for v in vec_set]})
        if '_err' in rr:
            probs.append(('disagree', 'lean-driver-error', rr['_err']))
        elif 'exc' in rr:
            probs.append(('disagree', 'sort-model-raises', rr['exc']))
        else:
            w = compare_struct(out, rr['vecs'])
            if w:
                probs.append(('disagree', 'sort-vectors-model-vs-impl', w))
    return probs


# ------------------------------------------------------------------------------------------------ refusals

def check_refuse(ctx, case, d):
    """requests the documentation rules out are refused (ValueError), in the implementation and in the model"""
    probs = []
    N, T, t0 = case['N'], case['T'], case['t0']
    corr = d['corr']
    ts = case.get('ts')
    reqs = [('ts<=t0', {'sort': 'Eigenvalue', 'ts': t0}), ('ts<=t0', {'sort': None, 'ts': max(t0 - 1, 0)}),
            ('sort-None-without-ts', {'sort': None}), ('Eigenvector-without-ts', {'sort': 'Eigenvector'}),
            ('unknown-sort', {'sort': 'Energy', 'ts': ts})]
    for name, kw in reqs:
        for method in ('eigh', 'cholesky'):
            how, res = call_gevp(corr, t0, method=method, **kw)
            ctx.count('refuse ' + name)
            if how != 'exc' or res != 'ValueError':
                probs.append(('violation', 'gevp-does-not-refuse-' + name, [method, how, res if how == 'exc' else 'returned']))
            if ctx.lean is not None:
                rr = lean_gevp(ctx, case, d, method, kw['sort'], kw.get('ts'), None)
                if '_err' in rr:
                    probs.append(('disagree', 'lean-driver-error', rr['_err']))
                elif ('exc' in rr) != (how == 'exc') or ('exc' in rr and not rr['exc'].startswith('PV.GErr.valueError') and res == 'ValueError'):
                    probs.append(('disagree', 'gevp-refusal-model-vs-impl', [name, method, rr.get('exc'), how, res if how == 'exc' else None]))
    single = pe.Corr([corr.content[t][0, 0] if corr.content[t] is not None else None for t in range(T)])
    how, res = call_gevp(single, t0)
    if how != 'exc' or res != 'ValueError':
        probs.append(('violation', 'gevp-does-not-refuse-N=1', [how]))
    return probs


# ------------------------------------------------------------------------------------------------ cases

def check_case(ctx, case):
    probs = []
    with warnings.catch_warnings(), quiet():
        warnings.simplefilter('ignore')
        what = case['what']
        if what == 'mpm':
            return check_mpm(ctx, case)
        if what == 'solver':
            return check_solver(ctx, case)
        d = build(case)
        if what == 'gevp':
            p, _ = check_gevp(ctx, case, d)
            probs += p
            if not probs:
                probs += check_eigenvalue_corr(ctx, case, d)
        elif what == 'vector_obs':
            probs += check_vector_obs(ctx, case, d)
        elif what == 'prune':
            probs += check_prune(ctx, case, d)
        elif what == 'refuse':
            probs += check_refuse(ctx, case, d)
    return probs


def gen_case(ctx):
    rng = ctx.rng
    seed = rng.randrange(1 << 30)
    what = rng.choices(['gevp', 'vector_obs', 'prune', 'mpm', 'solver', 'refuse'], weights=[9, 2, 3, 3, 3, 1])[0]
    if what == 'mpm':
        k = rng.choice([1, 1, 2, 2, 3, 4, 4, 5, 5])
        n = rng.randint(max(2 * k + 1, 6), 16) if k < 5 else rng.randint(12, 24)
        if rng.random() < 0.15:
            p = rng.choice([0, k - 1, n - k + 1, n, n + 1])
            p = max(p, 0)
        elif rng.random() < 0.3:
            p = None
        else:
            p = rng.randint(k, n - k)
        if p is None:
            p = max(n // 2, k)
        return {'what': 'mpm', 'seed': seed, 'k': k, 'n': n, 'p': p, 'spacing': rng.choice([[0.35, 0.6], [0.35, 0.6], [0.15, 0.3], [0.5, 0.9]])}
    if what == 'solver':
        return {'what': 'solver', 'seed': seed, 'N': rng.choice([2, 3, 3, 4, 4]), 'T': rng.randint(3, 8)}
    N = rng.choice([2, 3, 3, 4, 5])
    T = rng.randint(8, 24)
    if what == 'vector_obs':
        N = rng.choice([2, 3])
        T = rng.randint(8, 10)
    t0 = rng.randint(1, max(1, T // 3))
    ts = rng.randint(t0 + 1, T - 1)
    case = {'what': what, 'seed': seed, 'N': N, 'T': T, 't0': t0, 'ts': ts,
            'kind': rng.choice(['exact', 'exact', 'crossing']),
            'nonsym': rng.random() < 0.3, 'forder': rng.random() < 0.4}
    case['int00'] = (not case['nonsym']) and what != 'refuse' and rng.random() < 0.25
    if not case['int00'] and rng.random() < 0.35:
        case['scale2'] = rng.choice([-10, -12, 6])
    r = rng.random()
    if r < 0.35:
        cand = [t for t in range(T) if t not in (t0, ts)]
        case['nones'] = sorted(rng.sample(cand, rng.randint(1, min(3, len(cand)))))
        if rng.random() < 0.4 and 0 not in case['nones'] and t0 != 0:
            case['nones'] = sorted(set(case['nones']) | {0})
    elif r < 0.42:
        case['nones'] = [rng.choice([t0, ts])]
    else:
        case['nones'] = []
    if what == 'gevp':
        case['methods'] = ['eigh', 'cholesky']
        case['sorts'] = ['Eigenvalue', 'Eigenvector', None]
        case['pass_ts'] = rng.random() < 0.3
    elif what == 'vector_obs':
        case['sorts'] = [rng.choice(['Eigenvalue', 'Eigenvector', None])]
        case['rel'] = 1e-3
    elif what == 'refuse':
        case['nones'] = [t for t in case['nones'] if t not in (t0, ts)]
    else:
        case['Ntrunc'] = rng.randint(1, N - 1)
        case['t0proj'] = rng.randint(1, max(1, T // 3))
        case['tproj'] = rng.randint(case['t0proj'] + 1, T - 1)
        if case['nones'] and rng.random() < 0.8:
            case['nones'] = [t for t in case['nones'] if t not in (case['t0proj'], case['tproj'])]
    return case


def run(ctx):
    n = ctx.budget(110, 1200)
    corpus = os.path.join(os.path.dirname(os.path.dirname(os.path.dirname(os.path.abspath(__file__)))), 'corpus', 'C16')
    cases = []
    if os.path.isdir(corpus):
        for fn in sorted(os.listdir(corpus)):
            cases.append(json.load(open(os.path.join(corpus, fn)))['case'])
    for _ in range(n):
        cases.append(gen_case(ctx))
    # stratified: every number of exponentials of the quantifier with admissible pencil parameters
    for k in (1, 2, 3, 4, 5):
        for rep in range(ctx.budget(2, 20)):
            nn = ctx.rng.randint(max(2 * k + 2, 8), 24)
            cases.append({'what': 'mpm', 'seed': ctx.rng.getrandbits(30), 'k': k, 'n': nn, 'p': ctx.rng.randint(k, nn - k),
                          'spacing': ctx.rng.choice([[0.35, 0.6], [0.15, 0.3], [0.5, 0.9]])})
    for case in cases:
        ctx.count('what=' + case['what'])
        if case.get('kind'):
            ctx.count('kind=' + case['kind'])
        if case.get('nones'):
            ctx.count('undefined-timeslices')
        if case.get('nonsym'):
            ctx.count('non-symmetric')
        ctx.case(case)
        for (kind, key, info) in check_case(ctx, case):
            (ctx.violation if kind == 'violation' else ctx.disagree)(key, {'case': case, 'info': info})
        if len(ctx.violations) + len(ctx.disagreements) > 25:
            break
