"""C01 - linear error propagation is exact and aligned by configuration number.

impl   = pyerrors operators / numpy-style functions / derived_observable on Obs and CObs
model  = PV.Model.Ops (T.eval over the call sites REGENERATED from obs.py by tr_grads)   [op expr_tree]
oracle = the statement of the property written directly by configuration number (this file,
         class Q): analytic derivatives, union of configurations, up-weighting factors.

predicate P   : impl == oracle on every generated tree (failing-input search)
correspondence: impl == model
theorems      : PV/Props/C01.lean (22 hand-written gradients are the analytic derivatives of the
                translated lambda bodies; delta formula of derivedObs; union / range normal form).
"""
import math
import json
import os
from pe_util import np, pe, gen_idl, gen_data, dump_obs, dump_idl, close, f2b, b2f

RULE = ('2-4 leaf observables on 1-3 ensembles x 1-3 replicas, replica subsets missing, idl contiguous/strided/'
        'irregular/partly overlapping, 0-2 covariance inputs shared or not; random operator trees of depth 1-4 over '
        '+ - * / ** neg abs and 15 functions with Obs/int/float partners in both positions, domain-checked on the '
        'central values; plus splitting-independence identities and autograd / num_grad / one-shot paths. '
        'non-trivial = distinct canonical (leaves, tree).')
TRUSTED = ['autograd / numdifftools (contract: returns the derivative; measured against the analytic derivative per case)',
           'libm elementary functions']
ASSUMPTIONS = ['comparison tolerance 1e-9 relative to the largest contribution (1e-6 for num_grad)']

UN = ['neg', 'abs', 'sqrt', 'log', 'exp', 'sin', 'cos', 'tan', 'sinh', 'cosh', 'tanh', 'arcsin', 'arccos', 'arctan',
      'arcsinh', 'arccosh', 'arctanh']
BIN = ['add', 'sub', 'mul', 'div', 'pow']

# analytic (value, derivative) of the unary functions -- written from calculus, not from the code
UNF = {
    'neg': (lambda x: -x, lambda x: -1.0), 'abs': (abs, lambda x: math.copysign(1.0, x)),
    'sqrt': (math.sqrt, lambda x: 0.5 / math.sqrt(x)), 'log': (math.log, lambda x: 1 / x),
    'exp': (math.exp, math.exp), 'sin': (math.sin, math.cos), 'cos': (math.cos, lambda x: -math.sin(x)),
    'tan': (math.tan, lambda x: 1 + math.tan(x) ** 2), 'sinh': (math.sinh, math.cosh), 'cosh': (math.cosh, math.sinh),
    'tanh': (math.tanh, lambda x: 1 - math.tanh(x) ** 2), 'arcsin': (math.asin, lambda x: 1 / math.sqrt(1 - x * x)),
    'arccos': (math.acos, lambda x: -1 / math.sqrt(1 - x * x)), 'arctan': (math.atan, lambda x: 1 / (1 + x * x)),
    'arcsinh': (math.asinh, lambda x: 1 / math.sqrt(x * x + 1)), 'arccosh': (math.acosh, lambda x: 1 / math.sqrt(x * x - 1)),
    'arctanh': (math.atanh, lambda x: 1 / (1 - x * x)),
}


def dom_ok(f, x):
    if not math.isfinite(x) or abs(x) > 50:
        return False
    if f in ('sqrt', 'log'):
        return x > 0.2
    if f == 'abs':
        return abs(x) > 0.2
    if f in ('arcsin', 'arccos', 'arctanh'):
        return abs(x) < 0.85
    if f == 'arccosh':
        return x > 1.2
    if f == 'tan':
        return abs(math.cos(x)) > 0.2
    if f in ('exp', 'sinh', 'cosh'):
        return abs(x) < 5
    return True


def binf(op, a, b):
    """value and partial derivatives of a binary operator"""
    if op == 'add':
        return a + b, 1.0, 1.0
    if op == 'sub':
        return a - b, 1.0, -1.0
    if op == 'mul':
        return a * b, b, a
    if op == 'div':
        return a / b, 1 / b, -a / (b * b)
    if op == 'pow':
        return a ** b, b * a ** (b - 1), a ** b * math.log(a)
    raise ValueError(op)


def binval(op, a, b):
    """value only (the replica means may leave the domain of the derivative formulas)"""
    if op == 'add':
        return a + b
    if op == 'sub':
        return a - b
    if op == 'mul':
        return a * b
    if op == 'div':
        return a / b
    r = a ** b
    return float('nan') if isinstance(r, complex) else r


def bin_dom_ok(op, a, b):
    if op == 'div':
        return abs(b) > 0.2
    if op == 'pow':
        return a > 0.2 and abs(b) < 4 and abs(b * math.log(a)) < 6
    return True


# ------------------------------------------------------------------ oracle by configuration number

class Q:
    """an observable as a table by (chain, configuration number)"""

    def __init__(self, value, rv, d, cov, reweighted=False):
        self.value, self.rv, self.d, self.cov, self.reweighted = value, rv, d, cov, reweighted
        # magnitude of what was added up per chain (scale for comparisons when contributions cancel)
        self.mag = {n: max([abs(x) for x in dd.values()] + [0.0]) for n, dd in d.items()}

    @staticmethod
    def of(o):
        d = {n: {int(c): float(x) for c, x in zip(o.idl[n], o.deltas[n])} for n in o.names if n not in o.covobs}
        rv = {n: float(o.r_values[n]) for n in d}
        cov = {n: (np.atleast_2d(np.asarray(o.covobs[n].cov, dtype=float)), np.asarray(o.covobs[n].grad, dtype=float).ravel()) for n in o.covobs}
        return Q(float(o.value), rv, d, cov, bool(o.reweighted))


def _safe(f):
    def g(v):
        try:
            return f(v)
        except (ValueError, ZeroDivisionError, OverflowError):
            return float('nan')
    return g


def combine(f, grads, qs):
    f = _safe(f)
    """the statement: value f(values); on every configuration of the union the fluctuation is
    sum_j df/dx_j * w_j * delta_j (zero where j was not measured); chain rule for covariance inputs"""
    names = sorted(set(n for q in qs for n in q.d))
    union = {n: sorted(set(c for q in qs if n in q.d for c in q.d[n])) for n in names}
    ens = lambda n: n.split('|')[0]  # noqa: E731
    out_d, out_rv, out_mag = {}, {}, {}
    for n in names:
        out_mag[n] = 0.0
        out_rv[n] = f([q.rv.get(n, q.value) for q in qs])
        acc = {c: 0.0 for c in union[n]}
        for g, q in zip(grads, qs):
            if n not in q.d:
                continue
            e = ens(n)
            own = [m for m in q.d if ens(m) == e]
            new = [m for m in names if ens(m) == e]
            sigma = 1.0
            if 0 < len(own) < len(new):
                sigma = sum(len(union[m]) for m in new) / sum(len(union[m]) for m in own)
            w = len(union[n]) / len(q.d[n]) * sigma
            out_mag[n] += abs(g) * w * q.mag.get(n, 0.0)
            for c, x in q.d[n].items():
                acc[c] += g * w * x
        out_d[n] = acc
    cov = {}
    for g, q in zip(grads, qs):
        for cn, (cm, gr) in q.cov.items():
            if cn in cov:
                cov[cn] = (cov[cn][0], cov[cn][1] + g * gr)
            else:
                cov[cn] = (cm, g * gr)
    res = Q(f([q.value for q in qs]), out_rv, out_d, cov, any(q.reweighted for q in qs))
    res.mag = out_mag
    return res


def oracle_eval(tree, leaves):
    if 'leaf' in tree:
        return leaves[tree['leaf']]
    if 'num' in tree:
        return float(tree['num'])
    if 'un' in tree:
        a = oracle_eval(tree['a'], leaves)
        fn, dfn = UNF[tree['un']]
        if isinstance(a, Q):
            return combine(lambda v: fn(v[0]), [dfn(a.value)], [a])
        return fn(a)
    a, b = oracle_eval(tree['a'], leaves), oracle_eval(tree['b'], leaves)
    op = tree['bin']
    if isinstance(a, Q) and isinstance(b, Q):
        _, ga, gb = binf(op, a.value, b.value)
        return combine(lambda v: binval(op, v[0], v[1]), [ga, gb], [a, b])
    if isinstance(a, Q):
        _, ga, _ = binf(op, a.value, b)
        return combine(lambda v: binval(op, v[0], b), [ga], [a])
    if isinstance(b, Q):
        _, _, gb = binf(op, a, b.value)
        return combine(lambda v: binval(op, a, v[0]), [gb], [b])
    return binf(op, a, b)[0]


def impl_eval(tree, leaves):
    if 'leaf' in tree:
        return leaves[tree['leaf']]
    if 'num' in tree:
        v = tree['num']
        return int(v) if tree.get('int') else float(v)
    if 'un' in tree:
        a = impl_eval(tree['a'], leaves)
        f = tree['un']
        if f == 'neg':
            return -a
        if f == 'abs':
            return abs(a)
        return getattr(np, f)(a)
    a, b = impl_eval(tree['a'], leaves), impl_eval(tree['b'], leaves)
    op = tree['bin']
    return {'add': lambda: a + b, 'sub': lambda: a - b, 'mul': lambda: a * b, 'div': lambda: a / b, 'pow': lambda: a ** b}[op]()


def value_eval(tree, vals):
    """central values only, with domain checks; returns None when outside the safe domain"""
    if 'leaf' in tree:
        return vals[tree['leaf']]
    if 'num' in tree:
        return float(tree['num'])
    if 'un' in tree:
        a = value_eval(tree['a'], vals)
        if a is None or not dom_ok(tree['un'], a):
            return None
        return UNF[tree['un']][0](a)
    a, b = value_eval(tree['a'], vals), value_eval(tree['b'], vals)
    if a is None or b is None or not bin_dom_ok(tree['bin'], a, b):
        return None
    try:
        v = binf(tree['bin'], a, b)[0]
    except Exception:
        return None
    return v if math.isfinite(v) and abs(v) < 1e4 else None


def has_leaf(t):
    return 'leaf' in t or ('a' in t and has_leaf(t['a'])) or ('b' in t and has_leaf(t['b']))


def gen_tree(rng, nleaves, depth):
    if depth == 0 or rng.random() < 0.15:
        if rng.random() < 0.75:
            return {'leaf': rng.randrange(nleaves)}
        if rng.random() < 0.5:
            return {'num': rng.choice([1, 2, 3, -1, -2]), 'int': True}
        return {'num': rng.choice([0.5, 1.5, -0.75, 2.25, 0.125])}
    if rng.random() < 0.35:
        return {'un': rng.choice(UN), 'a': gen_tree(rng, nleaves, depth - 1)}
    return {'bin': rng.choice(BIN), 'a': gen_tree(rng, nleaves, depth - 1), 'b': gen_tree(rng, nleaves, depth - 1)}


def gen_leaves(ctx):
    """leaf descriptions: per leaf a list of chains {name, idl, samples} and optional cov spec"""
    rng = ctx.rng
    nprng = np.random.default_rng(rng.getrandbits(32))
    nens = rng.choice([1, 1, 2, 3])
    layout = {}
    # ensemble names: unrelated, or one a prefix / a suffix / an inner part of another (they are different ensembles all the same)
    ens_names = rng.choice([['A', 'B', 'C'], ['A', 'B', 'C'], ['B450', 'sB450', 'B45'], ['A', 'A1', 'xA'], ['ens', 'ens2', '1ens'], ['N2', 'N20', 'N200']])
    for e in range(nens):
        ens = ens_names[e]
        nrep = rng.choice([1, 2, 3])
        names = ['%s|r%d' % (ens, i + 1) for i in range(nrep)] if (nrep > 1 or rng.random() < 0.6) else [ens]
        if nrep > 1 and rng.random() < 0.25:
            names[0] = ens      # a first replica called exactly like the ensemble, further ones added later as 'ens|r2'
        base = {}
        for n in names:
            ln = rng.randint(8, 36)
            base[n] = list(gen_idl(rng, ln, rng.choice(['contig', 'contig', 'strided', 'irregular', 'gapped', 'deceptive'])))
        layout[ens] = base
    mode = rng.choice(['same', 'sameidl_subsets', 'samereps_diffidl', 'free'])
    nleaves = rng.randint(2, 4)
    leaves = []
    for _ in range(nleaves):
        chains = []
        enss = [e for e in layout if rng.random() < 0.75] or [rng.choice(list(layout))]
        if mode == 'same':
            enss = list(layout)
        for e in enss:
            names = list(layout[e])
            if mode in ('sameidl_subsets', 'free') and len(names) > 1:
                names = sorted(rng.sample(names, rng.randint(1, len(names))))
            for n in names:
                il = layout[e][n]
                if mode in ('samereps_diffidl', 'free'):
                    k = rng.choice(['all', 'prefix', 'stride', 'random', 'shifted', 'head', 'tail'])
                    if k in ('head', 'tail') and len(il) >= 15:
                        # pieces of the chain separated by a stretch nobody measured
                        il = il[:len(il) // 3] if k == 'head' else il[-(len(il) // 3):]
                    if k == 'prefix':
                        il = il[:max(5, len(il) * 2 // 3)]
                    elif k == 'stride':
                        il = il[::2] if len(il[::2]) >= 5 else il
                    elif k == 'random':
                        il = sorted(rng.sample(il, max(5, len(il) - rng.randint(1, 4))))
                    elif k == 'shifted':
                        il = il[len(il) // 3:] + [il[-1] + (il[-1] - il[-2]) * (i + 1) for i in range(3)]
                x = gen_data(rng, nprng, len(il), rng.choice(['white', 'ar05', 'int'])) * 0.05 + rng.choice([0.7, 1.1, 1.6, 0.4])
                chains.append({'name': n, 'idl': [int(c) for c in il], 'samples': [float(v).hex() for v in x]})
        cov = rng.choice([None, None, 'c1', 'c2', 'c2b'])
        leaves.append({'chains': chains, 'cov': cov, 'mode': mode})
    return leaves


def build_leaf(ld):
    byens = {}
    for c in ld['chains']:
        byens.setdefault(c['name'].split('|')[0], []).append(c)
    tot = None
    for e, cl in sorted(byens.items()):
        o = pe.Obs([np.array([float.fromhex(v) for v in c['samples']]) for c in cl], [c['name'] for c in cl], idl=[c['idl'] for c in cl])
        tot = o if tot is None else tot + o
    if ld['cov'] == 'c1':
        tot = tot + 0.1 * pe.cov_Obs(0.3, 0.04, 'cvA')
    elif ld['cov'] == 'c2':
        c = pe.cov_Obs([0.1, 0.2], [[0.05, 0.01], [0.01, 0.03]], 'cvB')
        tot = tot + 0.2 * c[0] - 0.1 * c[1]
    elif ld['cov'] == 'c2b':
        c = pe.cov_Obs([0.1, 0.2], [[0.05, 0.01], [0.01, 0.03]], 'cvB')
        tot = tot * (1 + 0.05 * c[1])
    return tot


def compare_q(res, q, rtol=1e-9):
    """impl result (Obs or number) against an oracle Q / number; returns list of differences"""
    if not isinstance(q, Q):
        if isinstance(res, pe.Obs):
            return ['result is an Obs, oracle a number']
        return [] if close(float(res), q, rtol=rtol) else ['number %r vs %r' % (res, q)]
    if not isinstance(res, pe.Obs):
        return ['result is %s, oracle an observable' % type(res).__name__]
    out = []
    scale = max(1.0, abs(q.value))
    if not close(float(res.value), q.value, rtol=rtol, scale=scale):
        out.append('value %r vs %r' % (float(res.value), q.value))
    mc = sorted(n for n in res.names if n not in res.covobs)
    if mc != sorted(q.d):
        out.append('chains %r vs %r' % (mc, sorted(q.d)))
        return out
    for n in mc:
        if [int(c) for c in res.idl[n]] != sorted(q.d[n]):
            out.append('configurations of %s differ: %r vs %r' % (n, list(res.idl[n])[:8], sorted(q.d[n])[:8]))
            continue
        ds = max([abs(x) for x in q.d[n].values()] + [1e-12, q.mag.get(n, 0.0), 1e-3 * abs(q.value)])
        for c, x in zip(res.idl[n], res.deltas[n]):
            if not close(float(x), q.d[n][int(c)], rtol=rtol, scale=ds):
                out.append('delta %s@%d %r vs %r' % (n, c, float(x), q.d[n][int(c)]))
                break
        # a replica mean may sit on a singularity of the expression although the central value does not (x / 0, log 0 at the mean
        # of one replica): inf on one route and nan on the other both say "not a number there"
        both_undef = not math.isfinite(float(res.r_values[n])) and not math.isfinite(q.rv[n])
        if not both_undef and not close(float(res.r_values[n]), q.rv[n], rtol=rtol, scale=scale):
            out.append('r_value %s %r vs %r' % (n, float(res.r_values[n]), q.rv[n]))
        il = res.idl[n]
        l = list(il)
        eq = len(l) >= 2 and all(l[i + 1] - l[i] == l[1] - l[0] for i in range(len(l) - 1))
        if isinstance(il, range) != eq:
            out.append('%s: stored as %s but equally spaced = %s' % (n, type(il).__name__, eq))
    if sorted(res.covobs) != sorted(k for k in q.cov):
        # a covariance input whose gradient vanished identically is still listed by the code; accept extra zero entries
        extra = set(q.cov) ^ set(res.covobs)
        for k in extra:
            if k in res.covobs and not np.any(np.asarray(res.covobs[k].cov)):
                continue      # zero covariance: carries no fluctuation (plain numbers inside matrices)
            g = q.cov[k][1] if k in q.cov else np.asarray(res.covobs[k].grad).ravel()
            if np.any(np.abs(g) > 1e-12):
                out.append('covariance inputs %r vs %r' % (sorted(res.covobs), sorted(q.cov)))
                break
    for k in res.covobs:
        if k in q.cov:
            g1 = np.asarray(res.covobs[k].grad, dtype=float).ravel()
            g2 = q.cov[k][1]
            if g1.shape != g2.shape or np.max(np.abs(g1 - g2)) > rtol * max(1.0, np.max(np.abs(g2))):
                out.append('cov gradient %s %r vs %r' % (k, g1, g2))
    if bool(res.reweighted) != q.reweighted:
        out.append('reweighted flag')
    return out


def decode_obs(j):
    """Lean Obs json -> Q"""
    d = {}
    rv = {}
    for r in j['reps']:
        il = r['idl']
        cf = [il['range'][0] + il['range'][2] * k for k in range(il['range'][1])] if 'range' in il else il['list']
        d[r['name']] = {int(c): b2f(x) for c, x in zip(cf, r['deltas'])}
        rv[r['name']] = b2f(r['rvalue'])
    cov = {c['name']: (np.array([[b2f(x) for x in row] for row in c['cov']]), np.array([b2f(x) for x in c['grad']])) for c in j['covs']}
    q = Q(b2f(j['value']), rv, d, cov, j['reweighted'])
    q.is_range = {r['name']: ('range' in r['idl']) for r in j['reps']}
    return q


def enc_tree(t):
    if 'leaf' in t:
        return {'leaf': t['leaf']}
    if 'num' in t:
        return {'num': f2b(float(t['num']))}
    if 'un' in t:
        return {'un': t['un'], 'a': enc_tree(t['a'])}
    return {'bin': t['bin'], 'a': enc_tree(t['a']), 'b': enc_tree(t['b'])}


def same_replica_sets(leaves):
    ens = {}
    for l in leaves:
        by = {}
        for n in l.names:
            if n in l.covobs:
                continue
            by.setdefault(n.split('|')[0], set()).add(n)
        for e, s in by.items():
            ens.setdefault(e, []).append(frozenset(s))
    return all(len(set(v)) == 1 for v in ens.values())


def same_idl_per_replica(leaves):
    idl = {}
    for l in leaves:
        for n in l.names:
            if n in l.covobs:
                continue
            idl.setdefault(n, []).append(tuple(l.idl[n]))
    return all(len(set(v)) == 1 for v in idl.values())


def obs_equal(a, b, rtol=1e-9):
    return compare_q(a, Q.of(b), rtol=rtol)


def check_case(ctx, case):
    probs = []
    leaves = [build_leaf(ld) for ld in case['leaves']]
    qleaves = [Q.of(o) for o in leaves]
    kind = case.get('kind', 'tree')
    if kind == 'tree':
        tree = case['tree']
        try:
            res = impl_eval(tree, leaves)
        except Exception as e:
            probs.append(('violation', 'exception', '%s: %s' % (type(e).__name__, str(e)[:200])))
            return probs
        q = oracle_eval(tree, qleaves)
        d = compare_q(res, q)
        if d:
            probs.append(('violation', 'propagation', d[:5]))
        if ctx.lean is not None and has_leaf(tree):
            r = ctx.lean.call({'op': 'expr_tree', 'leaves': [dump_obs(o) for o in leaves], 'tree': enc_tree(tree)})
            if '_err' in r:
                probs.append(('disagree', 'lean-driver-error', r['_err']))
            elif 'exc' in r:
                probs.append(('disagree', 'model-exception', r['exc']))
            elif 'obs' in r:
                m = decode_obs(r['obs'])
                if isinstance(q, Q):
                    m.mag = dict(q.mag)     # scale of what was added up (contributions may cancel to rounding noise)
                d2 = compare_q(res, m) if isinstance(res, pe.Obs) else ['impl returned a number']
                if isinstance(res, pe.Obs):
                    for n, isr in m.is_range.items():
                        if n in res.idl and isinstance(res.idl[n], range) != isr:
                            d2.append('range flag of %s' % n)
                if d2:
                    probs.append(('disagree', 'model-vs-impl', d2[:5]))
    elif kind == 'identity':
        ok_h = same_replica_sets(leaves) or same_idl_per_replica(leaves)
        ctx.count('identity_hyp=%s' % ok_h)
        a, b = leaves[0], leaves[1]
        c = leaves[2] if len(leaves) > 2 else leaves[0]
        if ok_h:
            for nm, x, y in [('assoc_add', (a + b) + c, a + (b + c)), ('assoc_mul', (a * b) * c, a * (b * c)),
                             ('div_mul', (a / b) * b, a + 0 * b), ('distrib', a * (b + c), a * b + a * c)]:
                d = obs_equal(x, y, rtol=1e-8)
                if d:
                    probs.append(('violation', 'splitting-' + nm, d[:4]))
            one = np.sin(a) ** 2 + np.cos(a) ** 2
            if abs(one.value - 1) > 1e-12 or any(np.max(np.abs(one.deltas[n])) > 1e-12 for n in one.deltas):
                probs.append(('violation', 'splitting-sin2cos2', 'sin^2+cos^2 is not the constant 1'))
        # one-shot derived_observable (autograd, num_grad) against step-wise operators: holds whenever
        # the hypothesis holds
        if ok_h:
            import autograd.numpy as anp
            step = a * b + anp.sin(c) / b
            for path, kw, tol in [('autograd', {}, 1e-8), ('num_grad', {'num_grad': True}, 1e-5)]:
                try:
                    one = pe.derived_observable(lambda x, **k: x[0] * x[1] + anp.sin(x[2]) / x[1], [a, b, c], **kw)
                except Exception as e:
                    probs.append(('violation', 'path-' + path, 'exception %r' % e))
                    continue
                d = obs_equal(one, step, rtol=tol)
                if d:
                    probs.append(('violation', 'path-' + path, d[:4]))
                # and against the oracle directly (contract of autograd / numdifftools)
                av, bv, cv = a.value, b.value, c.value
                q = combine(lambda v: v[0] * v[1] + math.sin(v[2]) / v[1], [bv, av - math.sin(cv) / bv ** 2, math.cos(cv) / bv], qleaves[:2] + [Q.of(c)])
                d = compare_q(one, q, rtol=tol)
                if d:
                    probs.append(('violation', 'oracle-' + path, d[:4]))
            # extra keyword arguments of derived_observable are parameters of the user function (documented: the
            # result is func(data, **kwargs)); value AND derivative must be taken with the values handed over
            def fkw(x, power=1.0, scale=1.0, **k):
                return scale * x[0] ** power + x[1]
            pw, sc_ = 3.0, 0.5
            stepk = sc_ * a ** pw + b
            for path, kw, tol in [('autograd-kwargs', {}, 1e-8), ('num_grad-kwargs', {'num_grad': True}, 1e-5)]:
                try:
                    onek = pe.derived_observable(fkw, [a, b], power=pw, scale=sc_, **kw)
                except Exception as e:
                    probs.append(('violation', 'path-' + path, 'exception %r' % e))
                    continue
                d = obs_equal(onek, stepk, rtol=tol)
                if d:
                    probs.append(('violation', 'path-' + path, d[:4]))
    elif kind == 'array':
        # array_mode path (pe.linalg.matmul / inv): one-shot propagation through all matrix entries
        L = leaves
        pick = case['pick']
        A = np.array([[L[pick[0] % len(L)], L[pick[1] % len(L)]], [L[pick[2] % len(L)] * 1.5, L[pick[3] % len(L)] + 0.25]])
        B = np.array([[L[pick[4] % len(L)], L[pick[5] % len(L)] * 0.5], [L[pick[6] % len(L)], L[pick[7] % len(L)]]])
        qs = [Q.of(x) for x in list(A.ravel()) + list(B.ravel())]
        av = np.array([[x.value for x in r] for r in A])
        bv = np.array([[x.value for x in r] for r in B])
        try:
            P = pe.linalg.matmul(A, B)
        except Exception as e:
            probs.append(('violation', 'array-exception', repr(e)))
            return probs
        for i in range(2):
            for k in range(2):
                grads = [0.0] * 8
                for j in range(2):
                    grads[2 * i + j] += bv[j][k]
                    grads[4 + 2 * j + k] += av[i][j]
                q = combine(lambda v, i=i, k=k: sum(v[2 * i + j] * v[4 + 2 * j + k] for j in range(2)), grads, qs)
                d = compare_q(P[i][k], q, rtol=1e-8)
                if d:
                    probs.append(('violation', 'array-matmul', ['entry (%d,%d)' % (i, k)] + d[:3]))
        # the scalar branch with a matrix-shaped `data` argument (what eigh / eig / svd / pinv hand over): every element carries its own
        # union / missing-replica factors
        import autograd.numpy as anp
        qa4 = qs[:4]
        for path, kw, tol in [('autograd', {}, 1e-8)]:        # (array-valued functions are documented as unsupported with num_grad)
            try:
                # (array-valued function of the matrix, as the linear-algebra wrappers use it)
                S = pe.derived_observable(lambda x, **k: anp.array([x[0, 0] * x[1, 1] - x[0, 1] * x[1, 0] + anp.sin(x[1, 0]), x[0, 1] * x[1, 1]]), A, **kw)
            except Exception as e:
                probs.append(('violation', 'matrix-data-' + path, 'exception %r' % e))
                continue
            grads = [av[1][1], -av[1][0], -av[0][1] + math.cos(av[1][0]), av[0][0]]
            q = combine(lambda v: v[0] * v[3] - v[1] * v[2] + math.sin(v[2]), grads, qa4)
            d = compare_q(S[0], q, rtol=tol)
            q1 = combine(lambda v: v[1] * v[3], [0.0, av[1][1], 0.0, av[0][1]], qa4)
            d = d or compare_q(S[1], q1, rtol=tol)
            if d:
                probs.append(('violation', 'matrix-data-' + path, d[:4]))
        if abs(np.linalg.det(av)) > 0.2:
            try:
                W = pe.linalg.inv(A)
            except Exception as e:
                probs.append(('violation', 'array-exception', repr(e)))
                return probs
            wi = np.linalg.inv(av)
            qa = qs[:4]
            for i in range(2):
                for k in range(2):
                    grads = [-(wi[i][a] * wi[b][k]) for a in range(2) for b in range(2)]
                    q = combine(lambda v, i=i, k=k: np.linalg.inv(np.array(v).reshape(2, 2))[i][k], grads, qa)
                    d = compare_q(W[i][k], q, rtol=1e-8)
                    if d:
                        probs.append(('violation', 'array-inv', ['entry (%d,%d)' % (i, k)] + d[:3]))
    elif kind == 'cobs':
        a, b = leaves[0], leaves[1]
        c = leaves[2] if len(leaves) > 2 else leaves[0]
        z1, z2 = pe.CObs(a, b), pe.CObs(c, a * 0.5)
        w = complex(0.75, -1.25)
        for nm, got, re, im in [
            ('cmul', z1 * z2, a * c - b * (a * 0.5), a * (a * 0.5) + b * c),
            ('cdiv', z1 / z2, (a * c + b * (a * 0.5)) / (c * c + (a * 0.5) * (a * 0.5)), (b * c - a * (a * 0.5)) / (c * c + (a * 0.5) * (a * 0.5))),
            ('cadd', z1 + z2, a + c, b + a * 0.5), ('csub', z1 - z2, a - c, b - a * 0.5),
            ('cmul_num', z1 * w, a * w.real - b * w.imag, a * w.imag + b * w.real),
            ('obs_mul_complex', a * w, a * w.real, a * w.imag),
            ('conj', z1.conjugate(), a + 0, -1 * b)]:
            if not isinstance(got, pe.CObs):
                probs.append(('violation', 'cobs-type-' + nm, type(got).__name__))
                continue
            for part, ref in [(got.real, re), (got.imag, im)]:
                if not isinstance(part, pe.Obs):
                    probs.append(('violation', 'cobs-part-' + nm, type(part).__name__))
                    continue
                d = compare_q(part, Q.of(ref), rtol=1e-8) if (same_replica_sets(leaves) or same_idl_per_replica(leaves)) else \
                    ([] if close(float(part.value), float(ref.value), rtol=1e-9) else ['value'])
                if d:
                    probs.append(('violation', 'cobs-' + nm, d[:3]))
        # complex powers: x ** c = exp(c Log x) on the principal branch (arg = pi for a negative base), derivative c x**(c-1)
        import cmath
        for base, tag in ((a, 'pos'), (-1 * a, 'neg')):
            xv = float(base.value)
            for cexp in (complex(0.75, -1.25), complex(-0.5, 0.3), complex(0.0, 2.0)):
                try:
                    got = base ** cexp
                except Exception as e:
                    probs.append(('violation', 'cobs-cpow-exception', repr(e)[:200]))
                    continue
                lg = complex(math.log(abs(xv)), 0.0 if xv > 0 else math.pi)
                fv = cmath.exp(cexp * lg)
                dv = cexp * fv / xv
                if not isinstance(got, pe.CObs):
                    probs.append(('violation', 'cobs-type-cpow', type(got).__name__))
                    continue
                for part, val, gr in ((got.real, fv.real, dv.real), (got.imag, fv.imag, dv.imag)):
                    q = combine(lambda v, val=val: val, [gr], [Q.of(base)])
                    d = [z_ for z_ in compare_q(part, q, rtol=1e-8) if not z_.startswith('r_value')]
                    if d:
                        probs.append(('violation', 'cobs-cpow-' + tag, ['exponent %r' % (cexp,)] + d[:3]))
                        break
        for cbase in (complex(0.75, -1.25), complex(-2.0, 0.5)):
            try:
                got = cbase ** a
            except Exception as e:
                probs.append(('violation', 'cobs-rcpow-exception', repr(e)[:200]))
                continue
            xv = float(a.value)
            fv = cmath.exp(xv * cmath.log(cbase))
            dv = cmath.log(cbase) * fv
            if isinstance(got, pe.CObs):
                for part, val, gr in ((got.real, fv.real, dv.real), (got.imag, fv.imag, dv.imag)):
                    q = combine(lambda v, val=val: val, [gr], [Q.of(a)])
                    d = [z_ for z_ in compare_q(part, q, rtol=1e-8) if not z_.startswith('r_value')]
                    if d:
                        probs.append(('violation', 'cobs-rcpow', ['base %r' % (cbase,)] + d[:3]))
                        break
            else:
                probs.append(('violation', 'cobs-type-rcpow', type(got).__name__))
    return probs


def gen_case(ctx):
    rng = ctx.rng
    for _ in range(200):
        leaves = gen_leaves(ctx)
        k = rng.random()
        if k < 0.12:
            return {'kind': 'identity', 'leaves': leaves}
        if k < 0.2:
            return {'kind': 'cobs', 'leaves': leaves}
        if k < 0.3:
            return {'kind': 'array', 'leaves': leaves, 'pick': [rng.randrange(8) for _ in range(8)]}
        vals = [float(build_leaf(ld).value) for ld in leaves]
        for _ in range(30):
            t = gen_tree(rng, len(leaves), rng.randint(1, 4))
            if has_leaf(t) and value_eval(t, vals) is not None:
                return {'kind': 'tree', 'leaves': leaves, 'tree': t}
    raise RuntimeError('generator failed to produce an in-domain tree')


def tree_ops(t, acc):
    if 'un' in t:
        acc.append(t['un'])
        tree_ops(t['a'], acc)
    elif 'bin' in t:
        acc.append(t['bin'])
        tree_ops(t['a'], acc)
        tree_ops(t['b'], acc)
    return acc


def run(ctx):
    n = ctx.budget(500, 15000)
    corpus = os.path.join(os.path.dirname(os.path.dirname(os.path.dirname(os.path.abspath(__file__)))), 'corpus', 'C01')
    cases = []
    if os.path.isdir(corpus):
        for fn in sorted(os.listdir(corpus)):
            cases.append(json.load(open(os.path.join(corpus, fn)))['case'])
    for _ in range(n):
        cases.append(gen_case(ctx))
    for case in cases:
        ctx.count('kind=' + case['kind'])
        ctx.count('mode=' + case['leaves'][0].get('mode', '?'))
        if case['kind'] == 'tree':
            for o in tree_ops(case['tree'], []):
                ctx.count('op=' + o)
        summ = {'kind': case['kind'], 'tree': case.get('tree'),
                'leaves': [{'chains': [(c['name'], len(c['idl'])) for c in l['chains']], 'cov': l['cov']} for l in case['leaves']]}
        ctx.case(case, sample=summ)
        for (kind, key, info) in check_case(ctx, case):
            (ctx.violation if kind == 'violation' else ctx.disagree)(key, {'case': case, 'info': info})
        if len(ctx.violations) + len(ctx.disagreements) > 20:
            break
