"""C19 - printed value(error) strings and scalar views agree with value and error.

impl   = str / format of analysed Obs and CObs, _extract_val_and_dval, comparisons, float,
         is_zero_within_error, Corr.plottable
model  = PV.Model.Format in exact rational arithmetic (op "fmt"): compared string-for-string
oracle = the statement: error shown with `significance` digits, value to the same decimal place,
         read-back within half a unit of the last printed digit (exact Fractions, this file)
"""
import json
import math
import os
from fractions import Fraction
from pe_util import np, pe, close, q2j

RULE = ('values and errors over 30 decades each, clustered just below / above powers of ten, at rounding ties and at carries '
        '(9.5.., 9.95..), values much smaller / larger than the error, negative values; significance 1..6; flags "", "+", " "; '
        'CObs; prior strings; scalar views. non-trivial = distinct (value, error, significance, flag).')
TRUSTED = ['np.log10 / np.floor on doubles (contract: 10^fexp <= d < 10^(fexp+1) up to one ulp; checked per case)',
           'CPython float formatting ("%.nf" correctly rounded) and float(str) parsing']
ASSUMPTIONS = ['for errors >= 10^significance the code prints all integer digits of the error (more than requested, never fewer); '
               'the read-back clause is enforced there, the digit-count clause only below 10^significance (DESIGN.md C19)']


def make_obs(v, d):
    """an Obs with exactly this value and error (error injected after construction)"""
    o = pe.Obs([np.array([1.0, -1.0, 1.0, -1.0, 0.0, 0.0]) + v], ['e'])
    o._value = float(v)
    o._dvalue = float(d)
    return o


def check_case(ctx, case):
    probs = []
    k = case['kind']
    if k == 'format':
        v, d = float.fromhex(case['v']), float.fromhex(case['d'])
        sig, flag = case['sig'], case['flag']
        o = make_obs(v, d)
        spec = flag + (str(sig) if (sig != 2 or flag) else '')
        if sig == 2 and flag == '' and case.get('use_str'):
            s = str(o)
        else:
            s = format(o, flag + str(sig))
        # ---- predicate: read back within half a unit of the last printed digit
        core = s[1:] if s[0] in '+ ' else s
        if s[0] in '+ ':
            if v < 0 or s[0] != flag:
                probs.append(('violation', 'flag', '%r for value %r flag %r' % (s, v, flag)))
        elif flag in ('+', ' ') and not core.startswith('-'):
            probs.append(('violation', 'flag-missing', '%r flag %r' % (s, flag)))
        noflag = format(o, str(sig))
        if core != noflag:
            probs.append(('violation', 'flag-changes-digits', '%r vs %r' % (s, noflag)))
        # the flag only supplies the leading character of a string that has no sign of its own
        if flag in ('+', ' ') and s != (noflag if noflag.startswith('-') else flag + noflag):
            probs.append(('violation', 'flag-rule', '%r for flag %r, unflagged %r' % (s, flag, noflag)))
        # a sign flag without a number of digits means the default two significant digits
        if flag in ('+', ' ') and sig == 2:
            try:
                sb = format(o, flag)
                if sb != s:
                    probs.append(('violation', 'flag-bare', 'format(o, %r) = %r, format(o, %r) = %r' % (flag, sb, flag + '2', s)))
            except Exception as e:
                probs.append(('violation', 'flag-bare', 'format(o, %r) raises %s: %s' % (flag, type(e).__name__, str(e)[:80])))
        try:
            vs, es = core[:-1].split('(')
        except ValueError:
            probs.append(('violation', 'shape', repr(s)))
            return probs
        ndec = len(vs.partition('.')[2])
        unit = Fraction(1, 10 ** ndec)
        vb = Fraction(vs)
        eb = Fraction(es) * (unit if ('.' in vs and '.' not in es) else 1)
        fv, fd = Fraction(v), Fraction(d)
        if abs(vb - fv) > unit / 2:
            probs.append(('violation', 'value-readback', '%r: value %r read back as %s, more than half a unit (%s) off' % (s, v, vb, unit)))
        eunit = unit if ('.' not in es or len(es.partition('.')[2]) == ndec) else Fraction(1, 10 ** len(es.partition('.')[2]))
        if abs(eb - fd) > eunit / 2 + fd * Fraction(1, 2 ** 50):
            probs.append(('violation', 'error-readback', '%r: error %r read back as %s (unit %s)' % (s, d, eb, eunit)))
        # significant digits of the error
        digs = es.replace('.', '').lstrip('0')
        if fd < 10 ** sig:
            if len(digs) not in (sig, sig + 1) or (len(digs) == sig + 1 and set(digs[1:]) != {'0'}):
                probs.append(('violation', 'significant-digits', '%r shows %d significant digits of the error, requested %d' % (s, len(digs), sig)))
        elif len(digs) < sig:
            probs.append(('violation', 'significant-digits', '%r shows fewer digits than requested' % s))
        # prior string accepted with exactly that value and error
        from pyerrors.fits import _extract_val_and_dval
        pv, pd = _extract_val_and_dval(core)
        if not close(pv, float(vb), rtol=1e-14) or not close(pd, float(eb), rtol=1e-13):
            probs.append(('violation', 'prior-string', '%r parsed as (%r, %r), printed (%s, %s)' % (core, pv, pd, float(vb), float(eb))))
        # ---- correspondence with the exact model
        if ctx.lean is not None and not (v == 0 and math.copysign(1.0, v) < 0):      # (negative zero is not a rational)
            fexp = int(np.floor(np.log10(d)))
            lo, hi = Fraction(10) ** fexp, Fraction(10) ** (fexp + 1)
            slack = Fraction(1, 2 ** 45)
            ctx.count('fexp_contract_ok' if (lo <= fd * (1 + slack) and fd < hi * (1 + slack)) else 'fexp_contract_violated')
            r = ctx.lean.call({'op': 'fmt', 'v': q2j(fv), 'd': q2j(fd), 'sig': sig, 'fexp': fexp, 'flag': flag})
            if '_err' in r:
                probs.append(('disagree', 'lean-driver-error', r['_err']))
            elif r['str'] != s:
                probs.append(('disagree', 'string', 'impl %r model %r' % (s, r['str'])))
    elif k == 'cobs':
        v, d, v2, d2 = [float.fromhex(x) for x in case['vals']]
        z = pe.CObs(make_obs(v, d), make_obs(v2, d2))
        s = str(z)
        # both parts print as value(error); a '+' joins them unless the imaginary part brings its own sign
        si = str(make_obs(v2, d2))
        exp = '(' + str(make_obs(v, d)) + ('' if si.startswith('-') else '+') + si + 'j)'
        if s != exp:
            probs.append(('violation', 'cobs-str', '%r vs %r' % (s, exp)))
        sig = case['sig']
        sf = format(z, str(sig))
        expf = '(' + format(make_obs(v, d), str(sig)) + format(make_obs(v2, d2), '+' + str(sig)) + 'j)'
        if sf != expf:
            probs.append(('violation', 'cobs-format', '%r vs %r' % (sf, expf)))
        if ctx.lean is not None:
            mr = ctx.lean.call({'op': 'cobsstr', 're': str(make_obs(v, d)), 'im': si})
            mf = ctx.lean.call({'op': 'cobsstr', 're': format(make_obs(v, d), str(sig)), 'im': format(make_obs(v2, d2), str(sig))})
            if '_err' in mr or '_err' in mf:
                probs.append(('disagree', 'lean-driver-error', mr.get('_err') or mf.get('_err')))
            elif mr['str'] != s or mf['fmt'] != sf:
                probs.append(('disagree', 'cobs-string', 'impl %r / %r model %r / %r' % (s, sf, mr['str'], mf['fmt'])))
    elif k == 'noerr':
        v = float.fromhex(case['v'])
        o = make_obs(v, case['d'])
        if str(o) != str(float(v)):
            probs.append(('violation', 'no-error-string', '%r vs %r' % (str(o), str(v))))
    elif k == 'views':
        v, d, w = float.fromhex(case['v']), float.fromhex(case['d']), float.fromhex(case['w'])
        o = make_obs(v, d)
        for nm, got, exp in [('lt', o < w, v < w), ('le', o <= w, v <= w), ('gt', o > w, v > w), ('ge', o >= w, v >= w),
                             ('float', float(o), v)]:
            if got != exp:
                probs.append(('violation', 'view-' + nm, '%r vs %r' % (got, exp)))
        # observable against observable: exactly the central values, also for pairs that `==` regards as equal
        # (difference below its absolute tolerance) and for observables of tiny magnitude
        pairs = [(o, make_obs(w, 2 * d)), (o, o + (w - v)), (o, o + 3e-11), (o + 3e-11, o), (o, o - 1e-13)]
        tiny = make_obs(v * 1e-12 / max(abs(v), 1e-300), d * 1e-12 / max(abs(v), d, 1e-300))
        pairs += [(tiny, tiny * 0.5), (tiny * 0.5, tiny)]
        import operator
        for a_, b_ in pairs:
            for nm, op in (('lt', operator.lt), ('le', operator.le), ('gt', operator.gt), ('ge', operator.ge)):
                got, exp = op(a_, b_), op(a_.value, b_.value)
                if bool(got) != bool(exp):
                    probs.append(('violation', 'view-obs-' + nm, 'values %r, %r: %r' % (a_.value, b_.value, got)))
        for n in (1, 2, 3, 5):
            exp = (abs(v) <= n * d) or (abs(v) <= 1e-10 and False)
            got = o.is_zero_within_error(n)
            # is_zero() is about exact zero of value AND fluctuations; the generated obs has non-zero fluctuations
            if bool(got) != bool(abs(v) <= n * d):
                probs.append(('violation', 'view-zero-within-error', 'value %r error %r sigma %d: %r' % (v, d, n, got)))
        # the same question at a small overall scale (quantities in physical units): value and error scaled down together
        f_ = 1e-11 / max(abs(v), d, 1e-300)
        if d * f_ > 1e-300 and abs(v) * f_ > 0:
            ot = pe.pseudo_Obs(v * f_, d * f_, 'q', samples=50)
            ot.gamma_method(S=0)
            for n in (1, 3):
                got = ot.is_zero_within_error(n)
                if bool(got) != bool(abs(ot.value) <= n * ot.dvalue):
                    small = abs(ot.value) <= 1e-10 and float(np.max(np.abs(ot.deltas['q']))) <= 1e-10
                    # known finding: below the absolute tolerance 1e-10 of `is_zero` value and error are not looked at
                    probs.append(('violation', 'zero-within-error-absolute-tolerance' if (small and got) else 'view-zero-within-error',
                                  'value %r error %r sigma %d: %r' % (float(ot.value), float(ot.dvalue), n, got)))
                    break
        c = pe.Corr([make_obs(v, d), None, make_obs(w, 2 * d)])
        x, y, e = c.plottable()
        if x != [0, 2] or y != [v, w] or e != [d, 2 * d]:
            probs.append(('violation', 'view-plottable', '%r' % ((x, y, e),)))
        # the view shows the CURRENT errors of the observables: look once, re-analyse the observables themselves, look again
        rs_ = np.random.default_rng(int(abs(v) * 1e6) % 99991)
        oa = pe.Obs([rs_.normal(1.0, 0.1, 40)], ['e'])
        ob = pe.Obs([np.cumsum(rs_.normal(0.0, 0.1, 40)) * 0.2 + 2.0], ['e'])
        c2 = pe.Corr([oa, ob])
        first = c2.plottable()
        oa.gamma_method(S=0)
        ob.gamma_method(S=0)
        e_s0 = [float(oa.dvalue), float(ob.dvalue)]
        second = c2.plottable()
        ob.gamma_method(S=3.0)
        third = c2.plottable()
        if first[2] != [0.0, 0.0] or second[2] != e_s0 or third[2] != [e_s0[0], float(ob.dvalue)] or second[1] != [float(oa.value), float(ob.value)]:
            probs.append(('violation', 'view-plottable-stale', 'errors shown %r, %r, %r; current %r then %r' % (first[2], second[2], third[2], e_s0, [e_s0[0], float(ob.dvalue)])))
    return probs


def gen_pos(rng, lo_dec=-12, hi_dec=12):
    """a positive double over many decades, often next to a power of ten / a tie / a carry"""
    e = rng.randint(lo_dec, hi_dec)
    mode = rng.choice(['uniform', 'uniform', 'near-pow', 'carry', 'tie', 'exact'])
    if mode == 'uniform':
        m = rng.uniform(1, 10)
    elif mode == 'near-pow':
        m = rng.choice([1.0, 1.0 + 1e-15, 1 - 1e-16, 9.999999999999998, 1.0000000001, 9.99999])
    elif mode == 'carry':
        m = rng.choice([9.5, 9.95, 9.995, 9.9995, 9.49999, 9.96, 9.951, 9.4999999, 9.9999949])
    elif mode == 'tie':
        m = rng.choice([1.5, 2.5, 1.25, 1.35, 2.45, 1.005, 3.5, 4.5, 1.125])
    else:
        m = float(rng.randint(1, 99)) / rng.choice([1, 10])
    return float(m * 10.0 ** e) if e >= 0 else float(m / 10.0 ** (-e))


def gen_case(ctx):
    rng = ctx.rng
    k = rng.random()
    d = gen_pos(rng)
    rel = rng.choice(['same', 'same', 'bigger', 'smaller', 'zero', 'tie', 'huge'])
    if rel == 'same':
        v = d * rng.uniform(0.5, 50)
    elif rel == 'bigger':
        v = d * 10 ** rng.randint(3, 9) * rng.uniform(1, 10)
    elif rel == 'smaller':
        v = d * rng.uniform(1e-6, 0.01)
    elif rel == 'huge':
        # the error lies below the floating-point resolution of the value
        v = d * 10 ** rng.randint(15, 19) * rng.uniform(1, 10)
    elif rel == 'zero':
        v = 0.0
    else:
        v = d * rng.choice([0.5, 1.5, 2.5, 10.5, 0.25])
    if rng.random() < 0.4:
        v = -v          # includes the negative zero (which the exact model cannot represent: string rules only)
    if abs(v) > 1e15 and rel != 'huge':
        v = v / 1e6
    if k < 0.8:
        return {'kind': 'format', 'v': float(v).hex(), 'd': d.hex(), 'sig': rng.choice([1, 2, 2, 3, 4, 5, 6]), 'flag': rng.choice(['', '', '+', ' ']),
                'use_str': rng.random() < 0.5}
    if k < 0.88:
        d2 = gen_pos(rng, -6, 6)
        v2 = float(-v * 0.3 + d2) if rng.random() < 0.85 else rng.choice([0.0, -0.0])
        return {'kind': 'cobs', 'vals': [float(v).hex(), d.hex(), v2.hex(), d2.hex()], 'sig': rng.choice([1, 2, 3])}
    if k < 0.92:
        return {'kind': 'noerr', 'v': float(v).hex(), 'd': rng.choice([0.0, float('inf'), float('nan')])}
    return {'kind': 'views', 'v': float(v).hex(), 'd': d.hex(), 'w': float(v + rng.choice([-1, 0, 1]) * d * rng.uniform(0, 3)).hex()}


def run(ctx):
    n = ctx.budget(6000, 150000)
    corpus = os.path.join(os.path.dirname(os.path.dirname(os.path.dirname(os.path.abspath(__file__)))), 'corpus', 'C19')
    cases = []
    if os.path.isdir(corpus):
        for fn in sorted(os.listdir(corpus)):
            cases.append(json.load(open(os.path.join(corpus, fn)))['case'])
    for _ in range(n):
        cases.append(gen_case(ctx))
    for case in cases:
        ctx.count('kind=' + case['kind'])
        if case['kind'] == 'format':
            ctx.count('sig=%d' % case['sig'])
            d = float.fromhex(case['d'])
            ctx.count('error decade %+03d' % int(math.floor(math.log10(d))))
        ctx.case(case)
        for (kind, key, info) in check_case(ctx, case):
            (ctx.violation if kind == 'violation' else ctx.disagree)(key, {'case': case, 'info': info})
        if len([v for v in ctx.violations if v[0] != 'zero-within-error-absolute-tolerance']) + len(ctx.disagreements) > 25:
            break
