"""C09 - roots and integrals of observable-dependent functions propagate errors exactly.

impl   = pe.roots.find_root, pe.integrate.quad
model  = PV.Model.Obs.derivedObs (op "derived"): derived_observable with the caller's gradient
oracle = (this file) the closed-form inverse function and its derivative, the closed-form
         antiderivative F(p, x) with dF/dp by complex-step differentiation, +f(b) / -f(a) at the
         limits; applied to the inputs by configuration number (class Q of c01).
theorems: PV/Props/C09Alg.lean (implicit differentiation -fd/fx, inverse function rule, FTC at
         both limits, derivative under the integral for the families, gradient ordering pobs ++ bobs).
"""
import cmath
import json
import math
import os
import warnings
import autograd.numpy as anp
import scipy.integrate
from pe_util import np, pe, quiet
from props.derived_util import make_layout, make_obs, expect

RULE = ('root families x^k - d, exp(x) - d, log(x) - d, tanh(x) - d, x^3 + x - d, exp(x) - c - d with d of tiny or vanishing mean, '
        'vector d: d0 x^k - d1, d0 exp(x) - d1, d0 x - d1 - d2, tanh(x) d0 - d1, exp(x) - c - d0 - d1; integrands polynomial, '
        'p0 exp(-p1 x), p0 sin(p1 x) + p2 cos(x), p0 x exp(p1 x), p0 + p1 x + p2 sinh(x) with every subset of parameters and '
        'limits observable (same / different ensembles, covariance inputs), a < b, a > b and a = b at the central values, '
        'pass-through keyword arguments. non-trivial = distinct case.')
TRUSTED = ['scipy.optimize.fsolve (contract: |f(root)| measured)', 'scipy.integrate.quad (contract: value vs antiderivative measured)',
           'autograd jacobian (contract: measured against the analytic derivative through the comparison)']
ASSUMPTIONS = ['comparison tolerance 1e-7 relative (fsolve xtol 1.5e-8 enters the gradient at second order only for the value)']


def cbrt(z):
    return math.copysign(abs(z) ** (1.0 / 3.0), z)


def cardano(d):
    s = math.sqrt(d * d / 4 + 1.0 / 27)
    return cbrt(d / 2 + s) + cbrt(d / 2 - s)


# name -> (func(x, d) with anp, number of d entries (0 = scalar), inverse(dvals) -> (x, [dx/dd_j]), generator of d means)
ROOTS = {
    'pow2': (lambda x, d: x ** 2 - d, 0, lambda d: (math.sqrt(d[0]), [0.5 / math.sqrt(d[0])]), lambda r: [r.uniform(0.5, 4)]),
    'pow3': (lambda x, d: x ** 3 - d, 0, lambda d: (d[0] ** (1 / 3), [d[0] ** (-2 / 3) / 3]), lambda r: [r.uniform(0.5, 4)]),
    'pow5': (lambda x, d: x ** 5 - d, 0, lambda d: (d[0] ** 0.2, [0.2 * d[0] ** (-0.8)]), lambda r: [r.uniform(0.5, 4)]),
    'exp': (lambda x, d: anp.exp(x) - d, 0, lambda d: (math.log(d[0]), [1 / d[0]]), lambda r: [r.uniform(0.3, 5)]),
    'log': (lambda x, d: anp.log(x) - d, 0, lambda d: (math.exp(d[0]), [math.exp(d[0])]), lambda r: [r.uniform(-1, 1.5)]),
    'tanh': (lambda x, d: anp.tanh(x) - d, 0, lambda d: (math.atanh(d[0]), [1 / (1 - d[0] ** 2)]), lambda r: [r.uniform(-0.8, 0.8)]),
    'cubic': (lambda x, d: x ** 3 + x - d, 0, lambda d: (cardano(d[0]), [1 / (3 * cardano(d[0]) ** 2 + 1)]), lambda r: [r.uniform(-3, 3)]),
    'gauss': (lambda x, d: anp.exp(-x ** 2) - d, 0, lambda d: (math.sqrt(-math.log(d[0])), [-1 / (2 * d[0] * math.sqrt(-math.log(d[0])))]),
              lambda r: [r.uniform(0.2, 0.8)]),
    'expshift': (lambda x, d: anp.exp(x) - 2.0 - d, 0, lambda d: (math.log(2 + d[0]), [1 / (2 + d[0])]), lambda r: [r.choice([0.0, 0.0, 1e-13, -1e-11, 1e-6, 0.3])]),
    'tanhshift': (lambda x, d: anp.tanh(x) - 0.5 - d, 0, lambda d: (math.atanh(0.5 + d[0]), [1 / (1 - (0.5 + d[0]) ** 2)]), lambda r: [r.choice([0.0, 1e-14, 1e-9, 0.1])]),
    'vpow': (lambda x, d: d[0] * x ** 3 - d[1], 2, lambda d: ((d[1] / d[0]) ** (1 / 3), [-(d[1] / d[0]) ** (1 / 3) / (3 * d[0]), (d[1] / d[0]) ** (1 / 3) / (3 * d[1])]),
             lambda r: [r.uniform(0.5, 2), r.uniform(0.5, 3)]),
    'vexp': (lambda x, d: d[0] * anp.exp(x) - d[1], 2, lambda d: (math.log(d[1] / d[0]), [-1 / d[0], 1 / d[1]]), lambda r: [r.uniform(0.5, 2), r.uniform(0.5, 3)]),
    'vlin': (lambda x, d: d[0] * x - d[1] - d[2], 3, lambda d: ((d[1] + d[2]) / d[0], [-(d[1] + d[2]) / d[0] ** 2, 1 / d[0], 1 / d[0]]),
             lambda r: [r.uniform(0.5, 2), r.uniform(-2, 2), r.uniform(0.5, 2)]),
    'vtanh': (lambda x, d: anp.tanh(x) * d[0] - d[1], 2, lambda d: (math.atanh(d[1] / d[0]), [-(d[1] / d[0] ** 2) / (1 - (d[1] / d[0]) ** 2), (1 / d[0]) / (1 - (d[1] / d[0]) ** 2)]),
              lambda r: [r.uniform(1.5, 3), r.uniform(-1, 1)]),
    'vshift': (lambda x, d: anp.exp(x) - 2.0 - d[0] - d[1], 2, lambda d: (math.log(2 + d[0] + d[1]), [1 / (2 + d[0] + d[1])] * 2),
               lambda r: [r.choice([0.0, 0.0, 1e-12, 0.2]), r.uniform(0.0, 2)]),
}



def power_family(n):
    def f(x, d):
        return x ** n - d
    return f


def exp_family(a):
    def f(x, d):
        return anp.exp(a * x) - d
    return f


def vpow_family(k):
    return lambda x, d: d[0] * x ** k - d[1]


# closures produced by a factory share one code object: name -> (factory, nd, inverse(par, d), parameter values, d means)
FACTORIES = {
    'fpow': (power_family, 0, lambda n, d: (d[0] ** (1.0 / n), [d[0] ** (1.0 / n - 1) / n]), [2, 3, 5], lambda r: [r.uniform(0.5, 4)]),
    'fexp': (exp_family, 0, lambda a, d: (math.log(d[0]) / a, [1 / (a * d[0])]), [0.5, 1.0, 2.0], lambda r: [r.uniform(0.5, 4)]),
    'fvpow': (vpow_family, 2, lambda k, d: ((d[1] / d[0]) ** (1.0 / k), [-(d[1] / d[0]) ** (1.0 / k) / (k * d[0]), (d[1] / d[0]) ** (1.0 / k) / (k * d[1])]),
              [2, 3, 4], lambda r: [r.uniform(0.5, 2), r.uniform(0.5, 3)]),
}

# name -> (func(p, x) with anp, antiderivative F(p, x) valid for complex p and x, integrand value f(p, x) plain, parameter means)
INTS = {
    'poly': (lambda p, x: p[0] + p[1] * x + p[2] * x ** 2, lambda p, x: p[0] * x + p[1] * x ** 2 / 2 + p[2] * x ** 3 / 3,
             lambda r: [r.uniform(-2, 2), r.uniform(-2, 2), r.uniform(0.5, 2)]),
    'exp': (lambda p, x: p[0] * anp.exp(-p[1] * x), lambda p, x: -p[0] / p[1] * cmath.exp(-p[1] * x), lambda r: [r.uniform(0.5, 2), r.uniform(0.3, 1.5)]),
    'trig': (lambda p, x: p[0] * anp.sin(p[1] * x) + p[2] * anp.cos(x), lambda p, x: -p[0] / p[1] * cmath.cos(p[1] * x) + p[2] * cmath.sin(x),
             lambda r: [r.uniform(0.5, 2), r.uniform(0.5, 2), r.uniform(-1, 1)]),
    'xexp': (lambda p, x: p[0] * x * anp.exp(p[1] * x), lambda p, x: p[0] * cmath.exp(p[1] * x) * (p[1] * x - 1) / p[1] ** 2, lambda r: [r.uniform(0.5, 2), r.uniform(-1, -0.2)]),
    'sinh': (lambda p, x: p[0] + p[1] * x + p[2] * anp.sinh(x), lambda p, x: p[0] * x + p[1] * x ** 2 / 2 + p[2] * cmath.cosh(x), lambda r: [r.uniform(-1, 1), r.uniform(0.5, 2), r.uniform(0.2, 1)]),
    'one': (lambda p, x: p[0] * x ** 3, lambda p, x: p[0] * x ** 4 / 4, lambda r: [r.uniform(0.5, 2)]),
}


def check_root(ctx, case):
    probs = []
    rng = __import__('random').Random(case['seed'])
    nprng = np.random.default_rng(case['seed'])
    if case['family'] in FACTORIES:
        fac, nd, finv, _, gen = FACTORIES[case['family']]
        func = fac(case['par'])
        inv = lambda d: finv(case['par'], d)  # noqa: E731
    else:
        func, nd, inv, gen = ROOTS[case['family']]
    means = case['means']
    layout = make_layout(rng)
    ds = [make_obs(rng, nprng, layout, m, rel=case['rel'], kind=k, exact_mean=case['exact']) for m, k in zip(means, case['kinds'])]
    if case.get('int_first'):
        # an external input handed over with an integer mean (`cov_Obs(2, ...)`): its central value is a Python int
        k_ = max(1, int(round(means[0])))
        ds[0] = pe.cov_Obs(k_, (case['rel'] * k_) ** 2, 'cvI')
    dvals = [float(o.value) for o in ds]
    try:
        xt, grads = inv(dvals)
    except (ValueError, ZeroDivisionError):
        ctx.count('outside-domain')
        return probs
    guess = xt * case['guess_factor'] + case['guess_shift']
    arg = ds[0] if nd == 0 else (ds if case['as_list'] else np.array(ds))
    try:
        if case['family'] in FACTORIES:
            # a sibling closure of the same factory is solved first, in the same process
            sib = FACTORIES[case['family']][0](case['sibling'])
            xs_, _ = FACTORIES[case['family']][2](case['sibling'], dvals)
            pe.roots.find_root(arg, sib, guess=xs_)
        if case.get('default_guess'):
            ctx.count('default-guess')
            res = pe.roots.find_root(arg, func)      # the documented default start value 1.0, wherever the root is
        else:
            res = pe.roots.find_root(arg, func, guess=guess)
    except Exception as e:
        if case.get('default_guess'):
            ctx.count('default-guess:refused')
            return probs      # a refusal is an admissible outcome when the search does not get to the root
        return [('violation', 'find-root-exception', '%s: %s' % (type(e).__name__, str(e)[:200]))]
    fv = func(float(res.value), dvals[0] if nd == 0 else np.array(dvals))
    ctx.residual('root_residual', abs(float(fv)))
    if case.get('default_guess') and not abs(float(fv)) <= 1e-7:
        # known finding: the root search (MINPACK hybrd through scipy) did not get to the root from the start value and
        # find_root does not ask; classified as such only if scipy's own answer from the same start is no root either
        import scipy.optimize
        import warnings as _w
        with _w.catch_warnings():
            _w.simplefilter('ignore')
            x_, _info, _ier, _msg = scipy.optimize.fsolve(func, 1.0, dvals[0] if nd == 0 else np.array(dvals), full_output=True)
        if not abs(float(func(float(x_[0]), dvals[0] if nd == 0 else np.array(dvals)))) <= 1e-7:
            return [('violation', 'find-root-no-convergence-check', 'family %s, d = %r, default guess: returned x = %r with f(x, d) = %r (root %r); fsolve ier=%d' % (
                case['family'], dvals, float(res.value), float(fv), xt, _ier))]
    if abs(float(fv)) > 1e-7:
        probs.append(('violation', 'not-a-root', 'f(x.value, d.value) = %r at x = %r (inverse function gives %r)' % (float(fv), float(res.value), xt)))
    probs += expect(ctx, res, xt, grads, ds, rtol=1e-7, tag='root-', vscale=max(1.0, abs(xt)))
    return probs


def cstep(F, p, x, i):
    """dF/dp_i by complex-step differentiation"""
    pp = [complex(v) for v in p]
    pp[i] += 1e-30j
    return F(pp, x).imag / 1e-30


def check_int(ctx, case):
    probs = []
    rng = __import__('random').Random(case['seed'])
    nprng = np.random.default_rng(case['seed'])
    func, F, gen = INTS[case['family']]
    layout = make_layout(rng)
    pm = case['means']
    p = [make_obs(rng, nprng, layout, m, rel=0.02, kind=k) if k else m for m, k in zip(pm, case['pkinds'])]
    lim = []
    for m, k in zip(case['limits'], case['lkinds']):
        lim.append(make_obs(rng, nprng, layout, m, rel=0.02, kind=k, exact_mean=case['exact_limits']) if k else m)
    if case.get('share_limit') and isinstance(lim[0], pe.Obs):
        lim[1] = lim[0] + (case['limits'][1] - case['limits'][0])
    # the same Obs object in several places: its contributions add up
    alias = case.get('alias')
    if alias == 'a_is_b' and isinstance(lim[0], pe.Obs):
        lim[1] = lim[0]
    elif alias == 'limit_is_param':
        i = case['alias_idx']
        if isinstance(p[i], pe.Obs):
            lim[1] = p[i]
    elif alias == 'param_twice' and len(p) >= 2:
        i, j = case['alias_idx'], (case['alias_idx'] + 1) % len(p)
        if isinstance(p[i], pe.Obs):
            p[j] = p[i]
    kwargs = dict(case.get('kwargs') or {})
    try:
        out = pe.integrate.quad(func, p, lim[0], lim[1], **kwargs)
    except Exception as e:
        return [('violation', 'quad-exception', '%s: %s' % (type(e).__name__, str(e)[:200]))]
    pv = [float(q.value) if isinstance(q, pe.Obs) else float(q) for q in p]
    av, bv = [float(q.value) if isinstance(q, pe.Obs) else float(q) for q in lim]
    wgt = kwargs.get('weight')
    if wgt in ('cos', 'sin'):
        # scipy's weighted integration (documented keyword arguments of quad, forwarded): int f(x) w(x) dx with
        # w = cos / sin(wvar x); no closed form is used, value and parameter derivatives are integrated numerically
        wf = (lambda x: math.cos(kwargs['wvar'] * x)) if wgt == 'cos' else (lambda x: math.sin(kwargs['wvar'] * x))
        tight = dict(epsabs=1e-13, epsrel=1e-13, limit=200)
        exact = scipy.integrate.quad(lambda x: float(np.real(func(np.array(pv), x))) * wf(x), av, bv, **tight)[0]

        def dfdp(i, x):
            pp = np.array(pv, dtype=complex)
            pp[i] += 1e-30j
            return func(pp, x).imag / 1e-30
    else:
        wf = lambda x: 1.0  # noqa: E731
        exact = (F(pv, bv) - F(pv, av)).real if isinstance(F(pv, bv), complex) else F(pv, bv) - F(pv, av)
    inputs, grads = [], []
    for i, q in enumerate(p):
        if isinstance(q, pe.Obs):
            inputs.append(q)
            if wgt in ('cos', 'sin'):
                grads.append(scipy.integrate.quad(lambda x, i=i: dfdp(i, x) * wf(x), av, bv, **tight)[0])
            else:
                grads.append(cstep(F, pv, bv, i) - cstep(F, pv, av, i))
    fplain = lambda x: float(np.real(func(np.array(pv), x))) * wf(x)  # noqa: E731
    if isinstance(lim[0], pe.Obs):
        inputs.append(lim[0])
        grads.append(-fplain(av))
    if isinstance(lim[1], pe.Obs):
        inputs.append(lim[1])
        grads.append(fplain(bv))
    if not inputs:
        ref = scipy.integrate.quad(lambda x: func(np.array(pv), x), av, bv, **kwargs)
        if isinstance(out[0], pe.Obs):
            probs.append(('violation', 'plain-numbers-give-an-observable', ''))
        elif tuple(out[:2]) != tuple(ref[:2]):
            probs.append(('violation', 'plain-numbers-differ-from-scipy', '%r vs %r' % (out[:2], ref[:2])))
        return probs
    if not isinstance(out, tuple) or len(out) < 2:
        return [('violation', 'quad-return-shape', repr(type(out)))]
    res = out[0]
    scale = max(1.0, abs(exact), max(abs(g) for g in grads))
    ctx.residual('quad_vs_antiderivative', abs(float(res.value if isinstance(res, pe.Obs) else res) - exact) / scale)
    probs += expect(ctx, res, exact, grads, inputs, rtol=1e-7, tag='int-', vscale=scale)
    if kwargs.get('full_output') and len(out) < 3:
        probs.append(('violation', 'full-output-dropped', ''))
    return probs


def check_case(ctx, case):
    with warnings.catch_warnings(), quiet():
        warnings.simplefilter('ignore')
        return check_root(ctx, case) if case['what'] == 'root' else check_int(ctx, case)


def gen_case(ctx):
    rng = ctx.rng
    kinds = [None, 'mc', 'mc', 'cov', 'mixed']
    r0 = rng.random()
    if r0 < 0.12:
        fam = rng.choice(sorted(FACTORIES))
        fac, nd, finv, pars, gen = FACTORIES[fam]
        par, sib = rng.sample(pars, 2)
        n = max(nd, 1)
        return {'what': 'root', 'family': fam, 'par': par, 'sibling': sib, 'seed': rng.getrandbits(28), 'means': gen(rng),
                'kinds': [rng.choice(kinds[1:]) for _ in range(n)], 'rel': rng.choice([0.01, 0.03]), 'exact': rng.random() < 0.5,
                'guess_factor': rng.choice([1.0, 1.1]), 'guess_shift': 0.0, 'as_list': rng.random() < 0.5}
    if r0 < 0.5:
        fam = rng.choice(sorted(ROOTS))
        func, nd, inv, gen = ROOTS[fam]
        means = gen(rng)
        n = max(nd, 1)
        exact = rng.random() < 0.5 or any(abs(m) < 1e-5 for m in means)
        dg = nd == 0 and rng.random() < 0.15
        if dg and fam in ('exp', 'pow5', 'log'):
            # the root far away from the default start value 1.0
            means = [rng.choice({'exp': [3.0, 60.0, 150.0, 1000.0], 'pow5': [3.0, 1000.0], 'log': [-8.0, 0.5]}[fam])]
        return {'default_guess': dg, 'what': 'root', 'family': fam, 'seed': rng.getrandbits(28), 'means': means, 'kinds': [rng.choice(kinds[1:]) for _ in range(n)],
                'rel': rng.choice([0.01, 0.03]), 'exact': exact, 'guess_factor': rng.choice([1.0, 1.1, 0.9]), 'guess_shift': rng.choice([0.0, 0.05]),
                'as_list': rng.random() < 0.5, 'int_first': rng.random() < 0.2}
    fam = rng.choice(sorted(INTS))
    func, F, gen = INTS[fam]
    means = gen(rng)
    pk = [rng.choice(kinds) for _ in means]
    a = rng.uniform(-1, 1)
    mode = rng.choice(['lt', 'lt', 'gt', 'eq'])
    b = a + rng.uniform(0.3, 2) if mode == 'lt' else (a - rng.uniform(0.3, 2) if mode == 'gt' else a)
    lk = [rng.choice(kinds), rng.choice(kinds)]
    if mode == 'eq' and lk == [None, None]:
        lk[rng.randrange(2)] = 'mc'
    kw = rng.choice([None, None, {'epsabs': 1e-12, 'epsrel': 1e-12}, {'limit': 80}, {'full_output': 1},
                     {'weight': 'cos', 'wvar': 3.0}, {'weight': 'sin', 'wvar': 1.7}])
    case = {'what': 'int', 'family': fam, 'seed': rng.getrandbits(28), 'means': means, 'pkinds': pk, 'limits': [a, b], 'lkinds': lk,
            'exact_limits': mode == 'eq' or rng.random() < 0.3, 'share_limit': rng.random() < 0.15 and mode != 'eq', 'kwargs': kw}
    if rng.random() < 0.2:
        al = rng.choice(['a_is_b', 'limit_is_param', 'param_twice'])
        case['alias'] = al
        case['share_limit'] = False
        idx = rng.randrange(len(means))
        case['alias_idx'] = idx
        if al == 'a_is_b':
            case['lkinds'][0] = case['lkinds'][0] or 'mc'
            case['limits'][1] = case['limits'][0]
            case['exact_limits'] = True
        elif al == 'limit_is_param':
            case['pkinds'][idx] = case['pkinds'][idx] or 'mc'
            case['limits'][1] = means[idx]
            case['lkinds'][1] = case['pkinds'][idx]
        else:
            case['pkinds'][idx] = case['pkinds'][idx] or 'mc'
            if len(means) >= 2:
                j = (idx + 1) % len(means)
                case['means'][j] = means[idx]
                case['pkinds'][j] = case['pkinds'][idx]
    return case


def run(ctx):
    n = ctx.budget(300, 6000)
    corpus = os.path.join(os.path.dirname(os.path.dirname(os.path.dirname(os.path.abspath(__file__)))), 'corpus', 'C09')
    cases = []
    if os.path.isdir(corpus):
        for fn in sorted(os.listdir(corpus)):
            cases.append(json.load(open(os.path.join(corpus, fn)))['case'])
    for _ in range(n):
        cases.append(gen_case(ctx))
    for case in cases:
        ctx.count('%s=%s' % (case['what'], case['family']))
        if case['what'] == 'int':
            ctx.count('obs-params=%d obs-limits=%d' % (sum(1 for k in case['pkinds'] if k), sum(1 for k in case['lkinds'] if k)))
            if case.get('alias'):
                ctx.count('alias=' + case['alias'])
        ctx.case(case)
        for (kind, key, info) in check_case(ctx, case):
            (ctx.violation if kind == 'violation' else ctx.disagree)(key, {'case': case, 'info': info})
        if len([v for v in ctx.violations if v[0] != 'find-root-no-convergence-check']) + len(ctx.disagreements) > 25:
            break
