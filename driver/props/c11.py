"""C11 - JSON serialisation round-trips losslessly and conforms to the shipped schema.

impl   = pyerrors.input.json (strings, files, gz on/off, indent 0/1, dict files), pandas csv /
         sqlite transports, pickle
model  = PV.Model.JsonRep (replica table encode / decode, exact rationals, op "jsonrep") and the
         generic validator PV.Model.Schema over the schema REGENERATED from examples/json_schema.json
         (op "schema")
oracle = deep comparison of the re-imported structure with the original (this file), and the
         `jsonschema` package (run under python3-vt) whose verdict the Lean validator must share on
         emitted and on deliberately corrupted documents
"""
import json as pyjson
import math
import os
import pickle
import shutil
import subprocess
import tempfile
import warnings
from fractions import Fraction
from pe_util import np, pe, gen_idl, gen_data, close, q2j, quiet
import pyerrors.input.json as jio

RULE = ('structures Obs / list / ndarray (shapes up to 3-d, C and non-C memory order) / Corr (N=1 and matrix, paddings, undefined '
        'slices, prange, tag) / nested dicts (incl. more than ten entries); observables on 1-2 ensembles x 1-3 replicas with range / '
        'strided / irregular idl and covariance inputs of dimension 1-3; tags of every JSON type incl. falsy ones; gz on/off, indent '
        '0/1; csv / sqlite / pickle transports; emitted documents and corrupted variants validated by jsonschema and by the Lean '
        'validator. non-trivial = distinct case.')
TRUSTED = ['rapidjson / gzip / pandas / sqlite3 / pickle containers', 'float text conversion (17 significant digits round-trip)',
           'the jsonschema package as reference validator']
ASSUMPTIONS = ['floats compared at 4 ulp of the data scale; discrete parts exactly']

TAGS = [None, 'text', '', 0, 1, 2.5, 0.0, True, False, [1, 'a'], {'k': 1}]
FALSY = ['', None, 0, False, None, 0.0, [], None, {}]


def tag_for(case, i, n):
    """tag of element i of n: 'cycle' through TAGS, only 'falsy' values (and None), or a 'single' tagged element"""
    if not case.get('tags'):
        return None
    off = case.get('tagoff', 0)
    mode = case.get('tagmode', 'cycle')
    if mode == 'falsy':
        return FALSY[(off + i) % len(FALSY)]
    if mode == 'single':
        return TAGS[off % len(TAGS)] if i == off % n else None
    return TAGS[(off + i) % len(TAGS)]


def base(rng, nprng, layout):
    samples, names, idl = [], [], []
    for n, il in layout:
        names.append(n)
        idl.append(il)
        samples.append(gen_data(rng, nprng, len(il), rng.choice(['white', 'int'])) * rng.choice([1.0, 1e-3, 1e4]) + rng.choice([0.0, 1.5, -20.0]))
    return pe.Obs(samples, names, idl=idl)


def gen_layout(rng):
    lay = []
    for e in rng.sample(['A', 'B'], rng.choice([1, 1, 2])):
        k = rng.choice([1, 2, 3])
        names = ['%s|r%d' % (e, i + 1) for i in range(k)] if (k > 1 or rng.random() < 0.6) else [e]
        for n in names:
            lay.append((n, gen_idl(rng, rng.randint(5, 12))))
    return lay


def gen_obs_set(rng, nprng, count, lay=None, cov=None):
    """`count` observables that may live in one structure: same layout (json requires it)"""
    lay = lay or gen_layout(rng)
    byens = {}
    for n, il in lay:
        byens.setdefault(n.split('|')[0], []).append((n, il))
    out = []
    cobs = None
    if cov:
        dim = cov
        m = np.eye(dim) * 0.04 + 0.01
        cobs = pe.cov_Obs(list(np.arange(dim) * 0.1 + 0.2), m if dim > 1 else 0.04, 'cv%d' % dim)
        if dim == 1:
            cobs = [cobs]
    for i in range(count):
        o = None
        for e, l in sorted(byens.items()):
            b = base(rng, nprng, l)
            o = b if o is None else o + b
        if cobs:
            o = o + sum((0.1 * (i + 1) * (k + 1)) * c for k, c in enumerate(cobs))
        # derived observables whose central value is many orders of magnitude above (or below) their fluctuations
        sh = rng.random()
        if sh < 0.12:
            o = o + rng.choice([1e12, -3e9, 1e6])
        elif sh < 0.18:
            o = 1e8 + 1e-4 * o
        out.append(o)
    return out


def canon(x):
    """canonical nested description of a structure"""
    if x is None:
        return None
    if isinstance(x, pe.Obs):
        return {'t': 'Obs', 'value': float(x.value),
                'reps': {n: {'idl': [int(c) for c in x.idl[n]], 'range': isinstance(x.idl[n], range), 'd': [float(v) for v in x.deltas[n]], 'r': float(x.r_values[n]),
                             'off': float(x.r_values[n] - x.value)}
                         for n in x.names if n not in x.covobs},
                'cov': {n: {'cov': np.atleast_2d(np.asarray(x.covobs[n].cov, dtype=float)).tolist(), 'grad': [float(v) for v in np.asarray(x.covobs[n].grad).ravel()]} for n in x.covobs},
                'tag': x.tag, 'rw': bool(x.reweighted)}
    if isinstance(x, pe.CObs):
        return {'t': 'CObs', 're': canon(x.real), 'im': canon(x.imag)}
    if isinstance(x, pe.Corr):
        return {'t': 'Corr', 'N': x.N, 'T': x.T, 'tag': x.tag, 'prange': list(x.prange) if x.prange is not None else None,
                'content': [None if c is None else canon(np.asarray(c, dtype=object)) for c in x.content]}
    if isinstance(x, np.ndarray):
        return {'t': 'Array', 'shape': list(x.shape), 'e': [canon(v) for v in x.ravel()]}
    if isinstance(x, list):
        return {'t': 'List', 'e': [canon(v) for v in x]}
    if isinstance(x, dict):
        return {'t': 'Dict', 'e': {str(k): canon(v) for k, v in x.items()}}
    return {'t': 'V', 'v': x}


SCALE = [1.0]     # magnitude of the samples of the structure under comparison


def max_abs(a):
    if isinstance(a, float):
        return abs(a) if a == a and abs(a) != float('inf') else 0.0
    if isinstance(a, dict):
        return max([max_abs(v) for v in a.values()] + [0.0])
    if isinstance(a, list):
        return max([max_abs(v) for v in a] + [0.0])
    return 0.0


def diff(a, b, path='$'):
    if type(a) != type(b):
        return '%s: %s vs %s' % (path, type(a).__name__, type(b).__name__)
    if isinstance(a, dict):
        if sorted(a) != sorted(b):
            return '%s: keys %r vs %r' % (path, sorted(a), sorted(b))
        if 'off' in a and 'd' in a and isinstance(a['d'], list) and len(a['d']) == len(b.get('d', [])):
            # the format stores fluctuation + (replica mean - central value) in one number: the stored
            # numbers, not the bare fluctuations, set the rounding scale
            # (written number = d + off; the replica mean and the central value do not enter it, so the fluctuations of an
            # observable with a huge central value come back as precisely as those of one with a small central value)
            # The reader re-centres the stored numbers by their average, so the residual mean of the original fluctuations
            # (rounding residue of the original mean, ~ulp of the samples / sqrt(N)) moves from the fluctuations to the replica mean.
            sc = max([abs(v) for v in a['d']] + [abs(a['off']), 1e-300])
            resid = abs(sum(a['d']) / max(1, len(a['d'])))
            for i, (u, v) in enumerate(zip(a['d'], b['d'])):
                if abs(u - v) > 4e-15 * max(1.0, len(a['d']) / 16.0) * sc + 2.0 * resid:
                    return '%s.d[%d]: %r vs %r (scale of stored numbers %r)' % (path, i, u, v, sc)
            # the reader forms the replica mean as central value + average of the stored numbers: its rounding is an ulp of
            # the CENTRAL VALUE (= r - off), which can be much larger than the replica mean itself, plus the residue above
            if abs(a['r'] - b['r']) > 4e-15 * max(abs(a['r']), sc, abs(a['r'] - a['off'])) + 2.0 * resid:
                return '%s.r: %r vs %r' % (path, a['r'], b['r'])
            a = {k: v for k, v in a.items() if k not in ('d', 'r', 'off')}
            b = {k: v for k, v in b.items() if k not in ('d', 'r', 'off')}
        for k in a:
            d = diff(a[k], b[k], path + '.' + str(k))
            if d:
                return d
        return None
    if isinstance(a, list):
        if len(a) != len(b):
            return '%s: length %d vs %d' % (path, len(a), len(b))
        scale = max([abs(v) for v in a if isinstance(v, float)] + [0.0])
        for i, (u, v) in enumerate(zip(a, b)):
            if isinstance(u, float) and isinstance(v, float):
                if not close(u, v, rtol=1e-15 * 8, scale=max(scale, 1e-300)):
                    return '%s[%d]: %r vs %r' % (path, i, u, v)
            else:
                d = diff(u, v, '%s[%d]' % (path, i))
                if d:
                    return d
        return None
    if isinstance(a, float):
        return None if close(a, b, rtol=1e-15 * 8) else '%s: %r vs %r' % (path, a, b)
    return None if a == b else '%s: %r vs %r' % (path, a, b)


def analysis(x):
    """error analysis of every Obs in a structure (identical data => identical results)"""
    out = []
    if isinstance(x, pe.Obs):
        try:
            x.gamma_method()
            out.append(float(x.dvalue))
        except Exception:
            out.append(-1.0)      # e.g. replicas without a common spacing: the same on both sides
    elif isinstance(x, pe.Corr):
        for c in x.content:
            if c is not None:
                out += analysis(np.asarray(c, dtype=object))
    elif isinstance(x, np.ndarray):
        for v in x.ravel():
            out += analysis(v)
    elif isinstance(x, (list, tuple)):
        for v in x:
            out += analysis(v)
    elif isinstance(x, dict):
        for v in x.values():
            out += analysis(v)
    elif isinstance(x, pe.CObs):
        out += analysis(x.real) + analysis(x.imag)
    return out


def build(case):
    rng = __import__('random').Random(case['seed'])
    nprng = np.random.default_rng(case['seed'])
    k = case['struct']
    cov = case.get('cov')
    if k == 'obs':
        o = gen_obs_set(rng, nprng, 1, cov=cov)[0]
        o.tag = case.get('tag')
        if case.get('rw'):
            o.reweighted = True
        return o
    if k == 'list':
        l = gen_obs_set(rng, nprng, case['n'], cov=cov)
        for i, o in enumerate(l):
            o.tag = tag_for(case, i, len(l))
            o.reweighted = bool(case.get('rw'))
        return l
    if k == 'array':
        shape = case['shape']
        l = gen_obs_set(rng, nprng, int(np.prod(shape)), cov=cov)
        for i, o in enumerate(l):
            o.tag = tag_for(case, i, len(l))
        a = np.array(l, dtype=object).reshape(shape)
        if case.get('order') == 'T' and a.ndim >= 2:
            a = a.T
        elif case.get('order') == 'F' and a.ndim >= 2:
            a = np.asfortranarray(a)
        elif case.get('order') == 'swap' and a.ndim >= 3:
            a = a.swapaxes(0, 2)
        return a
    if k == 'corr':
        T, N = case['T'], case['N']
        l = gen_obs_set(rng, nprng, T * N * N, cov=cov)
        content = []
        for t in range(T):
            if t in case['none']:
                content.append(None)
            elif N == 1:
                content.append(l[t])
            else:
                content.append(np.array(l[t * N * N:(t + 1) * N * N], dtype=object).reshape(N, N))
        c = pe.Corr(content, padding=list(case['pad']))
        c.tag = case.get('ctag')
        if case.get('prange'):
            c.prange = list(case['prange'])
        return c
    if k == 'dict':
        n = case['n']
        l = gen_obs_set(rng, nprng, n)
        d = {}
        for i, o in enumerate(l):
            if i % 4 == 3:
                d['grp%d' % i] = {'inner': o, 'lst': [l[0], l[(i + 1) % n]], 'txt': 'x', 'num': i}
            elif i % 4 == 2:
                d['arr%d' % i] = np.array([o, l[0]], dtype=object)
            else:
                d['key%d' % i] = o
        d['plain'] = 'text'
        return d
    raise ValueError(k)



# ---------------------------------------------------------------------------------------------
# nested dictionaries: the placeholder mechanism (_ol_from_dict / _od_from_list_and_dict) against
# PV/Model/Tree.lean (op "tree"), and the property itself (what is loaded is what was dumped)
# ---------------------------------------------------------------------------------------------
TREE_PLAIN = ['x', '', 'text', 'OBS', 'a1b', '0', '12', 'obs7']


def _tree_pool(case):
    rng = __import__('random').Random(case['seed'])
    nprng = np.random.default_rng(case['seed'])
    l = gen_obs_set(rng, nprng, 6)
    corr = pe.Corr([l[0], l[1], l[2]])
    arr = np.array([l[3], l[4]], dtype=object)
    return rng, [('obs', o) for o in l] + [('corr', corr), ('arr', arr)]


def gen_tree(rng, pool, reps, depth, adversarial):
    """a python value: structure / str / number / list / dict"""
    r = rng.random()
    if depth <= 0:
        r *= 0.62
    if r < 0.30:
        return rng.choice(pool)[1]
    if r < 0.42:
        if adversarial == 'clash' and rng.random() < 0.35:
            return rng.choice([reps + '0', reps + '7', reps + '12abc', reps + '1_0', reps + '3 '])
        if adversarial and rng.random() < 0.5:
            return rng.choice([reps, reps + 'x', 'x' + reps + '1', reps.lower() + '1', reps[:-1] + '1', reps + '-1', reps + ' 1']) if reps else 'x'
        return rng.choice(TREE_PLAIN)
    if r < 0.56:
        return rng.choice([1, 2.5, True, None, -3, 0.0])
    if r < 0.62:
        obs = [o for k, o in pool if k == 'obs']
        return [rng.choice(obs) for _ in range(rng.randint(1, 3))]        # a list of Obs: one placeholder / member by member
    if r < 0.82:
        return [gen_tree(rng, pool, reps, depth - 1, adversarial) for _ in range(rng.randint(0, 4))]
    return {rng.choice(['k', 'key', 'a', 'b', 'c', reps + '1', 'd', 'inner', 'z']) + str(i): gen_tree(rng, pool, reps, depth - 1, adversarial)
            for i in range(rng.randint(0, 4))}


def tree_wire(x, ids):
    if isinstance(x, pe.Obs):
        return {'t': 'leaf', 'k': 'obs', 'id': ids[id(x)]}
    if isinstance(x, pe.Corr):
        return {'t': 'leaf', 'k': 'corr', 'id': ids[id(x)]}
    if isinstance(x, np.ndarray):
        return {'t': 'leaf', 'k': 'arr', 'id': ids[id(x)]}
    if isinstance(x, str):
        return {'t': 'str', 's': x}
    if isinstance(x, list):
        return {'t': 'list', 'l': [tree_wire(v, ids) for v in x]}
    if isinstance(x, dict):
        return {'t': 'dict', 'kv': [[k, tree_wire(v, ids)] for k, v in x.items()]}
    return {'t': 'atom', 'j': pyjson.dumps(x)}


def slot_wire(e, ids):
    if isinstance(e, list):
        return {'many': [ids[id(o)] for o in e]}
    k = 'obs' if isinstance(e, pe.Obs) else 'corr' if isinstance(e, pe.Corr) else 'arr'
    return {'one': [k, ids[id(e)]]}


def tree_same(a, b):
    """identity on structures, equality elsewhere, key order included"""
    if isinstance(a, (pe.Obs, pe.Corr, np.ndarray)) or isinstance(b, (pe.Obs, pe.Corr, np.ndarray)):
        return a is b
    if type(a) != type(b):
        return False
    if isinstance(a, list):
        return len(a) == len(b) and all(tree_same(u, v) for u, v in zip(a, b))
    if isinstance(a, dict):
        return list(a) == list(b) and all(tree_same(a[k], b[k]) for k in a)
    return a == b or (a != a and b != b)


def exc_kind(e):
    m = str(e)
    if isinstance(e, IndexError):
        return 'indexError'
    if isinstance(e, ValueError):
        return 'valueError'
    if 'matches the placeholder' in m:
        return 'placeholderClash'
    if 'alphanumeric' in m:
        return 'notAlnum'
    if 'No placeholder has been replaced' in m:
        return 'noPlaceholder'
    return 'other:%s: %s' % (type(e).__name__, m[:80])


def has_structure(x):
    if isinstance(x, (pe.Obs, pe.Corr, np.ndarray)):
        return True
    if isinstance(x, list):
        return any(has_structure(v) for v in x)
    if isinstance(x, dict):
        return any(has_structure(v) for v in x.values())
    return False


def check_tree(ctx, case):
    probs = []
    rng, pool = _tree_pool(case)
    ids = {id(o): i for i, (_, o) in enumerate(pool)}
    reps = case['reps']
    d = gen_tree(rng, pool, reps, case['depth'], case['adv'])
    while not isinstance(d, dict):
        d = {'root': d, 'o': pool[0][1]} if rng.random() < 0.8 else {'root': d}
    ctx.count('tree:adv=%s' % case['adv'])
    # --- export: implementation vs model
    try:
        ol, nd = jio._ol_from_dict(d, reps)
        impl = ('ok', ol, nd)
    except Exception as e:
        impl = ('exc', exc_kind(e))
    ctx.count('tree:export=%s' % (impl[0] if impl[0] == 'ok' else impl[1]))
    if impl[0] == 'exc' and impl[1].startswith('other:'):
        probs.append(('violation', 'tree-export-unexpected-exception', impl[1]))
        return probs
    if ctx.lean is not None:
        r = ctx.lean.call({'op': 'tree', 'what': 'export', 'reps': reps, 'd': tree_wire(d, ids)})
        if '_err' in r:
            probs.append(('disagree', 'lean-driver-error', r['_err']))
        elif impl[0] == 'exc':
            if r.get('exc') != impl[1]:
                probs.append(('disagree', 'tree-export', 'impl raises %s, model gives %s' % (impl[1], str(r)[:200])))
        else:
            want = {'nd': tree_wire(impl[2], ids), 'ol': [slot_wire(e, ids) for e in impl[1]]}
            if r.get('exc') or r.get('nd') != want['nd'] or r.get('ol') != want['ol']:
                probs.append(('disagree', 'tree-export', 'impl %s vs model %s' % (str(want)[:300], str(r)[:300])))
    if impl[0] != 'ok':
        return probs
    ol, nd = impl[1], impl[2]
    # --- the property on the function pair: import(export(d)) is d (or a refusal when there is nothing to replace)
    try:
        back = jio._od_from_list_and_dict(ol, nd, reps)
        if not tree_same(back, d):
            probs.append(('violation', 'tree-roundtrip', 'import(export(d)) differs from d: %s vs %s' % (str(tree_wire(back, ids))[:300], str(tree_wire(d, ids))[:300])))
        if not ol:
            probs.append(('violation', 'tree-roundtrip', 'import accepted a dictionary without placeholders'))
    except Exception as e:
        k = exc_kind(e)
        if not (k == 'noPlaceholder' and not ol):
            probs.append(('violation', 'tree-roundtrip', 'import of the export raises %s' % k))
    # --- import of a tampered placeholder dictionary: implementation vs model (error kinds included)
    nd2, ol2 = nd, list(ol)
    how = rng.choice(['asis', 'short', 'string', 'string', 'extra'])
    if how == 'short' and ol2:
        ol2 = ol2[:rng.randrange(len(ol2))]
    elif how == 'string':
        nd2 = dict(nd)
        nd2['tamper'] = rng.choice([reps + '0', reps + '99', reps + '1_0', reps + '0 ', reps + '0x', reps + '00', reps + '1\n', 'x' + reps + '0', reps])
    elif how == 'extra':
        nd2 = dict(nd)
        nd2['tamper'] = [rng.choice(['t', reps + '0']), {'q': reps + str(max(0, len(ol2) - 1))}]
    ctx.count('tree:import=%s' % how)
    try:
        back2 = ('ok', jio._od_from_list_and_dict(ol2, nd2, reps))
    except Exception as e:
        back2 = ('exc', exc_kind(e))
    if ctx.lean is not None:
        r = ctx.lean.call({'op': 'tree', 'what': 'import', 'reps': reps, 'ol': [slot_wire(e, ids) for e in ol2], 'd': tree_wire(nd2, ids)})
        if '_err' in r:
            probs.append(('disagree', 'lean-driver-error', r['_err']))
        elif back2[0] == 'exc':
            if r.get('exc') != back2[1]:
                probs.append(('disagree', 'tree-import', '%s: impl raises %s, model gives %s' % (how, back2[1], str(r)[:200])))
        elif r.get('d') != tree_wire(back2[1], ids):
            probs.append(('disagree', 'tree-import', '%s: impl %s vs model %s' % (how, str(tree_wire(back2[1], ids))[:300], str(r)[:300])))
    # --- the whole path through a file, for a share of the cases
    if case.get('file') and has_structure(d):
        tmp = tempfile.mkdtemp(prefix='c11t_', dir='/dev/shm' if os.path.isdir('/dev/shm') else None)
        try:
            with warnings.catch_warnings(), quiet():
                warnings.simplefilter('ignore')
                try:
                    jio.dump_dict_to_json(d, os.path.join(tmp, 'f'), gz=case.get('gz', True), reps=reps)
                    y = jio.load_json_dict(os.path.join(tmp, 'f'), gz=case.get('gz', True), verbose=False, reps=reps)
                except Exception as e:
                    ctx.count('tree:file-refused')
                    y = None
                if y is not None:
                    ctx.count('tree:file-ok')
                    SCALE[0] = max_abs(canon(d)) or 1.0
                    dd = diff(canon(d), canon(y))
                    if dd:
                        probs.append(('violation', 'tree-file-roundtrip', dd))
                    elif list(d) != list(y):
                        probs.append(('violation', 'tree-file-roundtrip', 'key order changed'))
        finally:
            shutil.rmtree(tmp, ignore_errors=True)
    return probs


REPO_ROOT = os.environ.get('PYERRORS_VERIF_ROOT', '/repo')


def validate_batch(docs):
    """jsonschema verdicts (python3-vt has the package); returns list of bool"""
    script = ("import json,sys,jsonschema\n"
              "s=json.load(open(" + repr(REPO_ROOT + '/examples/json_schema.json') + "))\n"
              "cls=jsonschema.validators.validator_for(s)\n"
              "v=cls(s)\n"
              "docs=json.load(sys.stdin)\n"
              "print(json.dumps([v.is_valid(d) for d in docs]))\n")
    p = subprocess.run(['python3-vt', '-c', script], input=pyjson.dumps(docs), capture_output=True, text=True, timeout=600)
    if p.returncode != 0:
        raise RuntimeError('jsonschema subprocess failed: ' + p.stderr[-500:])
    return pyjson.loads(p.stdout.strip().splitlines()[-1])


def nan_to_num(x):
    if isinstance(x, float) and x != x:
        return 0.5
    if isinstance(x, list):
        return [nan_to_num(v) for v in x]
    if isinstance(x, dict):
        return {k: nan_to_num(v) for k, v in x.items()}
    return x


def corrupt(doc, how):
    import copy
    d = copy.deepcopy(doc)
    o = d['obsdata'][0]
    if how == 'no_obsdata':
        del d['obsdata']
    elif how == 'type_number':
        o['type'] = 7
    elif how == 'value_string':
        o['value'] = 'abc'
    elif how == 'no_type':
        del o['type']
    elif how == 'deltas_string' and 'data' in o:
        o['data'][0]['replica'][0]['deltas'] = 'x'
    elif how == 'replica_noname' and 'data' in o:
        del o['data'][0]['replica'][0]['name']
    elif how == 'layout_number':
        o['layout'] = 3
    elif how == 'obsdata_object':
        d['obsdata'] = {'a': 1}
    return d


CORRUPT = ['no_obsdata', 'type_number', 'value_string', 'no_type', 'deltas_string', 'replica_noname', 'layout_number', 'obsdata_object']



def doc_wire(o0):
    """one parsed `obsdata` entry -> wire form of JsonDoc.SDoc (numbers bit exact)"""
    from pe_util import f2b
    data = [{'id': e['id'], 'replica': [{'name': r['name'], 'cfgs': [int(row[0]) for row in r['deltas']],
                                         'x': [[f2b(float(v)) for v in row[1:]] for row in r['deltas']]} for r in e['replica']]}
            for e in o0.get('data', [])]
    cdata = [{'id': c['id'], 'shape': [int(t) for t in str(c.get('layout', '1')).split(',') if t.strip()],
              'cov': [f2b(float(v)) for v in c['cov']], 'grad': [[f2b(float(v)) for v in g] for g in c['grad']]} for c in o0.get('cdata', [])]
    return {'value': [f2b(float(v)) for v in o0['value']], 'data': data, 'cdata': cdata, 'reweighted': bool(o0.get('reweighted', False))}


def check_doc_model(ctx, case, x, y, s):
    """the numeric part of the document: written = model of the writer, imported = model of the reader"""
    from pe_util import b2f, dump_obs
    probs = []
    flat = [x] if isinstance(x, pe.Obs) else (list(x) if isinstance(x, list) else list(np.ravel(x)))
    got = [y] if isinstance(y, pe.Obs) else (list(y) if isinstance(y, list) else list(np.ravel(y)))
    o0 = pyjson.loads(s)['obsdata'][0]
    impl = doc_wire(o0)
    r = ctx.lean.call({'op': 'jsondoc', 'what': 'write', 'obs': [dump_obs(o) for o in flat]})
    if '_err' in r:
        return [('disagree', 'lean-driver-error', r['_err'])]
    m = r['doc']
    ctx.count('doc-model:write')

    def num(v):
        return b2f(v)
    sc = max([abs(num(v)) for e in impl['data'] for rp in e['replica'] for row in rp['x'] for v in row] + [abs(num(v)) for v in impl['value']] + [1e-300])
    why = None
    if [num(v) for v in m['value']] != [num(v) for v in impl['value']]:
        why = 'value'
    elif [(e['id'], [(rp['name'], rp['cfgs']) for rp in e['replica']]) for e in m['data']] != [(e['id'], [(rp['name'], rp['cfgs']) for rp in e['replica']]) for e in impl['data']]:
        why = 'ensembles / replica names / configuration numbers of the data block'
    elif any(len(a['x']) != len(b['x']) or any(len(u) != len(v) or not all(close(num(p), num(q), rtol=4e-16, scale=sc) for p, q in zip(u, v)) for u, v in zip(a['x'], b['x']))
             for e1, e2 in zip(m['data'], impl['data']) for a, b in zip(e1['replica'], e2['replica'])):
        why = 'stored numbers delta + (r - value)'
    elif [(c['id'], c['shape']) for c in m['cdata']] != [(c['id'], c['shape']) for c in impl['cdata']]:
        why = 'cdata ids / layout'
    elif any([num(v) for v in a['cov']] != [num(v) for v in b['cov']] or [[num(v) for v in g] for g in a['grad']] != [[num(v) for v in g] for g in b['grad']]
             for a, b in zip(m['cdata'], impl['cdata'])):
        why = 'cdata cov / grad'
    elif bool(m['reweighted']) != bool(impl['reweighted']):
        why = 'reweighted'
    if why:
        probs.append(('disagree', 'doc-model-write', '%s: model %s vs written %s' % (why, str(m)[:200], str(impl)[:200])))
        return probs
    # reader: the model applied to the document the implementation wrote
    r = ctx.lean.call({'op': 'jsondoc', 'what': 'read', 'doc': impl, 'k': len(flat)})
    if '_err' in r:
        return [('disagree', 'lean-driver-error', r['_err'])]
    if 'exc' in r:
        probs.append(('disagree', 'doc-model-read', 'model refuses the written document: %s' % r['exc']))
        return probs
    ctx.count('doc-model:read')
    for i, (mo, go) in enumerate(zip(r['obs'], got)):
        w = dump_obs(go)
        d_ = None
        if [rp['name'] for rp in mo['reps']] != [rp['name'] for rp in w['reps']]:
            d_ = 'chain names %r vs %r' % ([rp['name'] for rp in mo['reps']], [rp['name'] for rp in w['reps']])
        elif [rp['idl'] for rp in mo['reps']] != [rp['idl'] for rp in w['reps']]:
            d_ = 'configuration lists'
        elif num(mo['value']) != num(w['value']) or bool(mo['reweighted']) != bool(w['reweighted']):
            d_ = 'value / flag'
        else:
            for a, b in zip(mo['reps'], w['reps']):
                if len(a['deltas']) != len(b['deltas']) or not all(close(num(p), num(q), rtol=1e-13, scale=sc) for p, q in zip(a['deltas'], b['deltas'])) \
                        or not close(num(a['rvalue']), num(b['rvalue']), rtol=1e-13, scale=sc):
                    d_ = 'fluctuations / replica mean of %s' % a['name']
                    break
            if d_ is None and ([c['name'] for c in mo['covs']] != [c['name'] for c in w['covs']]
                               or any([[num(v) for v in row] for row in a['cov']] != [[num(v) for v in row] for row in b['cov']] or [num(v) for v in a['grad']] != [num(v) for v in b['grad']]
                                      for a, b in zip(mo['covs'], w['covs']))):
                d_ = 'covariance inputs'
        if d_:
            probs.append(('disagree', 'doc-model-read', 'observable %d: %s' % (i, d_)))
            break
    return probs


def check_case(ctx, case, collect=None):
    if case['struct'] == 'tree':
        return check_tree(ctx, case)
    probs = []
    x = build(case)
    ref = canon(x)
    d = tempfile.mkdtemp(prefix='c11_', dir='/dev/shm' if os.path.isdir('/dev/shm') else None)
    try:
        with warnings.catch_warnings(), quiet():
            warnings.simplefilter('ignore')
            tr = case['transport']
            # a python list handed to the writer is a list of *structures*; one List structure is [[...]]
            arg = [x] if isinstance(x, list) else x
            try:
                if case['struct'] == 'dict':
                    if tr == 'pickle':
                        y = pickle.loads(pickle.dumps(x))
                    else:
                        jio.dump_dict_to_json(x, os.path.join(d, 'f'), indent=case['indent'], gz=case['gz'], reps='DICTOBS')
                        y = jio.load_json_dict(os.path.join(d, 'f'), gz=case['gz'], verbose=False, reps='DICTOBS')
                    s = None
                elif tr == 'string':
                    s = jio.create_json_string(arg, indent=case['indent'], **({'description': case['desc']} if case.get('desc') is not None else {}))
                    y = jio.import_json_string(s, verbose=False, full_output=bool(case.get('full')))
                elif tr == 'file' and isinstance(x, (pe.Obs, pe.Corr)) and case['seed'] % 3 == 1 and not case.get('full'):
                    # the method of the object itself: `dump` writes <path>/<name>.json.gz
                    x.dump('f', datatype='json.gz', path=d, **({'description': case['desc']} if (case.get('desc') is not None and isinstance(x, pe.Obs)) else {}))
                    y = jio.load_json(os.path.join(d, 'f'), gz=True, verbose=False)
                    s = jio.create_json_string(arg, indent=case['indent'])
                    ctx.count('transport:dump-method')
                elif tr == 'file':
                    jio.dump_to_json(arg, os.path.join(d, 'f'), indent=case['indent'], gz=case['gz'], **({'description': case['desc']} if case.get('desc') is not None else {}))
                    y = jio.load_json(os.path.join(d, 'f'), gz=case['gz'], verbose=False, full_output=bool(case.get('full')))
                    s = jio.create_json_string(arg, indent=case['indent'])
                elif tr == 'pickle':
                    if case['seed'] % 2 and isinstance(x, (pe.Obs, pe.Corr)):
                        x.dump('obj', datatype='pickle', path=d)
                        y = pe.misc.load_object(os.path.join(d, 'obj.p'))
                        ctx.count('transport:dump-method-pickle')
                    elif case['seed'] % 2:
                        # the library's own pickle transport
                        pe.misc.dump_object(x, 'obj', path=d)
                        y = pe.misc.load_object(os.path.join(d, 'obj.p'))
                    else:
                        y = pickle.loads(pickle.dumps(x))
                    s = None
                else:
                    import pandas as pd
                    import pyerrors.input.pandas as pdio
                    col = [x, x] if not isinstance(x, np.ndarray) else [list(x.ravel()), list(x.ravel())]
                    df = pd.DataFrame({'i': [1, 2], 'o': col})
                    # the index of the frame is not part of what is written (index=False): a filtered frame (no label 0)
                    # or a concatenated one (repeated labels) transports its cells like any other
                    df.index = [[0, 1], [5, 7], [0, 0], [1, 0]][(case['seed'] // 3) % 4]
                    if tr == 'csv':
                        pdio.dump_df(df, os.path.join(d, 'f'), gz=case['gz'])
                        df2 = pdio.load_df(os.path.join(d, 'f'), gz=case['gz'], auto_gamma=bool(case['seed'] % 2))
                    else:
                        pdio.to_sql(df, 'tab', os.path.join(d, 'f.db'), gz=case['gz'])
                        df2 = pdio.read_sql('SELECT * from tab', os.path.join(d, 'f.db'), auto_gamma=bool(case['seed'] % 2))
                    y = df2['o'][1]
                    if isinstance(x, np.ndarray):
                        ref = canon(list(x.ravel()))
                    s = None
                if tr in ('string', 'file') and case['struct'] != 'dict' and case.get('full'):
                    # full_output: the documented dictionary; the data under 'obsdata', the description as written
                    if not isinstance(y, dict) or 'obsdata' not in y:
                        probs.append(('violation', 'full-output', 'full_output=True did not return the documented dictionary'))
                        return probs
                    if case.get('desc') is not None and y.get('description') != case['desc']:
                        probs.append(('violation', 'description-changed', '%r vs %r' % (y.get('description'), case['desc'])))
                    y = y['obsdata']
                    # documented: 'obsdata' is the list of the structures of the file - here exactly one
                    if not isinstance(y, list) or len(y) != 1:
                        probs.append(('violation', 'full-output-obsdata', "'obsdata' is %s, documented: a list with the one structure written" % (
                            ('a list of %d' % len(y)) if isinstance(y, list) else type(y).__name__)))
                        return probs
                    y = y[0]
            except Exception as e:
                if tr in ('csv', 'sql') and case['seed'] % 2 and 'common spacing' in str(e):
                    # auto_gamma=True analyses on import; replicas without a common spacing cannot be analysed (C02: refused)
                    ctx.count('auto-gamma-refused:no-common-spacing')
                    return probs
                probs.append(('violation', 'roundtrip-exception:%s:%s' % (case['struct'], tr), '%s: %s' % (type(e).__name__, str(e)[:200])))
                return probs
            got = canon(y)
            SCALE[0] = max_abs(ref)
            df_ = diff(ref, got)
            if df_:
                probs.append(('violation', 'roundtrip:%s:%s' % (case['struct'], tr), df_))
            elif case.get('analyse'):
                a1, a2 = analysis(x), analysis(y)
                if len(a1) != len(a2) or not all(close(u, v, rtol=1e-12) for u, v in zip(a1, a2)):
                    probs.append(('violation', 'analysis-differs-after-roundtrip', '%r vs %r' % (a1[:3], a2[:3])))
            if s is not None and collect is not None:
                doc = pyjson.loads(s)
                collect.append((case, nan_to_num(doc)))
            if ctx.lean is not None and s is not None and case['struct'] in ('obs', 'list', 'array') and not df_:
                probs += check_doc_model(ctx, case, x, y, s)
            # replica-table model (exact rationals) for lists
            if ctx.lean is not None and case['struct'] == 'list' and s is not None:
                doc = pyjson.loads(s)
                o0 = doc['obsdata'][0]
                if 'data' in o0:
                    rep = o0['data'][0]['replica'][0]
                    nm = rep['name']
                    idl = [int(r[0]) for r in rep['deltas']]
                    rr = ctx.lean.call({'op': 'jsonrep', 'idl': idl,
                                        'deltas': [[q2j(Fraction(float(v))) for v in o.deltas[nm]] for o in x],
                                        'rvals': [q2j(Fraction(float(o.r_values[nm]))) for o in x], 'vals': [q2j(Fraction(float(o.value))) for o in x]})
                    if '_err' in rr:
                        probs.append(('disagree', 'lean-driver-error', rr['_err']))
                    else:
                        rows = [[float(Fraction(a, b)) for a, b in r] for r in rr['rows']]
                        impl_rows = [[float(v) for v in r[1:]] for r in rep['deltas']]
                        sc = max(1e-300, max(abs(v) for r in impl_rows for v in r))
                        if len(rows) != len(impl_rows) or not all(close(u, v, rtol=1e-14, scale=sc) for r1, r2 in zip(rows, impl_rows) for u, v in zip(r1, r2)):
                            probs.append(('disagree', 'replica-table', 'written rows differ from the model'))
                        back = [[float(Fraction(a, b)) for a, b in col] for col in rr['deltas']]
                        for o, col in zip(x, back):
                            if not all(close(u, float(v), rtol=1e-10, scale=sc) for u, v in zip(col, o.deltas[nm])):   # chains are zero-mean up to accumulated rounding (1e-12 relative seen)
                                probs.append(('disagree', 'replica-table-decode', 'model decode does not restore the fluctuations (non zero-mean chain?)'))
                                break
    finally:
        shutil.rmtree(d, ignore_errors=True)
    return probs


def gen_case(ctx):
    rng = ctx.rng
    if rng.random() < 0.3:
        return {'struct': 'tree', 'transport': 'functions', 'seed': rng.getrandbits(28), 'depth': rng.choice([1, 2, 2, 3, 4]),
                'reps': rng.choice(['DICTOBS', 'DICTOBS', 'DICTOBS', 'OBS', 'a1', 'D', 'Q9', 'DICTOBS', 'OBS', 'x_y', '']), 'adv': rng.choice([None, 'near', 'near', 'clash']),
                'file': rng.random() < 0.25, 'gz': rng.random() < 0.5}
    k = rng.choice(['obs', 'obs', 'list', 'list', 'array', 'array', 'corr', 'corr', 'dict'])
    case = {'struct': k, 'seed': rng.getrandbits(28), 'indent': rng.choice([0, 1]), 'gz': rng.random() < 0.5,
            'transport': rng.choice(['string', 'string', 'file', 'file', 'pickle', 'csv', 'sql']), 'cov': rng.choice([None, None, 1, 2, 3]),
            'rw': rng.random() < 0.2, 'analyse': rng.random() < 0.3}
    case['full'] = (case['seed'] % 3 == 0)
    case['desc'] = [None, 'a description', '', 'line1\nline2 "quoted" {x: 1}', {'nested': [1, 2]}][case['seed'] % 5]
    if k == 'obs':
        case['tag'] = rng.choice(TAGS)
    elif k == 'list':
        case.update({'n': rng.randint(1, 5), 'tags': rng.random() < 0.5, 'tagoff': rng.randrange(len(TAGS)), 'tagmode': rng.choice(['cycle', 'cycle', 'falsy', 'single'])})
        if case['transport'] in ('csv', 'sql'):
            case['n'] = max(2, case['n'])      # a one-element list in a data-frame cell is unpacked on import (documented)
    elif k == 'array':
        case.update({'shape': rng.choice([[2], [3], [2, 2], [2, 3], [3, 2], [1, 4], [2, 2, 2], [2, 3, 2]]), 'tags': rng.random() < 0.4,
                     'tagmode': rng.choice(['cycle', 'cycle', 'falsy', 'single']), 'tagoff': rng.randrange(len(TAGS)), 'order': rng.choice(['C', 'C', 'T', 'F', 'swap'])})
        if case['transport'] in ('csv', 'sql'):
            case['transport'] = 'string'
    elif k == 'corr':
        T = rng.randint(2, 6)
        none = sorted(rng.sample(range(T), rng.randint(0, T - 1)))
        case.update({'T': T, 'N': rng.choice([1, 1, 2]), 'none': none, 'pad': [rng.choice([0, 0, 1, 2]), rng.choice([0, 0, 1])],
                     'ctag': rng.choice([None, 'corr tag', '']), 'prange': rng.choice([None, [0, T - 1], [1, 1]]), 'cov': rng.choice([None, None, 2])})
    else:
        case.update({'n': rng.choice([3, 5, 9, 12, 14]), 'cov': None})
        case['transport'] = rng.choice(['file', 'pickle'])
    return case


def run(ctx):
    n = ctx.budget(220, 4000)
    corpus = os.path.join(os.path.dirname(os.path.dirname(os.path.dirname(os.path.abspath(__file__)))), 'corpus', 'C11')
    cases = []
    if os.path.isdir(corpus):
        for fn in sorted(os.listdir(corpus)):
            cases.append(pyjson.load(open(os.path.join(corpus, fn)))['case'])
    for _ in range(n):
        cases.append(gen_case(ctx))
    docs = []
    for case in cases:
        ctx.count('struct=' + case['struct'])
        ctx.count('transport=' + case['transport'])
        ctx.case(case)
        for (kind, key, info) in check_case(ctx, case, collect=docs):
            (ctx.violation if kind == 'violation' else ctx.disagree)(key, {'case': case, 'info': info})
        if len(ctx.violations) + len(ctx.disagreements) > 25:
            break
    # schema: emitted documents must validate; corrupted ones are judged alike by both validators
    rng = ctx.rng
    sample = docs if len(docs) <= 120 else rng.sample(docs, 120)
    batch, meta = [], []
    for case, doc in sample:
        batch.append(doc)
        meta.append((case, 'emitted'))
        how = rng.choice(CORRUPT)
        batch.append(corrupt(doc, how))
        meta.append((case, how))
    if batch:
        try:
            verdicts = validate_batch(batch)
        except Exception as e:
            ctx.notes.append('jsonschema reference validator unavailable: %r' % (e,))
            verdicts = [None] * len(batch)
        for (case, how), doc, v in zip(meta, batch, verdicts):
            ctx.count('schema:' + how)
            lv = None
            if ctx.lean is not None:
                r = ctx.lean.call({'op': 'schema', 'doc': doc})
                lv = r.get('valid') if isinstance(r, dict) else None
            if how == 'emitted':
                if v is False or (v is None and lv is False):
                    ctx.violation('schema-invalid-document:' + case['struct'], {'case': case, 'info': 'emitted document does not validate against the shipped schema (lean: %s)' % (r.get('where') if ctx.lean else '')})
            if v is not None and lv is not None and v != lv:
                ctx.disagree('schema-validator', {'case': case, 'info': 'jsonschema says %s, Lean validator says %s for %s (%s)' % (v, lv, how, r.get('where'))})
    ctx.evaluations += len(batch)
