"""C14 - correlator arithmetic acts timeslice-wise and propagates undefined slices.

impl   = pyerrors Corr operators / functions / index transformations
model  = PV.Model.Corr on central values (op "corr")
oracle = written here from the statement: per timeslice, undefined iff an operand is undefined or
         the result is NaN, else the same operation applied to the entries (Obs arithmetic);
         index maps as stated permutations / averages; operands and arguments never mutated.
"""
import copy
import json
import math
import os
from pe_util import np, pe, close, f2b, b2f

RULE = ('T=2..16, N=1..3, random undefined timeslices and paddings; all operator x partner-type x order combinations for real '
        'content (Corr, Obs, CObs, int, float, complex, ndarray), supported subset for complex content; 17 functions; roll / reverse / '
        'thin / symmetric / anti_symmetric / T_symmetry / item / projected / trace / matrix_symmetric / Hankel with random arguments; '
        'operands and argument objects snapshotted before and after; repeated invocation. non-trivial = distinct case.')
TRUSTED = ['Obs arithmetic on the entries (property C01)']
ASSUMPTIONS = ['a combination the Corr class refuses with its own TypeError/ValueError guard counts as refused, not as a violation; the refusal set is fixed in REFUSED']

FUNCS = ['sqrt', 'log', 'exp', 'sin', 'cos', 'tan', 'sinh', 'cosh', 'tanh', 'arcsin', 'arccos', 'arctan', 'arcsinh', 'arccosh', 'arctanh', 'abs', 'neg']
NANFUNCS = {'sin', 'cos', 'tan', 'sinh', 'cosh', 'tanh', 'arcsin', 'arccos', 'arctan', 'arcsinh', 'arccosh', 'arctanh'}
IDL = list(range(1, 13))


def cell(seedval):
    """a cheap deterministic Obs around `seedval`"""
    rs = np.random.RandomState(int(abs(seedval) * 1000) % 100000)
    return pe.Obs([seedval + 0.01 * (np.round(rs.normal(size=len(IDL)) * 64) / 64)], ['e'], idl=[IDL])


def twin(x):
    """another observable with exactly the central value of x (when floating point allows) but other fluctuations"""
    y = pe.Obs([x.value + np.asarray(x.deltas['e'])[::-1]], ['e'], idl=[IDL])
    if y.value != x.value:
        y = y + (x.value - y.value)
    return y


def build_corr(d):
    """d = {'N':n, 'vals': [None | value | [[..]]], 'cplx': bool}"""
    content = []
    for v in d['vals']:
        if v is None:
            content.append(None)
        elif d['N'] == 1:
            content.append(pe.CObs(cell(v), cell(v * 0.5 + 0.1)) if d.get('cplx') else cell(v))
        else:
            mat = np.array([[cell(x) for x in row] for row in v], dtype=object)
            if d.get('share'):
                # some transposed pairs hold the very same object (a symmetric block), the others are different observables
                for (i, j) in d['share']:
                    if i < d['N'] and j < d['N']:
                        mat[j, i] = mat[i, j]
            if d.get('twin'):
                # transposed entries with identical central values and different fluctuations: symmetric in value only
                for i in range(d['N']):
                    for j in range(i + 1, d['N']):
                        mat[j, i] = twin(mat[i, j])
            content.append(mat)
    c = pe.Corr(content)
    if d.get('prange'):
        c.prange = list(d['prange'])
    return c


def snap_obs(o):
    if o is None:
        return None
    if isinstance(o, pe.CObs):
        return ('C', snap_obs(o.real), snap_obs(o.imag))
    if isinstance(o, pe.Obs):
        return ('O', float(o.value), tuple(sorted((n, tuple(np.asarray(o.deltas[n]).tolist()), tuple(o.idl[n])) for n in o.deltas)))
    if isinstance(o, np.ndarray):
        return ('A', o.shape, tuple(snap_obs(x) for x in o.ravel()))
    if isinstance(o, (list, tuple)):
        return ('L', tuple(snap_obs(x) for x in o))
    if isinstance(o, pe.Corr):
        return ('Corr', o.T, o.N, tuple(o.prange) if o.prange else None, o.tag, tuple(snap_obs(x) for x in o.content))
    return ('V', repr(o))


def obs_close(a, b, rtol=1e-10):
    if isinstance(a, pe.CObs) or isinstance(b, pe.CObs):
        if not (isinstance(a, pe.CObs) and isinstance(b, pe.CObs)):
            return False
        return obs_close(a.real, b.real) and obs_close(a.imag, b.imag)
    if isinstance(a, pe.Obs) != isinstance(b, pe.Obs):
        return False
    if not isinstance(a, pe.Obs):
        return close(float(a), float(b), rtol=rtol)
    if not close(float(a.value), float(b.value), rtol=rtol):
        return False
    if sorted(a.deltas) != sorted(b.deltas):
        return False
    for n in a.deltas:
        x, y = np.asarray(a.deltas[n]), np.asarray(b.deltas[n])
        if x.shape != y.shape or np.max(np.abs(x - y)) > rtol * max(1e-12, np.max(np.abs(y)), abs(float(b.value)) * 1e-3):
            return False
    return True


def is_nan_entry(m):
    s = np.sum(m)
    v = s.value if hasattr(s, 'value') else (s.real.value if isinstance(s, pe.CObs) and hasattr(s.real, 'value') else s)
    try:
        return bool(np.isnan(v))
    except TypeError:
        return False


def partner_of(d):
    k = d['kind']
    if k == 'corr':
        return build_corr(d['corr'])
    if k == 'obs':
        return cell(d['v'])
    if k == 'cobs':
        return pe.CObs(cell(d['v']), cell(d['v'] * 0.3 + 0.2))
    if k == 'int':
        return int(d['v'])
    if k == 'float':
        return float(d['v'])
    if k == 'complex':
        return complex(d['v'], d['w'])
    if k == 'ndarray':
        return np.array(d['arr'], dtype=float)
    raise ValueError(k)


def apply_op(op, x, y):
    return {'add': lambda: x + y, 'sub': lambda: x - y, 'mul': lambda: x * y, 'div': lambda: x / y, 'pow': lambda: x ** y}[op]()


def refused(op, order, pk, cplx):
    """combinations Corr refuses by its own guard (or that Python rejects as unsupported operand types)"""
    if op == 'pow' and (order == 'r' or pk in ('corr', 'complex', 'ndarray', 'cobs')):
        return True
    if op == 'div' and pk == 'complex':
        return True
    if op == 'div' and order == 'r' and pk in ('cobs', 'complex'):
        return True
    if cplx:
        if op in ('pow',):
            return True
        if op == 'div' and (order == 'r' or pk in ('corr', 'cobs', 'complex')):
            return True
    return False


def check_binary(ctx, case):
    probs = []
    a = build_corr(case['a'])
    y = partner_of(case['p'])
    if case.get('tdiff'):
        # partners of different temporal extent cannot be combined timeslice by timeslice: refused for every operation,
        # in both orders, whatever the matrix dimensions are
        ctx.count('different-T')
        for l_, r_, od_ in ((a, y, 'l'), (y, a, 'r')):
            try:
                res_ = apply_op(case['op'], l_, r_)
            except Exception:
                continue
            probs.append(('violation', 'accepts-different-T', '%s of correlators with T=%d and T=%d (N=%d, %d) returned T=%s' % (
                case['op'], l_.T, r_.T, l_.N, r_.N, getattr(res_, 'T', '?'))))
            break
        return probs
    op, order, pk = case['op'], case['order'], case['p']['kind']
    cplx = bool(case['a'].get('cplx')) or (pk == 'corr' and bool(case['p']['corr'].get('cplx')))
    sa, sy = snap_obs(a), snap_obs(y)
    try:
        res = apply_op(op, a, y) if order == 'l' else apply_op(op, y, a)
        exc = None
    except Exception as e:
        res, exc = None, e
    if snap_obs(a) != sa or snap_obs(y) != sy:
        probs.append(('violation', 'operand-mutated', '%s %s %s' % (op, order, pk)))
    ref = refused(op, order, pk, cplx)
    if exc is not None and pk == 'corr' and all(u is None or v is None for u, v in zip(case['a']['vals'], case['p']['corr']['vals'])):
        return probs      # the result would be undefined everywhere; such a correlator cannot be constructed
    if exc is not None:
        if ref and isinstance(exc, (TypeError, ValueError)):
            return probs
        if isinstance(exc, ValueError) and 'undefined' in str(exc):
            # all-undefined result of a division: allowed outcome when every slice is undefined
            alln = all(v is None for v in case['a']['vals']) or (pk == 'corr' and all(u is None or v is None for u, v in zip(case['a']['vals'], case['p']['corr']['vals'])))
            if alln:
                return probs
        if op == 'pow' and pk in ('int', 'float', 'obs'):
            with np.errstate(all='ignore'):
                if all(at is None or is_nan_entry(at ** y) for at in a.content):
                    return probs      # every power is undefined: such a correlator cannot be constructed
        probs.append(('violation', 'exception-%s-%s-%s' % (op, order, pk), '%s: %s' % (type(exc).__name__, str(exc)[:150])))
        return probs
    if not isinstance(res, pe.Corr):
        probs.append(('violation', 'result-type-%s-%s-%s' % (op, order, pk), type(res).__name__))
        return probs
    if res.T != a.T:
        probs.append(('violation', 'T-changed', '%d -> %d' % (a.T, res.T)))
        return probs
    expN = max(a.N, y.N) if pk == 'corr' else a.N
    if res.N != expN:
        probs.append(('violation', 'N-changed', '%d -> %d' % (expN, res.N)))
    for t in range(a.T):
        at = a.content[t]
        if pk == 'corr':
            yt = y.content[t]
        elif pk == 'ndarray':
            yt = y[t]
        else:
            yt = y
        if at is None or yt is None:
            exp = None
        else:
            exp = apply_op(op, at, yt) if order == 'l' else apply_op(op, yt, at)
            if op == 'div' and pk == 'corr' and is_nan_entry(exp):
                exp = None
            if op == 'pow' and is_nan_entry(exp):
                exp = None       # a power that is not a number is an undefined timeslice (like np.sqrt / np.log)
        got = res.content[t]
        if (exp is None) != (got is None):
            probs.append(('violation', 'definedness-%s-%s' % (op, pk), 't=%d expected %s got %s' % (t, 'None' if exp is None else 'defined', 'None' if got is None else 'defined')))
            break
        if exp is not None:
            e_, g_ = np.asarray(exp, dtype=object).ravel(), np.asarray(got, dtype=object).ravel()
            if e_.shape != g_.shape or not all(obs_close(u, v) for u, v in zip(g_, e_)):
                probs.append(('violation', 'entry-%s-%s-%s' % (op, order, pk), 't=%d differs from the operation applied to the entries' % t))
                break
    # model correspondence on central values (real content, Corr / number partners, left order)
    if ctx.lean is not None and not cplx and order == 'l' and pk in ('corr', 'int', 'float') and op != 'pow' or \
            (ctx.lean is not None and not cplx and order == 'l' and pk in ('int', 'float') and op == 'pow'):
        req = {'op': 'corr', 'a': enc_corr(a)}
        if pk == 'corr':
            req['method'] = op + '_corr'
            req['b'] = enc_corr(y)
        else:
            req['method'] = op + '_num'
            req['y'] = f2b(float(y))
        r = ctx.lean.call(req)
        probs += compare_model(r, res, None, 'binary-' + op + '-' + pk)
    return probs


def enc_corr(c):
    out = []
    for x in c.content:
        if x is None:
            out.append(None)
        else:
            m = np.asarray(x, dtype=object)
            if m.ndim == 1:
                out.append([[f2b(float(m[0].value))]])
            else:
                out.append([[f2b(float(e.value)) for e in row] for row in m])
    return {'N': c.N, 'content': out}


def compare_model(r, res, exc, what):
    if isinstance(r, dict) and '_err' in r:
        return [('disagree', 'lean-driver-error', r['_err'])]
    if 'exc' in r:
        if exc is None and res is not None:
            return [('disagree', 'model-raises-' + what, r['exc'])]
        return []
    if res is None:
        return [('disagree', 'impl-raises-' + what, 'model returns a correlator')]
    mc = r['corr']
    if len(mc['content']) != res.T:
        return [('disagree', 'T-' + what, '%d vs %d' % (len(mc['content']), res.T))]
    for t, (m, g) in enumerate(zip(mc['content'], res.content)):
        if (m is None) != (g is None):
            return [('disagree', 'definedness-' + what, 't=%d model %s impl %s' % (t, m is None, g is None))]
        if m is not None:
            gv = [float(e.value) for e in np.asarray(g, dtype=object).ravel()]
            mv = [b2f(x) for row in m for x in row]
            if len(gv) != len(mv) or not all(close(u, v, rtol=1e-9) for u, v in zip(gv, mv)):
                return [('disagree', 'value-' + what, 't=%d model %r impl %r' % (t, mv[:3], gv[:3]))]
    return []


def as_int_form(v, form):
    """an integer argument as it comes out of numpy index arithmetic: any width / signedness that can hold it"""
    if not form:
        return v
    if form.startswith('uint') and v < 0:
        return np.int64(v)
    if form in ('int8', 'uint8') and abs(v) > 120:
        return np.int64(v)
    return getattr(np, form)(v)


def check_func(ctx, case):
    probs = []
    a = build_corr(case['a'])
    f = case['f']
    sa = snap_obs(a)
    try:
        res = (-a) if f == 'neg' else (abs(a) if f == 'abs' else getattr(np, f)(a))
        exc = None
    except Exception as e:
        res, exc = None, e
    if snap_obs(a) != sa:
        probs.append(('violation', 'operand-mutated', f))
    exp = []
    for at in a.content:
        if at is None:
            exp.append(None)
            continue
        with np.errstate(all='ignore'):
            v = (-1. * at) if f == 'neg' else (np.abs(at) if f == 'abs' else getattr(np, f)(at))
        exp.append(None if is_nan_entry(v) else v)
    if all(e is None for e in exp):
        if exc is None and not all(x is None for x in res.content):
            probs.append(('violation', 'func-definedness-' + f, 'result should be undefined everywhere'))
        return probs
    if exc is not None:
        probs.append(('violation', 'func-exception-' + f, '%s: %s' % (type(exc).__name__, str(exc)[:120])))
        return probs
    if not isinstance(res, pe.Corr) or res.T != a.T or res.N != a.N:
        probs.append(('violation', 'func-shape-' + f, 'type/T/N changed'))
        return probs
    for t, (e, g) in enumerate(zip(exp, res.content)):
        if (e is None) != (g is None):
            probs.append(('violation', 'func-definedness-' + f, 't=%d expected %s' % (t, 'None' if e is None else 'defined')))
            break
        if e is not None and not all(obs_close(u, v) for u, v in zip(np.asarray(g, dtype=object).ravel(), np.asarray(e, dtype=object).ravel())):
            probs.append(('violation', 'func-entry-' + f, 't=%d' % t))
            break
    if ctx.lean is not None and not case['a'].get('cplx'):
        r = ctx.lean.call({'op': 'corr', 'method': f, 'a': enc_corr(a)})
        probs += compare_model(r, res, exc, 'func-' + f)
    return probs


def check_index(ctx, case):
    probs = []
    a = build_corr(case['a'])
    m, args = case['m'], case.get('args', {})
    T, N = a.T, a.N
    sa = snap_obs(a)
    argobj = None
    exp = None
    req = None
    try:
        if m == 'ctor':
            # the documented array forms of the constructor: an N x N array of single-valued correlators (a timeslice is defined only
            # where every entry is), a (T, N, N) array of observables, a 1-d array of observables
            holes = [tuple(h) for h in args.get('holes', [])]
            if args['form'] == 'corr2d':
                singles = np.empty((N, N), dtype=object)
                if any(all(a.content[t] is None or (i, j, t) in holes for t in range(T)) for i in range(N) for j in range(N)):
                    return probs         # an entry without any defined timeslice cannot be built in the first place
                for i in range(N):
                    for j in range(N):
                        singles[i, j] = pe.Corr([None if (a.content[t] is None or (i, j, t) in holes) else a.content[t][i, j] for t in range(T)])
                exp = [None if (a.content[t] is None or any(h[2] == t for h in holes)) else a.content[t] for t in range(T)]
                res = pe.Corr(singles)
                req = {'method': 'ctor_matrix', 'cs': [[enc_corr(singles[i, j]) for j in range(N)] for i in range(N)]}
            elif args['form'] == 'array3d':
                full = [t for t in range(T) if a.content[t] is not None]
                exp = [a.content[t] for t in full]
                res = pe.Corr(np.array([a.content[t] for t in full], dtype=object))
            else:
                full = [t for t in range(T) if a.content[t] is not None]
                exp = [np.asarray([a.content[t][0, 0]]) for t in full]
                res = pe.Corr(np.array([a.content[t][0, 0] for t in full], dtype=object))
            if res.T != len(exp):
                probs.append(('violation', 'index-entry-ctor', 'T %d vs %d' % (res.T, len(exp))))
                return probs
            a = res                      # (compared below against `exp`; the operand of this "method" is the array)
            sa = snap_obs(a)
            T = res.T
        elif m in ('real', 'imag'):
            # real and imaginary part, timeslice by timeslice; a real correlator has itself as real part and zero as imaginary part
            res = getattr(a, m)
            if case['a'].get('cplx'):
                exp = [None if x is None else np.asarray([getattr(x[0], m)]) for x in a.content]
            elif m == 'real':
                exp = list(a.content)
            else:
                exp = [None if x is None else x * 0 for x in a.content]
        elif m == 'getitem':
            # indexing a single-valued correlator gives the observable itself, a matrix-valued one its matrix
            res = None
            for t in range(T):
                g = a[t]
                e = a.content[t]
                same_ = (g is None and e is None) or (e is not None and (g is e[0] if N == 1 else g is e))
                if not same_:
                    probs.append(('violation', 'index-entry-getitem', 't=%d' % t))
                    break
            return probs
        elif m == 'roll':
            res = a.roll(as_int_form(args['dt'], args.get('iform')))
            exp = [a.content[(t - args['dt']) % T] for t in range(T)]
            req = {'method': 'roll', 'dt': args['dt']}
        elif m == 'reverse':
            res = a.reverse()
            exp = [a.content[T - 1 - t] for t in range(T)]
            req = {'method': 'reverse'}
        elif m == 'thin':
            exp = [a.content[t] if (args['offset'] + t) % args['spacing'] == 0 else None for t in range(T)]
            res = a.thin(as_int_form(args['spacing'], args.get('iform')), as_int_form(args['offset'], args.get('iform')))
            req = {'method': 'thin', 'spacing': args['spacing'], 'offset': args['offset']}
        elif m in ('symmetric', 'anti_symmetric'):
            sg = 1 if m == 'symmetric' else -1
            exp = [a.content[0]] + [None if (a.content[t] is None or a.content[T - t] is None) else 0.5 * (a.content[t] + sg * a.content[T - t]) for t in range(1, T)]
            import warnings
            with warnings.catch_warnings():
                warnings.simplefilter('ignore')
                res = getattr(a, m)()
            req = {'method': m}
        elif m == 'T_symmetry':
            b = build_corr(case['b'])
            sb = snap_obs(b)
            # expected result first: when it is undefined everywhere the library cannot construct it and raises
            exp = [None if (a.content[t] is None or b.content[T - 1 - t] is None) else (a.content[t] + args['parity'] * b.content[T - 1 - t]) / 2 for t in range(T)]
            import warnings
            with warnings.catch_warnings():
                warnings.simplefilter('ignore')
                res = a.T_symmetry(b, args['parity'])
            if snap_obs(b) != sb:
                probs.append(('violation', 'argument-mutated', 'T_symmetry partner'))
        elif m == 'item':
            res = a.item(as_int_form(args['i'], args.get('iform')), as_int_form(args['j'], args.get('iform')))
            exp = [None if x is None else np.asarray([x[args['i'], args['j']]]) for x in a.content]
            req = {'method': 'item', 'i': args['i'], 'j': args['j']}
        elif m == 'trace':
            res = a.trace()
            exp = [None if x is None else np.asarray([sum(x[i, i] for i in range(N))]) for x in a.content]
            req = {'method': 'trace'}
        elif m == 'matrix_symmetric':
            res = a.matrix_symmetric()
            exp = [None if x is None else 0.5 * (x + x.T) for x in a.content]
        elif m == 'projected':
            # every documented form of the two vectors: one constant array, or a list with one vector (or None) per timeslice
            def mk(spec):
                if spec['form'] == 'array':
                    return np.array(spec['v'], dtype=float)
                return [None if v is None else np.array(v, dtype=float) for v in spec['vs']]

            def at(obj, t):
                return obj[t] if isinstance(obj, list) else obj

            def snap(obj):
                return [None if v is None else v.tolist() for v in obj] if isinstance(obj, list) else obj.tolist()
            vl, vr = mk(args['L']), mk(args['R'])
            argobj = (vl, vr)
            s0 = (snap(vl), snap(vr))
            # (the expectation is computed before the call, from fresh copies of the vectors: a result that is undefined on
            # every timeslice cannot be constructed, and the refusal must find the expectation in place)
            vl0, vr0 = mk(args['L']), mk(args['R'])
            exp = []
            for t, x in enumerate(a.content):
                l_, r_ = at(vl0, t), at(vr0, t)
                if x is None or l_ is None or r_ is None:
                    exp.append(None)
                    continue
                if args['normalize']:
                    l_, r_ = l_ / np.sqrt(l_ @ l_), r_ / np.sqrt(r_ @ r_)
                exp.append(np.asarray([l_ @ x @ r_]))
            res = a.projected(vl, vr, normalize=args['normalize'])
            if (snap(vl), snap(vr)) != s0:
                probs.append(('violation', 'argument-mutated', 'projected vectors (%s, %s, normalize=%s)' % (args['L']['form'], args['R']['form'], args['normalize'])))
        elif m == 'hankel':
            n, per = args['n'], args['periodic']
            exp = []
            for t in range(T):
                if not per and t + 2 * (n - 1) >= T:
                    exp.append(None)
                    continue
                mat = np.empty((n, n), dtype=object)
                ok = True
                for i in range(n):
                    for j in range(n):
                        src = a.content[(t + i + j) % T]
                        if src is None:
                            ok = False
                        else:
                            mat[i, j] = src[0]
                exp.append(mat if ok else None)
            # the switch in any of the forms a truth value arrives in (result of a numpy comparison, 0 / 1)
            per_arg = {'np': np.bool_(per), 'int': int(per)}.get(args.get('flag_form'), per)
            res = a.Hankel(as_int_form(n, args.get('iform')), periodic=per_arg)
            req = {'method': 'hankel', 'n': n, 'periodic': per}
        elif m == 'repr':
            pr = list(args['print_range'])
            pr0 = list(pr)
            repr_ = a.__repr__(pr)
            a.print(pr) if False else None
            if pr != pr0:
                probs.append(('violation', 'argument-mutated', 'print_range %r -> %r' % (pr0, pr)))
            s2 = a.__repr__(pr)
            if s2 != repr_:
                probs.append(('violation', 'repeat-differs', '__repr__ with the same argument object'))
            res = None
        else:
            raise ValueError(m)
        exc = None
    except Exception as e:
        res, exc = None, e
    if snap_obs(a) != sa:
        probs.append(('violation', 'operand-mutated', m))
    if m == 'repr':
        if exc is not None:
            probs.append(('violation', 'index-exception-repr', repr(exc)))
        return probs
    if exc is not None:
        ok_exc = False
        if exp is not None and all(e is None for e in exp):
            ok_exc = True      # a correlator that is undefined everywhere cannot be constructed
        if m in ('symmetric', 'anti_symmetric') and (T % 2 != 0 or isinstance(exc, ValueError) and 'No redundant' in str(exc)):
            ok_exc = True
        if not ok_exc:
            probs.append(('violation', 'index-exception-' + m, '%s: %s' % (type(exc).__name__, str(exc)[:120])))
        return probs
    if isinstance(res, pe.Corr):
        # the result is a usable correlator: blocks of shape (1,) for N = 1 and (N, N) otherwise, indexing returns
        # the observable, the error analysis runs
        want_shape = (1,) if res.N == 1 else (res.N, res.N)
        bad_ = [t for t, g in enumerate(res.content) if g is not None and np.asarray(g, dtype=object).shape != want_shape]
        if bad_:
            probs.append(('violation', 'result-malformed-' + m, 'N=%d but timeslice %d has shape %r' % (res.N, bad_[0], np.asarray(res.content[bad_[0]], dtype=object).shape)))
        else:
            try:
                res.gamma_method()
            except Exception as e_:
                probs.append(('violation', 'result-malformed-' + m, 'gamma_method of the result: %s: %s' % (type(e_).__name__, str(e_)[:100])))
    if exp is not None:
        if res.T != len(exp):
            probs.append(('violation', 'index-T-' + m, '%d vs %d' % (res.T, len(exp))))
            return probs
        for t, (e, g) in enumerate(zip(exp, res.content)):
            if (e is None) != (g is None):
                probs.append(('violation', 'index-definedness-' + m, 't=%d expected %s' % (t, 'None' if e is None else 'defined')))
                break
            if e is not None and not all(obs_close(u, v) for u, v in zip(np.asarray(g, dtype=object).ravel(), np.asarray(e, dtype=object).ravel())):
                probs.append(('violation', 'index-entry-' + m, 't=%d is not the stated permutation / average' % t))
                break
    if ctx.lean is not None and req is not None and not case['a'].get('cplx'):
        r = ctx.lean.call(dict(req, op='corr', a=enc_corr(a)))
        probs += compare_model(r, res, exc, 'index-' + m)
    return probs


def check_case(ctx, case):
    k = case['kind']
    if k == 'binary':
        return check_binary(ctx, case)
    if k == 'func':
        return check_func(ctx, case)
    return check_index(ctx, case)


# ------------------------------------------------------------------ generators

def gen_vals(rng, T, N, lo=0.3, hi=2.0, p_none=0.2, matrix_sym=False):
    vals = []
    for _ in range(T):
        if rng.random() < p_none:
            vals.append(None)
        elif N == 1:
            vals.append(round(rng.uniform(lo, hi), 3))
        else:
            m = [[round(rng.uniform(lo, hi), 3) for _ in range(N)] for _ in range(N)]
            vals.append(m)
    if all(v is None for v in vals):
        vals[rng.randrange(T)] = round(rng.uniform(lo, hi), 3) if N == 1 else [[round(rng.uniform(lo, hi), 3) for _ in range(N)] for _ in range(N)]
    return vals


def gen_corr(rng, T=None, N=None, cplx=False, lo=0.3, hi=2.0):
    T = T or rng.randint(2, 16)
    N = N or rng.choice([1, 1, 1, 2, 3])
    if cplx:
        N = 1
    d = {'N': N, 'vals': gen_vals(rng, T, N, lo, hi, p_none=rng.choice([0.0, 0.15, 0.4])), 'cplx': cplx}
    if rng.random() < 0.3:
        a = rng.randrange(T)
        d['prange'] = [a, rng.randint(a, T - 1)]
    return d


def gen_case(ctx):
    rng = ctx.rng
    k = rng.random()
    if k < 0.5:
        cplx = rng.random() < 0.15
        a = gen_corr(rng, cplx=cplx)
        T, N = len(a['vals']), a['N']
        op = rng.choice(['add', 'sub', 'mul', 'div', 'pow'])
        order = rng.choice(['l', 'l', 'r'])
        # ndarray partners are outside the property's domain (correlators, observables, complex
        # observables, numbers); they are generated only for fully defined single-valued correlators
        pk = rng.choice(['corr', 'obs', 'cobs', 'int', 'float', 'complex', 'ndarray'])
        if pk == 'ndarray' and (N != 1 or order == 'r' or op == 'pow' or cplx or any(v is None for v in a['vals'])):
            pk = 'float'
        if cplx:
            # supported subset for complex content: + - * with any partner where the correlator or a
            # real quantity is the left operand; division only by real observables and numbers
            if op == 'pow':
                op = rng.choice(['add', 'sub', 'mul'])
            if order == 'r' and pk in ('cobs', 'complex'):
                order = 'l'
            if op == 'div':
                order = 'l'
                pk = rng.choice(['obs', 'int', 'float'])
        if op == 'pow' and not cplx and rng.random() < 0.4:
            a = gen_corr(rng, lo=-0.8, hi=2.0)     # negative bases: fractional powers are not a number -> undefined
            T, N = len(a['vals']), a['N']
        v = rng.choice([0.5, 1.5, 2.0, -1.25, 3.0])
        p = {'kind': pk, 'v': v if pk != 'int' else rng.choice([1, 2, 3, -2])}
        if pk == 'complex':
            p['w'] = rng.choice([0.5, -1.0, 2.0])
        if pk == 'corr':
            nb = N if (op in ('add', 'sub') or rng.random() < 0.6) else 1
            p['corr'] = gen_corr(rng, T=T, N=nb, cplx=(cplx and op != 'div' and rng.random() < 0.5))
            if op != 'pow' and rng.random() < 0.15:
                p['corr'] = gen_corr(rng, T=max(2, T + rng.choice([1, -1, 2])), N=rng.choice([1, nb, N]))
                p['corr'].pop('prange', None)
                a.pop('prange', None)
                case_tdiff = len(p['corr']['vals']) != T
                if case_tdiff:
                    return {'kind': 'binary', 'a': a, 'op': op, 'order': order, 'p': p, 'tdiff': True}
        if pk == 'ndarray':
            p['arr'] = [round(rng.uniform(0.5, 2.0), 3) for _ in range(T)]
        return {'kind': 'binary', 'a': a, 'op': op, 'order': order, 'p': p}
    if k < 0.7:
        f = rng.choice(FUNCS)
        lo, hi = (0.3, 2.0)
        if f in ('arcsin', 'arccos', 'arctanh'):
            lo, hi = (0.1, 1.4)       # some entries outside the domain -> NaN -> undefined
        if f == 'arccosh':
            lo, hi = (0.6, 2.5)
        if f in ('sqrt', 'log') and rng.random() < 0.5:
            lo, hi = (-0.8, 2.0)      # negative arguments -> NaN -> undefined
        return {'kind': 'func', 'a': gen_corr(rng, lo=lo, hi=hi), 'f': f}
    m = rng.choice(['roll', 'roll', 'reverse', 'thin', 'symmetric', 'anti_symmetric', 'T_symmetry', 'item', 'trace', 'matrix_symmetric', 'matrix_symmetric', 'matrix_symmetric', 'projected', 'projected', 'projected', 'hankel', 'hankel', 'repr', 'ctor', 'real', 'imag', 'getitem'])
    if m in ('real', 'imag'):
        cp = rng.random() < 0.6
        a = gen_corr(rng, cplx=cp)
    elif m in ('item', 'trace', 'matrix_symmetric', 'projected', 'ctor'):
        a = gen_corr(rng, N=rng.choice([2, 3, 3, 4]) if m == 'matrix_symmetric' else rng.choice([2, 3]))
    elif m in ('symmetric', 'anti_symmetric', 'T_symmetry', 'hankel', 'repr'):
        a = gen_corr(rng, N=1, T=rng.choice([2, 4, 6, 8, 10, 12, 16, 5, 7]))
        if m in ('symmetric', 'anti_symmetric') and rng.random() < 0.3 and len(a['vals']) > 2:
            a['vals'][0] = None      # timeslice 0 undefined: it is copied, nothing has to be analysed there
            if all(v is None for v in a['vals']):
                a['vals'][1] = 0.7
    else:
        a = gen_corr(rng)
    T, N = len(a['vals']), a['N']
    if m in ('matrix_symmetric', 'item', 'trace') and rng.random() < 0.35:
        a['twin'] = True
    elif m == 'matrix_symmetric' and rng.random() < 0.6:
        prs = [(i, j) for i in range(N) for j in range(i + 1, N)]
        a['share'] = [list(p_) for p_ in rng.sample(prs, rng.randint(1, len(prs) - 1))] if len(prs) > 1 else []
        late = [p_ for p_ in prs if p_[1] > p_[0] + 1]
        if late and rng.random() < 0.6:
            # everything symmetric by identity except ONE pair that is not the first of its row
            drop = rng.choice(late)
            a['share'] = [list(p_) for p_ in prs if p_ != drop]
    case = {'kind': 'index', 'm': m, 'a': a, 'args': {}}
    iform = rng.choice([None, None, 'int64', 'uint8', 'uint64', 'int8', 'uint16', 'int32'])
    if m == 'roll':
        case['args'] = {'dt': rng.choice([0, 1, -1, 2, 3, T - 1, T, -T, T + 1, -(T + 2), 3 * T + 1, rng.randint(-40, 40), rng.randint(1, 40)]),
                        'iform': rng.choice([None, 'int64', 'uint8', 'uint64', 'uint16', 'uint32', 'int8', 'int32'])}
    elif m == 'thin':
        case['args'] = {'spacing': rng.choice([1, 2, 3, 4]), 'offset': rng.choice([0, 1, 2, 3, -1]), 'iform': iform}
    elif m == 'T_symmetry':
        case['b'] = gen_corr(rng, T=T, N=1)
        case['args'] = {'parity': rng.choice([1, -1])}
    elif m == 'item':
        case['args'] = {'i': rng.randrange(N), 'j': rng.randrange(N), 'iform': iform}
    elif m == 'projected':
        def vec():
            return [round(rng.uniform(-1, 1), 2) + (1.5 if rng.random() < 0.7 else -0.4) for _ in range(N)]

        def spec():
            if rng.random() < 0.5:
                return {'form': 'array', 'v': vec()}
            return {'form': 'list', 'vs': [vec() for _ in range(T)]}
        L, R = spec(), spec()
        normalize = rng.random() < 0.5
        for sp in (L, R):       # undefined vectors on some timeslices (as in the lists GEVP returns for t <= t0)
            if sp['form'] == 'list' and rng.random() < 0.6:
                sp['vs'][rng.randrange(T)] = None
        case['args'] = {'L': L, 'R': R, 'normalize': normalize}
    elif m == 'ctor':
        case['args'] = {'form': rng.choice(['corr2d', 'corr2d', 'array3d', 'array1d']),
                        'holes': [[rng.randrange(N), rng.randrange(N), rng.randrange(T)] for _ in range(rng.choice([0, 0, 1, 2]))]}
    elif m == 'hankel':
        case['args'] = {'n': rng.choice([1, 2, 3]), 'periodic': rng.random() < 0.5, 'flag_form': rng.choice([None, 'np', 'int', 'np', 'int']), 'iform': iform}
    elif m == 'repr':
        case['args'] = {'print_range': [rng.randrange(T), rng.choice([None, rng.randrange(T), T - 1])]}
    return case


def run(ctx):
    n = ctx.budget(700, 12000)
    corpus = os.path.join(os.path.dirname(os.path.dirname(os.path.dirname(os.path.abspath(__file__)))), 'corpus', 'C14')
    cases = []
    if os.path.isdir(corpus):
        for fn in sorted(os.listdir(corpus)):
            cases.append(json.load(open(os.path.join(corpus, fn)))['case'])
    for _ in range(n):
        cases.append(gen_case(ctx))
    for case in cases:
        if case['kind'] == 'binary':
            ctx.count('binary %s %s %s%s' % (case['op'], case['order'], case['p']['kind'], ' cplx' if case['a'].get('cplx') else ''))
        elif case['kind'] == 'func':
            ctx.count('func ' + case['f'])
        else:
            ctx.count('index ' + case['m'])
        ctx.count('N=%d' % case['a']['N'])
        ctx.case(case)
        for (kind, key, info) in check_case(ctx, case):
            (ctx.violation if kind == 'violation' else ctx.disagree)(key, {'case': case, 'info': info})
        if len(ctx.violations) + len(ctx.disagreements) > 25:
            break
