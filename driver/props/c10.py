"""C10 - matrix operations on observable matrices satisfy their defining identities.

impl   = pe.linalg.matmul / jack_matmul / einsum / inv / cholesky / det / eigh / eig / eigv / pinv / svd
model  = PV.Model.Obs.derivedObs (op "derived") for entries of matmul / inv / det with the analytic gradient
oracle = (this file) the defining identities evaluated in scalar Obs / CObs arithmetic (the subject of
         C01 / C04), entry by entry: value and every fluctuation of lhs - rhs must vanish; analytic
         gradients of product, inverse and determinant applied by configuration number (class Q).
theorems: PV/Props/C10Alg.lean (product rule of the matrix product, real block embedding of complex
         matrices is a ring homomorphism, first-order identities of inverse / Cholesky / determinant /
         symmetric eigenproblem / pseudo-inverse, jackknife remainder is second order).
"""
import json
import os
import warnings
from pe_util import np, pe, gen_idl, quiet
from props.derived_util import make_layout, make_obs, expect

RULE = ('1x1..4x4 (rectangular for svd / pinv / matmul) well-conditioned matrices of Obs or CObs with entries on 1-3 ensembles, '
        '1-3 replicas with mixed replica content, regular / irregular / partly overlapping configuration lists, covariance inputs, '
        'entries mixed with plain numbers, products of 2-4 factors; symmetric positive matrices with separated spectrum for '
        'cholesky / eigh; single-chain inputs with N = 150..600 for the jackknife product and einsum. non-trivial = distinct case.')
TRUSTED = ['LAPACK through numpy / autograd.numpy.linalg (contract: identities measured on the central values)', 'autograd vjps of the linalg functions']
ASSUMPTIONS = ['identities compared at 1e-8 relative to the entry scale; jackknife product within 4 k max|da| max|db| / (N - 1)']

TOL = 1e-8


def obs_parts(x):
    if isinstance(x, pe.CObs):
        return [x.real, x.imag]
    if isinstance(x, pe.Obs):
        return [x, 0.0]
    if isinstance(x, complex):
        return [x.real, x.imag]
    return [float(x), 0.0]


def max_delta(x):
    m = 0.0
    for p in obs_parts(x):
        if isinstance(p, pe.Obs):
            for n in p.names:
                if n in p.covobs:
                    m = max(m, float(np.max(np.abs(p.covobs[n].grad))))
                else:
                    m = max(m, float(np.max(np.abs(p.deltas[n]))))
    return m


def same(l, r, vs, ds, tol=TOL):
    """None if l == r as observables (value and every fluctuation), else a description"""
    for tag, a, b in zip(('re', 'im'), obs_parts(l), obs_parts(r)):
        d = a - b
        if not isinstance(d, pe.Obs):
            if abs(d) > tol * vs:
                return '%s: value differs by %r' % (tag, d)
            continue
        if abs(d.value) > tol * vs:
            return '%s: value differs by %r' % (tag, float(d.value))
        for n in d.names:
            if n in d.covobs and not np.any(d.covobs[n].cov):
                continue      # plain numbers travel as covariance inputs with zero covariance: no fluctuation
            dd = d.covobs[n].grad if n in d.covobs else d.deltas[n]
            if np.max(np.abs(dd)) > tol * ds:
                k = int(np.argmax(np.abs(dd)))
                return '%s: fluctuation on %s differs by %r at position %d (scale %r)' % (tag, n, float(np.ravel(dd)[k]), k, ds)
    return None


def ident(L, R, ds, key, tol=TOL):
    L = np.asarray(L, dtype=object)
    R = np.asarray(R, dtype=object)
    if L.shape != R.shape:
        return [('violation', key, 'shape %r vs %r' % (L.shape, R.shape))]
    vs = 1.0
    for x in R.ravel():
        for p in obs_parts(x):
            vs = max(vs, abs(float(p.value if isinstance(p, pe.Obs) else p)))
    for idx in np.ndindex(L.shape):
        w = same(L[idx], R[idx], vs, ds * vs, tol)
        if w:
            return [('violation', key, 'entry %r: %s' % (idx, w))]
    return []


def gen_matrix(rng, nprng, layout, M0, p_num=0.15, cplx=False, sym=False):
    n, m = M0.shape
    A = np.empty((n, m), dtype=object)
    for i in range(n):
        for j in range(m):
            if sym and j < i:
                A[i, j] = A[j, i]
                continue
            if rng.random() < p_num:
                A[i, j] = complex(M0[i, j]) if cplx and rng.random() < 0.5 else float(np.real(M0[i, j]))
            elif cplx and rng.random() < 0.8:
                A[i, j] = pe.CObs(make_obs(rng, nprng, layout, float(np.real(M0[i, j]))), make_obs(rng, nprng, layout, float(np.imag(M0[i, j]))))
            else:
                A[i, j] = make_obs(rng, nprng, layout, float(np.real(M0[i, j])))
    if not any(isinstance(x, (pe.Obs, pe.CObs)) for x in A.ravel()):
        A[0, 0] = make_obs(rng, nprng, layout, float(np.real(M0[0, 0])))
    if cplx and not isinstance(A[0, 0], pe.CObs):
        # matmul / jack_matmul / einsum recognise a complex matrix by its first element (anything else is
        # refused with an exception or is a real matrix): the first element of a complex matrix is a CObs
        A[0, 0] = pe.CObs(make_obs(rng, nprng, layout, float(np.real(M0[0, 0]))), make_obs(rng, nprng, layout, 0.3))
    if getattr(gen_matrix, 'int00', False) and not cplx:
        # an external input given with an integer mean (`cov_Obs(2, ...)`): its central value is a Python int
        A[0, 0] = pe.cov_Obs(int(max(1, round(float(np.real(M0[0, 0]))))), 0.01, 'cvI')
        if sym:
            pass
    return A


def well(nprng, n, m=None, cplx=False):
    m = m or n
    M = nprng.normal(size=(n, m)) * 0.3
    if cplx:
        M = M + 0.3j * nprng.normal(size=(n, m))
    for i in range(min(n, m)):
        M[i, i] += 1.5 + 0.4 * i
    return M


def spd(nprng, n):
    Q, _ = np.linalg.qr(nprng.normal(size=(n, n)))
    lam = np.array([1.0 + 0.8 * i for i in range(n)]) * (1 + 0.1 * nprng.random(n))
    return Q @ np.diag(lam) @ Q.T


def vals(A):
    return np.array([[complex(x.real.value, x.imag.value) if isinstance(x, pe.CObs) else (x.value if isinstance(x, pe.Obs) else x) for x in row] for row in A])


def obs_entries(A):
    """flat list of (index, Obs) of the real Obs entries"""
    return [(idx, x) for idx, x in np.ndenumerate(A) if isinstance(x, pe.Obs)]


def eye(n):
    return np.eye(n)


def check_case(ctx, case):
    probs = []
    rng = __import__('random').Random(case['seed'])
    nprng = np.random.default_rng(case['seed'])
    what = case['what']
    n = case['n']
    cplx = case.get('cplx', False)
    L = pe.linalg
    with warnings.catch_warnings(), quiet():
        warnings.simplefilter('ignore')
        layout = make_layout(rng, mode=case.get('mode', 'subsets'))
        gen_matrix.int00 = bool(case.get('int00'))
        try:
            if what == 'matmul':
                dims = case['dims']
                mats = []
                for k in range(len(dims) - 1):
                    A = gen_matrix(rng, nprng, layout, well(nprng, dims[k], dims[k + 1], cplx and k % 2 == 0), p_num=case['p_num'], cplx=cplx and k % 2 == 0)
                    if case.get('plain') == k:
                        A = np.real(well(nprng, dims[k], dims[k + 1]))
                    mats.append(A)
                if not any(isinstance(x, (pe.Obs, pe.CObs)) for x in mats[0].ravel()):
                    mats[0] = gen_matrix(rng, nprng, layout, well(nprng, dims[0], dims[1]), p_num=0.0)
                ds = max(max_delta(x) for A in mats for x in A.ravel())
                res = L.matmul(*mats)
                ref = mats[0]
                for B in mats[1:]:
                    ref = ref @ B
                probs += ident(res, ref, ds * len(mats) * max(dims), 'matmul-not-the-sum-of-products')
                # the operator form on matrix-valued correlators: `Corr @ Corr`, `Corr @ array`, `array @ Corr` act timeslice
                # by timeslice and are the same product
                if dims[0] >= 2 and not cplx:
                    ctx.count('matmul-operator-on-corr')
                    m0 = [gen_matrix(rng, nprng, layout, well(nprng, dims[0], dims[0]), p_num=0.0) for _ in range(2)]
                    ca = pe.Corr([m0[0], None, m0[1]])
                    cb = pe.Corr([m0[1], None, m0[0]])
                    plain = np.real(well(nprng, dims[0], dims[0]))
                    for nm, got, want in (('corr-corr', ca @ cb, [m0[0] @ m0[1], None, m0[1] @ m0[0]]),
                                          ('corr-array', ca @ plain, [m0[0] @ plain, None, m0[1] @ plain]),
                                          ('array-corr', plain @ cb, [plain @ m0[1], None, plain @ m0[0]])):
                        if not isinstance(got, pe.Corr) or got.T != 3 or got.content[1] is not None:
                            probs.append(('violation', 'matmul-operator-shape:' + nm, repr(type(got))))
                            continue
                        for t in (0, 2):
                            probs += ident(got.content[t], want[t], ds * 2 * dims[0], 'matmul-operator-not-the-sum-of-products:' + nm)
                if not cplx:
                    # one entry against the analytic gradient, by configuration number, and against the Lean model
                    i, j = rng.randrange(dims[0]), rng.randrange(dims[-1])
                    V = [np.asarray(vals(A), dtype=float) for A in mats]
                    inputs, grads = [], []
                    for mth, A in enumerate(mats):
                        left = np.eye(dims[0])
                        for B in V[:mth]:
                            left = left @ B
                        right = np.eye(dims[-1])
                        for B in reversed(V[mth + 1:]):
                            right = B @ right
                        for (k, l), x in obs_entries(A):
                            inputs.append(x)
                            grads.append(left[i, k] * right[l, j])
                    tot = V[0]
                    for B in V[1:]:
                        tot = tot @ B
                    if inputs and isinstance(res[i, j], pe.Obs):
                        probs += expect(ctx, res[i, j], tot[i, j], grads, inputs, rtol=1e-8, tag='matmul-entry-')
            elif what in ('inv', 'det'):
                A = gen_matrix(rng, nprng, layout, well(nprng, n, n, cplx), p_num=case['p_num'], cplx=cplx)
                ds = max(max_delta(x) for x in A.ravel())
                if what == 'inv':
                    Ai = L.inv(A)
                    probs += ident(A @ Ai, eye(n), ds * n * 4, 'A-times-inverse-not-one')
                    probs += ident(Ai @ A, eye(n), ds * n * 4, 'inverse-times-A-not-one')
                    if not cplx:
                        V = np.linalg.inv(np.asarray(vals(A), dtype=float))
                        i, j = rng.randrange(n), rng.randrange(n)
                        ent = obs_entries(A)
                        probs += expect(ctx, Ai[i, j], V[i, j], [-V[i, k] * V[l, j] for (k, l), _ in ent], [x for _, x in ent], rtol=1e-8, tag='inv-entry-')
                else:
                    if cplx:
                        return probs
                    d = L.det(A)
                    # cofactor expansion along the first row in scalar arithmetic
                    def cof(M):
                        if M.shape[0] == 1:
                            return M[0, 0]
                        tot = 0
                        for c in range(M.shape[0]):
                            minor = np.delete(np.delete(M, 0, axis=0), c, axis=1)
                            tot = tot + (-1) ** c * M[0, c] * cof(minor)
                        return tot
                    probs += ident(np.array([[d]], dtype=object), np.array([[cof(A)]], dtype=object), ds * 24, 'det-not-the-cofactor-expansion')
                    V = np.asarray(vals(A), dtype=float)
                    Vi = np.linalg.inv(V)
                    dv = np.linalg.det(V)
                    ent = obs_entries(A)
                    probs += expect(ctx, d, dv, [dv * Vi[l, k] for (k, l), _ in ent], [x for _, x in ent], rtol=1e-8, tag='det-')
            elif what in ('cholesky', 'eigh'):
                A = gen_matrix(rng, nprng, layout, spd(nprng, n), p_num=case['p_num'], sym=True)
                ds = max(max_delta(x) for x in A.ravel())
                if what == 'cholesky' and case.get('herm') and n >= 2:
                    # a Hermitian matrix stored the natural way (real diagonal, CObs off the diagonal): the factorisation is
                    # documented for real matrices only - a complex entry ANYWHERE must lead to a refusal or to a correct factor
                    i0, j0 = case['herm'][0] % n, case['herm'][1] % n
                    if i0 == j0:
                        j0 = (i0 + 1) % n
                    i0, j0 = min(i0, j0), max(i0, j0)
                    im = make_obs(rng, nprng, layout, 0.2)
                    re = A[i0, j0] if isinstance(A[i0, j0], pe.Obs) else make_obs(rng, nprng, layout, float(A[i0, j0]))
                    A[i0, j0] = pe.CObs(re, im)
                    A[j0, i0] = pe.CObs(re, -1 * im)
                    if case.get('herm_first'):
                        A[0, 0] = pe.CObs(A[0, 0] if isinstance(A[0, 0], pe.Obs) else make_obs(rng, nprng, layout, float(A[0, 0])), 0.0 * im)
                    try:
                        Lc = L.cholesky(A)
                    except Exception:
                        ctx.count('cholesky-complex-refused')
                        return probs
                    LH = np.array([[x.conjugate() if isinstance(x, pe.CObs) else x for x in row] for row in Lc.T], dtype=object)
                    bad = ident(Lc @ LH, A, ds * n * 4, 'cholesky-complex-accepted-L-LH-not-A')
                    probs += bad
                    return probs
                if what == 'cholesky':
                    Lc = L.cholesky(A)
                    probs += ident(Lc @ Lc.T, A, ds * n * 4, 'L-LT-not-A')
                    for i in range(n):
                        for j in range(i + 1, n):
                            x = Lc[i, j]
                            if (x.value if isinstance(x, pe.Obs) else x) != 0 or max_delta(x) > 1e-12:
                                probs.append(('violation', 'cholesky-not-lower-triangular', 'entry (%d,%d)' % (i, j)))
                else:
                    w, v = L.eigh(A)
                    wv = [float(x.value) for x in w]
                    if any(wv[k] > wv[k + 1] for k in range(n - 1)):
                        probs.append(('violation', 'eigh-order', repr(wv)))
                    for k in range(n):
                        probs += ident(A @ v[:, k], w[k] * v[:, k], ds * n * 8, 'A-v-not-lambda-v')
                    probs += ident(v.T @ v, eye(n), ds * n * 8, 'eigenvectors-not-orthonormal')
                    we = L.eig(A)
                    order = np.argsort([float(x.value) for x in we])
                    probs += ident(np.array([we[o] for o in order], dtype=object), w, ds * n * 8, 'eig-vs-eigh-eigenvalues')
                    probs += ident(L.eigv(A), v, ds * n * 8, 'eigv-vs-eigh-vectors')
            elif what in ('pinv', 'svd'):
                r, c = case['dims']
                A = gen_matrix(rng, nprng, layout, well(nprng, r, c), p_num=case['p_num'])
                ds = max(max_delta(x) for x in A.ravel())
                if what == 'pinv':
                    P = L.pinv(A)
                    probs += ident(A @ P @ A, A, ds * 64, 'A-pinv-A-not-A')
                    probs += ident(P @ A @ P, P, ds * 64, 'pinv-A-pinv-not-pinv')
                else:
                    u, s, vh = L.svd(A)
                    S = np.zeros((len(s), len(s)), dtype=object)
                    for k in range(len(s)):
                        S[k, k] = s[k]
                    probs += ident(u @ S @ vh, A, ds * 64, 'U-S-Vh-not-A')
                    probs += ident(u.T @ u, eye(len(s)), ds * 64, 'U-not-orthonormal')
                    probs += ident(vh @ vh.T, eye(len(s)), ds * 64, 'V-not-orthonormal')
                    sv = [float(x.value) for x in s]
                    if any(sv[k] < sv[k + 1] for k in range(len(sv) - 1)) or sv[-1] < 0:
                        probs.append(('violation', 'singular-values-order', repr(sv)))
            elif what in ('jack', 'einsum'):
                N = case['N']
                il = list(gen_idl(rng, N, case['idl']))
                name = case['name']

                def ent(mean):
                    return pe.Obs([mean + 0.05 * nprng.normal(size=N)], [name], idl=[il])

                def mat(r, c, cp=False, plain=False):
                    M0 = well(nprng, r, c, cp)
                    if plain:
                        return np.real(M0)
                    M = np.empty((r, c), dtype=object)
                    for idx in np.ndindex(r, c):
                        M[idx] = pe.CObs(ent(M0[idx].real), ent(M0[idx].imag)) if cp else ent(float(np.real(M0[idx])))
                    return M
                dims = case['dims']
                mats = [mat(dims[k], dims[k + 1], cplx and (k == 0 or rng.random() < 0.5), plain=(case.get('plain') == k and k > 0)) for k in range(len(dims) - 1)]
                if what == 'jack':
                    res = L.jack_matmul(*mats)
                    sub = None
                else:
                    sub_given = case['subscripts']
                    # numpy's implicit mode (no '->'): the output carries the indices that occur once, alphabetically
                    sub = {'ij,jk': 'ij,jk->ik', 'ij,j': 'ij,j->i', 'ii': 'ii->', 'ji': 'ji->ij', 'jk,ij': 'jk,ij->ik'}.get(sub_given, sub_given)
                    if ctx.lean is not None:
                        # the model of the completion (`Einsum.complete`, c10_einsum_implicit_*) gives the same explicit form
                        rr_ = ctx.lean.call({'op': 'einsum_out', 'subs': sub_given})
                        if '_err' in rr_:
                            probs.append(('disagree', 'lean-driver-error', rr_['_err']))
                        elif rr_.get('subs') != sub:
                            probs.append(('disagree', 'einsum-subscripts', '%r: model %r, numpy rule %r' % (sub_given, rr_.get('subs'), sub)))
                    if sub == 'jk,ij->ik':
                        # the product in the other order: X is (j, k), Y is (i, j), the result Y X
                        mats = [mats[0], mat(rng.randint(1, 3), dims[0], cplx)]
                    if sub == 'ji->ij':
                        mats = [mats[0]]
                    elif sub == 'ii->':
                        mats = [mat(n, n, cplx)]
                    elif sub == 'ij,j->i':
                        mats = [mats[0], mats[1][:, 0]]
                    elif sub == 'ij,ij->ij':
                        mats = [mats[0], mat(dims[0], dims[1], cplx)]
                    else:
                        mats = mats[:2]
                    res = L.einsum(sub_given, *mats)
                if sub == 'jk,ij->ik':
                    ref = mats[1] @ mats[0]
                elif sub == 'ji->ij':
                    ref = mats[0].T
                elif sub is None or sub == 'ij,jk->ik':
                    ref = mats[0]
                    for B in mats[1:]:
                        ref = ref @ B
                elif sub == 'ii->':
                    ref = sum(mats[0][k, k] for k in range(n))
                elif sub == 'ij,j->i':
                    ref = mats[0] @ mats[1]
                else:
                    ref = mats[0] * mats[1]
                res = np.asarray(res, dtype=object).reshape(np.asarray(ref, dtype=object).shape)
                ref = np.asarray(ref, dtype=object)
                k = max(dims)
                da = max(max_delta(x) for A in mats for x in np.asarray(A, dtype=object).ravel())
                nf = sum(1 for A in mats if isinstance(np.asarray(A, dtype=object).flat[0], (pe.Obs, pe.CObs)))
                bound = 4.0 * (2 if cplx else 1) * k ** max(1, len(mats) - 1) * da * da * 3 ** max(0, nf - 2) / (N - 1)
                for idx in np.ndindex(ref.shape):
                    for tag, a, b in zip(('re', 'im'), obs_parts(res[idx]), obs_parts(ref[idx])):
                        if not isinstance(b, pe.Obs):
                            if isinstance(a, pe.Obs) and (abs(a.value - b) > 1e-9 or max_delta(a) > 1e-9):
                                probs.append(('violation', 'jackknife-part-not-constant', '%r %s' % (idx, tag)))
                            continue
                        if not isinstance(a, pe.Obs):
                            probs.append(('violation', 'jackknife-part-not-an-observable', '%r %s' % (idx, tag)))
                            continue
                        if abs(a.value - b.value) > 1e-9 * max(1.0, abs(b.value)):
                            probs.append(('violation', 'jackknife-value', '%r %s: %r vs %r' % (idx, tag, a.value, b.value)))
                        if a.names != b.names or [list(a.idl[m]) for m in a.names] != [list(b.idl[m]) for m in b.names]:
                            probs.append(('violation', 'jackknife-configurations', '%r %s: names %r idl %r.. vs names %r idl %r..' % (idx, tag, a.names, list(a.idl[a.names[0]])[:5], b.names, list(b.idl[b.names[0]])[:5])))
                            continue
                        dev = float(np.max(np.abs(a.deltas[name] - b.deltas[name])))
                        ctx.residual('jackknife_dev_over_bound', dev / bound)
                        if dev > bound:
                            probs.append(('violation', 'jackknife-fluctuations-beyond-1-over-N', '%r %s: max deviation %r, bound %r (N = %d)' % (idx, tag, dev, bound, N)))
                    if len(probs) > 3:
                        break
        except Exception as e:
            import traceback
            probs.append(('violation', what + '-exception', '%s: %s | %s' % (type(e).__name__, str(e)[:200], traceback.format_exc().splitlines()[-3].strip()[:120])))
    return probs


def gen_case(ctx):
    rng = ctx.rng
    what = rng.choice(['matmul', 'matmul', 'matmul', 'inv', 'inv', 'det', 'cholesky', 'eigh', 'pinv', 'svd', 'jack', 'jack', 'einsum', 'einsum'])
    n = rng.randint(1, 4)
    case = {'what': what, 'seed': rng.getrandbits(28), 'n': n, 'p_num': rng.choice([0.0, 0.15, 0.3])}
    case['mode'] = rng.choice(['subsets', 'sublists'])
    case['int00'] = rng.random() < 0.2
    if what == 'matmul':
        nf = rng.randint(2, 4)
        case['dims'] = [n] * (nf + 1)          # matmul takes operands of one common (square) shape
        case['cplx'] = rng.random() < 0.3
        case['plain'] = rng.choice([None, None, 1])
    elif what == 'inv':
        case['cplx'] = rng.random() < 0.35
    elif what in ('pinv', 'svd'):
        case['dims'] = [rng.randint(1, 4), rng.randint(1, 4)]
    elif what in ('cholesky', 'eigh'):
        case['n'] = rng.randint(1, 4)
        if what == 'cholesky' and rng.random() < 0.45:
            case['herm'] = [rng.randrange(4), rng.randrange(4)]
            case['herm_first'] = rng.random() < 0.3
    elif what in ('jack', 'einsum'):
        nf = rng.randint(2, 4) if what == 'jack' else 2
        case['dims'] = [rng.randint(1, 4) for _ in range(nf + 1)]
        case['N'] = rng.choice([150, 300, 600])
        case['idl'] = rng.choice(['contig', 'strided', 'irregular', 'gapped'])
        case['name'] = rng.choice(['A|r1', 'ens', 'B|r2'])
        case['cplx'] = rng.random() < 0.4
        case['plain'] = rng.choice([None, None, 1])
        if what == 'einsum':
            case['subscripts'] = rng.choice(['ij,jk->ik', 'ii->', 'ij,j->i', 'ij,ij->ij', 'ij,jk', 'ij,j', 'ii', 'ji', 'ji->ij', 'jk,ij', 'jk,ij'])
            case['plain'] = None
    return case


def run(ctx):
    n = ctx.budget(160, 3000)
    corpus = os.path.join(os.path.dirname(os.path.dirname(os.path.dirname(os.path.abspath(__file__)))), 'corpus', 'C10')
    cases = []
    if os.path.isdir(corpus):
        for fn in sorted(os.listdir(corpus)):
            cases.append(json.load(open(os.path.join(corpus, fn)))['case'])
    for _ in range(n):
        cases.append(gen_case(ctx))
    for case in cases:
        ctx.count('what=' + case['what'])
        if case.get('cplx'):
            ctx.count('complex')
        ctx.case(case)
        for (kind, key, info) in check_case(ctx, case):
            (ctx.violation if kind == 'violation' else ctx.disagree)(key, {'case': case, 'info': info})
        if len(ctx.violations) + len(ctx.disagreements) > 25:
            break
