"""C13 - jackknife and bootstrap export/import are exact resampling transforms.

impl   = Obs.export_jackknife / pe.import_jackknife / Obs.export_bootstrap / pe.import_bootstrap
model  = PV.Model.Resample run in exact rational arithmetic (op "resample")
oracle = leave-one-out means, bootstrap means over the table rows, naive variance: written here
         with exact Fractions from the statement
"""
import json
import os
from fractions import Fraction
from pe_util import np, pe, gen_idl, gen_data, close, q2j

RULE = ('single-replica observables of length 5-300 with contiguous / strided / gapped / irregular configuration lists and dyadic '
        'data (white, autocorrelated, integer, constant); jackknife export / import / variance; bootstrap export for arbitrary tables, '
        'import for full-column-rank tables, refusal for too few samples; default name seeding: reproducible and chain consistent on '
        'repeated calls. non-trivial = distinct case.')
TRUSTED = ['scipy.linalg.lstsq in import_bootstrap (contract: least-squares solution; residual measured)',
           'np.random.default_rng(seed) is a deterministic function of the seed']
ASSUMPTIONS = ['jackknife compared at 1e-12 relative to the data scale, bootstrap import at 1e-8']


def frac(x):
    return Fraction(float(x))


def check_case(ctx, case):
    probs = []
    il = case['idl']
    x = np.array([float.fromhex(v) for v in case['x']])
    name = case['name']
    o = pe.Obs([x], [name], idl=[il])
    n = len(x)
    fx = [frac(v) for v in x]
    mean = sum(fx) / n
    scale = max(1.0, float(max(abs(v) for v in fx)))
    k = case['kind']
    if case.get('with_cov'):
        # one chain PLUS a covariance input: the resampled means cannot carry the covariance part of the error - the export is
        # documented for observables on a single replica of a single ensemble and must refuse (never drop the input silently)
        oc = o * pe.cov_Obs(1.5, 0.04, 'cvZ') if case['with_cov'] == 'mul' else o + pe.cov_Obs(0.3, 0.04, 'cvZ')
        ctx.count('with-cov')
        for what, call in (('jackknife', lambda: oc.export_jackknife()), ('bootstrap', lambda: oc.export_bootstrap(10, random_numbers=np.random.default_rng(1).integers(0, n, size=(10, n))))):
            try:
                res_ = call()
            except Exception:
                continue
            oc.gamma_method(S=0)
            probs.append(('violation', 'export-drops-covariance-input:' + what, 'an observable with the covariance input cvZ (S=0 error %r) was exported as %d plain numbers' % (float(oc.dvalue), len(res_))))
        return probs
    if k == 'jack':
        j = o.export_jackknife()
        if len(j) != n + 1:
            probs.append(('violation', 'jack-length', '%d vs %d' % (len(j), n + 1)))
            return probs
        if not close(j[0], float(mean), rtol=1e-13, scale=scale):
            probs.append(('violation', 'jack-entry0', '%r vs central value %r' % (j[0], float(mean))))
        for i in range(n):
            loo = (sum(fx) - fx[i]) / (n - 1)
            if not close(j[i + 1], float(loo), rtol=1e-12, scale=scale):
                probs.append(('violation', 'jack-leave-one-out', 'sample %d: %r, leave-one-out mean %r (n=%d, idl %r...)' % (i, j[i + 1], float(loo), n, list(il)[:6])))
                break
        # variance
        jb = sum(j[1:]) / n
        var = (n - 1) / n * sum((v - jb) ** 2 for v in j[1:])
        o.gamma_method(S=0)
        naive = float(sum((v - mean) ** 2 for v in fx) / (n * (n - 1)))
        if not close(var, naive, rtol=1e-9, scale=naive) or not close(o.dvalue ** 2, naive, rtol=1e-9, scale=naive):
            probs.append(('violation', 'jack-variance', 'jackknife %r, S=0 error^2 %r, naive %r' % (var, o.dvalue ** 2, naive)))
        # import restores the observable, configuration list included
        r = pe.import_jackknife(j, name, idl=[il if len(x) % 2 else np.array(il)])
        if list(r.idl[name]) != list(il):
            probs.append(('violation', 'jack-import-idl', '%r vs %r' % (list(r.idl[name])[:6], list(il)[:6])))
        back = np.asarray(r.deltas[name]) + r.r_values[name]
        if len(back) != n or np.max(np.abs(back - x)) > 1e-11 * scale or not close(float(r.value), float(mean), rtol=1e-13, scale=scale):
            probs.append(('violation', 'jack-import', 'samples not restored (max dev %r)' % (float(np.max(np.abs(back - x))) if len(back) == n else 'length')))
        # a configuration list of another length than the samples cannot describe them: refused
        for bad in ([list(il)[:-1]], [list(il) + [int(il[-1]) + 1]]):
            try:
                rb = pe.import_jackknife(j, name, idl=bad)
                if len(rb.deltas[name]) != len(list(rb.idl[name])):
                    probs.append(('violation', 'jack-import-idl-length', 'accepted %d configurations for %d samples: N=%d with %d fluctuations' % (len(bad[0]), n, rb.N, len(rb.deltas[name]))))
            except Exception:
                pass
        # the library's own users of the transform (jackknife-based matrix products) return observables on the
        # configuration list of their operands: export, operate on the samples, import
        if n >= 8 and n % 3 == 0:
            M_ = np.array([[o, 2.0 * o], [o * o, o + 1.0]], dtype=object)
            for nm_, res_ in (('einsum', pe.linalg.einsum('ij,jk->ik', M_, np.eye(2))), ('jack_matmul', pe.linalg.jack_matmul(M_, np.eye(2)))):
                e00 = res_[0, 0]
                if list(e00.idl.get(name, [])) != list(il) or e00.names != [name]:
                    probs.append(('violation', 'jack-import-idl', '%s: result on %r..., operand on %r...' % (nm_, list(e00.idl.get(name, []))[:6], list(il)[:6])))
        if ctx.lean is not None and n <= 80:
            rr = ctx.lean.call({'op': 'resample', 'what': 'jack', 'value': q2j(Fraction(float(o.value))), 'x': [q2j(Fraction(float(d + o.r_values[name]))) for d in o.deltas[name]]})
            if '_err' in rr:
                probs.append(('disagree', 'lean-driver-error', rr['_err']))
            else:
                m = [Fraction(a, b) for a, b in rr['out']]
                if len(m) != len(j) or not all(close(float(u), v, rtol=1e-12, scale=scale) for u, v in zip(m, j)):
                    probs.append(('disagree', 'model-vs-impl-jackknife', 'n=%d' % n))
    elif k == 'boot':
        rng = np.random.default_rng(case['seed'])
        nb = case['nboot']
        table = rng.integers(0, n, size=(nb, n))
        b = o.export_bootstrap(nb, random_numbers=table)
        # a table that does not have the documented shape (samples, N) selects something else than `samples` resamplings
        # of the N configurations: refused, or else exactly the means over the configurations each row selects
        for nm_, tb_, ns_ in (('narrow', rng.integers(0, max(n // 2, 1), size=(nb, max(n // 2, 1))), nb), ('one-row', table[:1], nb), ('wide', rng.integers(0, n, size=(nb, n + 3)), nb)):
            refused_ = False
            try:
                bb = o.export_bootstrap(ns_, random_numbers=tb_)
            except Exception:
                refused_ = True
            if ctx.lean is not None and n <= 60 and nb <= 40:
                # the model's request check (`exportBootChecked`): same verdict
                rr_ = ctx.lean.call({'op': 'resample', 'what': 'boot', 'samples': int(ns_), 'value': q2j(Fraction(float(o.value))), 'x': [q2j(v) for v in fx],
                                     'table': [[int(v) for v in row] for row in tb_]})
                if '_err' in rr_:
                    probs.append(('disagree', 'lean-driver-error', rr_['_err']))
                elif ('exc' in rr_) != refused_:
                    probs.append(('disagree', 'boot-table-verdict', '%s table %r: impl %s, model %s' % (nm_, tb_.shape, 'refuses' if refused_ else 'accepts', 'refuses' if 'exc' in rr_ else 'accepts')))
            if refused_:
                continue
            exp_ = [float(np.mean([fx[kk] for kk in row])) for row in tb_]
            if len(bb) != len(tb_) + 1 or not all(close(float(u), v, rtol=1e-10, scale=scale) for u, v in zip(bb[1:], exp_)):
                probs.append(('violation', 'boot-table-shape', '%s table %r for %d samples of %d configurations accepted, samples are not the means over the selected configurations' % (nm_, tb_.shape, ns_, n)))
        if len(b) != nb + 1 or not close(b[0], float(mean), rtol=1e-13, scale=scale):
            probs.append(('violation', 'boot-entry0', ''))
        for t in range(nb):
            m = sum(fx[kk] for kk in table[t]) / n
            if not close(b[t + 1], float(m), rtol=1e-12, scale=scale):
                probs.append(('violation', 'boot-mean', 'sample %d: %r vs mean over resampled configurations %r' % (t, b[t + 1], float(m))))
                break
        # the documented `save_rng` argument: the default (name-seeded) table is written out, and it is the table that was used
        if case['seed'] % 4 == 0:
            import tempfile as _tf
            with _tf.TemporaryDirectory(dir='/dev/shm' if os.path.isdir('/dev/shm') else None) as td_:
                fn_ = os.path.join(td_, 'rng.txt')
                try:
                    bs_ = o.export_bootstrap(nb, save_rng=fn_)
                except Exception as e:
                    probs.append(('violation', 'boot-exception', 'export_bootstrap(%d, save_rng=...) of %d configurations: %s: %s' % (nb, n, type(e).__name__, str(e)[:120])))
                    return probs
                saved_ = np.loadtxt(fn_, dtype=int)
                if saved_.size != nb * n:
                    probs.append(('violation', 'boot-saved-table', 'save_rng wrote %d numbers, the table has %d samples x %d configurations' % (saved_.size, nb, n)))
                    return probs
                saved_ = saved_.reshape(nb, n)
                want_ = [float(sum(fx[kk] for kk in row) / n) for row in saved_]
                if not all(close(u, v, rtol=1e-12, scale=scale) for u, v in zip(bs_[1:], want_)):
                    probs.append(('violation', 'boot-saved-table', 'the table written by save_rng does not reproduce the exported samples'))
                if not np.array_equal(o.export_bootstrap(nb), bs_):
                    probs.append(('violation', 'boot-seed-not-reproducible', 'export with save_rng differs from a plain export'))
        if nb >= n:
            proj = np.vstack([np.bincount(row, minlength=n) for row in table]) / n
            if np.linalg.matrix_rank(proj) == n and np.linalg.cond(proj) < 1e6:
                r = pe.import_bootstrap(b, name, table)
                back = np.asarray(r.deltas[name]) + r.r_values[name]
                ctx.residual('bootstrap_import_abs', float(np.max(np.abs(back - x))))
                if np.max(np.abs(back - x)) > 1e-7 * scale:
                    probs.append(('violation', 'boot-import', 'max deviation %r' % float(np.max(np.abs(back - x)))))
        else:
            try:
                pe.import_bootstrap(b, name, table)
                probs.append(('violation', 'boot-import-underdetermined-accepted', '%d samples for %d configurations' % (nb, n)))
            except ValueError:
                pass
        if ctx.lean is not None and n <= 60 and nb <= 40:
            rr = ctx.lean.call({'op': 'resample', 'what': 'boot', 'samples': int(nb), 'value': q2j(Fraction(float(o.value))), 'x': [q2j(v) for v in fx], 'table': [[int(v) for v in row] for row in table]})
            if '_err' in rr:
                probs.append(('disagree', 'lean-driver-error', rr['_err']))
            else:
                if 'exc' in rr:
                    probs.append(('disagree', 'boot-table-verdict', 'model refuses a table of the documented shape'))
                    return probs
                m = [Fraction(a, c) for a, c in rr['out']]
                if len(m) != len(b) or not all(close(float(u), v, rtol=1e-12, scale=scale) for u, v in zip(m, b)):
                    probs.append(('disagree', 'model-vs-impl-bootstrap', 'n=%d' % n))
    else:
        # default seeding by chain name: reproducible on repeated calls, and consistent between
        # observables of the same chain (same table), so the export is linear across them
        y = x * 0.5 + np.roll(x, 3)
        p = pe.Obs([y], [name], idl=[il])
        nb = case['nboot']
        # observables of the same chain name but another length, exported with the same number of samples in
        # the same process, before and after: the name-seeded table depends on (name, samples, length)
        try:
            for other_n in (max(6, n - 3), n + 4):
                pe.Obs([np.arange(other_n, dtype=float) ** 2 % 7], [name]).export_bootstrap(nb)
        except Exception as e:
            probs.append(('violation', 'boot-export-exception', repr(e)[:200]))
            return probs
        try:
            b1 = o.export_bootstrap(nb)
        except Exception as e:
            probs.append(('violation', 'boot-export-exception', 'default-seeded export after another length on the same chain name: ' + repr(e)[:200]))
            return probs
        b2 = o.export_bootstrap(nb)
        bp = p.export_bootstrap(nb)
        bc = (p - 2 * o).export_bootstrap(nb)
        # an export with a supplied table in between must not change what the default seeding gives afterwards
        foreign = np.random.default_rng(case['seed'] + 99).integers(0, n, size=(nb, n))
        o.export_bootstrap(nb, random_numbers=foreign)
        b3 = o.export_bootstrap(nb)
        bp3 = p.export_bootstrap(nb)
        if not np.array_equal(b1, b2) or not np.array_equal(b1, b3) or not np.array_equal(bp, bp3):
            probs.append(('violation', 'boot-seed-not-reproducible', 'repeated default-seeded exports differ (an export with a supplied table in between)'))
        # the documented recipe: table seeded by the md5 hash of the chain name
        import hashlib
        seed = int(hashlib.md5(name.encode()).hexdigest(), 16) & 0xFFFFFFFF
        tab = np.random.default_rng(seed).integers(0, n, size=(nb, n))
        ref = np.array([float(sum(fx[c] for c in row) / n) for row in tab])
        for bb, tag in ((b1, 'first'), (b3, 'after a supplied table')):
            if np.max(np.abs(bb[1:] - ref)) > 1e-11 * scale:
                probs.append(('violation', 'boot-seed-not-the-name-seeded-table', '%s default export deviates from the md5(name)-seeded resampling by %r' % (tag, float(np.max(np.abs(bb[1:] - ref))))))
                break
        if np.max(np.abs(bc - (bp - 2 * b1))) > 1e-10 * scale:
            probs.append(('violation', 'boot-seed-not-chain-consistent', 'boots(p - 2o) != boots(p) - 2 boots(o): max dev %r' % float(np.max(np.abs(bc - (bp - 2 * b1))))))
    return probs


def gen_case(ctx):
    rng = ctx.rng
    nprng = np.random.default_rng(rng.getrandbits(32))
    n = rng.choice([5, 6, 7, 9, 12, 20, 33, 64, 100, 300]) if rng.random() < 0.5 else rng.randint(5, 60)
    il = gen_idl(rng, n, rng.choice(['contig', 'contig', 'strided', 'gapped', 'irregular', 'deceptive']))
    x = gen_data(rng, nprng, len(il), rng.choice(['white', 'ar09', 'int', 'const', 'alt']))
    kind = rng.choice(['jack', 'jack', 'boot', 'boot', 'seed'])
    case = {'kind': kind, 'name': rng.choice(['A|r1', 'ens', 'B|r2']), 'idl': [int(c) for c in il], 'x': [float(v).hex() for v in x]}
    if rng.random() < 0.06:
        case['with_cov'] = rng.choice(['mul', 'add'])
    if kind != 'jack':
        case['nboot'] = rng.choice([3, len(il) - 1, len(il), len(il) + 5, 2 * len(il)]) if kind == 'boot' else rng.choice([5, 20])
        case['nboot'] = max(1, min(case['nboot'], 200))
        case['seed'] = rng.getrandbits(20)
    return case


def run(ctx):
    n = ctx.budget(300, 6000)
    corpus = os.path.join(os.path.dirname(os.path.dirname(os.path.dirname(os.path.abspath(__file__)))), 'corpus', 'C13')
    cases = []
    if os.path.isdir(corpus):
        for fn in sorted(os.listdir(corpus)):
            cases.append(json.load(open(os.path.join(corpus, fn)))['case'])
    for _ in range(n):
        cases.append(gen_case(ctx))
    for case in cases:
        ctx.count('kind=' + case['kind'])
        ctx.count('n<=10' if len(case['x']) <= 10 else ('n<=60' if len(case['x']) <= 60 else 'n>60'))
        ctx.case(case, sample={k: (v if k != 'x' else '%d samples' % len(v)) for k, v in case.items()})
        for (kind, key, info) in check_case(ctx, case):
            (ctx.violation if kind == 'violation' else ctx.disagree)(key, {'case': case, 'info': info})
        if len(ctx.violations) + len(ctx.disagreements) > 25:
            break
