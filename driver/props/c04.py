"""C04 - every observable produced by the library is structurally well-formed.

impl   = constructors, arithmetic (all operand kinds, both orders), functions, reweight, correlate,
         merge_obs, fits, roots, json / dobs / pickle / jackknife round trips
model  = PV.Model.Obs.mkObs (constructor, check by check) and PV.Spec.WF.wfC04 evaluated by the
         Lean driver on a dump of every object the implementation returns
oracle = the invariant written here from the statement (python), the exhaustive operand-kind table,
         and the list of malformed constructor requests that must be rejected
"""
import itertools
import json
import os
import pickle
import warnings
from pe_util import np, pe, gen_idl, gen_data, dump_obs, dump_idl, f2b, b2f, quiet

RULE = ('random operation sequences of length 5-25 over a pool of well-formed observables (1-3 ensembles, replica subsets, '
        'range / strided / irregular idl, covariance inputs) drawn from every public producer; the operand-kind table '
        '(5 operators x both orders x {Obs, CObs, int, float, complex0, complex, ndarray}) exhaustively; malformed constructor '
        'requests of every listed kind. non-trivial = distinct sequence / table entry / request.')
TRUSTED = ['least_squares / find_root numerics (only the structure of their results is checked here)']
ASSUMPTIONS = ['an exception is an admissible outcome of an operation (the property constrains returned objects); '
               'exceptions for combinations inside the closure clause are reported separately as closure-exception']

KINDS = ['obs', 'cobs', 'int', 'float', 'complex0', 'complex', 'ndarray', 'npfloat', 'npint', 'npcomplex', 'cndarray']
OPS = ['add', 'sub', 'mul', 'div', 'pow']


def wf_py(o):
    """the invariant of the statement; returns list of violated clauses"""
    bad = []
    if not isinstance(o, pe.Obs):
        return ['not an Obs: %s' % type(o).__name__]
    v = o.value
    if isinstance(v, (complex, np.complexfloating)) or not isinstance(v, (float, np.floating, int, np.integer)):
        bad.append('central value is %s' % type(v).__name__)
    mc = [n for n in o.names if n not in o.covobs]
    if not all(isinstance(n, str) for n in o.names):
        bad.append('non-string name')
    if mc != sorted(set(mc)):
        bad.append('chain names not sorted/unique: %r' % (mc,))
    tot = 0
    for n in mc:
        il = o.idl.get(n)
        if il is None:
            bad.append('no idl for %s' % n)
            continue
        l = [c for c in il]
        if not all(isinstance(c, (int, np.integer)) for c in l):
            bad.append('non-integer configuration number in %s' % n)
        if any(l[i] >= l[i + 1] for i in range(len(l) - 1)):
            bad.append('configuration numbers of %s not strictly increasing' % n)
        eq = len(l) >= 2 and all(l[i + 1] - l[i] == l[1] - l[0] for i in range(len(l) - 1))
        if isinstance(il, range) != eq:
            bad.append('%s held as %s but equally spaced=%s' % (n, type(il).__name__, eq))
        if len(o.deltas[n]) != len(l) or o.shape.get(n) != len(l):
            bad.append('length mismatch on %s: deltas %d idl %d shape %r' % (n, len(o.deltas[n]), len(l), o.shape.get(n)))
        d = np.asarray(o.deltas[n])
        if np.iscomplexobj(d):
            bad.append('complex fluctuations on %s' % n)
        tot += len(l)
    if o.N != tot:
        bad.append('N=%r but chain lengths sum to %d' % (o.N, tot))
    for cn in o.covobs:
        if '|' in cn:
            bad.append("'|' in covariance name %s" % cn)
        if cn in mc:
            bad.append('covariance name %s is also a chain' % cn)
    # ensembles group by the text before '|'
    for e, members in o.e_content.items():
        for m in members:
            if m.split('|')[0] != e:
                bad.append('e_content puts %s under %s' % (m, e))
    if sorted(x for ms in o.e_content.values() for x in ms) != sorted(o.names):
        bad.append('e_content is not a partition of the names')
    return bad


def wf_any(x):
    """Obs, CObs (parts Obs or real numbers) or arrays thereof"""
    if isinstance(x, pe.Obs):
        return wf_py(x)
    if isinstance(x, pe.CObs):
        out = []
        for part in (x.real, x.imag):
            if isinstance(part, pe.Obs):
                out += wf_py(part)
            elif isinstance(part, (complex, np.complexfloating)) or not isinstance(part, (int, float, np.floating, np.integer)):
                out.append('CObs part is %s' % type(part).__name__)
        return out
    if isinstance(x, (np.ndarray, list, tuple)):
        out = []
        for e in np.asarray(x, dtype=object).ravel():
            out += wf_any(e)
        return out
    return ['bare %s returned' % type(x).__name__]


def lean_wf(ctx, o):
    if ctx.lean is None or not isinstance(o, pe.Obs):
        return None
    try:
        r = ctx.lean.call({'op': 'wf', 'obs': dump_obs(o)})
    except (TypeError, ValueError):
        return None          # not dumpable (e.g. complex value): the python predicate reports it
    if '_err' in r:
        return ('err', r['_err'])
    return (r['wf'], r['diag'])


def base_obs(rng, nprng, ens=None, names=None, n=None, idl=None):
    ens = ens or rng.choice(['A', 'B', 'AB', 'A1'])    # 'B' and '1' sort before '|': prefix-related ensemble names
    if names is None:
        k = rng.choice([1, 2, 3])
        names = ['%s|r%d' % (ens, i + 1) for i in range(k)] if (k > 1 or rng.random() < 0.6) else [ens]
        names = sorted(rng.sample(names, rng.randint(1, len(names))))
    samples, idls = [], []
    for _ in names:
        m = n or rng.randint(5, 14)
        il = idl if idl is not None else gen_idl(rng, m)
        idls.append(il)
        samples.append(gen_data(rng, nprng, len(il), rng.choice(['white', 'int'])) * 0.05 + rng.choice([0.6, 1.2, 2.0]))
    return pe.Obs(samples, names, idl=idls)


def operand(kind, rng, nprng, pool):
    if kind == 'obs':
        return rng.choice(pool)
    if kind == 'cobs':
        return pe.CObs(rng.choice(pool), rng.choice(pool))
    if kind == 'int':
        return rng.choice([1, 2, 3])
    if kind == 'float':
        return rng.choice([0.5, 1.5, 2.25])
    if kind == 'complex0':
        return complex(rng.choice([1.0, 2.0]), 0.0)
    if kind == 'complex':
        return complex(rng.choice([1.0, 0.5]), rng.choice([0.5, -1.5]))
    if kind == 'ndarray':
        return np.array([1.0, 2.0])
    if kind == 'npfloat':
        return np.float64(1.5)
    if kind == 'npint':
        return np.int64(2)
    if kind == 'npcomplex':
        return np.complex128(complex(0.5, -1.5))
    if kind == 'cndarray':
        return np.array([1.0 + 0.5j, 2.0 - 1.0j])
    raise ValueError(kind)


def apply(op, a, b):
    return {'add': lambda: a + b, 'sub': lambda: a - b, 'mul': lambda: a * b, 'div': lambda: a / b, 'pow': lambda: a ** b}[op]()


def closure_domain(op, lk, rk):
    """combinations the closure clause speaks about: real / complex observables with real or complex
    numbers (and each other), at least one observable involved"""
    if 'ndarray' in (lk, rk) or 'cndarray' in (lk, rk):
        return False
    if lk not in ('obs', 'cobs') and rk not in ('obs', 'cobs'):
        return False
    return True


def check_table(ctx, case):
    """one entry of the operand-kind table"""
    probs = []
    rng = __import__('random').Random(case['seed'])
    nprng = np.random.default_rng(case['seed'])
    pool = [base_obs(rng, nprng, ens='A', names=['A|r1'], n=8, idl=range(1, 9)) for _ in range(3)]
    op, lk, rk = case['op'], case['lk'], case['rk']
    a, b = operand(lk, rng, nprng, pool), operand(rk, rng, nprng, pool)
    try:
        with warnings.catch_warnings():
            warnings.simplefilter('ignore')
            r = apply(op, a, b)
    except Exception as e:
        if closure_domain(op, lk, rk) and not (op == 'pow' and 'cobs' in (lk, rk)):
            # CObs has no power operator at all (TypeError: unsupported operand) - that is a refusal, not a malformed object
            probs.append(('violation', 'closure-exception:%s:%s:%s' % (op, lk, rk), '%s: %s' % (type(e).__name__, str(e)[:100])))
        return probs
    bad = [b_ for x_ in r.ravel() for b_ in wf_any(x_)] if isinstance(r, np.ndarray) else wf_any(r)
    if bad:
        probs.append(('violation', 'closure:%s:%s:%s' % (op, lk, rk), bad[:3]))
    elif closure_domain(op, lk, rk) and not isinstance(r, (pe.Obs, pe.CObs)):
        probs.append(('violation', 'closure-type:%s:%s:%s' % (op, lk, rk), type(r).__name__))
    return probs


MALFORMED = ['cov_asym_tiny', 'cov_asym_9th_digit', 'cov_grad_neg', 'cov_grad_indef', 'cov_grad_asym', 'cov_neg', 'dup_names', 'nonstring_name', 'unsorted_idl', 'dup_idl', 'len_mismatch', 'too_few', 'multi_ens', 'len_names',
             'len_idl', 'decreasing_range', 'cov_pipe', 'cov_asym', 'cov_indef', 'descending_list', 'ok_control',
             'multi_ens_prefix', 'multi_ens_prefix_rev', 'multi_ens_word', 'multi_ens_nosuffix', 'multi_ens_dot', 'multi_ens_bare_first', 'merge_multi_ens', 'ok_control_rep10']
# indefinite covariances are indefinite at every overall scale (no absolute tolerance may enter the test)
MALFORMED += ['%s@%d' % (k, e) for k in ('cov_neg', 'cov_indef', 'cov_listneg', 'cov_grad_neg') for e in (-12, -7, -3, 9)] + ['ok_cov@-12', 'ok_cov@9']
# ... and a negative eigenvalue that is tiny RELATIVE to the largest one (exactly symmetric input) is still a negative eigenvalue
MALFORMED += ['%s@%d' % (k, e) for k in ('cov_relneg', 'cov_listrelneg') for e in (-20, 0, 15)]


# configuration numbers as numpy integers of any width / signedness (what binary and HDF5 files deliver): same verdicts
ITYPES = ['uint8', 'uint16', 'uint32', 'uint64', 'int8', 'int16', 'int32']
MALFORMED += ['typed_%s:%s' % (k, t) for k in ('unsorted', 'dup', 'descending') for t in ITYPES]
MALFORMED += ['ok_typed_%s:%s' % (k, t) for k in ('irregular', 'regular', 'wide') for t in ITYPES]


def check_malformed(ctx, case):
    probs = []
    k = case['what']
    x = np.arange(8.0)
    samples, names, idl, lean_ok = [x, x + 1], ['A|r1', 'A|r2'], None, None
    cov = None
    if k == 'dup_names':
        names = ['A|r1', 'A|r1']
    elif k == 'nonstring_name':
        names = ['A|r1', 5]
    elif k == 'unsorted_idl':
        idl = [[1, 2, 3, 5, 4, 6, 7, 8], list(range(1, 9))]
    elif k == 'dup_idl':
        idl = [[1, 2, 3, 3, 4, 6, 7, 8], list(range(1, 9))]
    elif 'typed_' in k:
        kind_, t_ = k.split('typed_')[1].split(':')
        base = {'unsorted': [1, 2, 3, 5, 4, 6, 7, 8], 'dup': [1, 2, 3, 3, 4, 6, 7, 8], 'descending': [8, 7, 6, 5, 4, 3, 2, 1],
                'irregular': [1, 2, 4, 5, 9, 10, 11, 20], 'regular': [3, 6, 9, 12, 15, 18, 21, 24], 'wide': [15, 30, 45, 60, 75, 90, 105, 120]}[kind_]
        arr = np.array(base, dtype=t_)
        idl = [arr if case.get('seed', 0) % 2 == 0 else list(arr), list(range(1, 9))]
    elif k == 'len_mismatch':
        idl = [list(range(1, 8)), list(range(1, 9))]
    elif k == 'too_few':
        samples = [x[:4], x]
    elif k == 'multi_ens':
        names = ['A|r1', 'B|r1']
    # ensemble identifiers (the text before '|') one of which is a prefix of the other are still different ensembles
    elif k == 'multi_ens_prefix':
        names = ['A1|r1', 'A10|r1']
    elif k == 'multi_ens_prefix_rev':
        names = ['A10|r1', 'A1|r1']
    elif k == 'multi_ens_word':
        names = ['ens|r1', 'ensemble|r1']
    elif k == 'multi_ens_nosuffix':
        names = ['A1', 'A10']
    elif k == 'multi_ens_dot':
        names = ['beta5.3', 'beta5.30']
    elif k == 'multi_ens_bare_first':
        names = ['A', 'A2|r1']
    elif k == 'ok_control_rep10':
        names = ['A|r1', 'A|r10']
    elif k == 'len_names':
        names = ['A|r1']
    elif k == 'len_idl':
        idl = [list(range(1, 9))]
    elif k == 'decreasing_range':
        idl = [range(8, 0, -1), range(1, 9)]
    elif k == 'descending_list':
        idl = [[8, 7, 6, 5, 4, 3, 2, 1], list(range(1, 9))]
    elif k == 'cov_pipe':
        cov = lambda: pe.cov_Obs(1.0, 0.1, 'a|b')  # noqa: E731
    elif k == 'cov_asym':
        cov = lambda: pe.cov_Obs([1.0, 2.0], [[1.0, 0.5], [0.1, 1.0]], 'cv')  # noqa: E731
    elif k == 'cov_asym_tiny':
        cov = lambda: pe.cov_Obs([1.0, 2.0], [[2e-9, 1e-9], [-1e-9, 2e-9]], 'cv')  # noqa: E731
    elif k == 'cov_asym_9th_digit':
        cov = lambda: pe.cov_Obs([1.0, 2.0], [[1.0, 0.5], [0.5 + 1e-9, 1.0]], 'cv')  # noqa: E731
    elif k == 'cov_neg':
        cov = lambda: pe.cov_Obs(1.0, -0.25, 'cv')  # noqa: E731
    elif k == 'cov_grad_neg':
        cov = lambda: pe.cov_Obs(1.0, -0.25, 'cv', grad=[1.0])  # noqa: E731
    elif k == 'cov_grad_indef':
        cov = lambda: pe.cov_Obs([1.0, 2.0], [[1.0, 2.0], [2.0, 1.0]], 'cv', grad=[1.0, 0.0])  # noqa: E731
    elif k == 'cov_grad_asym':
        cov = lambda: pe.cov_Obs([1.0, 2.0], [[1.0, 0.2], [0.3, 1.0]], 'cv', grad=[0.0, 1.0])  # noqa: E731
    elif k == 'cov_indef':
        cov = lambda: pe.cov_Obs([1.0, 2.0], [[1.0, 2.0], [2.0, 1.0]], 'cv')  # noqa: E731
    elif '@' in k:
        kk, sc = k.split('@')[0], 10.0 ** int(k.split('@')[1])
        cov = {'cov_neg': lambda: pe.cov_Obs(1.0, -0.25 * sc, 'cv'),
               'cov_indef': lambda: pe.cov_Obs([1.0, 2.0], [[8.0 * sc, 4.0 * sc], [4.0 * sc, -2.0 * sc]], 'cv'),
               'cov_listneg': lambda: pe.cov_Obs([1.0, 2.0], [4.0 * sc, -1.0 * sc], 'cv'),
               'cov_grad_neg': lambda: pe.cov_Obs(1.0, -0.25 * sc, 'cv', grad=[1.0]),
               'cov_relneg': lambda: pe.cov_Obs([1.0, 2.0], [[sc, (1 + 2.0 ** -37) * sc], [(1 + 2.0 ** -37) * sc, sc]], 'cv'),
               'cov_listrelneg': lambda: pe.cov_Obs([1.0, 2.0], [sc, -2.0 ** -37 * sc], 'cv'),
               'ok_cov': lambda: pe.cov_Obs([1.0, 2.0], [[2.0 * sc, 0.5 * sc], [0.5 * sc, 1.0 * sc]], 'cv')}[kk]
    try:
        with warnings.catch_warnings():
            warnings.simplefilter('ignore')
            if k == 'merge_multi_ens':
                o = pe.merge_obs([pe.Obs([x], ['A1']), pe.Obs([x + 1], ['A10'])])
            else:
                o = cov() if cov else pe.Obs(samples, names, idl=idl)
        accepted = True
    except Exception:
        accepted = False
        o = None
    if k in ('ok_control', 'ok_control_rep10') or k.startswith('ok_cov@') or k.startswith('ok_typed_'):
        if not accepted:
            probs.append(('violation', 'rejects-valid-request', k))
        elif k.startswith('ok_typed_'):
            bad = wf_any(o)
            if bad:
                probs.append(('violation', 'malformed:typed-idl', bad[:3]))
            else:
                # ... and the same observable as with plain integers
                ref = pe.Obs(samples, names, idl=[[int(c) for c in idl[0]], idl[1]])
                try:
                    o.gamma_method()
                    ref.gamma_method()
                    if [int(c) for c in o.idl[names[0]]] != [int(c) for c in ref.idl[names[0]]] or abs(o.dvalue - ref.dvalue) > 1e-12 * ref.dvalue:
                        probs.append(('violation', 'typed-idl-differs', '%r vs %r' % (o.dvalue, ref.dvalue)))
                except Exception as e:
                    probs.append(('violation', 'typed-idl-analysis', '%s: %s' % (type(e).__name__, str(e)[:100])))
        return probs
    if accepted:
        probs.append(('violation', 'accepts-malformed:' + k, 'request of kind %s was accepted' % k))
    # constructor model: same verdict
    if ctx.lean is not None and cov is None and k not in ('nonstring_name', 'merge_multi_ens'):
        req = {'op': 'mkobs', 'samples': [[f2b(v) for v in s] for s in samples], 'names': names,
               'idl': None if idl is None else [dump_idl(i if isinstance(i, range) else [int(c) for c in i]) for i in idl]}
        r = ctx.lean.call(req)
        if '_err' in r:
            probs.append(('disagree', 'lean-driver-error', r['_err']))
        elif ('exc' in r) == accepted:
            probs.append(('disagree', 'constructor-verdict:' + k, 'impl accepted=%s model %s' % (accepted, 'raises' if 'exc' in r else 'accepts')))
    return probs


def check_sequence(ctx, case):
    """a random sequence of public operations; every returned object must be well-formed"""
    probs = []
    rng = __import__('random').Random(case['seed'])
    nprng = np.random.default_rng(case['seed'])
    import autograd.numpy as anp
    pool = [base_obs(rng, nprng) for _ in range(4)]
    pool.append(base_obs(rng, nprng, ens='A') + base_obs(rng, nprng, ens='AB') * 0.5)
    pool.append(pool[0] + pe.cov_Obs(0.3, 0.04, 'cvA'))
    c2 = pe.cov_Obs([0.1, 0.2], [[0.05, 0.01], [0.01, 0.03]], 'cvB')
    pool.append(pool[1] * (1 + 0.1 * c2[0]) - c2[1])
    trace = []

    def produced(what, r):
        trace.append(what)
        ctx.count('produced:' + what.split(' ')[0])
        objs = [x for x in np.asarray(r, dtype=object).ravel()] if isinstance(r, (list, tuple, np.ndarray)) else [r]
        for x in objs:
            bad = wf_any(x)
            if bad:
                probs.append(('violation', 'malformed:' + what.split(' ')[0], {'after': list(trace), 'clauses': bad[:3]}))
            if isinstance(x, pe.Obs):
                lw = lean_wf(ctx, x)
                if lw is not None and lw[0] == 'err':
                    probs.append(('disagree', 'lean-driver-error', lw[1]))
                elif lw is not None and (lw[0] is False) != bool(bad):
                    probs.append(('disagree', 'wf-predicate', {'after': list(trace), 'python': bad[:2], 'lean': lw[1]}))
                if not bad and x.N >= 5 and rng.random() < 0.6:
                    pool.append(x)
            elif isinstance(x, pe.CObs) and not bad and rng.random() < 0.3 and isinstance(x.real, pe.Obs):
                pool.append(x.real)

    # two stretches of one chain with a stretch in between on which nothing was measured (same spacing, same grid)
    st_ = rng.choice([1, 2, 3])
    o0_ = rng.randint(1, 9)
    n1_, gap_, n2_ = rng.randint(5, 10), rng.randint(1, 6), rng.randint(5, 10)
    s1_ = base_obs(rng, nprng, ens='A', names=['A|r1'], idl=range(o0_, o0_ + st_ * n1_, st_))
    s2_ = base_obs(rng, nprng, ens='A', names=['A|r1'], idl=range(o0_ + st_ * (n1_ + gap_), o0_ + st_ * (n1_ + gap_ + n2_), st_))
    pool += [s1_, s2_]
    forced = [(s1_, s2_)] if rng.random() < 0.6 else []
    for step in range(case['len']):
        kind = rng.choice(['arith', 'arith', 'arith', 'func', 'reweight', 'correlate', 'merge', 'fit', 'root', 'json', 'dobs', 'pickle', 'jack', 'derived'])
        if forced:
            kind = 'arith'
        try:
            with warnings.catch_warnings(), quiet():
                warnings.simplefilter('ignore')
                if kind == 'arith':
                    op = rng.choice(OPS)
                    lk, rk = rng.choice(['obs', 'obs', 'int', 'float', 'complex', 'cobs']), rng.choice(['obs', 'obs', 'int', 'float', 'complex', 'cobs'])
                    if lk not in ('obs', 'cobs') and rk not in ('obs', 'cobs'):
                        lk = 'obs'
                    if op == 'pow' and 'complex' in (lk, rk):
                        op = 'mul'          # Obs ** complex is the known finding F1; exercised by the table, not by sequences
                    a, b = operand(lk, rng, nprng, pool), operand(rk, rng, nprng, pool)
                    if forced:
                        (a, b), lk, rk, op = forced.pop(), 'obs', 'obs', rng.choice(['add', 'mul', 'sub'])
                    r_ = apply(op, a, b)
                    produced('arith %s %s %s' % (op, lk, rk), r_)
                    if isinstance(a, pe.Obs) and isinstance(b, pe.Obs) and isinstance(r_, pe.Obs):
                        # "configuration numbers" of a chain of the result: those of the operands on that chain, nothing else
                        for n_ in r_.names:
                            if n_ in r_.covobs:
                                continue
                            want_ = set(int(c) for c in a.idl.get(n_, [])) | set(int(c) for c in b.idl.get(n_, []))
                            if set(int(c) for c in r_.idl[n_]) != want_:
                                probs.append(('violation', 'malformed:arith', {'after': list(trace), 'clauses': ['chain %s lists configurations %r that no operand has' % (n_, sorted(set(int(c) for c in r_.idl[n_]) - want_)[:5])]}))
                elif kind == 'func':
                    f = rng.choice(['sqrt', 'log', 'exp', 'sin', 'cos', 'tanh', 'arctan', 'arcsinh', 'abs'])
                    a = rng.choice(pool)
                    produced('func ' + f, abs(a) if f == 'abs' else getattr(np, f)(a))
                elif kind == 'reweight':
                    w = rng.choice([o for o in pool if not o.cov_names])
                    produced('reweight', pe.reweight(w, [w * 2.0, w + 1.0], all_configs=rng.random() < 0.5))
                elif kind == 'correlate':
                    a = rng.choice([o for o in pool if not o.cov_names])
                    produced('correlate', pe.correlate(a, a * 1.5))
                elif kind == 'merge':
                    a = base_obs(rng, nprng, ens='M', names=['M|r1'])
                    b = base_obs(rng, nprng, ens='M', names=['M|r2'])
                    produced('merge_obs', pe.merge_obs([a, b]))
                elif kind == 'fit':
                    ys = [base_obs(rng, nprng, ens='F', names=['F|r1'], n=10, idl=range(1, 11)) + 0.3 * i for i in range(4)]
                    [y.gamma_method() for y in ys]
                    r = pe.least_squares(np.arange(4.0), ys, lambda a, x: a[0] + a[1] * x, silent=True)
                    produced('least_squares', list(r.fit_parameters))
                elif kind == 'root':
                    d = rng.choice(pool)
                    produced('find_root', pe.roots.find_root(d, lambda x, d: x * x * x + x - d, guess=0.5))
                elif kind == 'json':
                    import pyerrors.input.json as jio
                    a = rng.choice(pool)
                    produced('json', jio.import_json_string(jio.create_json_string(a), verbose=False))
                elif kind == 'dobs':
                    import pyerrors.input.dobs as dio
                    a = rng.choice([o for o in pool if all('|' in n for n in o.mc_names + [x for x in o.names if x not in o.covobs])] or [base_obs(rng, nprng, names=['A|r1'])])
                    produced('dobs', dio.import_dobs_string(dio.create_dobs_string([a], 'nm').encode()))
                elif kind == 'pickle':
                    produced('pickle', pickle.loads(pickle.dumps(rng.choice(pool))))
                elif kind == 'jack':
                    a = base_obs(rng, nprng, names=['J|r1'])
                    produced('jackknife', pe.import_jackknife(a.export_jackknife(), 'J|r1', idl=[a.idl['J|r1']]))
                else:
                    a, b = rng.choice(pool), rng.choice(pool)
                    produced('derived_observable', pe.derived_observable(lambda x, **kw: anp.sin(x[0]) * x[1] + x[0], [a, b]))
        except Exception as e:
            ctx.count('exception:' + kind)
            trace.append('%s -> %s' % (kind, type(e).__name__))
    return probs


def check_case(ctx, case):
    k = case['kind']
    if k == 'table':
        return check_table(ctx, case)
    if k == 'malformed':
        return check_malformed(ctx, case)
    return check_sequence(ctx, case)


def run(ctx):
    corpus = os.path.join(os.path.dirname(os.path.dirname(os.path.dirname(os.path.abspath(__file__)))), 'corpus', 'C04')
    cases = []
    if os.path.isdir(corpus):
        for fn in sorted(os.listdir(corpus)):
            cases.append(json.load(open(os.path.join(corpus, fn)))['case'])
    for op in OPS:
        for lk in KINDS:
            for rk in KINDS:
                if lk in ('obs', 'cobs') or rk in ('obs', 'cobs'):
                    cases.append({'kind': 'table', 'op': op, 'lk': lk, 'rk': rk, 'seed': 7})
    for w in MALFORMED:
        cases.append({'kind': 'malformed', 'what': w})
        if 'typed_' in w:
            cases.append({'kind': 'malformed', 'what': w, 'seed': 1})      # ... as a list of numpy scalars
    for _ in range(ctx.budget(60, 1500)):
        cases.append({'kind': 'sequence', 'seed': ctx.rng.getrandbits(30), 'len': ctx.rng.randint(5, 25)})
    for case in cases:
        ctx.count('kind=' + case['kind'])
        ctx.case(case)
        for (kind, key, info) in check_case(ctx, case):
            (ctx.violation if kind == 'violation' else ctx.disagree)(key, {'case': case, 'info': info})
        if len(ctx.violations) + len(ctx.disagreements) > 40:
            break
