"""C15 - correlator derived quantities equal their defining formulas where defined.

impl   = Corr.deriv / second_deriv / m_eff / plateau
model  = PV.Model.Corr (deriv, secondDeriv, mEff closed-form variants, plateauAvg) on central values
oracle = the documented formula applied with Obs arithmetic to the referenced timeslices (this file);
         root-of-cosh-ratio by brentq + implicit derivative; definedness read off the formula.
"""
import json
import math
import os
import warnings
from pe_util import np, pe, close, f2b, b2f, quiet
from props.c14 import cell, obs_close, enc_corr, compare_model, snap_obs, IDL

RULE = ('single-valued correlators T=4..24, random patterns of undefined timeslices (every pattern for T<=8 in the thorough tier); '
        'positive (decaying / cosh / sinh shaped) and sign-changing data; all deriv, second_deriv, m_eff variants; plateau by fit and '
        'average over random ranges. non-trivial = distinct case.')
TRUSTED = ['Obs arithmetic on the entries (C01)', 'scipy fsolve inside find_root (contract: returns a root; measured residual)']
ASSUMPTIONS = ['root variants compared at rtol 1e-7', 'a result that is undefined at every timeslice may raise']

DERIV = ['symmetric', 'forward', 'backward', 'improved', 'log']
SECOND = ['symmetric', 'big_symmetric', 'improved', 'log']
MEFF = ['log', 'logsym', 'cosh', 'periodic', 'sinh', 'arccosh']


def build(case):
    # overall normalisation of the correlator (exact power of two): effective masses do not depend on it, derivatives scale with it
    sc = 2.0 ** case.get('scale2', 0)
    content = [None if v is None else (cell(v) if sc == 1.0 else cell(v) * sc) for v in case['vals']]
    return pe.Corr(content)


def val(o):
    return float(o.value)


def formula(kind, variant, c, T):
    """returns list of length T: None or Obs, per the documented formula"""
    out = [None] * T

    def d(t):
        return c[t] if 0 <= t < T else None

    def ok(*ts):
        return all(d(t) is not None for t in ts)

    def lg(t):
        x = d(t)
        return None if (x is None or val(x) <= 0) else np.log(x)
    for t in range(T):
        r = None
        if kind == 'deriv':
            if variant == 'symmetric' and 1 <= t <= T - 2 and ok(t - 1, t + 1):
                r = 0.5 * (d(t + 1) - d(t - 1))
            elif variant == 'forward' and t <= T - 2 and ok(t, t + 1):
                r = d(t + 1) - d(t)
            elif variant == 'backward' and t >= 1 and ok(t - 1, t):
                r = d(t) - d(t - 1)
            elif variant == 'improved' and 2 <= t <= T - 3 and ok(t - 2, t - 1, t + 1, t + 2):
                r = (1 / 12) * (d(t - 2) - 8 * d(t - 1) + 8 * d(t + 1) - d(t + 2))
            elif variant == 'log' and 1 <= t <= T - 2 and ok(t) and lg(t - 1) is not None and lg(t + 1) is not None:
                r = d(t) * (0.5 * (lg(t + 1) - lg(t - 1)))
        elif kind == 'second':
            if variant == 'symmetric' and 1 <= t <= T - 2 and ok(t - 1, t, t + 1):
                r = d(t + 1) - 2 * d(t) + d(t - 1)
            elif variant == 'big_symmetric' and 2 <= t <= T - 3 and ok(t - 2, t, t + 2):
                r = (d(t + 2) - 2 * d(t) + d(t - 2)) / 4
            elif variant == 'improved' and 2 <= t <= T - 3 and ok(t - 2, t - 1, t, t + 1, t + 2):
                r = (1 / 12) * (-d(t + 2) + 16 * d(t + 1) - 30 * d(t) + 16 * d(t - 1) - d(t - 2))
            elif variant == 'log' and 1 <= t <= T - 2 and ok(t) and all(lg(s) is not None for s in (t - 1, t, t + 1)):
                r = d(t) * ((lg(t + 1) - 2 * lg(t) + lg(t - 1)) + (0.5 * (lg(t + 1) - lg(t - 1))) ** 2)
        elif kind == 'meff':
            if variant == 'log' and t <= T - 2 and ok(t, t + 1) and val(d(t + 1)) != 0 and val(d(t)) / val(d(t + 1)) > 0:
                r = np.log(d(t) / d(t + 1))
            elif variant == 'logsym' and 1 <= t <= T - 2 and ok(t - 1, t + 1) and val(d(t + 1)) != 0 and val(d(t - 1)) / val(d(t + 1)) > 0:
                r = np.log(d(t - 1) / d(t + 1)) / 2
            elif variant == 'arccosh' and 1 <= t <= T - 2 and ok(t - 1, t, t + 1) and val(d(t)) != 0:
                arg = (d(t + 1) + d(t - 1)) / (2 * d(t))
                if val(arg) >= 1:
                    r = np.arccosh(arg)
        out[t] = r
    return out


def root_oracle(variant, c, T):
    """cosh / sinh effective mass: root of f(m) = g(m (t-T/2)) / g(m (t+1-T/2)) - C(t)/C(t+1) by bisection,
    fluctuations by the implicit-function rule; returns list of None | ('obs', Obs) | ('skip',)"""
    from scipy.optimize import brentq
    g = math.cosh if variant in ('cosh', 'periodic') else math.sinh
    out = [None] * T
    for t in range(T - 1):
        if c[t] is None or c[t + 1] is None or val(c[t + 1]) == 0:
            continue
        if variant == 'sinh' and t in (T / 2, T / 2 - 1):
            out[t] = ('prev',)
            continue
        ratio = c[t] / c[t + 1]
        rv = val(ratio)
        if rv < 0:
            continue
        # (for the cosh variants this classification is proved: c15_cosh_no_solution_first_half / _second_half,
        #  c15_cosh_ratio_mid, c15_sinh_ratio_mid, c15_sinh_no_solution in PV/Props/C15Alg.lean)
        # does g(m a) / g(m b) = rv have a real solution m != 0 ?  (a = t - T/2, b = a + 1; the ratio is monotone in m > 0,
        # from its m -> 0 limit `lim` to infinity (|a| > |b|) or to 0 (|a| < |b|); for |a| = |b| it does not depend on m)
        a_, b_ = t - T / 2, t + 1 - T / 2
        if abs(a_) == abs(b_):
            out[t] = ('nosol', 'the ratio does not depend on the mass (2t+1 = T)')
            continue
        lim = 1.0 if variant in ('cosh', 'periodic') else a_ / b_
        if abs(rv - lim) < 1e-6 * max(1.0, abs(lim)):
            out[t] = ('skip',)      # the boundary: solved by m = 0
            continue
        if (rv < lim) if abs(a_) > abs(b_) else (rv > lim):
            out[t] = ('nosol', 'C(t)/C(t+1) = %r is on the wrong side of the m -> 0 limit %r' % (rv, lim))
            continue

        def f(m):
            return g(m * (t - T / 2)) / g(m * (t + 1 - T / 2)) - rv
        # bracket a positive root
        xs = np.linspace(1e-4, 6.0, 600)
        root = None
        try:
            fv = [f(x) for x in xs]
        except (ZeroDivisionError, OverflowError):
            out[t] = ('skip',)
            continue
        for i in range(len(xs) - 1):
            if np.isfinite(fv[i]) and np.isfinite(fv[i + 1]) and fv[i] * fv[i + 1] < 0:
                root = brentq(f, xs[i], xs[i + 1], xtol=1e-14)
                break
        if root is None:
            out[t] = ('skip',)     # no real solution in the searched range: definedness not asserted
            continue
        h = 1e-6
        dfdm = (f(root + h) - f(root - h)) / (2 * h)
        # m(ratio): d m / d ratio = 1 / (d/dm [g/g])  (f = G(m) - ratio)
        out[t] = ('obs', root, ratio, 1.0 / dfdm)
    return out


def check_case(ctx, case):
    probs = []
    a = build(case)
    T = a.T
    c = [None if x is None else x[0] for x in a.content]
    kind, variant = case['q'], case.get('variant')
    sa = snap_obs(a)
    exp = None
    try:
        with warnings.catch_warnings(), quiet():
            warnings.simplefilter('ignore')
            with np.errstate(all='ignore'):
                if kind == 'deriv':
                    res = a.deriv(variant)
                elif kind == 'second':
                    res = a.second_deriv(variant)
                elif kind == 'meff':
                    res = a.m_eff(variant) if case.get('guess') is None else a.m_eff(variant, guess=case['guess'])
                elif kind == 'plateau':
                    aa = build(case)
                    # a stored plateau range (set_prange, Corr(..., prange=), inherited through arithmetic) only stands in
                    # for a missing argument: an explicit range wins
                    if case.get('stored'):
                        how = case.get('stored_how', 'set')
                        if how == 'set':
                            aa.set_prange(list(case['stored']))
                        elif how == 'ctor':
                            aa = pe.Corr(aa.content, prange=list(case['stored']))
                        else:
                            aa.set_prange(list(case['stored']))
                            aa = 1.0 * aa
                    arg = None if case.get('explicit') is False else list(case['range'])
                    # timeslices that were analysed before with other parameters: auto_gamma=True means the default analysis
                    # of every timeslice, whatever was done to the observables earlier
                    for t_, kw_ in case.get('pre_gm', []):
                        if t_ < len(aa.content) and aa.content[t_] is not None:
                            aa.content[t_][0].gamma_method(**kw_)
                    res = aa.plateau(arg, method=case['method'], auto_gamma=True)
        exc = None
    except Exception as e:
        res, exc = None, e
    if snap_obs(a) != sa:
        probs.append(('violation', 'operand-mutated', kind))
    if kind == 'plateau':
        lo, hi = case['range'] if case.get('explicit') is not False else case['stored']
        items = [c[t] for t in range(lo, hi + 1) if c[t] is not None]
        if not items:
            if exc is None:
                probs.append(('violation', 'plateau-undefined-range', 'no exception for a range without defined slices'))
            return probs
        if exc is not None:
            probs.append(('violation', 'plateau-exception-' + case['method'], '%s: %s' % (type(exc).__name__, str(exc)[:120])))
            return probs
        if case['method'] == 'fit':
            [o.gamma_method() for o in items]
            w = np.array([1 / o.dvalue ** 2 for o in items])
            ref = sum(wi * o for wi, o in zip(w, items)) / float(np.sum(w))
            tol = 1e-6
        else:
            ref = sum(items[1:], items[0]) / len(items)
            tol = 1e-10
        if not obs_close(res, ref, rtol=tol):
            probs.append(('violation', 'plateau-' + case['method'], 'range %r: %r vs %r' % (case['range'], float(res.value), float(ref.value))))
        if ctx.lean is not None and case['method'] != 'fit':
            r = ctx.lean.call({'op': 'corr', 'method': 'plateau_avg', 'a': enc_corr(a), 'lo': lo, 'hi': hi})
            if 'num' in r and not close(b2f(r['num']), float(res.value), rtol=1e-10):
                probs.append(('disagree', 'plateau-avg', '%r vs %r' % (b2f(r['num']), float(res.value))))
        return probs
    rootv = kind == 'meff' and variant in ('cosh', 'periodic', 'sinh')
    if rootv:
        ro = root_oracle(variant, c, T)
        exp_def = [None if r is None else r for r in ro]
    else:
        with np.errstate(all='ignore'):
            exp = formula(kind, variant, c, T)
        exp_def = exp
    any_def = any(e is not None and not (isinstance(e, tuple) and e[0] in ('skip', 'prev', 'nosol')) for e in exp_def)
    if exc is not None:
        if any_def:
            probs.append(('violation', 'raises-%s-%s' % (kind, variant), '%s: %s' % (type(exc).__name__, str(exc)[:120])))
        return probs
    if not isinstance(res, pe.Corr) or res.T != T:
        probs.append(('violation', 'shape-%s-%s' % (kind, variant), 'T %s vs %d' % (getattr(res, 'T', None), T)))
        return probs
    nosol_reported = False
    for t in range(T):
        g = res.content[t]
        e = exp_def[t]
        if rootv:
            if isinstance(e, tuple) and e[0] == 'skip':
                continue
            if isinstance(e, tuple) and e[0] == 'nosol':
                # the property: undefined where the formula has no real solution.  (known finding: the root search is
                # not asked whether it converged and its last iterate is returned as the mass)
                if g is not None and not nosol_reported:
                    nosol_reported = True
                    probs.append(('violation', 'meff-root-no-real-solution', 'm_eff(%r) T=%d t=%d: %s, returned %r' % (variant, T, t, e[1], float(g[0].value))))
                continue
            if isinstance(e, tuple) and e[0] == 'prev':
                prev = res.content[t - 1] if t > 0 else None
                if (g is None) != (prev is None) or (g is not None and not obs_close(g[0], prev[0])):
                    probs.append(('violation', 'meff-sinh-midpoint', 't=%d is not filled with its predecessor' % t))
                continue
            if (e is None) != (g is None):
                probs.append(('violation', 'definedness-meff-' + variant, 't=%d expected %s' % (t, 'None' if e is None else 'defined')))
                break
            if e is not None:
                _, root, ratio, dmdr = e
                if not close(float(g[0].value), abs(root), rtol=1e-7):
                    probs.append(('violation', 'value-meff-' + variant, 't=%d: %r, root of the cosh/sinh ratio %r' % (t, float(g[0].value), root)))
                    break
                sgn = 1.0 if root >= 0 else -1.0
                refd = sgn * dmdr * np.asarray(ratio.deltas['e'])
                gd = np.asarray(g[0].deltas['e'])
                ctx.residual('meff_root_rel_fluct', float(np.max(np.abs(gd - refd)) / max(np.max(np.abs(refd)), 1e-300)))
                if np.max(np.abs(gd - refd)) > 1e-5 * max(np.max(np.abs(refd)), 1e-12):
                    probs.append(('violation', 'fluct-meff-' + variant, 't=%d: fluctuation is not that of the inverse function' % t))
                    break
            continue
        if (e is None) != (g is None):
            probs.append(('violation', 'definedness-%s-%s' % (kind, variant), 't=%d expected %s got %s (pattern %s)' % (
                t, 'None' if e is None else 'defined', 'None' if g is None else 'defined', ''.join('.' if x is None else 'x' for x in c))))
            break
        if e is not None and not obs_close(g[0], e, rtol=1e-9):
            probs.append(('violation', 'formula-%s-%s' % (kind, variant), 't=%d: %r vs formula %r' % (t, float(g[0].value), float(e.value))))
            break
    if ctx.lean is not None and not rootv:
        meth = {'deriv': 'deriv', 'second': 'second_deriv', 'meff': 'm_eff'}[kind]
        r = ctx.lean.call({'op': 'corr', 'method': meth, 'variant': variant, 'a': enc_corr(a)})
        probs += compare_model(r, res, exc, '%s-%s' % (kind, variant))
    return probs


def gen_vals(rng, T, shape, pattern=None):
    m = rng.choice([0.15, 0.3, 0.5])
    A = rng.choice([1.0, 2.5, 0.4])
    vals = []
    for t in range(T):
        if shape == 'decay':
            v = A * math.exp(-m * t) + 0.05
        elif shape == 'cosh':
            v = A * math.cosh(m * (t - T / 2))
        elif shape == 'sinh':
            v = A * math.sinh(m * (t - T / 2)) if t != T / 2 else 0.013
        elif shape == 'sign':
            v = A * math.cos(0.9 * t + 0.3) + rng.choice([0.0, 0.2])
        else:
            v = A * (1.0 + 0.3 * math.sin(t))
        v = round(v * (1 + 0.01 * rng.uniform(-1, 1)), 6)
        if v == 0:
            v = 0.0123
        vals.append(v)
    if pattern is None:
        p = rng.choice([0.0, 0.1, 0.25, 0.5])
        pattern = [rng.random() < p for _ in range(T)]
    vals = [None if pattern[t] else vals[t] for t in range(T)]
    if all(v is None for v in vals):
        vals[T // 2] = 1.0
    return vals


def gen_case(ctx, pattern=None, T=None):
    rng = ctx.rng
    T = T or rng.randint(4, 24)
    q = rng.choice(['deriv', 'deriv', 'second', 'second', 'meff', 'meff', 'meff', 'plateau'])
    case = {'q': q}
    if q == 'deriv':
        case['variant'] = rng.choice(DERIV)
        shape = rng.choice(['decay', 'sign', 'cosh', 'flat'])
    elif q == 'second':
        case['variant'] = rng.choice(SECOND)
        shape = rng.choice(['decay', 'sign', 'cosh', 'flat'])
    elif q == 'meff':
        case['variant'] = rng.choice(MEFF)
        v = case['variant']
        shape = 'cosh' if v in ('cosh', 'periodic', 'arccosh') else ('sinh' if v == 'sinh' else rng.choice(['decay', 'sign', 'cosh']))
        if v in ('cosh', 'periodic', 'sinh', 'arccosh') and rng.random() < 0.2:
            shape = 'sign'
        if rng.random() < 0.3:
            case['guess'] = rng.choice([0.3, 1.0, 2.5])      # any positive starting point of the root search: same root
    else:
        shape = rng.choice(['flat', 'decay', 'sign'])
        lo = rng.randrange(T)
        case['range'] = [lo, rng.randint(lo, T - 1)]
        case['method'] = rng.choice(['fit', 'avg', 'average', 'mean'])
        if rng.random() < 0.5:
            lo2 = rng.randrange(T)
            case['stored'] = [lo2, rng.randint(lo2, T - 1)]
            case['stored_how'] = rng.choice(['set', 'ctor', 'arith'])
            case['explicit'] = rng.random() < 0.7
        if rng.random() < 0.6:
            case['pre_gm'] = [[rng.randrange(T), rng.choice([{'S': 6.0}, {'S': 0.0}, {'tau_exp': 8.0}, {'S': 0.5, 'N_sigma': 3.0}])] for _ in range(rng.randint(2, 5))]
    case['vals'] = gen_vals(rng, T, shape, pattern)
    case['shape'] = shape
    if q in ('meff', 'deriv', 'second'):
        case['scale2'] = rng.choice([0, 0, 0, 0, -60, -85, 55])
    return case


def run(ctx):
    n = ctx.budget(500, 6000)
    corpus = os.path.join(os.path.dirname(os.path.dirname(os.path.dirname(os.path.abspath(__file__)))), 'corpus', 'C15')
    cases = []
    if os.path.isdir(corpus):
        for fn in sorted(os.listdir(corpus)):
            cases.append(json.load(open(os.path.join(corpus, fn)))['case'])
    # single undefined slice at every position, every variant (the F5 family)
    for T in (6, 9):
        for hole in range(T):
            for q, vs in (('deriv', DERIV), ('second', SECOND), ('meff', ['log', 'logsym', 'arccosh'])):
                for v in vs:
                    pat = [t == hole for t in range(T)]
                    cases.append({'q': q, 'variant': v, 'vals': gen_vals(ctx.rng, T, 'cosh' if q == 'meff' else 'decay', pat), 'shape': 'hole'})
    if ctx.tier == 'thorough':
        import itertools
        for T in (5, 7, 8):
            for pat in itertools.product([False, True], repeat=T):
                if all(pat):
                    continue
                cases.append(gen_case(ctx, pattern=list(pat), T=T))
    for _ in range(n):
        cases.append(gen_case(ctx))
    for case in cases:
        ctx.count('%s %s' % (case['q'], case.get('variant', case.get('method'))))
        ctx.count('shape=' + case.get('shape', '?'))
        ctx.count('undefined=%d' % sum(1 for v in case['vals'] if v is None))
        ctx.case(case)
        for (kind, key, info) in check_case(ctx, case):
            (ctx.violation if kind == 'violation' else ctx.disagree)(key, {'case': case, 'info': info})
        if len([v for v in ctx.violations if v[0] != 'meff-root-no-real-solution']) + len(ctx.disagreements) > 25:
            break
