"""C03 - error analysis invariant under relabelling, rescaling and call history.

P (evaluated on the implementation): for a generated observable and parameters
  * fft on/off agree; shift / multiply all configuration numbers; rename replicas; permute the
    order in which replicas are supplied; add a constant; multiply by c (errors scale by |c|);
  * tau_int >= 1/2, errors finite and non-negative;
  * gamma_method leaves value / deltas / idl / r_values untouched, is repeatable, and its result
    depends only on data + effective parameters (kwarg over dict over global), not on history;
  * deriving from an analysed object equals deriving from a fresh copy.
correspondence: the history state machine of the Lean model (op "gm_history") against the
implementation; the attribute frames come from the translator tr_frames (C03 theorems).
"""
import copy
import math
import json
import os
from pe_util import np, pe, dump_idl, reset_globals, close, f2b, b2f, dump_obs, gen_data
from props import c02

RULE = ('C02 layouts x {fft flip, shift b, scale a, rename, permute, add const, multiply c} plus random histories '
        'of 3-10 operations (set global / set dict / del dict / gm with kwargs / arithmetic) on 2-3 objects; '
        'non-trivial = distinct canonical case.')
TRUSTED = c02.TRUSTED
ASSUMPTIONS = ['window decisions within 1e-9 of a tie are skipped (ill-conditioned) and counted',
               'transformations are compared at rtol 1e-7 (FFT rounding differs between layouts)']

KEYS = ['tauint', 'dtauint', 'dvalue', 'ddvalue']


def analyse(o, case, **over):
    c = dict(case, **over)
    return c02.run_impl(c, o)


def idl_of(d):
    return range(d['range'][0], d['range'][0] + d['range'][1] * d['range'][2], d['range'][2]) if 'range' in d else list(d['list'])


def make(case, fmap=None, idmap=None, namemap=None, order=None):
    """build the observable of `case` with transformed data / idl / names / supply order"""
    byens = {}
    for r in case['reps']:
        byens.setdefault(r['name'].split('|')[0], []).append(r)
    total = None
    for ens, rl in sorted(byens.items()):
        rl = list(rl)
        if order == 'reversed':
            rl = rl[::-1]
        idl, names, samples = [], [], []
        for r in rl:
            il = idl_of(r['idl'])
            if idmap:
                a, b = idmap
                il = range(a * il.start + b, a * il.stop + b, a * il.step) if isinstance(il, range) else [a * c + b for c in il]
            x = np.array([float.fromhex(v) for v in r['samples']])
            if fmap:
                x = fmap(x)
            idl.append(il)
            names.append(namemap(r['name']) if namemap else r['name'])
            samples.append(x)
        o = pe.Obs(samples, names, idl=idl)
        total = o if total is None else total + 0.5 * o
    return total


def same(a, b, rtol=1e-7, scale_err=1.0, what='', exact_window=False):
    """compare two analysis dicts; returns (diffs, illcond)"""
    if ('exc' in a) or ('exc' in b):
        if ('exc' in a) != ('exc' in b):
            return ['%s: exception on one side only (%s / %s)' % (what, a.get('exc'), b.get('exc'))], False
        return [], False
    d = []
    ea, eb = sorted(a['ens']), sorted(b['ens'])
    if len(ea) != len(eb):
        return ['%s: ensemble count' % what], False
    for x, y in zip(ea, eb):
        u, v = a['ens'][x], b['ens'][y]
        if u['windowsize'] != v['windowsize']:
            if exact_window:     # the transformation is exact in floating point: no rounding can move the window
                return ['%s: %s windowsize %r vs %r' % (what, x, u['windowsize'], v['windowsize'])], False
            return [], True   # decided by a float comparison; handled by margin rule in C02
        for k in KEYS:
            s = scale_err if 'value' in k else 1.0
            if not close(u[k] * s, v[k], rtol=rtol, scale=max(abs(v['dvalue']), 1e-300) if 'value' in k else 1.0):
                d.append('%s: %s %s %r vs %r' % (what, x, k, u[k] * s, v[k]))
        if len(u['rho']) != len(v['rho']):
            d.append('%s: %s len(rho) %d vs %d' % (what, x, len(u['rho']), len(v['rho'])))
    if not close(a['dvalue'] * scale_err, b['dvalue'], rtol=rtol, scale=abs(b['dvalue'])):
        d.append('%s: dvalue %r vs %r' % (what, a['dvalue'] * scale_err, b['dvalue']))
    return d, False


def snapshot(o):
    return (float(o.value), {n: (list(o.idl[n]), isinstance(o.idl[n], range), o.deltas[n].tobytes() if hasattr(o.deltas[n], 'tobytes') else None,
                                 float(o.r_values[n])) for n in o.names if n not in o.covobs}, list(o.names), o.N, o.reweighted)


def check_case(ctx, case):
    probs = []
    kind = case.get('kind', 'transform')
    if kind == 'history':
        return check_history(ctx, case)
    base_o = make(case)
    snap0 = snapshot(base_o)
    base = analyse(base_o, case)
    # frame: the analysis must not alter the data
    if snapshot(base_o) != snap0:
        probs.append(('violation', 'frame', 'gamma_method changed value / deltas / idl / r_values'))
    if 'exc' in base:
        return probs
    # finiteness, tau >= 1/2
    for e, v in base['ens'].items():
        if not (v['tauint'] >= 0.5):
            probs.append(('violation', 'tau-lt-half', '%s tauint %r' % (e, v['tauint'])))
        for k in KEYS:
            if not (math.isfinite(v[k]) and v[k] >= 0):
                probs.append(('violation', 'not-finite-nonneg', '%s %s %r' % (e, k, v[k])))
    # repeatable
    again = analyse(base_o, case)
    d, _ = same(base, again, rtol=0.0, what='repeat')
    if d:
        probs.append(('violation', 'repeat', d[:3]))
    tr = case['transform']
    t = tr['kind']
    scale_err = 1.0
    if t == 'fft':
        other = analyse(make(case), case, fft=not case['fft'])
    elif t == 'shift':
        other = analyse(make(case, idmap=(1, tr['b'])), case)
    elif t == 'scale':
        other = analyse(make(case, idmap=(tr['a'], tr['b'])), case)
    elif t == 'rename':
        sfx = tr['suffix']
        other = analyse(make(case, namemap=lambda n: (n + sfx) if '|' in n else n), case)
    elif t == 'permute':
        other = analyse(make(case, order='reversed'), case)
    elif t == 'addconst':
        c = tr['c']
        other = analyse(make(case, fmap=lambda x: x + c), case)
    elif t == 'mult':
        c = tr['c']
        other = analyse(make(case, fmap=lambda x: x * c), case)
        scale_err = abs(c)
    elif t == 'derive':
        # deriving from an analysed object = deriving from a fresh one
        fresh = make(case)
        f = lambda o: (o * o + 3.0 * o).sin() if hasattr(o, 'sin') else o  # noqa: E731
        a1, a2 = f(base_o), f(fresh)
        if snapshot(a1) != snapshot(a2):
            probs.append(('violation', 'derive-after-gm', 'derived observable differs after analysis'))
        other = base
    else:
        other = base
    # multiplying by a power of two, relabelling configurations and renaming replicas change no rounding
    d, ill = same(base, other, scale_err=scale_err, what=t, exact_window=t in ('mult', 'shift', 'scale', 'rename'))
    if ill:
        ctx.illcond += 1
    elif d:
        probs.append(('violation', 'invariance-' + t, d[:4]))
    return probs


# ----------------------------------------------------------------- histories

def as_type(v, t):
    """the same number in another of the types a default may be stored in (numpy scalars of any width, Python int)"""
    if t == 'int' and float(v) == int(v):
        return int(v)
    if t in ('np.int64', 'np.int32') and float(v) == int(v):
        return getattr(np, t[3:])(int(v))
    if t == 'np.float32' and float(np.float32(v)) == float(v):
        return np.float32(v)
    if t == 'np.float64':
        return np.float64(v)
    return v


def check_history(ctx, case):
    """random operation history against (i) a fresh-copy oracle (predicate) and (ii) the Lean
    state machine (correspondence of the parameter resolution)."""
    probs = []
    reset_globals()
    objs = [make(c) for c in case['objs']]
    leanops = []
    # shadow of the defaults, driven by the operations only (never read back from the library)
    sh_glob = {'S': 2.0, 'tau_exp': 0.0, 'N_sigma': 1.0}
    sh_dict = {'S': {}, 'tau_exp': {}, 'N_sigma': {}}
    for step, op in enumerate(case['ops']):
        k = op['op']
        if k == 'setglobal':
            setattr(pe.Obs, op['name'] + '_global', as_type(op['val'], op.get('vtype')))
            sh_glob[op['name']] = op['val']
        elif k == 'setdict':
            getattr(pe.Obs, op['name'] + '_dict')[op['ens']] = as_type(op['val'], op.get('vtype'))
            sh_dict[op['name']][op['ens']] = op['val']
        elif k == 'deldict':
            getattr(pe.Obs, op['name'] + '_dict').pop(op['ens'], None)
            sh_dict[op['name']].pop(op['ens'], None)
        elif k == 'arith':
            i, j = op['i'], op['j']
            _ = objs[i] * 2.0 + objs[j] if i != j else objs[i] + 1.0
        elif k == 'gm':
            i = op['i']
            o = objs[i]
            kw = dict(op['kw'])
            # effective parameters per ensemble: kwarg over dict over global
            eff = {}
            for e in o.mc_names:
                eff[e] = {}
                for nm in ('S', 'tau_exp', 'N_sigma'):
                    if nm in kw:
                        eff[e][nm] = kw[nm]
                    elif e in sh_dict[nm]:
                        eff[e][nm] = sh_dict[nm][e]
                    else:
                        eff[e][nm] = sh_glob[nm]
            snap = snapshot(o)
            try:
                o.gamma_method(**kw)
                got = {'dvalue': float(o.dvalue), 'ens': {e: (float(o.e_dvalue[e]), float(o.e_tauint[e]), int(o.e_windowsize[e])) for e in o.mc_names}}
                params = {e: (o.S[e], o.tau_exp[e], o.N_sigma[e]) for e in o.mc_names}
            except Exception as ex:
                got = {'exc': type(ex).__name__}
                params = None
            if snapshot(o) != snap:
                probs.append(('violation', 'frame', 'history step %d changed the data' % step))
            # oracle: fresh copy analysed once with the effective parameters given per ensemble via dicts
            saved = (pe.Obs.S_global, dict(pe.Obs.S_dict), pe.Obs.tau_exp_global, dict(pe.Obs.tau_exp_dict), pe.Obs.N_sigma_global, dict(pe.Obs.N_sigma_dict))
            reset_globals()
            fresh = make(case['objs'][i])
            for e in eff:
                pe.Obs.S_dict[e] = eff[e]['S']
                pe.Obs.tau_exp_dict[e] = eff[e]['tau_exp']
                pe.Obs.N_sigma_dict[e] = eff[e]['N_sigma']
            try:
                fkw = {'fft': kw['fft']} if 'fft' in kw else {}
                fresh.gamma_method(**fkw)
                exp = {'dvalue': float(fresh.dvalue), 'ens': {e: (float(fresh.e_dvalue[e]), float(fresh.e_tauint[e]), int(fresh.e_windowsize[e])) for e in fresh.mc_names}}
            except Exception as ex:
                exp = {'exc': type(ex).__name__}
            (pe.Obs.S_global, pe.Obs.S_dict, pe.Obs.tau_exp_global, pe.Obs.tau_exp_dict, pe.Obs.N_sigma_global, pe.Obs.N_sigma_dict) = saved
            if ('exc' in got) != ('exc' in exp):
                probs.append(('violation', 'history', 'step %d: exception mismatch %s vs fresh %s' % (step, got, exp)))
            elif 'exc' not in got:
                if params is not None:
                    for e in eff:
                        if tuple(params[e]) != (eff[e]['S'], eff[e]['tau_exp'], eff[e]['N_sigma']):
                            probs.append(('violation', 'precedence', 'step %d ens %s: used %r, effective %r' % (step, e, params[e], eff[e])))
                for e in exp['ens']:
                    a, b = got['ens'][e], exp['ens'][e]
                    if a[2] != b[2] or not close(a[0], b[0], rtol=1e-12, scale=abs(b[0])) or not close(a[1], b[1], rtol=1e-12):
                        probs.append(('violation', 'history', 'step %d ens %s: %r vs fresh copy %r' % (step, e, a, b)))
            # independent of anything the process has done before: the specification (Lean, by configuration
            # number) evaluated on this object's data with the effective parameters
            if ctx.lean is not None and 'exc' not in got:
                ens = list(o.mc_names)
                req = {'op': 'wolff', 'obs': dump_obs(o), 'S': [[e, f2b(eff[e]['S'])] for e in ens],
                       'tau_exp': [[e, f2b(eff[e]['tau_exp'])] for e in ens], 'N_sigma': [[e, f2b(eff[e]['N_sigma'])] for e in ens]}
                spec = c02.decode_lean(ctx.lean.call(req))
                if 'lean_err' in spec:
                    probs.append(('disagree', 'lean-driver-error', spec['lean_err']))
                elif 'exc' not in spec:
                    for e in ens:
                        a, b = got['ens'][e], spec['ens'][e]
                        if abs(b.get('margin', 1.0)) < 1e-8:
                            ctx.illcond += 1
                            continue
                        if a[2] != b['windowsize'] or not close(a[0], b['dvalue'], rtol=1e-8, scale=abs(b['dvalue'])) or not close(a[1], b['tauint'], rtol=1e-8):
                            probs.append(('violation', 'history-vs-specification', 'step %d ens %s: %r vs specification %r' % (
                                step, e, a, (b['dvalue'], b['tauint'], b['windowsize']))))
            leanops.append({'step': step, 'i': i, 'eff': eff})
    reset_globals()
    # correspondence with the Lean state machine: parameter resolution
    if ctx.lean is not None:
        req = {'op': 'gm_history', 'ens': [sorted(set(r['name'].split('|')[0] for r in c['reps'])) for c in case['objs']],
               'ops': [encode_op(o) for o in case['ops']]}
        r = ctx.lean.call(req)
        if isinstance(r, dict) and '_err' in r:
            probs.append(('disagree', 'lean-driver-error', r['_err']))
        else:
            # r: list over gm steps of [[ens, S, tau_exp, N_sigma] ...] or "exc"
            k = 0
            for rec, lo in zip(r, leanops):
                if rec == 'exc':
                    continue
                for ent in rec:
                    e = ent[0]
                    m = (b2f(ent[1]), b2f(ent[2]), b2f(ent[3]))
                    ex = lo['eff'].get(e)
                    if ex is not None and m != (float(ex['S']), float(ex['tau_exp']), float(ex['N_sigma'])):
                        probs.append(('disagree', 'param-resolution', 'step %d ens %s model %r impl %r' % (lo['step'], e, m, ex)))
    return probs


def encode_op(o):
    k = o['op']
    if k == 'setglobal':
        return {'k': 'setglobal', 'name': o['name'], 'val': f2b(o['val'])}
    if k == 'setdict':
        return {'k': 'setdict', 'name': o['name'], 'ens': o['ens'], 'val': f2b(o['val'])}
    if k == 'deldict':
        return {'k': 'deldict', 'name': o['name'], 'ens': o['ens']}
    if k == 'gm':
        return {'k': 'gm', 'i': o['i'], 'kw': [[n, f2b(v)] for n, v in sorted(o['kw'].items()) if n != 'fft']}
    return {'k': 'arith'}


def twin_rep(rng, r):
    """a chain with the same name, first and last configuration, length and spacing as `r` but with the
    holes (if any) in other places and other data: whatever a per-layout or per-name cache keyed on such
    summary information would confuse it with"""
    import math as _m
    il = list(idl_of(r['idl']))
    n = len(il)
    diffs = [b - a for a, b in zip(il, il[1:])]
    g = 0
    for d in diffs:
        g = _m.gcd(g, d)
    grid = list(range(il[0] + g, il[-1], g)) if g > 0 else []
    if n >= 4 and len(grid) > n - 2:
        inner = sorted(rng.sample(grid, n - 2))
        new = [il[0]] + inner + [il[-1]]
        g2 = 0
        for a, b in zip(new, new[1:]):
            g2 = _m.gcd(g2, b - a)
        if g2 == g:
            il = new
    nprng = np.random.default_rng(rng.getrandbits(32))
    x = gen_data(rng, nprng, n)
    d = dump_idl(il if len(set(b - a for a, b in zip(il, il[1:]))) > 1 else range(il[0], il[-1] + 1, il[1] - il[0]))
    return {'name': r['name'], 'idl': d, 'samples': [float(v).hex() for v in x]}


def gen_history(ctx):
    rng = ctx.rng
    nobj = rng.randint(2, 3)
    objs = []
    for _ in range(nobj):
        if objs and rng.random() < 0.5:
            objs.append({'reps': [twin_rep(rng, r) for r in rng.choice(objs)['reps']]})
            continue
        c = c02.gen_case(ctx)
        c['cov'] = None
        # keep histories cheap
        c['reps'] = c['reps'][:3]
        objs.append({'reps': c['reps']})
    enss = sorted(set(r['name'].split('|')[0] for c in objs for r in c['reps']))
    vals = [0.0, 0.5, 1.0, 2.0, 3.7]
    ops = []
    for _ in range(rng.randint(3, 10)):
        k = rng.choice(['setglobal', 'setdict', 'deldict', 'gm', 'gm', 'gm', 'arith'])
        if k == 'setglobal':
            nm = rng.choice(['S', 'tau_exp', 'N_sigma'])
            ops.append({'op': k, 'name': nm, 'val': rng.choice(vals if nm != 'tau_exp' else [0.0, 0.0, 1.0, 3.7]),
                        'vtype': rng.choice([None, None, 'int', 'np.int64', 'np.int32', 'np.float32', 'np.float64'])})
        elif k in ('setdict', 'deldict'):
            nm = rng.choice(['S', 'tau_exp', 'N_sigma'])
            op = {'op': k, 'name': nm, 'ens': rng.choice(enss)}
            if k == 'setdict':
                op['val'] = rng.choice(vals if nm != 'tau_exp' else [0.0, 0.0, 1.0, 3.7])
                op['vtype'] = rng.choice([None, None, 'int', 'np.int64', 'np.int32', 'np.float32', 'np.float64'])
            ops.append(op)
        elif k == 'gm':
            kw = {}
            for nm in ('S', 'tau_exp', 'N_sigma'):
                if rng.random() < 0.3:
                    kw[nm] = rng.choice(vals if nm != 'tau_exp' else [0.0, 0.0, 1.0])
            if rng.random() < 0.4:
                kw['fft'] = rng.random() < 0.5
            ops.append({'op': 'gm', 'i': rng.randrange(nobj), 'kw': kw})
        else:
            ops.append({'op': 'arith', 'i': rng.randrange(nobj), 'j': rng.randrange(nobj)})
    return {'kind': 'history', 'objs': objs, 'ops': ops}


def gen_case(ctx):
    rng = ctx.rng
    if rng.random() < 0.25:
        return gen_history(ctx)
    c = c02.gen_case(ctx)
    c['cov'] = None
    t = rng.choice(['fft', 'shift', 'scale', 'rename', 'permute', 'addconst', 'mult', 'derive'])
    tr = {'kind': t}
    if t == 'shift':
        tr['b'] = rng.choice([-7, 3, 1000, 12345])
    if t == 'scale':
        tr['a'] = rng.choice([2, 3, 10])
        tr['b'] = rng.choice([0, 0, 5])
    if t == 'rename':
        tr['suffix'] = rng.choice(['x', '_b', '0'])
    if t == 'addconst':
        tr['c'] = rng.choice([1.0, -4.0, 16.0])
    if t == 'mult':
        tr['c'] = rng.choice([2.0, -0.5, 8.0, -4.0, 2.0 ** -50, -2.0 ** -60, 2.0 ** -100, 2.0 ** 80, -2.0 ** -200])
    c['transform'] = tr
    c['kind'] = 'transform'
    return c


def run(ctx):
    n = ctx.budget(300, 6000)
    corpus = os.path.join(os.path.dirname(os.path.dirname(os.path.dirname(os.path.abspath(__file__)))), 'corpus', 'C03')
    cases = []
    if os.path.isdir(corpus):
        for fn in sorted(os.listdir(corpus)):
            cases.append(json.load(open(os.path.join(corpus, fn)))['case'])
    for _ in range(n):
        cases.append(gen_case(ctx))
    for case in cases:
        if case.get('kind') == 'history':
            ctx.count('history')
            ctx.count('history_ops', len(case['ops']))
            summ = {'kind': 'history', 'nobj': len(case['objs']), 'ops': case['ops']}
        else:
            ctx.count('transform=' + case['transform']['kind'])
            summ = {k: (v if k != 'reps' else [{'name': r['name'], 'idl': r['idl'], 'n': len(r['samples'])} for r in v]) for k, v in case.items()}
        ctx.case(case, sample=summ)
        for (kind, key, info) in check_case(ctx, case):
            (ctx.violation if kind == 'violation' else ctx.disagree)(key, {'case': case, 'info': info})
        if len(ctx.violations) + len(ctx.disagreements) > 20:
            break
