"""C20 - constant tables and special-function derivatives.

theorems  : PV/Props/C20.lean over the tables REGENERATED from dirac.py / special.py (decide +kernel)
predicate : exhaustive execution of the implementation: all 16 tags + unknown tags, all tuples of
            {0..4}^3 and {0..4}^4, K_n (n = 0..6) and every re-exported special function on a grid -
            against an oracle written here from the mathematical definitions (pure python complex
            matrices, permutation sign by inversion count, scipy values for K_n, central differences).
"""
import itertools
import math
from pe_util import np, pe, close

RULE = ('exhaustive: 16 Grid tags + about 270 unknown tags (all concatenations of two valid names, case / padding variants); 512 + 4096 index tuples (indices -2..5); K_n for n=0..6 on 9 arguments in (0.05,20) in four '
        'usage forms (direct, scaled, inside log, array); each re-exported special function on a grid with central-difference oracle')
TRUSTED = ['scipy.special values of K_n and of the re-exported functions (the derivative oracle is built from them)',
           'autograd vjps of the re-exported special functions (contract, measured)']
ASSUMPTIONS = ['derivatives compared at rtol 1e-6 (central differences, step 1e-5)']

I = complex(0, 1)
GX = [[0, 0, 0, I], [0, 0, I, 0], [0, -I, 0, 0], [-I, 0, 0, 0]]
GY = [[0, 0, 0, -1], [0, 0, 1, 0], [0, 1, 0, 0], [-1, 0, 0, 0]]
GZ = [[0, 0, I, 0], [0, 0, 0, -I], [-I, 0, 0, 0], [0, I, 0, 0]]
GT = [[0, 0, 1, 0], [0, 0, 0, 1], [1, 0, 0, 0], [0, 1, 0, 0]]
ONE = [[1 if i == j else 0 for j in range(4)] for i in range(4)]


def mm(a, b):
    return [[sum(a[i][k] * b[k][j] for k in range(4)) for j in range(4)] for i in range(4)]


def lin(a, ca, b, cb):
    return [[ca * a[i][j] + cb * b[i][j] for j in range(4)] for i in range(4)]


G5 = mm(mm(mm(GX, GY), GZ), GT)
G = {'X': GX, 'Y': GY, 'Z': GZ, 'T': GT}


def spec_tag(tag):
    if tag == 'Identity':
        return ONE
    if tag == 'Gamma5':
        return G5
    if tag.startswith('Gamma') and len(tag) == 6:
        return G[tag[5]]
    if tag.startswith('Gamma') and tag.endswith('Gamma5') and len(tag) == 12:
        return mm(G[tag[5]], G5)
    if tag.startswith('Sigma') and len(tag) == 7:
        a, b = G[tag[5]], G[tag[6]]
        return lin(mm(a, b), 0.5, mm(b, a), -0.5)
    return None


TAGS = ['Identity', 'Gamma5', 'GammaX', 'GammaY', 'GammaZ', 'GammaT', 'GammaXGamma5', 'GammaYGamma5', 'GammaZGamma5',
        'GammaTGamma5', 'SigmaXT', 'SigmaXY', 'SigmaXZ', 'SigmaYT', 'SigmaYZ', 'SigmaZT']
UNKNOWN = ['SigmaTX', 'Gamma6', '', 'identity', 'GammaXGammaY', 'SigmaXX']
# every concatenation of two valid names that is not itself a valid name, case variants and padded names
UNKNOWN += sorted(set(a + b for a in TAGS for b in TAGS) - set(TAGS)) + [t.lower() for t in TAGS] + [' ' + t for t in TAGS[:4]] + [t + ' ' for t in TAGS[:4]]


def perm_sign(t):
    if len(set(t)) != len(t):
        return 0
    inv = sum(1 for a in range(len(t)) for b in range(a + 1, len(t)) if t[a] > t[b])
    return -1 if inv % 2 else 1


def mat_eq(a, b):
    a = np.asarray(a)
    return a.shape == (4, 4) and all(abs(complex(a[i][j]) - complex(b[i][j])) < 1e-14 for i in range(4) for j in range(4))


def check_case(ctx, case):
    probs = []
    k = case['kind']
    from pyerrors import dirac
    if k == 'tag':
        tag = case['tag']
        spec = spec_tag(tag) if tag in TAGS else None
        try:
            got = dirac.Grid_gamma(tag)
        except ValueError:
            got = 'raise'
        except Exception as e:
            got = 'other:' + type(e).__name__
        if spec is None:
            if not isinstance(got, str) or got != 'raise':
                probs.append(('violation', 'unknown-tag-accepted', '%r -> %r' % (tag, got)))
        elif isinstance(got, str) or not mat_eq(got, spec):
            probs.append(('violation', 'tag-' + tag, 'Grid_gamma(%r) is not the stated product / commutator' % tag))
    elif k == 'basic':
        gs = [dirac.gamma[i] for i in range(4)]
        for mu in range(4):
            if not mat_eq(dirac.gamma[mu], [GX, GY, GZ, GT][mu]):
                probs.append(('violation', 'gamma-matrix', 'gamma[%d]' % mu))
            if not mat_eq(np.conj(gs[mu]).T, gs[mu]):
                probs.append(('violation', 'hermitian', 'gamma[%d]' % mu))
            if not mat_eq(dirac.gamma5 @ gs[mu] + gs[mu] @ dirac.gamma5, [[0] * 4] * 4):
                probs.append(('violation', 'gamma5-anticommutes', 'mu=%d' % mu))
            for nu in range(4):
                ac = gs[mu] @ gs[nu] + gs[nu] @ gs[mu]
                if not mat_eq(ac, [[2 if (i == j and mu == nu) else 0 for j in range(4)] for i in range(4)]):
                    probs.append(('violation', 'clifford', '(%d,%d)' % (mu, nu)))
        if not mat_eq(gs[0] @ gs[1] @ gs[2] @ gs[3], dirac.gamma5):
            probs.append(('violation', 'gamma5-product', ''))
    elif k in ('eps3', 'eps4'):
        t = tuple(case['t'])
        wins = [set((1, 2, 3)), set((0, 1, 2))] if k == 'eps3' else [set((1, 2, 3, 4)), set((0, 1, 2, 3))]
        indom = any(set(t) <= w for w in wins)
        fn = dirac.epsilon_tensor if k == 'eps3' else dirac.epsilon_tensor_rank4
        if case.get('itype'):
            # indices as they come out of numpy index arrays (any integer width / signedness, floats with integer value)
            t = tuple(getattr(np, case['itype'])(i) for i in t)
        try:
            got = fn(*t)
        except ValueError:
            got = 'raise'
        if indom:
            if got == 'raise' or got != perm_sign(t):
                probs.append(('violation', k + '-value', '%r -> %r, permutation sign %d' % (t, got, perm_sign(t))))
        elif got != 'raise':
            probs.append(('violation', k + '-accepts-outside-domain', '%r -> %r' % (t, got)))
    elif k == 'kn':
        import scipy.special as sp
        import autograd.numpy as anp
        n, x = case['n'], case['x']
        if case.get('ntype'):
            n = getattr(np, case['ntype'])(n)      # the order taken from a numpy integer array
        o = pe.pseudo_Obs(x, 0.01 * x, 'e', samples=40)
        xv = o.value
        dK = -0.5 * (sp.kn(int(n) - 1, xv) + sp.kn(int(n) + 1, xv))    # K_{-1} = K_1
        K = sp.kn(n, xv)
        forms = [('direct', lambda: pe.derived_observable(lambda v, **kw: pe.special.kn(n, v[0]), [o]), K, dK),
                 ('scaled', lambda: pe.derived_observable(lambda v, **kw: 3.0 * pe.special.kn(n, v[0]) / anp.sqrt(v[0]), [o]),
                  3 * K / math.sqrt(xv), 3 * (dK / math.sqrt(xv) - 0.5 * K * xv ** -1.5)),
                 ('log', lambda: pe.derived_observable(lambda v, **kw: anp.log(pe.special.kn(n, v[0])), [o]), math.log(K), dK / K),
                 ('array', lambda: pe.derived_observable(lambda v, **kw: pe.special.kn(n, v) * anp.array([1.0, 2.0]), [o, 2 * o])[1],
                  2 * sp.kn(n, 2 * xv), None)]
        for nm, f, val, der in forms:
            try:
                r = f()
            except Exception as e:
                probs.append(('violation', 'kn-exception-' + nm, '%s n=%d x=%r: %r' % (nm, n, x, e)))
                continue
            if nm == 'array':
                # second component depends on 2*o only: delta = 2*K_n'(2x) * 2 * delta_o
                der = 2 * (-0.5 * (sp.kn(int(n) - 1, 2 * xv) + sp.kn(int(n) + 1, 2 * xv))) * 2
            if not close(float(r.value), val, rtol=1e-10):
                probs.append(('violation', 'kn-value-' + nm, 'n=%d x=%r: %r vs %r' % (n, x, float(r.value), val)))
            d = np.asarray(r.deltas['e'])
            ref = der * np.asarray(o.deltas['e'])
            if np.max(np.abs(d - ref)) > 1e-9 * max(np.max(np.abs(ref)), 1e-300):
                probs.append(('violation', 'kn-derivative-' + nm, 'n=%d x=%r: propagated %r, -(K_{n-1}+K_{n+1})/2 gives %r' % (n, x, float(d[0] / o.deltas['e'][0]), der)))
    elif k == 'special':
        import scipy.special as sp
        name, args, pos = case['name'], case['args'], case['pos']
        f = getattr(pe.special, name)
        x = args[pos]
        o = pe.pseudo_Obs(x, 0.001 * max(abs(x), 0.1), 'e', samples=30)
        xv = o.value

        def g(v):
            a = list(args)
            a[pos] = v
            return getattr(sp, name)(*a)
        h = 1e-5 * max(1.0, abs(xv))
        der = (-g(xv + 2 * h) + 8 * g(xv + h) - 8 * g(xv - h) + g(xv - 2 * h)) / (12 * h)
        try:
            def fo(v, **kw):
                a = list(args)
                a[pos] = v[0]
                return f(*a)
            r = pe.derived_observable(fo, [o])
            if isinstance(r, np.ndarray):
                r = r.ravel()[0]
        except Exception as e:
            probs.append(('violation', 'special-exception-' + name, repr(e)))
            return probs
        if not close(float(r.value), float(g(xv)), rtol=1e-10):
            probs.append(('violation', 'special-value-' + name, '%r vs %r' % (float(r.value), float(g(xv)))))
        got = float(r.deltas['e'][0] / o.deltas['e'][0])
        ctx.residual('special_derivative_rel', abs(got - der) / max(abs(der), 1e-12))
        if not close(got, float(der), rtol=2e-6, scale=max(abs(der), abs(g(xv)))):
            probs.append(('violation', 'special-derivative-' + name, 'args=%r: propagated %r, central difference %r' % (args, got, float(der))))
    return probs


SPECIAL = [('jn', [0, 1.9], 1), ('yn', [0, 1.9], 1), ('jn', [1, 0.8], 1), ('yn', [1, 2.4], 1), ('jn', [3, 2.9], 1), ('yn', [3, 2.9], 1),
           ('iv', [0.0, 1.2], 1), ('ive', [0.0, 1.2], 1), ('j0', [1.3], 0), ('y0', [1.3], 0), ('j1', [0.7], 0), ('y1', [2.1], 0), ('jn', [2, 1.9], 1), ('yn', [2, 1.9], 1),
           ('i0', [0.8], 0), ('i1', [0.8], 0), ('iv', [1.5, 1.2], 1), ('ive', [1.5, 1.2], 1),
           ('beta', [1.5, 2.5], 0), ('beta', [1.5, 2.5], 1), ('betaln', [1.5, 2.5], 0), ('betainc', [1.5, 2.5, 0.4], 2),
           ('polygamma', [1, 1.7], 1), ('psi', [1.7], 0), ('digamma', [2.3], 0), ('gamma', [2.6], 0), ('gammaln', [2.6], 0),
           ('gammainc', [1.5, 0.9], 1), ('gammaincc', [1.5, 0.9], 1), ('rgamma', [1.8], 0),
           ('erf', [0.4], 0), ('erfc', [0.4], 0), ('erfinv', [0.3], 0), ('erfcinv', [0.6], 0), ('logit', [0.3], 0), ('expit', [0.3], 0)]


def all_cases():
    cases = [{'kind': 'basic'}]
    cases += [{'kind': 'tag', 'tag': t} for t in TAGS + UNKNOWN]
    cases += [{'kind': 'tag', 'tag': t} for t in TAGS]
    # the domain is {0,1,2}^3 u {1,2,3}^3 (resp. rank 4); everything around it, negative indices included, is outside
    cases += [{'kind': 'eps3', 't': list(t)} for t in itertools.product(range(-2, 6), repeat=3)]
    cases += [{'kind': 'eps4', 't': list(t)} for t in itertools.product(range(-2, 6), repeat=4)]
    for it in ('uint8', 'uint16', 'uint32', 'uint64', 'int8', 'int64', 'float64'):
        cases += [{'kind': 'eps3', 't': list(t), 'itype': it} for t in itertools.product(range(0, 5), repeat=3)]
    for it in ('uint8', 'uint64', 'int8'):
        cases += [{'kind': 'eps4', 't': list(t), 'itype': it} for t in itertools.product(range(0, 5), repeat=4)]
    for nt in ('uint8', 'uint16', 'uint32', 'uint64', 'int8', 'int64'):
        cases += [{'kind': 'kn', 'n': n, 'x': x, 'ntype': nt} for n in range(0, 7) for x in (0.3, 2.0, 19.0)]
    for n in range(7):
        for x in [0.06, 0.2, 0.7, 1.0, 2.5, 5.0, 9.0, 14.0, 19.5]:
            cases.append({'kind': 'kn', 'n': n, 'x': x})
    # every integer order: K_{-n} = K_n, and the derivative formula holds as written for negative orders too
    for n in (-1, -2, -3, -6):
        for x in [0.07, 0.9, 3.0, 11.0]:
            cases.append({'kind': 'kn', 'n': n, 'x': x})
    for name, args, pos in SPECIAL:
        cases.append({'kind': 'special', 'name': name, 'args': args, 'pos': pos})
        a2 = list(args)
        a2[pos] = args[pos] * 1.37 if name not in ('betainc', 'erfinv', 'erfcinv', 'logit') else min(0.9, args[pos] * 1.37)
        cases.append({'kind': 'special', 'name': name, 'args': a2, 'pos': pos})
    return cases


def run(ctx):
    np.random.seed(12345 + ctx.seed)
    for case in all_cases():
        ctx.count('kind=' + case['kind'])
        ctx.case(case)
        for (kind, key, info) in check_case(ctx, case):
            (ctx.violation if kind == 'violation' else ctx.disagree)(key, {'case': case, 'info': info})
    ctx.notes.append('exhaustive over tags and index tuples')
