"""C05 - reweighting, correlating and merging pair samples by configuration number.

impl   = pe.reweight / Obs.reweight / Corr.reweight, pe.correlate / Corr.correlate, pe.merge_obs
model  = PV.Model.Combine (op "combine")
oracle = the statement by configuration number: tables {chain: {config: sample}} (this file)
"""
import json
import os
import warnings
from pe_util import np, pe, gen_idl, gen_data, dump_obs, close, quiet
from props.c01 import Q, combine, compare_q, decode_obs

RULE = ('weights on 1-3 replicas with contiguous / strided / irregular idl; observables on prefix / stride / random subsets of the '
        'weight\'s configurations and on replica subsets; both normalisation modes; lists (incl. members on different subsets of equal '
        'length) and Corr; all pairs for correlate incl. same-length different-interior lists; all replica partitions for merge_obs; '
        'a misaligned stream that must raise. non-trivial = distinct case.')
TRUSTED = ['Obs division (C01) for the normalisation step of reweight']
ASSUMPTIONS = ['comparison tolerance 1e-9']


def tab(o):
    """{chain: {config: sample}}"""
    return {n: {int(c): float(d + o.r_values[n]) for c, d in zip(o.idl[n], o.deltas[n])} for n in o.names if n not in o.covobs}


def obs_from_table(t):
    names = sorted(t)
    return pe.Obs([np.array([t[n][c] for c in sorted(t[n])]) for n in names], names, idl=[sorted(t[n]) for n in names])


def build(desc):
    return pe.Obs([np.array([float.fromhex(x) for x in c['samples']]) for c in desc], [c['name'] for c in desc], idl=[c['idl'] for c in desc])


def gen_weight(rng, nprng):
    ens = rng.choice(['A', 'W'])
    k = rng.choice([1, 2, 3])
    names = ['%s|r%d' % (ens, i + 1) for i in range(k)] if (k > 1 or rng.random() < 0.6) else [ens]
    desc = []
    for n in names:
        il = list(gen_idl(rng, rng.randint(8, 26), rng.choice(['contig', 'strided', 'irregular', 'gapped'])))
        x = 1.0 + 0.2 * gen_data(rng, nprng, len(il), 'white')
        desc.append({'name': n, 'idl': [int(c) for c in il], 'samples': [float(v).hex() for v in x]})
    return desc


def gen_sub(rng, nprng, wdesc, same_as=None):
    """observable on a subset of the weight's configurations and replicas"""
    reps = list(wdesc)
    if len(reps) > 1 and rng.random() < 0.4:
        reps = sorted(rng.sample(reps, rng.randint(1, len(reps))), key=lambda c: c['name'])
    desc = []
    for c in reps:
        il = c['idl']
        k = rng.choice(['all', 'prefix', 'stride', 'random', 'suffix'])
        if k == 'prefix':
            sub = il[:max(5, len(il) * 2 // 3)]
        elif k == 'suffix':
            sub = il[-max(5, len(il) * 2 // 3):]
        elif k == 'stride':
            sub = il[::2] if len(il[::2]) >= 5 else il
        elif k == 'random':
            sub = sorted(rng.sample(il, max(5, len(il) - rng.randint(1, 5))))
        else:
            sub = il
        x = gen_data(rng, nprng, len(sub), rng.choice(['white', 'int'])) + 2.0
        desc.append({'name': c['name'], 'idl': list(sub), 'samples': [float(v).hex() for v in x]})
    return desc


def oracle_reweight(w, o, all_configs):
    tw, to = tab(w), tab(o)
    num = {n: {c: tw[n][c] * to[n][c] for c in to[n]} for n in to}
    num_o = obs_from_table(num)
    den_o = w if all_configs else obs_from_table({n: {c: tw[n][c] for c in to[n]} for n in to})
    qn, qd = Q.of(num_o), Q.of(den_o)
    r = combine(lambda v: v[0] / v[1], [1 / qd.value, -qn.value / qd.value ** 2], [qn, qd])
    r.reweighted = True
    return r


def check_case(ctx, case):
    probs = []
    k = case['kind']
    with warnings.catch_warnings(), quiet():
        warnings.simplefilter('ignore')
        if k == 'reweight':
            w = build(case['w'])
            members = [build(d) for d in case['obs']]
            ac = case['all_configs']
            via = case['via']
            # the flag as users hand it over: a python bool, a numpy bool (result of a comparison / np.any), an int
            ac_arg = {None: ac, 'np': np.bool_(ac), 'int': int(ac), 'npany': np.any([ac])}[case.get('ac_form')]
            try:
                if via == 'list':
                    res = pe.reweight(w, members, all_configs=ac_arg)
                elif via == 'method':
                    if case.get('method_ac'):
                        res = [m.reweight(w, all_configs=ac_arg) for m in members]      # documented keyword of the method
                    else:
                        res = [m.reweight(w) for m in members]
                        ac = False
                else:
                    # Corr: all members must share layout; use the first member for every timeslice scaled
                    base = members[0]
                    cc = pe.Corr([base, None, base * 2.0 + 1.0])
                    rc = cc.reweight(w, all_configs=ac_arg)
                    if rc.content[1] is not None:
                        probs.append(('violation', 'corr-reweight-definedness', 'undefined slice became defined'))
                    res = [rc.content[0][0], rc.content[2][0]]
                    members = [base, base * 2.0 + 1.0]
            except Exception as e:
                probs.append(('violation', 'reweight-exception', '%s: %s' % (type(e).__name__, str(e)[:120])))
                return probs
            for i, (m, r) in enumerate(zip(members, res)):
                q = oracle_reweight(w, m, ac)
                d = compare_q(r, q, rtol=1e-9)
                if d:
                    probs.append(('violation', 'reweight-by-config', ['member %d of %d (%s)' % (i, len(members), via)] + d[:3]))
                if not r.reweighted:
                    probs.append(('violation', 'reweighted-flag', 'not set on result'))
                der = np.sin(r) * 2.0 + r
                if not der.reweighted:
                    probs.append(('violation', 'reweighted-flag-inherit', 'not inherited by derived observable'))
                if ctx.lean is not None and via == 'list':
                    rr = ctx.lean.call({'op': 'combine', 'what': 'reweight', 'a': dump_obs(w), 'b': dump_obs(m), 'all_configs': ac})
                    if '_err' in rr:
                        probs.append(('disagree', 'lean-driver-error', rr['_err']))
                    elif 'exc' in rr:
                        probs.append(('disagree', 'model-raises-reweight', rr['exc']))
                    else:
                        m_ = decode_obs(rr['obs'])
                        m_.mag = dict(q.mag)
                        d2 = compare_q(r, m_, rtol=1e-9)
                        if d2:
                            probs.append(('disagree', 'model-vs-impl-reweight', d2[:3]))
        elif k == 'reweight_bad':
            w = build(case['w'])
            o = build(case['obs'][0])
            if case['why'] == 'cov_weight':
                # a weight with a covariance input: that part has no configurations to pair, it must not be dropped silently
                w = w + pe.cov_Obs(0.0, 0.01, 'cvW')
            try:
                pe.reweight(w, [o], all_configs=bool(case.get('all_configs')))
                probs.append(('violation', 'reweight-accepts-misaligned:' + case['why'], 'no exception'))
            except Exception:
                pass
            if ctx.lean is not None:
                rr = ctx.lean.call({'op': 'combine', 'what': 'reweight', 'a': dump_obs(w), 'b': dump_obs(o), 'all_configs': False})
                if 'exc' not in rr:
                    probs.append(('disagree', 'model-accepts-misaligned:' + case['why'], ''))
        elif k == 'correlate':
            a, b = build(case['a']), build(case['b'])
            aligned = case['aligned']
            try:
                if case['via'] == 'corr':
                    r = pe.Corr([a, None]).correlate(pe.Corr([b, b]) if case['partner'] == 'corr' else b).content[0][0]
                else:
                    r = pe.correlate(a, b)
                exc = None
            except Exception as e:
                r, exc = None, e
            if not aligned:
                if exc is None:
                    probs.append(('violation', 'correlate-accepts-misaligned:' + case['why'], 'configuration lists %s' % case['why']))
            elif exc is not None:
                probs.append(('violation', 'correlate-exception', repr(exc)[:150]))
            else:
                ta, tb = tab(a), tab(b)
                q = Q.of(obs_from_table({n: {c: ta[n][c] * tb[n][c] for c in ta[n]} for n in ta}))
                d = compare_q(r, q, rtol=1e-10)
                if d:
                    probs.append(('violation', 'correlate-by-config', d[:3]))
            if ctx.lean is not None and case['via'] != 'corr':
                rr = ctx.lean.call({'op': 'combine', 'what': 'correlate', 'a': dump_obs(a), 'b': dump_obs(b)})
                if ('exc' in rr) != (exc is not None):
                    probs.append(('disagree', 'correlate-verdict', 'impl %s model %s' % ('raises' if exc else 'ok', rr.get('exc', 'ok'))))
                elif 'obs' in rr and r is not None:
                    m_ = decode_obs(rr['obs'])
                    m_.mag = dict(q.mag)
                    d2 = compare_q(r, m_, rtol=1e-10)
                    if d2:
                        probs.append(('disagree', 'model-vs-impl-correlate', d2[:3]))
        elif k == 'merge':
            parts = [build(p) for p in case['parts']]
            if case.get('reweighted_first'):
                parts[0].reweighted = True
            try:
                r = pe.merge_obs(parts)
                exc = None
            except Exception as e:
                r, exc = None, e
            if case['dup']:
                if exc is None:
                    probs.append(('violation', 'merge-accepts-duplicate-replica', ''))
            elif exc is not None:
                probs.append(('violation', 'merge-exception', repr(exc)[:150]))
            else:
                t = {}
                for p in parts:
                    t.update(tab(p))
                q = Q.of(obs_from_table(t))
                q.reweighted = any(p.reweighted for p in parts)
                d = compare_q(r, q, rtol=1e-10)
                if d:
                    probs.append(('violation', 'merge-union', d[:3]))
                if q.reweighted:
                    # the flag of a merged observable behaves like that of any other: inherited, exportable
                    if not (np.sin(r) * 2.0 + r).reweighted:
                        probs.append(('violation', 'reweighted-flag-inherit', 'not inherited from a merged observable'))
                    try:
                        back = pe.input.json.import_json_string(pe.input.json.create_json_string(r, 'merged'))
                        if not back.reweighted:
                            probs.append(('violation', 'reweighted-flag-export', 'lost in the json export of a merged observable'))
                    except Exception as e:
                        probs.append(('violation', 'reweighted-flag-export', '%s: %s' % (type(e).__name__, str(e)[:120])))
            if ctx.lean is not None:
                rr = ctx.lean.call({'op': 'combine', 'what': 'merge', 'l': [dump_obs(p) for p in parts]})
                if ('exc' in rr) != (exc is not None):
                    probs.append(('disagree', 'merge-verdict', 'impl %s model %s' % ('raises' if exc else 'ok', rr.get('exc', 'ok'))))
                elif 'obs' in rr and r is not None:
                    m_ = decode_obs(rr['obs'])
                    m_.mag = dict(q.mag)
                    d2 = compare_q(r, m_, rtol=1e-10)
                    if d2:
                        probs.append(('disagree', 'model-vs-impl-merge', d2[:3]))
    return probs


def gen_case(ctx):
    rng = ctx.rng
    nprng = np.random.default_rng(rng.getrandbits(32))
    k = rng.random()
    if k < 0.45:
        w = gen_weight(rng, nprng)
        nobs = rng.choice([1, 2, 3])
        members = [gen_sub(rng, nprng, w) for _ in range(nobs)]
        if nobs >= 2 and rng.random() < 0.5:
            # two members on different subsets of EQUAL length (odd / even, two halves, different single holes)
            c0 = w[0]
            il = c0['idl']
            how = rng.choice(['oddeven', 'halves', 'holes'])
            if how == 'oddeven' and len(il) >= 10:
                s1, s2 = il[0:2 * (len(il) // 2):2], il[1:2 * (len(il) // 2):2]
            elif how == 'halves' and len(il) >= 10:
                h = len(il) // 2
                s1, s2 = il[:h], il[h:2 * h]
            else:
                i, j = rng.sample(range(len(il)), 2)
                s1, s2 = [c for t, c in enumerate(il) if t != i], [c for t, c in enumerate(il) if t != j]
            for m, s in zip(members[:2], (s1, s2)):
                m[:] = [{'name': c0['name'], 'idl': list(s), 'samples': [float(v).hex() for v in gen_data(rng, nprng, len(s), 'white') + 2.0]}]
        return {'kind': 'reweight', 'w': w, 'obs': members, 'all_configs': rng.random() < 0.5, 'via': rng.choice(['list', 'list', 'method', 'corr']),
                'method_ac': rng.random() < 0.6, 'ac_form': rng.choice([None, None, 'np', 'int', 'npany'])}
    if k < 0.55:
        w = gen_weight(rng, nprng)
        o = gen_sub(rng, nprng, w)
        why = rng.choice(['extra_config', 'other_chain', 'cov_weight'])
        if why == 'cov_weight':
            return {'kind': 'reweight_bad', 'w': w, 'obs': [o], 'why': why, 'all_configs': rng.random() < 0.5}
        if why == 'extra_config':
            c = o[0]
            extra = max(max(x['idl']) for x in w) + 7
            c['idl'] = c['idl'] + [extra]
            c['samples'] = c['samples'] + [float(2.5).hex()]
        else:
            o[0]['name'] = o[0]['name'].split('|')[0] + '|zz'
        return {'kind': 'reweight_bad', 'w': w, 'obs': [o], 'why': why}
    if k < 0.8:
        a = gen_weight(rng, nprng)
        b = [{'name': c['name'], 'idl': list(c['idl']), 'samples': [float(v).hex() for v in gen_data(rng, nprng, len(c['idl']), 'white') + 1.5]} for c in a]
        why = rng.choice(['aligned', 'aligned', 'aligned', 'interior', 'shifted', 'shorter', 'chain'])
        aligned = why == 'aligned'
        if why == 'interior':
            il = list(range(1, 21))
            i, j = rng.sample(range(1, 19), 2)
            a[0]['idl'] = [c for t, c in enumerate(il) if t != i]
            b[0]['idl'] = [c for t, c in enumerate(il) if t != j]
            for d in (a[0], b[0]):
                d['samples'] = [float(v).hex() for v in gen_data(rng, nprng, 19, 'white') + 1.0]
        elif why == 'shifted':
            b[0]['idl'] = [c + 1 for c in b[0]['idl']]
        elif why == 'shorter':
            b[0]['idl'] = b[0]['idl'][:-1]
            b[0]['samples'] = b[0]['samples'][:-1]
            if len(b[0]['idl']) < 5:
                aligned, why = True, 'aligned'
                b[0]['idl'] = list(a[0]['idl'])
                b[0]['samples'] = list(a[0]['samples'])
        elif why == 'chain':
            b[0]['name'] = b[0]['name'].split('|')[0] + '|zz'
        return {'kind': 'correlate', 'a': a, 'b': b, 'aligned': aligned, 'why': why, 'via': rng.choice(['fn', 'fn', 'corr']),
                'partner': rng.choice(['obs', 'corr'])}
    # merge
    w = gen_weight(rng, nprng)
    while len(w) < 2:
        w = gen_weight(rng, nprng)
    idx = list(range(len(w)))
    rng.shuffle(idx)
    cut = rng.randint(1, len(w) - 1)
    parts = [sorted([w[i] for i in idx[:cut]], key=lambda c: c['name']), sorted([w[i] for i in idx[cut:]], key=lambda c: c['name'])]
    if len(parts[1]) > 1 and rng.random() < 0.5:
        parts = [parts[0], [parts[1][0]], parts[1][1:]]
    dup = rng.random() < 0.2
    if dup:
        parts.append([dict(parts[0][0])])
    return {'kind': 'merge', 'parts': parts, 'dup': dup, 'reweighted_first': rng.random() < 0.3}


def run(ctx):
    n = ctx.budget(500, 10000)
    corpus = os.path.join(os.path.dirname(os.path.dirname(os.path.dirname(os.path.abspath(__file__)))), 'corpus', 'C05')
    cases = []
    if os.path.isdir(corpus):
        for fn in sorted(os.listdir(corpus)):
            cases.append(json.load(open(os.path.join(corpus, fn)))['case'])
    for _ in range(n):
        cases.append(gen_case(ctx))
    for case in cases:
        ctx.count('kind=' + case['kind'])
        if 'why' in case:
            ctx.count('%s:%s' % (case['kind'], case['why']))
        if 'via' in case:
            ctx.count('via=' + case['via'])
        ctx.case(case, sample={k: (v if k not in ('w', 'obs', 'a', 'b', 'parts') else '...') for k, v in case.items()})
        for (kind, key, info) in check_case(ctx, case):
            (ctx.violation if kind == 'violation' else ctx.disagree)(key, {'case': case, 'info': info})
        if len(ctx.violations) + len(ctx.disagreements) > 25:
            break
