"""C18 - truncated measurement files never produce wrong numbers.

theorems  : PV/Props/C18.lean - for every record list, payload size and cut offset the record reader
            either rejects the prefix or returns exactly the complete records before the cut
            (accepted only on record boundaries / inside the 4-byte configuration number).
predicate : fault enumeration on the implementation - every (thorough) or a stratified sample
            (quick) of the truncation offsets of one file of a synthetic file set; the reader must
            raise or return exactly the stored numbers of the complete records preceding the cut.
            Same for json.gz / xml.gz / csv.gz exports: a truncated archive must be rejected.
correspondence: the Lean reader run on the truncated bytes accepts / rejects and counts records
            like the implementation.
"""
import gzip
import json
import os
import random as _random
import shutil
import tempfile
import warnings
from pe_util import np, pe, quiet
from props import c17

RULE = ('file sets of C17 (binary formats byte-wise, sfcf text layouts byte- and line-wise) and json.gz / dobs xml.gz / csv.gz exports; '
        'quick: all record boundaries +-5 bytes, header bytes, and a random sample of interior offsets; thorough: every offset. '
        'non-trivial = distinct (file set, file, offset).')
TRUSTED = ['zlib / gzip, rapidjson, lxml, pandas: rejection of incomplete containers is exercised, not proved']
ASSUMPTIONS = ['any exception is an admissible outcome; a returned result must equal the stored numbers of the complete records before the cut']

BIN = ['rwms14', 'rwms16', 'rwms20', 'qtop_openqcd', 'energy', 'qtop_sfqcd', 'ms5_xsf']


def offsets(rng, size, H, rec, tier):
    if tier == 'thorough' and size <= 60000:
        return list(range(size))
    offs = set(range(0, min(H + 6, size)))
    nrec = (size - H) // rec if rec else 0
    for m in range(nrec + 1):
        b = H + m * rec
        for d in (-5, -4, -3, -2, -1, 0, 1, 2, 3, 4, 5, 8, 12):
            if 0 <= b + d < size:
                offs.add(b + d)
    # interior of the last records, where unused trailing blocks live
    for m in (nrec - 1, nrec - 2, 0):
        if m >= 0 and rec:
            for _ in range(10):
                offs.add(H + m * rec + rng.randrange(rec))
            for d in (1, 2, 3, 4, 8, 9, 16, 24):
                if H + (m + 1) * rec - d < size:
                    offs.add(H + (m + 1) * rec - d)
    for _ in range(20):
        offs.add(rng.randrange(size))
    return sorted(o for o in offs if 0 <= o < size)


def check_binary(ctx, case):
    probs = []
    rng = _random.Random(case['seed'])
    root = tempfile.mkdtemp(prefix='c18_', dir='/dev/shm' if os.path.isdir('/dev/shm') else None)
    try:
        info = c17.write_set(case, root)
        r = sorted(info['files'])[case['which'] % len(info['files'])]
        fn, full = info['files'][r]
        H, P, chunked = c17.layout(case, full)
        rec = 4 + P
        cfgs = case['reps'][str(r)]
        offs = offsets(rng, len(full), H, rec, ctx.tier)
        ctx.count('offsets', len(offs))
        for k in offs:
            open(os.path.join(root, fn), 'wb').write(full[:k])
            m = max(0, (k - H) // rec) if k >= H else 0
            case2 = dict(case, sel={})
            case2['reps'] = dict(case['reps'])
            case2['reps'][str(r)] = cfgs[:m]
            try:
                res = c17.read_and_expect(ctx, case2, root, info) if m >= 2 else None
                if m < 2:
                    # fewer than two complete records: the reader cannot even determine the spacing;
                    # run it anyway - it must raise
                    try:
                        c17.read_and_expect(ctx, dict(case2, reps=dict(case2['reps'], **{str(r): cfgs[:max(m, 0)] or cfgs[:1]})), root, info)
                        raised = False
                    except Exception:
                        raised = True
                    if not raised:
                        probs.append(('violation', 'truncated-accepted:' + case['fmt'], 'cut at byte %d of %s (%d complete records) was read without error' % (k, fn, m)))
                    continue
                exc = None
            except Exception as e:
                res, exc = None, e
            inside_payload = k >= H and ((k - H) % rec >= 4 if not chunked else (k - H) % rec != 0)
            if inside_payload and case['fmt'] in ('qtop_sfqcd', 'qtop_openqcd') and 2 <= m < len(cfgs) and not chunked:
                # the caller asks for the configuration of the cut record itself (r_stop = its number): still refused, never returned
                case3 = dict(case, sel={'r_stop_at': {str(r): m}})
                case3['reps'] = dict(case['reps'])
                case3['reps'][str(r)] = cfgs[:m + 1]
                try:
                    res3 = c17.read_and_expect(ctx, case3, root, info)
                    got3 = res3[0][1]
                    lbl = [n_ for n_ in got3 if n_.endswith('|r%d' % r)]
                    if lbl and len(got3[lbl[0]]) > m:
                        probs.append(('violation', 'truncated-record-returned:' + case['fmt'], 'cut at byte %d of %s inside record %d; with r_stop at that record it is returned as a sample' % (k, fn, m + 1)))
                except Exception:
                    pass
                ctx.count('r_stop-at-cut-record')
            if exc is None:
                for label, got, exp in res:
                    d = c17.cmp_tab(got, exp, label)
                    if d:
                        probs.append(('violation', 'truncated-wrong-numbers:' + case['fmt'],
                                      ['cut at byte %d of %d in %s (record size %d, header %d, %d complete records)' % (k, len(full), fn, rec, H, m)] + d[:2]))
                        break
            # correspondence with the Lean reader
            if ctx.lean is not None:
                rr = ctx.lean.call({'op': 'readfile', 'hex': full[:k].hex(), 'H': H, 'P': P, 'chunked': chunked})
                if 'exc' in rr:
                    if exc is None:
                        probs.append(('disagree', 'model-rejects-impl-accepts:' + case['fmt'], 'cut at byte %d of %s' % (k, fn)))
                elif 'cfgs' in rr:
                    if len(rr['cfgs']) != m:
                        probs.append(('disagree', 'model-record-count:' + case['fmt'], 'cut %d: model %d records, expected %d' % (k, len(rr['cfgs']), m)))
                    if inside_payload:
                        probs.append(('disagree', 'model-accepts-cut-in-payload:' + case['fmt'], 'cut %d' % k))
            if len(probs) > 6:
                break
    finally:
        shutil.rmtree(root, ignore_errors=True)
    return probs


def check_sfcf(ctx, case):
    probs = []
    rng = _random.Random(case['seed'])
    root = tempfile.mkdtemp(prefix='c18_', dir='/dev/shm' if os.path.isdir('/dev/shm') else None)
    try:
        info = c17.write_set(case, root)
        lay = case['fmt'][-1]
        reps = {int(k): v for k, v in case['reps'].items()}
        r = sorted(reps)[case['which'] % len(reps)]
        c = reps[r][case['which'] % len(reps[r])]
        nm = case['corrs'][case['want']][0]
        if case.get('multi_keys'):
            nm = 'f_A' if case['multi_keys'][0] == 'fA_wf' else 'f_1'
        elif case.get('multi'):
            nm = ['f_1', 'f_A'][case['which'] % 2]
        if lay == 'c':
            path = os.path.join(root, 'data', 'data_r%d' % r, 'data_r%d_n%d' % (r, c))
        elif lay == 'o':
            path = os.path.join(root, 'data', 'data_r%d' % r, 'cfg%d' % c, nm)
        else:
            path = os.path.join(root, 'data', 'data_r%d.%s' % (r, nm))
        full = open(path, 'rb').read()
        lines = full.split(b'\n')
        line_ends = []
        pos = 0
        for l in lines:
            pos += len(l) + 1
            line_ends.append(min(pos, len(full)))
        if ctx.tier == 'thorough':
            offs = list(range(len(full)))
        else:
            offs = set(line_ends) | set(e - 1 for e in line_ends if e > 0) | set(e - 3 for e in line_ends if e > 3)
            offs |= set(rng.randrange(len(full)) for _ in range(60))
            # inside the data lines
            for i, l in enumerate(lines):
                if l[:1] in (b' ', b'+', b'-') and len(l) > 10:
                    for _ in range(2):
                        offs.add(line_ends[i] - 1 - rng.randrange(1, len(l)))
            offs = sorted(o for o in offs if 0 <= o < len(full))
        ctx.count('offsets', len(offs))
        if lay == 'o' and ctx.lean is not None and not case.get('multi_keys') and not case.get('multi'):
            probs += tie_text_block(ctx, case, path, full, offs)
        for k in offs:
            open(path, 'wb').write(full[:k])
            try:
                res = c17.read_and_expect(ctx, dict(case, sel={}), root, info)
                exc = None
            except Exception as e:
                res, exc = None, e
            if exc is None:
                for label, got, exp in res:
                    if lay == 'a':
                        # appended layout: the complete runs before the cut form a valid shorter file
                        sub = {n: {cc: v for cc, v in t.items() if cc in got.get(n, {})} for n, t in exp.items()}
                        ok_prefix = all(sorted(got.get(n, {})) == sorted(reps_prefix(reps, n, got)) for n in exp)
                        d = c17.cmp_tab(got, sub, label) if ok_prefix else ['configurations are not a prefix of the stored ones']
                    else:
                        d = c17.cmp_tab(got, exp, label)
                    if d:
                        probs.append(('violation', 'truncated-wrong-numbers:' + case['fmt'], ['cut at byte %d of %d in %s' % (k, len(full), os.path.basename(path))] + d[:2]))
                        break
            if len(probs) > 4:
                break
    finally:
        shutil.rmtree(root, ignore_errors=True)
    return probs


def tie_text_block(ctx, case, path, full, offs):
    """the block reader of the separate layout (`_read_o_file`) against PV/Model/Text.lean at every cut: same
    accept / refuse, and the same T data lines when accepted"""
    import pyerrors.input.sfcf as sfin
    probs = []
    nm, quarks, wf, wf2, bb = case['corrs'][case['want']]
    T = 1 if bb else case['T']
    # where the requested block's data lines start in the complete file
    start, cur = None, {}
    for i, l in enumerate(full.decode().split('\n')):
        w = l.split()
        if l.startswith('[correlator]'):
            cur = {}
        elif len(w) >= 2 and w[0] in ('name', 'quarks', 'wf', 'wf_2'):
            cur[w[0]] = ' '.join(w[1:])
        elif l in ('corr_t', 'corr'):
            if cur.get('name') == nm and cur.get('quarks') == quarks and int(cur.get('wf', -1)) == wf and (not bb or int(cur.get('wf_2', -1)) == wf2):
                start = i + 1
                break
    if start is None:
        ctx.count('text-tie:block-not-located')
        return probs
    key = sfin._specs2key(nm, quarks, '0', str(wf), str(wf2))
    intern = {nm: {'T': T, 'single': bool(bb), 'spec': {quarks: {'0': {str(wf): {str(wf2): {'start': start}}}}}}}
    d = os.path.dirname(path)
    try:
        for k in offs:
            open(path, 'wb').write(full[:k])
            try:
                got = ('ok', [float(v) for v in sfin._read_o_file(d, nm, [key], intern, '2.0', 0)[key]])
            except Exception as e:
                got = ('exc', type(e).__name__)
            r = ctx.lean.call({'op': 'textblock', 'text': full[:k].decode('latin-1'), 'start': start, 'T': T})
            ctx.count('text-tie:' + ('accepted' if got[0] == 'ok' else 'refused'))
            if '_err' in r:
                probs.append(('disagree', 'lean-driver-error', r['_err']))
                break
            if 'exc' in r:
                if got[0] == 'ok':
                    probs.append(('disagree', 'text-block', 'cut at %d: implementation accepts, model refuses (EOF)' % k))
                    break
            else:
                try:
                    want = [float(l.split()[(0 if bb else 1)]) for l in r['lines']]
                except Exception:
                    want = None            # a complete line that is no data line: the implementation raises on it as well
                if got[0] == 'ok' and want != got[1]:
                    probs.append(('disagree', 'text-block', 'cut at %d: implementation %r, model lines %r' % (k, got[1][:3], r['lines'][:3])))
                    break
                if got[0] != 'ok' and want is not None:
                    probs.append(('disagree', 'text-block', 'cut at %d: model accepts %d lines, implementation raises %s' % (k, len(r['lines']), got[1])))
                    break
    finally:
        open(path, 'wb').write(full)
    return probs


def reps_prefix(reps, name, got):
    r = int(name.split('|r')[1])
    n = len(got.get(name, {}))
    return reps[r][:n]


def check_archive(ctx, case):
    probs = []
    rng = _random.Random(case['seed'])
    nprng = np.random.default_rng(case['seed'])
    import pyerrors.input.json as jio
    import pyerrors.input.dobs as dio
    d = tempfile.mkdtemp(prefix='c18a_', dir='/dev/shm' if os.path.isdir('/dev/shm') else None)
    try:
        obs = [pe.Obs([nprng.normal(1.0, 0.1, 12)], ['A|r1']) for _ in range(3)]
        kind = case['archive']
        with quiet(), warnings.catch_warnings():
            warnings.simplefilter('ignore')
            if kind == 'json.gz':
                jio.dump_to_json(obs, os.path.join(d, 'x'), gz=True)
                path = os.path.join(d, 'x.json.gz')
                load = lambda p: jio.load_json(p[:-8], gz=True, verbose=False)  # noqa: E731
            elif kind == 'json':
                jio.dump_to_json(obs, os.path.join(d, 'x'), gz=False)
                path = os.path.join(d, 'x.json')
                load = lambda p: jio.load_json(p[:-5], gz=False, verbose=False)  # noqa: E731
            elif kind == 'xml.gz':
                dio.write_dobs(obs, os.path.join(d, 'x'), 'nm')
                path = os.path.join(d, 'x.xml.gz')
                load = lambda p: dio.read_dobs(p[:-7])  # noqa: E731
            else:
                import pandas as pd
                import pyerrors.input.pandas as pdio
                df = pd.DataFrame({'a': [1, 2, 3], 'o': obs})
                pdio.dump_df(df, os.path.join(d, 'x'), gz=True)
                path = os.path.join(d, 'x.csv.gz')
                load = lambda p: pdio.load_df(p[:-7], gz=True)  # noqa: E731
            full = open(path, 'rb').read()
            if ctx.tier == 'thorough':
                offs = list(range(len(full)))
            else:
                offs = sorted(set(list(range(0, 20)) + list(range(len(full) - 40, len(full))) + [rng.randrange(len(full)) for _ in range(60)]))
                offs = [o for o in offs if 0 <= o < len(full)]
            ctx.count('offsets', len(offs))
            for k in offs:
                open(path, 'wb').write(full[:k])
                try:
                    r = load(path)
                    probs.append(('violation', 'truncated-archive-accepted:' + kind, 'cut at byte %d of %d loaded without error' % (k, len(full))))
                    if len(probs) > 3:
                        break
                except Exception:
                    pass
    finally:
        shutil.rmtree(d, ignore_errors=True)
    return probs


def check_case(ctx, case):
    if case['kind'] == 'binary':
        return check_binary(ctx, case)
    if case['kind'] == 'sfcf':
        return check_sfcf(ctx, case)
    return check_archive(ctx, case)


def gen_case(ctx):
    rng = ctx.rng
    k = rng.random()
    if k < 0.6:
        c = c17.gen_case(ctx, fmt=rng.choice(BIN))
        # small sets keep the sweep cheap
        c['reps'] = {r: v[:rng.randint(6, 9)] for r, v in list(c['reps'].items())[:2]}
        c.update({'kind': 'binary', 'seed': rng.getrandbits(24), 'which': rng.getrandbits(8), 'sel': {}})
        return c
    if k < 0.85:
        c = c17.gen_case(ctx, fmt=rng.choice(['sfcf_c', 'sfcf_o', 'sfcf_a']))
        c['reps'] = {r: v[:rng.randint(5, 7)] for r, v in list(c['reps'].items())[:2]}
        if rng.random() < 0.5:
            c['want'] = 4 if c['fmt'] != 'sfcf_a' else 4     # the last block of a file: nothing follows its data lines
        if c['fmt'] != 'sfcf_a' and rng.random() < 0.4:
            # several keys of one correlator name in one call, listed against the order of the blocks in the file
            c['multi_keys'] = [rng.choice(['fA_wf', 'f1_wf2']), rng.random() < 0.25]
        c.update({'kind': 'sfcf', 'seed': rng.getrandbits(24), 'which': rng.getrandbits(8), 'sel': {}})
        ctx.count('sfcf-call=' + ('multi-keys' if c.get('multi_keys') else 'multi' if c.get('multi') else 'single'))
        return c
    return {'kind': 'archive', 'archive': rng.choice(['json.gz', 'xml.gz', 'csv.gz', 'json']), 'seed': rng.getrandbits(24)}


def run(ctx):
    n = ctx.budget(70, 300)
    corpus = os.path.join(os.path.dirname(os.path.dirname(os.path.dirname(os.path.abspath(__file__)))), 'corpus', 'C18')
    cases = []
    if os.path.isdir(corpus):
        for fn in sorted(os.listdir(corpus)):
            cases.append(json.load(open(os.path.join(corpus, fn)))['case'])
    for _ in range(n):
        cases.append(gen_case(ctx))
    for case in cases:
        ctx.count('kind=' + case['kind'])
        ctx.count('fmt=' + case.get('fmt', case.get('archive', '?')))
        ctx.case(case, sample={k: v for k, v in case.items() if k != 'corrs'})
        for (kind, key, info) in check_case(ctx, case):
            (ctx.violation if kind == 'violation' else ctx.disagree)(key, {'case': case, 'info': info})
        if len(ctx.violations) + len(ctx.disagreements) > 25:
            break
    ctx.evaluations = max(ctx.evaluations, ctx.hist.get('offsets', 0))
