#!/usr/bin/env python3
"""For `fixed:` entries of known_findings.txt: undo the fix commit in /repo's working tree (reverse patch of
that commit, package files only), run the quick check of its property, restore the tree.  A fixed entry
suppresses nothing, so the check has to report the violation again when the defect returns.

usage: driver/revert_fix.py [hash ...]          (default: every fixed: line)
writes seeded/FIXES.json  {hash: {property, reported, line}}"""
import json
import os
import re
import subprocess
import sys

ROOT = os.path.dirname(os.path.dirname(os.path.abspath(__file__)))
REPO = os.environ.get('PYERRORS_REPO', '/repo')


def sh(cmd, **kw):
    return subprocess.run(cmd, shell=True, capture_output=True, text=True, **kw)


def main():
    want = sys.argv[1:]
    entries = []
    for line in open(os.path.join(ROOT, 'known_findings.txt')):
        m = re.match(r'fixed: property=(C\d+) ([0-9a-f]{7,})', line)
        if m and (not want or m.group(2) in want):
            entries.append((m.group(1), m.group(2)))
    out_path = os.path.join(ROOT, 'seeded', 'FIXES.json')
    res = json.load(open(out_path)) if os.path.exists(out_path) else {}
    assert sh('git -C %s status --porcelain' % REPO).stdout.strip() == '', 'repo not clean'
    for prop, h in entries:
        if os.environ.get('RESUME') and h in res and res[h].get('reported'):
            continue
        p = sh('git -C %s show %s --format= -- pyerrors | git -C %s apply -R' % (REPO, h, REPO))
        if p.returncode != 0:
            sh('git -C %s checkout -- .' % REPO)
            p = sh('cd %s && git show %s --format= -- pyerrors | patch -p1 -R -F3 --no-backup-if-mismatch -r /dev/null' % (REPO, h))
        if p.returncode != 0:
            res[h] = {'property': prop, 'reported': None, 'line': 'reverse patch does not apply: ' + p.stderr.strip()[:200]}
            sh('git -C %s checkout -- .' % REPO)
            print(h, prop, 'reverse patch does not apply (a later fix touches the same lines)')
            continue
        try:
            try:
                r = sh('timeout 600 ./check %s --tier quick' % prop, cwd=ROOT)
                vio = [ln for ln in r.stdout.splitlines() if ln.startswith('VIOLATION')]
                last = (r.stdout.strip().splitlines() or ['(no output; exit %d)' % r.returncode])[-1][:200]
                if r.returncode == 124:
                    last = 'check did not finish within 600 s on the unrepaired tree (exit 2 by the timeout convention)'
                res[h] = {'property': prop, 'reported': bool(vio) and r.returncode == 1, 'line': vio[0] if vio else last}
            except Exception as e:
                res[h] = {'property': prop, 'reported': False, 'line': 'revert_fix: %r' % (e,)}
        finally:
            sh('git -C %s checkout -- .' % REPO)
        print(h, prop, 'reported' if res[h]['reported'] else 'MISSED', res[h]['line'][:120])
        json.dump(res, open(out_path, 'w'), indent=1, sort_keys=True)
    json.dump(res, open(out_path, 'w'), indent=1, sort_keys=True)


if __name__ == '__main__':
    main()
