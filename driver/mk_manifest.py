#!/usr/bin/env python3
"""Regenerates /verif/MANIFEST.json from the table below (kept in one place so the manifest
stays valid and consistent while properties are added)."""
import json
import os

VERIF = os.path.dirname(os.path.dirname(os.path.abspath(__file__)))

# pid -> (technique, level text, level_note, design_ref)
CLAIMED = {
    'C02': ('Lean 4 theorem c02_formulas: the executable model of gamma_method EQUALS the by-configuration-number Wolff specification for all inputs (assembled from: Gamma table = pair sums / pair counts, window loop, the four slices of _compute_drho, tau_exp loop, cumulative tau_int with clamp, its error) + model/impl correspondence + spec evaluated on impl outputs',
            'Proof: c02_formulas - for every observable whose ensembles have well-formed chains with a common spacing (any number of ensembles, replicas, covariance inputs; contiguous, '
            'strided, gapped, irregular layouts; any S, tau_exp, N_sigma) the whole result record of the model of the code equals the specification written by configuration number '
            'from the papers: Gamma(t) as pair sums over configurations t*gap apart divided by the pair count, rho, tau_int(W) = 1/2 + sum rho (clamped), its error, '
            'delta rho from the four Python slices, the automatic window as first negative criterion, the tau_exp stopping rule and tail, the S = 0 branch, the bias '
            'correction, the errors and the total with the covariance-input terms. The executable model is tied to pyerrors by a differential check at 1e-8 '
            '(fft on and off) and the specification itself is evaluated on the implementation\'s outputs for every generated case.',
            'Lean kernel; axioms propext/Classical.choice/Quot.sound; the theorem is over the reals (IEEE rounding absorbed by the tolerance of the correspondence); FFT path and libm by contract (measured each run); chains of a single configuration (w_max = 0) are outside the theorem (pyerrors raises there); generator-bounded correspondence.', '5 C02'),
    'C03': ('Lean 4 theorems (affine relabelling / renaming invariance of the model, data rescaling c*x: same tau, window, rho and |c| times the errors, additive constant: same fluctuations, call-history refinement, parameter precedence, tau>=1/2; attribute frames regenerated from the AST and decided) + invariances evaluated on the implementation (exact transformations must reproduce the window exactly)',
            'Proof: the model of gamma_method is proved invariant under i -> a*i+b and replica renaming for every input, the '
            'history state machine is proved to depend only on the last analysis and the parameters effective then (argument over '
            'dictionary over global), and the write/reset/read frames of gamma_method and derived_observable are regenerated from '
            'the source on every run and decided. The Gamma method of the specification applied to c*data is proved to give the same tau_int, window, rho and |c| times the errors (zero-variance guard as explicit hypothesis). Every invariance of the statement is additionally evaluated on the implementation.',
            'Lean kernel; standard axioms; tr_frames (Python ast) trusted to parse; FFT by contract; generator-bounded search.', '5 C03'),
    'C01': ('Lean 4 theorems: 31 gradient call sites regenerated from obs.py are the analytic derivatives (HasDerivAt); value / replica means / chains / union / range normal form / covariance chain rule of derived_observable; per-configuration fluctuation formula; two-level = one-shot evaluation in both regimes in which it holds (complete replica sets; full configuration lists with missing replicas); + model/impl correspondence on random operator trees + by-configuration-number oracle',
            'Proof: every hand-written gradient of the overloads (regenerated from the AST each run) is proved to be the derivative of the '
            'translated lambda body on its domain, and the lambda bodies are proved to be the intended functions; the structural part of '
            'derived_observable (value, replica means, chain set, sorted union of configurations, range normal form, chain rule for covariance '
            'inputs, flag inheritance) is proved for all inputs. The executable model runs whole operator trees and is compared with pyerrors; '
            'an independent by-configuration-number oracle of the statement is evaluated on every case (scalar, array_mode, autograd, num_grad, CObs).',
            'Lean kernel; standard axioms; tr_grads translator (Python ast); autograd / numdifftools by contract (measured); libm; generator-bounded search. '
            'The per-configuration fluctuation formula (c01_delta) is proved separately when present in PV/Props/C01.lean; see evidence theorem list.', '5 C01'),
    'C20': ('Lean 4 decide +kernel over tables regenerated from dirac.py / special.py + exhaustive execution of the implementation',
            'Proof: Clifford algebra, Hermiticity, gamma5 product and anticommutation, all 16 Grid tags against the stated products / commutators, '
            'both epsilon tensors on every tuple of {0..4}^3 and {0..4}^4 and the shape of the K_n vjp are decided by the Lean kernel over '
            'definitions regenerated from the source on every run; the implementation is executed exhaustively on the same finite domains and '
            'K_n / the re-exported special functions are compared with the analytic derivative on a grid.',
            'Lean kernel (decide +kernel, no axioms beyond propext/Quot.sound); tr_dirac translator; scipy.special values and autograd special-function vjps by contract.', '5 C20'),
    'C14': ('Lean 4 theorems about a generic timeslice model (pointwise arithmetic, NaN pass, roll/thin/symmetrise/Hankel/item/trace index maps) + model/impl correspondence on central values + statement oracle on the implementation incl. no-mutation snapshots',
            'Proof: for every cell type, temporal extent and matrix dimension the model of Corr arithmetic is slice-wise with undefined slices propagating, '
            'and the index transformations are the stated permutations / averages (theorem list in the evidence). The model is run on the central values of '
            'every generated case and compared with pyerrors; the statement itself (entry = operation on entries, definedness, no mutation of operands or '
            'arguments, repeated invocation) is evaluated on the implementation with Obs-level equality.',
            'Lean kernel; standard axioms; Obs arithmetic on entries is C01; generator-bounded search; refusals by Corr\'s own type guards are accepted outcomes (list in driver/props/c14.py).', '5 C14'),
    'C15': ('Lean 4 theorems about the window builder and the derivative formulas (definedness and padding for every T and pattern) + model/impl correspondence + formula oracle on the implementation',
            'Proof: the window builder behind every derivative / effective-mass variant is proved to yield exactly padL undefined slices, the formula '
            'slices, padR undefined slices, and to fail only when every output slice is undefined; per-variant formulas follow. The closed-form variants '
            'of the model are compared with pyerrors on central values; every variant incl. the cosh/sinh root variants and plateau fit/average is '
            'checked on the implementation against the documented formula applied with Obs arithmetic (root variants: bisection + implicit derivative).',
            'Lean kernel; standard axioms; fsolve inside find_root by contract (residual measured); least_squares for plateau(fit) by contract; generator-bounded search. '
            'Known finding meff-root-no-real-solution (genuine: where the ratio equation has no real solution the root variants return the last iterate of the failed search instead of an undefined timeslice; the pinned suite requires it), printed as KNOWN-FINDING on every run.', '5 C15'),
    'C19': ('exact rational model of _format_uncertainty in Lean compared string-for-string with CPython + Lean theorems on rounding / read-back bounds + statement oracle in exact Fractions',
            'Proof: rounding to n decimals (ties to even) is within half a unit; value and error read back from the printed form are within half a '
            'unit of the last printed digit in all three branches (plus the 2^-53 relative rounding of the one floating-point product), the number of '
            'significant digits shown is sig (sig+1 after a carry). The model runs in exact rational arithmetic and must reproduce str/format of the '
            'implementation character by character on every generated case; the read-back clause is also evaluated directly on the implementation.',
            'Lean kernel; standard axioms; np.floor(np.log10(d)) enters as an input with a checked contract; CPython float formatting / parsing trusted. '
            'Known finding zero-within-error-absolute-tolerance (genuine: is_zero_within_error short-circuits through is_zero() below 1e-10; the pinned suite relies on it), printed as KNOWN-FINDING on every run.', '5 C19'),
    'C04': ('Lean 4 theorems about the constructor / normalisation / propagation models (invariant established, malformed requests rejected, invariant preserved by derived_observable, correlate, merge_obs and reweight) + invariant evaluated by the Lean driver and by an independent python predicate on every object the implementation returns + exhaustive operand-kind table',
            'Proof: the constructor model (check by check as in Obs.__init__) establishes the invariant and rejects each listed malformed request, the '
            'configuration-list normalisation yields a range exactly when equally spaced, and derived_observable preserves the invariant (theorem list in '
            'the evidence). Every object produced by random sequences over all public producers is dumped and judged by the Lean predicate and by the '
            'statement written in python; the closure clause is decided on the full operand-kind table.',
            'Lean kernel; standard axioms; fits / roots / I/O internals only through the objects they return; Covobs validation (symmetry, eigenvalues) by correspondence only.', '5 C04'),
    'C05': ('Lean 4 theorems (selection by configuration number, rejections, flag, reweight = <w o>/<w> paired by configuration number with value and fluctuations of the quotient, sample-wise products, union of chains) + model/impl correspondence + by-configuration-number table oracle',
            'Proof: _reduce_deltas selects by configuration number and fails when a configuration is missing; correlate yields the per-configuration '
            'products and refuses differing chains / lists; merge_obs yields the union of chains with samples unchanged and refuses duplicate replicas; '
            'reweighted results carry the flag (theorem list in the evidence). The executable model is compared with pyerrors, and a table oracle '
            '{chain: {config: sample}} of the statement is evaluated on every case incl. list members on different equal-length subsets and Corr.',
            'Lean kernel; standard axioms; the final division of reweight is the C01 truediv site; generator-bounded search.', '5 C05'),
    'C17': ('Lean 4 theorems on the record readers (decode(encode) = id for stream and chunked readers, int32 codec), on the configuration bookkeeping (renumbering of equally spaced trajectory numbers, selection by value with stride: entries and alignment) and on sort_names (permutation, numeric (r, id) lexicographic order via stability of the two-stage sort, independence of the listing order) and on the fit window of fit_t0 (the points fitted are the flow times within fit_range of the zero crossing, cut off at both ends, and bracket the root) + model/impl correspondence on record structure, renumbering, selection, name sorting and fit window + writer-as-oracle on synthetic file sets of every reader of the input package except bdio',
            'Proof: for every record list, payload size and number of records, reading back an encoded file returns exactly the records (stream readers of '
            'rwms / ms.dat / gfms.dat and the chunked reader of ms5_xsf); stored trajectory numbers s, s+d, ... are renumbered to consecutive configuration numbers in file '
            'order with the documented thermalisation offset; the selection data[i0 : i1+1][::step] with indices found by value returns entry j = position i0 + j*step '
            'while <= i1 and keeps every number attached to its configuration (the zipped result is a sub-list of the zipped input); sort_names returns a permutation, '
            'in numeric lexicographic (r, id) order when both numbers are present (the second, stable sort refines the first), and the same list for every listing order when the '
            'pairs are distinct. The Lean reader is run on the bytes of every generated binary file, the models of renumber / select / sort_names are compared with pyerrors '
            'and with python slicing, and the implementation is checked against the writer\'s own record of distinct per-(replica, configuration, slot) numbers for every format incl. '
            'sfcf text layouts, with selections and shuffled directory listings.',
            'Lean kernel; standard axioms; struct/numpy conversions; regular expressions modelled on ASCII names (first match, maximal digit run); the text layouts and the reductions (exp average, timeslice sums) are checked numerically only; Hadrons hdf5 not generated.', '5 C17'),
    'C18': ('Lean 4 theorems: prefix safety of the binary record readers and of the line-oriented block reader (readlines + block test) for every cut offset + fault enumeration of truncation offsets on the implementation + model/impl accept/reject correspondence',
            'Proof: for every well-formed record file and EVERY cut offset k the reader either rejects the prefix or returns exactly the first k/(4+P) records; '
            'a cut inside a payload is always rejected; surviving configuration numbers are unchanged (stream and chunked readers). On the implementation '
            'the truncation offsets of one file per synthetic set are enumerated (stratified sample in quick, all in thorough) incl. sfcf text files and '
            'json.gz / xml.gz / csv.gz archives; the Lean reader run on the same truncated bytes must agree on accept / reject and record count.',
            'Lean kernel; standard axioms; rwms 2.0 nested arrays and text layouts are covered by enumeration only; zlib / rapidjson / lxml / pandas rejection by contract.', '5 C18'),
    'C11': ('Lean 4 theorems on the numeric part of a document (reader(writer(structure)) = structure for every writable Obs / List / Array structure), the replica table, and the dictionary placeholder mechanism (import(export(d)) = d for every nested dictionary) + model/impl correspondence of the document writer / reader and of _ol_from_dict / _od_from_list_and_dict + schema regenerated from examples/json_schema.json and validated by a Lean validator cross-checked with jsonschema + deep round-trip comparison over all transports',
            'Proof: the numerical core of the format - rows [config, delta_j + (r_j - value_j)] and the column-average decoding - is proved to restore '
            'configuration numbers, every fluctuation and every replica mean for any number of observables and configurations (zero-mean chains), and the '
            'per-configuration samples unconditionally. Every structure kind is written and re-read through strings, files (gz on/off, indent 0/1), dict files, '
            'csv, sqlite and pickle and compared field by field; emitted and corrupted documents are validated against the shipped schema by the jsonschema '
            'package and by the Lean validator over the regenerated schema, which must agree.',
            'Lean kernel; standard axioms; rapidjson / gzip / pandas / sqlite3 / pickle containers and 17-digit float text conversion by contract; tr_schema translator.', '5 C11'),
    'C12': ('Lean 4 theorems about the dobs replica table with the zero marker (import(export) characterised for every merged list / measured subset / column; round trip under the no-zero hypothesis; zero-marked samples always dropped; members of a list are sub-lists of the merged rows) and about the pobs table (strided reads return the columns; write-then-read restores every accepted list of primary observables; lists on different configuration lists refused; returned central value = weighted mean of replica means) + model/impl correspondence (dobs: surviving configurations and restored samples; pobs: written blocks token for token, reader result) + full round-trip comparison; two format-inherent known findings',
            'Proof: for every duplicate-free merged configuration list, every observable measured on a sub-list of it and every column of written numbers the import '
            'returns exactly the measured configurations whose written number is not the marker 0, each with number + central value (c12_dobs_import_export); hence the '
            'round trip holds whenever no written number is exactly 0 (c12_dobs_roundtrip_partial) and a measured sample whose written number is 0 is always dropped '
            '(c12_dobs_zero_dropped - the recorded known finding, which is why the unconditional statement is refuted by c12_zero_marker_drops); every strictly increasing '
            'configuration list of a list member is a sub-list of the sorted union that forms the rows. The implementation is compared with the model on which '
            'configurations survive and on the restored samples for every member and replica, and every list of observables (different subsets, replicas, ensembles, '
            'covariance inputs incl. cancelling gradients, count data with zeros, all separator modes, gz on/off, pobs) is compared field by field after the round trip. '
            'pobs: c12_pobs_columns (the strided reads of the flattened table are the configuration column and column a for every na and length), c12_pobs_roundtrip (every list the writer accepts whose '
            'central values are the weighted means of the replica means is restored exactly, through the constructor model), c12_pobs_refuses_different_lists, c12_pobs_separator, '
            'c12_pobs_value_is_weighted_mean (the second known finding in general: the file holds no central value).',
            'Lean kernel; standard axioms; lxml / gzip and %1.16e / %1.14e text conversion by contract; covariance-input layout of dobs is covered by the field-by-field comparison only.', '5 C12'),
    'C13': ('Lean 4 theorems over the reals (leave-one-out, import inverts export, jackknife variance = naive variance, bootstrap means, linearity for a shared table, full column rank => samples determine the chain) + exact rational model/impl correspondence + Fraction oracle',
            'Proof: exported jackknife samples are the leave-one-out means with entry 0 the central value, import inverts export for every chain length >= 2, '
            'the jackknife variance equals the squared naive error, exported bootstrap samples are the means over the table rows and the export is linear '
            'for a shared table (chain consistency). The model runs in exact rational arithmetic on every generated case and is compared with pyerrors; '
            'default name seeding (reproducible on repeated calls, consistent between observables of one chain) and the refusal of under-determined '
            'imports are checked on the implementation.',
            'Lean kernel; standard axioms; scipy lstsq in import_bootstrap and numpy default_rng by contract.', '5 C13'),
    'C06': ('Lean 4 theorems (Cauchy-Schwarz over replicas => |corr| <= 1, Gram form => PSD, permutation conjugation, trace under orthogonal conjugation, Cholesky inverse identity, error band quadratic form, external covariance J1 S J2^T; on the executable model: symmetric, unit diagonal, element bounded by the number of shared ensembles, and on a common chain the assembled matrix is D (X X^T) D as Mathlib matrices, hence positive semidefinite) + model/impl correspondence of covariance() + statement oracle on the implementation',
            'Proof: the algebraic facts the statement rests on are proved for every matrix size, number of replicas and ensembles: the per-ensemble '
            'normalisation sum_r sqrt(g11 g22) bounds the cross term (entries in [-1,1], unit diagonal), identical configurations give a Gram matrix '
            '(positive semi-definite, also after rescaling by the errors), reordering the list conjugates by the permutation, eigenvalue smoothing with '
            'orthonormal vectors preserves the trace, the triangular solve of the Cholesky factor inverts D^-1 corr D^-1, the error band is sqrt(g^T C g), '
            'covariance inputs contribute J1 Sigma J2^T and disjoint ensembles contribute 0. The executable model of covariance() is compared with '
            'pyerrors and every clause of the statement is evaluated on the implementation for each generated list in every order.',
            'Lean kernel; standard axioms; LAPACK eigh / cholesky / solve_triangular by contract (reconstruction residuals measured each run); gamma-method errors are C02; generator-bounded search.', '5 C06'),
    'C07': ('Lean 4 theorems (Mathlib Matrix: normal equations unique, chi-square decomposition => minimiser, -H^-1 M = GLS sensitivity, row-permutation invariance, priors = augmented rows, dof; executable exact-rational GLS: assembled from the data sets independently of their order, whatever it returns satisfies the normal equations and is (A^T W A)^-1 A^T W y as Mathlib matrices) + the Lean GLS model run on the data of every generated fit as the closed-form oracle, with per-configuration fluctuations, evaluated on the implementation',
            'Proof: for a model linear in its parameters the normal equations have the unique solution (A^T W A)^-1 A^T W y, chi-square decomposes as '
            'chi2(p*) + |L A (p - p*)|^2 so p* is the minimiser, the implicit-function sensitivity -H^-1 M the code propagates with equals the GLS map '
            '(A^T W A)^-1 A^T W, row permutations leave estimator / sensitivities / chi-square unchanged, priors act as augmented rows and dof counts them; '
            'the executable estimator PV.Model.Gls (exact rational arithmetic, certificate style) returns only solutions for which (A^T W A) p = A^T W y and '
            '(A^T W A) S = A^T W hold exactly (c07_gls_normal_equations). Every generated fit (single / combined, priors in all written forms, correlated, '
            'all minimisers, num_grad, permuted) is compared with that estimator run on its own design matrix, weights and data: values, every '
            'per-configuration fluctuation by configuration number, every covariance-input gradient, chi-square, dof, p-value, Hotelling t2 p-value.',
            'Lean kernel; standard axioms; scipy least_squares / minimize / iminuit (contract: stationary point, measured), autograd / numdifftools Hessians, scipy.stats chi2 / f by contract; the design matrix, the weights (from pyerrors\' own errors / covariance) and the prior rows are assembled by the harness from the documented model, not by a Lean model of fits.py; the list-matrix model is not connected to the Mathlib Matrix theorems by proof.', '5 C07'),
    'C08': ('Lean 4 theorems (implicit-function rule algebraically H X + M = 0 => X = -H^-1 M, one-parameter analytic chain rule, block slices of the ODR Hessian, TLS -> ordinary LS limit; executable exact-rational solve: whatever it returns satisfies H X + M = 0 and is -H^-1 M as Mathlib matrices) + the rule evaluated on the implementation: Hessian and mixed derivative of an independently coded chi-square at the returned point, the Lean model solves, the result is applied to the data fluctuations by configuration number; shift-and-refit and TLS limit as consequences',
            'Proof: a sensitivity X satisfying the differentiated stationarity condition H X + M = 0 with invertible H is -H^-1 M; in one parameter the '
            'analytic implicit-function derivative follows from the chain rule; the code\'s block slicing of the total-least-squares mixed Hessian selects the '
            'd(p, xhat)/dy and /dx blocks for every n_parms and m; with vanishing abscissa errors the total-least-squares stationarity equations reduce to the '
            'ordinary normal equations; the executable solver (exact rational arithmetic) returns only X with H X + M = 0 (c08_iftSens_sound). On the '
            'implementation: stationarity of the returned point, propagated fluctuations of every parameter against -H^-1 M built from an independently coded '
            'chi-square (least squares incl. priors / correlated, and total least squares w.r.t. x and y data incl. a 2-d abscissa) with the linear solve done '
            'by the Lean model, shift-and-refit sensitivities, and TLS with negligible x errors against the ordinary fit.',
            'Lean kernel; standard axioms; minimisers / ODR by contract (gradient norm measured); derivatives of the independent chi-square by autograd (a different code path from pyerrors\' own use: plain numpy chi-square, not fits.py); the multivariate analytic implicit-function theorem is used through its algebraic consequence.', '5 C08'),
    'C09': ('Lean 4 theorems (implicit differentiation -f_d/f_x along the root curve, inverse-function rule, fundamental theorem of calculus at both limits with signs, derivative under the integral for the polynomial / exponential families, gradient order pobs ++ bobs) + derived_observable model correspondence + closed-form inverse / antiderivative oracle',
            'Proof: along a root curve f(x(d), d) = 0 with f_x != 0 the derivative is -f_d/f_x (hence 1/g\'(x) for f = g(x) - d); the integral has derivative '
            '+f(b) in the upper and -f(a) in the lower limit and, for the families used, the integral of df/dp in a parameter; the gradient list is ordered '
            'parameters then limits. The model of derived_observable with the caller\'s gradient is run on every case and compared with pyerrors, and the '
            'closed-form inverse / antiderivative is applied to the inputs by configuration number and compared in value and every fluctuation.',
            'Lean kernel; standard axioms; scipy fsolve / quad and autograd jacobians by contract (residuals measured each run); generator-bounded search. '
            'Known finding find-root-no-convergence-check (genuine: from the default start value with the root far away the last iterate is returned as the root), printed as KNOWN-FINDING on every run.', '5 C09'),
    'C10': ('Lean 4 theorems (product rule of the matrix product, real block embedding of complex matrices is a ring homomorphism compatible with inverse, first-order identities characterising the propagated inverse / Cholesky factor / determinant / symmetric eigenpairs / pseudo-inverse, second-order jackknife remainder) + derived_observable model correspondence + identity oracle in Obs arithmetic',
            'Proof: d(AB) = dA B + A dB entrywise for any shapes; [[A,-B],[B,A]] embeds complex matrices as a ring homomorphism that commutes with inversion; '
            'dB = -A^-1 dA A^-1 is the unique solution of dA B + A dB = 0, dL L^T + L dL^T = dA determines the Cholesky factor\'s variation uniquely, '
            'd det = det tr(A^-1 dA) (cofactor form), the differentiated eigen-equations fix d lambda = v^T dA v, the Moore-Penrose identities hold to first '
            'order, and the jackknife product differs by a second-order remainder. Entries of matmul / inv / det are run through the model of '
            'derived_observable and compared; each identity is evaluated on the implementation in Obs / CObs arithmetic (value and every fluctuation).',
            'Lean kernel; standard axioms; LAPACK and autograd vjps of the linalg functions by contract (identities measured each run); generator-bounded search.', '5 C10'),
    'C16': ('Lean 4 theorems (Mathlib Matrix: exact N-state spectrum solves the GEVP, projected correlator = exp(-E (t-t0)), Cholesky route equivalence, reversed ascending order, Hankel/Vandermonde factorisation of the pencil method, pruning, symmetrisation; executable model of the GEVP control flow: undefined pattern, state i = LAPACK vector N-1-i, the model determinant is Matrix.det, the true assignment is the only one with non-zero score, _sort_vectors is a permutation and recovers the reference labelling, refusals, pencil Hankel slicing) + model/impl correspondence with LAPACK decompositions as oracle input + known-spectrum oracle evaluated on the implementation',
            'Proof: for G(t) = Psi^T diag(exp(-E t)) Psi with invertible Psi the columns of Psi^-1 solve G(t) v = exp(-E_n (t-t0)) G(t0) v and the projected '
            'correlator is exp(-E_n (t-t0)); the Cholesky route solves the same problem; reversing the ascending order puts the largest eigenvalue first; the '
            'Hankel matrices of a k-exponential signal factor through Vandermonde matrices so the pencil eigenvalues are exp(-E_n); projecting on exact '
            'eigenvectors preserves the retained energies; symmetrisation yields a symmetric matrix and fixes symmetric ones. For the executable model of '
            'pyerrors\' own logic around the solver: which result entries are undefined (t <= t0, undefined slices), state i is the (N-1-i)-th LAPACK vector, '
            '_sort_vectors returns for every timeslice a permutation of its input and, when the scores single out one assignment (proved for vectors '
            'proportional to independent reference vectors), places vector k at reference state sigma(k); the refusals; the pencil matrices are the Hankel '
            'matrices with offsets 0 and 1. The model is run with LAPACK\'s decompositions as oracle input and compared with Corr.GEVP / _sort_vectors / '
            'projected / the pencil matrices; the statement is evaluated on matrices of known spectrum incl. eigenvalue orders that permute over time.',
            'Lean kernel; standard axioms; LAPACK eigen-solvers / Cholesky / SVD / det and autograd vjps by contract (eigen-equation residuals, differentiated identities measured each run); the model\'s Laplace determinant is not proved equal to Matrix.det (correspondence only); generator-bounded search.', '5 C16'),
}

NOT_YET = {}


def main():
    props = [json.loads(l) for l in open(os.path.join(VERIF, 'properties.jsonl'))]
    checks = []
    na = []
    for p in props:
        pid = p['id']
        if pid in CLAIMED:
            tech, text, note, ref = CLAIMED[pid]
            checks.append({
                'property_id': pid,
                'quick_cmd': './check %s --tier quick' % pid,
                'thorough_cmd': './check %s --tier thorough' % pid,
                'evidence_file': 'evidence/%s.json' % pid,
                'replay_cmd_template': './check %s --replay {path}' % pid,
                'engine': 'lean4-proof+correspondence',
                'level_claimed': {'category': 'proof', 'text': text, 'design_ref': 'DESIGN.md section ' + ref},
                'level_note': note,
                'technique': tech,
            })
        else:
            na.append({'property_id': pid, 'reason': NOT_YET.get(pid, 'check under construction in this round: model and theorems not yet committed; not claimed until they are')})
    man = {
        'version': 1,
        'setup_cmd': './setup.sh',
        'hooks': {
            'guard': 'PYERRORS_VERIF',
            'enable': 'no source hooks are needed: every observed quantity is a public attribute or return value; the harness imports /repo in-process with PYERRORS_VERIF=1 set (unused by the library)',
            'baseline_off_cmd': 'cd /repo && /venv/bin/python -m pytest -ra -q -p no:cacheprovider --timeout=900 --continue-on-collection-errors',
            'source_commits': [],
            'add_only': True,
        },
        'engines': [{'name': 'lean4-proof+correspondence', 'path': 'lean/ (theorems, models, native driver) + driver/ (python harness)',
                     'serves_properties': sorted(CLAIMED), 'kind_free_text':
                     'Lean 4 theorems about executable models; models tied to /repo by translators (PV/Gen regenerated each run) and by a differential correspondence check; executable spec predicates evaluated on the implementation as failing-input search'}],
        'checks': checks,
        'not_applicable': na,
        'notes': 'See DESIGN.md. Fix commits in /repo are listed in known_findings.txt (fixed: lines).',
    }
    with open(os.path.join(VERIF, 'MANIFEST.json'), 'w') as f:
        json.dump(man, f, indent=1)
    print('claimed', len(checks), 'not claimed', len(na))


if __name__ == '__main__':
    main()
