#!/usr/bin/env python3
"""Regenerates /verif/MANIFEST.json from the table below (kept in one place so the manifest
stays valid and consistent while properties are added)."""
import json
import os

VERIF = os.path.dirname(os.path.dirname(os.path.abspath(__file__)))

# pid -> (technique, level text, level_note, design_ref)
CLAIMED = {
    'C02': ('Lean 4 theorems (model = Wolff spec, piecewise, all inputs) + model/impl correspondence + spec evaluated on impl outputs',
            'Proof: the code\'s window loops, the four slices of _compute_drho, the tau_exp loop and the expand-shift-dot '
            'autocorrelation sum are proved equal to the by-configuration-number Wolff specification for every input size; '
            'the executable model is tied to pyerrors by a differential check at 1e-8 and the specification itself is evaluated '
            'on the implementation\'s outputs for every generated case.',
            'Lean kernel; axioms propext/Classical.choice/Quot.sound; FFT path and libm by contract (measured each run); '
            'IEEE rounding absorbed by tolerance; generator-bounded correspondence.', '5 C02'),
    'C03': ('Lean 4 theorems (affine relabelling / renaming invariance of the model, call-history refinement, parameter precedence, tau>=1/2; attribute frames regenerated from the AST and decided) + invariances evaluated on the implementation',
            'Proof: the model of gamma_method is proved invariant under i -> a*i+b and replica renaming for every input, the '
            'history state machine is proved to depend only on the last analysis and the parameters effective then (argument over '
            'dictionary over global), and the write/reset/read frames of gamma_method and derived_observable are regenerated from '
            'the source on every run and decided. Every invariance of the statement is additionally evaluated on the implementation.',
            'Lean kernel; standard axioms; tr_frames (Python ast) trusted to parse; FFT by contract; generator-bounded search.', '5 C03'),
}

NOT_YET = {}


def main():
    props = [json.loads(l) for l in open(os.path.join(VERIF, 'properties.jsonl'))]
    checks = []
    na = []
    for p in props:
        pid = p['id']
        if pid in CLAIMED:
            tech, text, note, ref = CLAIMED[pid]
            checks.append({
                'property_id': pid,
                'quick_cmd': './check %s --tier quick' % pid,
                'thorough_cmd': './check %s --tier thorough' % pid,
                'evidence_file': 'evidence/%s.json' % pid,
                'replay_cmd_template': './check %s --replay {path}' % pid,
                'engine': 'lean4-proof+correspondence',
                'level_claimed': {'category': 'proof', 'text': text, 'design_ref': 'DESIGN.md section ' + ref},
                'level_note': note,
                'technique': tech,
            })
        else:
            na.append({'property_id': pid, 'reason': NOT_YET.get(pid, 'check under construction in this round: model and theorems not yet committed; not claimed until they are')})
    man = {
        'version': 1,
        'setup_cmd': './setup.sh',
        'hooks': {
            'guard': 'PYERRORS_VERIF',
            'enable': 'no source hooks are needed: every observed quantity is a public attribute or return value; the harness imports /repo in-process with PYERRORS_VERIF=1 set (unused by the library)',
            'baseline_off_cmd': 'cd /repo && /venv/bin/python -m pytest -ra -q -p no:cacheprovider --timeout=900 --continue-on-collection-errors',
            'source_commits': [],
            'add_only': True,
        },
        'engines': [{'name': 'lean4-proof+correspondence', 'path': 'lean/ (theorems, models, native driver) + driver/ (python harness)',
                     'serves_properties': sorted(CLAIMED), 'kind_free_text':
                     'Lean 4 theorems about executable models; models tied to /repo by translators (PV/Gen regenerated each run) and by a differential correspondence check; executable spec predicates evaluated on the implementation as failing-input search'}],
        'checks': checks,
        'not_applicable': na,
        'notes': 'See DESIGN.md. Fix commits in /repo are listed in known_findings.txt (fixed: lines).',
    }
    with open(os.path.join(VERIF, 'MANIFEST.json'), 'w') as f:
        json.dump(man, f, indent=1)
    print('claimed', len(checks), 'not claimed', len(na))


if __name__ == '__main__':
    main()
