#!/usr/bin/env python3
"""Regenerate every translated Lean file (lean/PV/Gen/*.lean) from /repo's current working tree."""
import importlib
import os
import sys
HERE = os.path.dirname(os.path.abspath(__file__))
sys.path.insert(0, os.path.join(HERE, 'tr'))
gen = os.path.join(os.path.dirname(HERE), 'lean', 'PV', 'Gen')
rc = 0
for fn in sorted(os.listdir(os.path.join(HERE, 'tr'))):
    if fn.startswith('tr_') and fn.endswith('.py'):
        mod = importlib.import_module(fn[:-3])
        try:
            ok, msg = mod.generate(gen)
        except Exception as e:
            ok, msg = False, repr(e)
            mod.fail_closed(gen, msg)
        print(fn, ok, msg)
        rc |= (0 if ok else 1)
sys.exit(rc)
