#!/usr/bin/env python3
"""Run seeded changes against the quick checks, in parallel, on scratch copies.

For every seeded/<name>/ (or the names given): a git worktree of /repo with patch.diff applied and a
copy of /verif (with its Lean build) under /tmp/mt/<name>/; `PYERRORS_VERIF_ROOT=<worktree> ./check <PID>`
runs there, so neither /repo nor /verif is touched.  Result table -> seeded/MATRIX.json + stdout.
Not part of any registered command.

usage: mutant_matrix.py [-j N] [--pids C01,C05] [name ...]
"""
import concurrent.futures
import json
import os
import re
import shutil
import subprocess
import sys
import time

VERIF = os.path.dirname(os.path.dirname(os.path.abspath(__file__)))
BASE = '/tmp/mt'


def sh(cmd, cwd=None, env=None, timeout=3600):
    p = subprocess.run(cmd, shell=True, cwd=cwd, env=env, stdout=subprocess.PIPE, stderr=subprocess.STDOUT, text=True, timeout=timeout)
    return p.returncode, p.stdout


def run_one(name, pids, tier='quick'):
    d = os.path.join(BASE, name)
    shutil.rmtree(d, ignore_errors=True)
    os.makedirs(d)
    wt = os.path.join(d, 'repo')
    vf = os.path.join(d, 'verif')
    out = {'name': name, 'results': {}}
    try:
        rc, o = sh('git -C /repo worktree add -q --detach %s HEAD' % wt)
        if rc != 0:
            return dict(out, error='worktree: ' + o[-300:])
        patch = os.path.join(VERIF, 'seeded', name, 'patch.diff')
        rc, o = sh('git apply %s' % patch, cwd=wt)
        if rc != 0:
            return dict(out, error='patch does not apply: ' + o[-300:])
        rc, o = sh('cp -r %s %s' % (VERIF, vf))
        shutil.rmtree(os.path.join(vf, 'work'), ignore_errors=True)
        env = dict(os.environ, PYERRORS_VERIF_ROOT=wt, VERIF_ENLARGE='0', OMP_NUM_THREADS='1', OPENBLAS_NUM_THREADS='1')
        for pid in pids:
            t0 = time.time()
            rc, o = sh('./check %s --tier %s' % (pid, tier), cwd=vf, env=env)
            m = re.search(r'VIOLATION property=(\S+) replay=(\S+)( no-failing-input-found)?', o)
            key = None
            if m and os.path.exists(m.group(2)):
                try:
                    j = json.load(open(m.group(2)))
                    key = j.get('key') or (j.get('broken') or [None])[0] or ((j.get('disagreements') or [{}])[0].get('name'))
                except Exception:
                    pass
            out['results'][pid] = {'exit': rc, 'violation': bool(m), 'nfi': bool(m and m.group(3)), 'key': key,
                                   'wall': round(time.time() - t0, 1), 'tail': o.strip().splitlines()[-1][:200] if o.strip() else ''}
    except Exception as e:
        out['error'] = repr(e)
    finally:
        sh('git -C /repo worktree remove --force %s' % wt)
        shutil.rmtree(d, ignore_errors=True)
    return out


def main():
    args = sys.argv[1:]
    jobs = 6
    pids_override = None
    tier = 'quick'
    names = []
    while args:
        a = args.pop(0)
        if a == '-j':
            jobs = int(args.pop(0))
        elif a == '--pids':
            pids_override = args.pop(0).split(',')
        elif a == '--tier':
            tier = args.pop(0)
        else:
            names.append(a)
    sd = os.path.join(VERIF, 'seeded')
    if not names:
        names = sorted(n for n in os.listdir(sd) if os.path.exists(os.path.join(sd, n, 'meta.json')))
    os.makedirs(BASE, exist_ok=True)
    res = {}
    with concurrent.futures.ThreadPoolExecutor(max_workers=jobs) as ex:
        futs = {}
        for n in names:
            meta = json.load(open(os.path.join(sd, n, 'meta.json')))
            pids = pids_override or [meta['property']]
            futs[ex.submit(run_one, n, pids, tier)] = n
        for f in concurrent.futures.as_completed(futs):
            r = f.result()
            res[r['name']] = r
            if 'error' in r:
                print('%-10s ERROR %s' % (r['name'], r['error']), flush=True)
            for pid, x in r['results'].items():
                print('%-10s %s exit=%d %s%s key=%s (%.0fs)' % (r['name'], pid, x['exit'], 'VIOLATION' if x['violation'] else 'missed',
                                                             ' nfi' if x['nfi'] else '', x['key'], x['wall']), flush=True)
    path = os.path.join(sd, 'MATRIX.json')
    old = {}
    if os.path.exists(path):
        old = json.load(open(path))
    old.update(res)
    json.dump(old, open(path, 'w'), indent=1, sort_keys=True)
    shutil.rmtree(BASE, ignore_errors=True)


if __name__ == '__main__':
    main()
