"""Line-protocol client for the Lean model driver (lean/Main.lean)."""
import json
import os
import struct
import subprocess
import fcntl
import threading
from fractions import Fraction

VERIF = os.path.dirname(os.path.dirname(os.path.abspath(__file__)))
LEAN_DIR = os.path.join(VERIF, 'lean')


def f2b(x):
    """float -> decimal string of the IEEE bit pattern"""
    return str(struct.unpack('<Q', struct.pack('<d', float(x)))[0])


def b2f(s):
    return struct.unpack('<d', struct.pack('<Q', int(s)))[0]


def q2j(x):
    """exact rational (Fraction / int / float) -> [num, den]"""
    fr = Fraction(x)
    return [fr.numerator, fr.denominator]


def j2q(j):
    return Fraction(int(j[0]), int(j[1]))


class LakeLock:
    """serialises lake invocations of concurrently running checks"""

    def __enter__(self):
        self.f = open(os.path.join(LEAN_DIR, '.lake.lock'), 'w')
        fcntl.flock(self.f, fcntl.LOCK_EX)
        return self

    def __exit__(self, *a):
        fcntl.flock(self.f, fcntl.LOCK_UN)
        self.f.close()


def lake(args, timeout=3600):
    """run `lake <args>` in the Lean project; returns (rc, output)"""
    with LakeLock():
        p = subprocess.run(['lake'] + args, cwd=LEAN_DIR, stdout=subprocess.PIPE,
                           stderr=subprocess.STDOUT, text=True, timeout=timeout)
    return p.returncode, p.stdout


class LeanDriver:
    """the model driver: the natively compiled `pvdriver` (the models import no Mathlib, so
    they link), or `lake env lean --run Main.lean` as a fallback"""

    def __init__(self):
        env = dict(os.environ)
        exe = os.path.join(LEAN_DIR, '.lake', 'build', 'bin', 'pvdriver')
        cmd = [exe] if os.path.exists(exe) and not os.environ.get('VERIF_INTERPRET') else ['lake', 'env', 'lean', '--run', 'Main.lean']
        self.p = subprocess.Popen(cmd, cwd=LEAN_DIR,
                                  stdin=subprocess.PIPE, stdout=subprocess.PIPE,
                                  stderr=subprocess.PIPE, text=True, env=env, bufsize=1 << 20)
        r = self.call({'op': 'ping'})
        if r != 'pong':
            raise RuntimeError('Lean driver did not start: %r' % (r,))

    def call(self, req):
        return self.batch([req])[0]

    def batch(self, reqs):
        """send all requests, then read all replies (the driver answers in order).
        Returns a list with, per request, the `ok` payload or a dict {'_err': text}."""
        out = []
        data = ''.join(json.dumps(r, separators=(',', ':')) + '\n' for r in reqs)

        def writer():
            try:
                self.p.stdin.write(data)
                self.p.stdin.flush()
            except Exception:
                pass
        th = threading.Thread(target=writer, daemon=True)
        th.start()
        for _ in reqs:
            line = self.p.stdout.readline()
            if not line:
                err = self.p.stderr.read()
                raise RuntimeError('Lean driver died: ' + err[-2000:])
            j = json.loads(line)
            if 'ok' in j:
                out.append(j['ok'])
            else:
                out.append({'_err': j.get('err')})
        th.join()
        return out

    def close(self):
        try:
            self.p.stdin.close()
            self.p.wait(timeout=20)
        except Exception:
            self.p.kill()
