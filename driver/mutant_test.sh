#!/bin/sh
# usage: driver/mutant_test.sh <patch.diff> <PID> [<PID> ...]
# applies a seeded change to /repo, runs the quick checks, and always reverts.
# Not part of any registered command.
patch="$1"; shift
cd /repo || exit 2
if [ -n "$(git status --porcelain)" ]; then echo "/repo not clean"; exit 2; fi
git apply "$patch" || { echo "patch does not apply"; exit 2; }
for pid in "$@"; do
  (cd /verif && VERIF_ENLARGE=0 ./check "$pid" --tier quick 2>&1 | grep -E "VIOLATION|KNOWN|exit=" )
done
git -C /repo checkout -- .
python3 /verif/driver/regen.py > /dev/null
git -C /repo status --porcelain
