"""Shared helpers: importing the library under test, structured generators, dumps."""
import os
import sys
import io
import contextlib
import warnings
from fractions import Fraction

REPO = os.environ.get('PYERRORS_VERIF_ROOT', '/repo')
if sys.path[0] != REPO:
    sys.path.insert(0, REPO)
os.environ.setdefault('PYERRORS_VERIF', '1')

import numpy as np  # noqa: E402
import pyerrors as pe  # noqa: E402

assert os.path.realpath(os.path.dirname(os.path.dirname(pe.__file__))) == os.path.realpath(REPO), \
    'pyerrors imported from %s, expected %s' % (pe.__file__, REPO)

from lean import f2b, b2f, q2j  # noqa: E402

warnings.simplefilter('ignore')


@contextlib.contextmanager
def quiet():
    with contextlib.redirect_stdout(io.StringIO()):
        yield


def reset_globals():
    pe.Obs.S_global = 2.0
    pe.Obs.S_dict = {}
    pe.Obs.tau_exp_global = 0.0
    pe.Obs.tau_exp_dict = {}
    pe.Obs.N_sigma_global = 1.0
    pe.Obs.N_sigma_dict = {}


# ---------------------------------------------------------------- idl generators

def gen_idl(rng, n, kind=None, start=None):
    """configuration list of length n of a given kind; returns a range or a list"""
    kinds = ['contig', 'strided', 'irregular', 'gapped', 'deceptive']
    kind = kind or rng.choice(kinds)
    start = rng.randint(1, 50) if start is None else start
    if kind == 'contig':
        return range(start, start + n)
    if kind == 'strided':
        st = rng.choice([2, 3, 4, 10])
        return range(start, start + n * st, st)
    if kind == 'gapped':
        # a range with a few holes, common spacing g
        g = rng.choice([1, 1, 2, 3])
        full = list(range(start, start + (n + max(2, n // 3)) * g, g))
        keep = sorted(rng.sample(range(len(full)), n))
        l = [full[i] for i in keep]
        return l
    if kind == 'deceptive':
        # looks equally spaced from outside (first gap, end points, length) but one interior configuration
        # is displaced: anything that infers a range from such summary information gets it wrong
        st = rng.choice([2, 2, 3, 4])
        l = [start + i * st for i in range(n)]
        if n >= 4:
            k = rng.randrange(2, n - 1)
            l[k] += rng.choice([-1, 1])
        return l
    if kind == 'coprime':
        # gaps whose smallest member is NOT their greatest common divisor (2 and 3, 4 and 6, 6 / 9 / 15): the common
        # spacing of the chain is the gcd
        gs = rng.choice([[2, 3], [4, 6], [6, 9, 15], [3, 5]])
        l = [start]
        for _ in range(n - 1):
            l.append(l[-1] + rng.choice(gs))
        if len(set(b - a for a, b in zip(l, l[1:]))) < 2 and n >= 3:
            l[-1] = l[-2] + [g for g in gs if g != l[1] - l[0]][0]
        return l
    # irregular: random increasing with spacing multiple of g
    g = rng.choice([1, 1, 2, 5])
    l = [start]
    for _ in range(n - 1):
        l.append(l[-1] + g * rng.choice([1, 1, 1, 2, 3]))
    return l


def gen_data(rng, nprng, n, kind=None):
    kind = kind or rng.choice(['white', 'ar05', 'ar09', 'ar099', 'const', 'alt', 'int'])
    if kind == 'white':
        x = nprng.normal(size=n)
    elif kind.startswith('ar'):
        a = {'ar05': 0.5, 'ar09': 0.9, 'ar099': 0.99}[kind]
        x = np.zeros(n)
        x[0] = nprng.normal()
        for i in range(1, n):
            x[i] = a * x[i - 1] + np.sqrt(1 - a * a) * nprng.normal()
    elif kind == 'const':
        x = np.ones(n) * rng.choice([0.0, 1.0, -2.5])
    elif kind == 'alt':
        x = np.array([(-1.0) ** i for i in range(n)]) + 0.01 * nprng.normal(size=n)
    else:
        x = nprng.integers(-3, 4, size=n).astype(float)
    # dyadic rationals with few bits so that + - * are exact in double
    return np.round(x * 1024) / 1024 + rng.choice([0.0, 1.0, -3.0, 10.0])


def gen_obs(rng, nprng, ens=None, nrep=None, nmin=5, nmax=40, idl_kind=None, data_kind=None,
            rep_names=None):
    """an Obs on one ensemble with 1..3 replicas"""
    ens = ens or rng.choice(['A', 'B', 'ens1'])
    nrep = nrep or rng.randint(1, 3)
    if rep_names is None:
        rep_names = ['%s|r%d' % (ens, i + 1) for i in range(nrep)] if (nrep > 1 or rng.random() < 0.7) else [ens]
    samples, idl = [], []
    for _ in rep_names:
        n = rng.randint(nmin, nmax)
        il = gen_idl(rng, n, idl_kind)
        samples.append(gen_data(rng, nprng, len(il), data_kind))
        idl.append(il)
    return pe.Obs(samples, list(rep_names), idl=idl)


# ---------------------------------------------------------------- dumps

def dump_idl(il):
    if isinstance(il, range):
        return {'range': [int(il.start), len(il), int(il.step)]}
    return {'list': [int(c) for c in il]}


def dump_obs(o, num=f2b):
    """Obs -> wire format of PV.Wire (floats as bit strings by default, or exact rationals)"""
    reps = []
    for name in sorted(n for n in o.names if n not in o.covobs):
        reps.append({'name': name, 'idl': dump_idl(o.idl[name]),
                     'deltas': [num(x) for x in np.asarray(o.deltas[name], dtype=float)],
                     'rvalue': num(o.r_values[name])})
    covs = []
    for name in sorted(o.covobs):
        c = o.covobs[name]
        cov = np.atleast_2d(np.asarray(c.cov, dtype=float))
        covs.append({'name': name, 'cov': [[num(x) for x in row] for row in cov],
                     'grad': [num(x) for x in np.asarray(c.grad, dtype=float).ravel()]})
    return {'value': num(o.value), 'reps': reps, 'covs': covs, 'reweighted': bool(o.reweighted)}


def canon_obs(o):
    """plain-python canonical form of an Obs for exact / tolerant comparison"""
    return {'value': float(o.value),
            'reps': {n: {'idl': list(o.idl[n]), 'is_range': isinstance(o.idl[n], range),
                         'deltas': [float(x) for x in o.deltas[n]], 'r': float(o.r_values[n])}
                     for n in o.names if n not in o.covobs},
            'covs': {n: {'cov': np.atleast_2d(np.asarray(o.covobs[n].cov, dtype=float)).tolist(),
                         'grad': [float(x) for x in np.asarray(o.covobs[n].grad).ravel()]}
                     for n in o.covobs},
            'reweighted': bool(o.reweighted)}


def close(a, b, scale=1.0, rtol=1e-9):
    if a != a and b != b:
        return True
    if a in (float('inf'), float('-inf')) or b in (float('inf'), float('-inf')):
        return a == b
    return abs(a - b) <= rtol * max(abs(scale), abs(a), abs(b)) + 1e-300
