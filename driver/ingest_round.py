#!/usr/bin/env python3
"""Confirm every completed sub-agent result under /tmp/sa_out/<PID>/{A,B} (patch.diff, demo.py, notes.md all
present) that is not yet in /verif/seeded, as <PID>_m3 (A) / <PID>_m4 (B).  Not part of any registered command."""
import json, os, subprocess, sys
from concurrent.futures import ThreadPoolExecutor
base = os.environ.get('ROUND_DIR', '/tmp/sa_out')
suffix = {'A': os.environ.get('ROUND_A', 'm3'), 'B': os.environ.get('ROUND_B', 'm4')}
jobs = []
for pid in sorted(os.listdir(base)):
    for ab in ('A', 'B'):
        d = os.path.join(base, pid, ab)
        if not all(os.path.exists(os.path.join(d, f)) for f in ('patch.diff', 'demo.py', 'notes.md')):
            continue
        name = '%s_%s' % (pid, suffix[ab])
        if os.path.exists(os.path.join('/verif/seeded', name, 'meta.json')) or os.path.exists(os.path.join(d, 'REJECTED.json')):
            continue
        if sys.argv[1:] and pid not in sys.argv[1:]:
            continue
        jobs.append((pid, d, name))

def run(j):
    pid, d, name = j
    p = subprocess.run(['python3', '/verif/driver/confirm_mutant.py', pid, d, name], stdout=subprocess.PIPE, stderr=subprocess.STDOUT, text=True)
    out = p.stdout.strip().splitlines()[-1] if p.stdout.strip() else ''
    try:
        r = json.loads(out)
    except Exception:
        r = {'name': name, 'confirmed': False, 'error': out[-300:]}
    if not r.get('confirmed'):
        json.dump(r, open(os.path.join(d, 'REJECTED.json'), 'w'))
    return r

with ThreadPoolExecutor(max_workers=int(os.environ.get('JOBS', '4'))) as ex:
    for r in ex.map(run, jobs):
        print(json.dumps(r), flush=True)
