#!/usr/bin/env python3
"""Writes /verif/THEOREMS.md: every property theorem with its statement and axioms, as recorded by the last
run of each check in evidence/<ID>.json (i.e. as printed by Lean's `#check` / `#print axioms`)."""
import json, os
V = os.path.dirname(os.path.dirname(os.path.abspath(__file__)))
props = {json.loads(l)['id']: json.loads(l) for l in open(os.path.join(V, 'properties.jsonl'))}
out = ['# Property theorems (generated from evidence/*.json by driver/mk_theorems_md.py)', '',
       'Statements are Lean\'s own pretty-printing of the checked theorems (`#check`), axioms from `#print axioms`.',
       'Helper lemmas that live in the Props files are listed too. Names with `_false` / `_cex` are refutations of an',
       'unguarded statement, `_corrected` / `_partial` the version that is proved.', '']
tot = 0
for pid in sorted(props):
    p = os.path.join(V, 'evidence', pid + '.json')
    if not os.path.exists(p):
        continue
    e = json.load(open(p))
    th = e['coverage'].get('theorems', {})
    out.append('## %s - %s (%d theorems)' % (pid, props[pid]['title'], len(th)))
    out.append('')
    for n, d in th.items():
        tot += 1
        ax = d.get('axioms')
        out.append('* `%s` - axioms: %s' % (n, ', '.join(ax) if ax else ('none' if ax == [] else '?')))
        st = d.get('statement') or ''
        if st:
            out.append('  `%s`' % st.replace('`', "'"))
    out.append('')
out.insert(2, 'Total: %d theorems.' % tot)
open(os.path.join(V, 'THEOREMS.md'), 'w').write('\n'.join(out) + '\n')
print(tot)
