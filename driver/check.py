#!/venv/bin/python
"""./check <ID> [--tier quick|thorough] [--replay FILE]

Per property: regenerate the translated model parts from /repo, build the Lean theorems,
audit their axioms, run the correspondence (model vs implementation) and evaluate the
executable property predicate on the implementation's outputs (the failing-input search),
write evidence/<ID>.json and print the verdict.

exit 0  property held on everything explored (KNOWN-FINDING lines allowed)
exit 1  VIOLATION property=<ID> replay=<path> [no-failing-input-found]
exit 2  tooling failure (no VIOLATION line)
"""
import argparse
import hashlib
import importlib
import json
import os
import random
import re
import subprocess
import sys
import time
import traceback

HERE = os.path.dirname(os.path.abspath(__file__))
VERIF = os.path.dirname(HERE)
sys.path.insert(0, HERE)

import lean as leanmod  # noqa: E402

LEAN_DIR = os.path.join(VERIF, 'lean')
WORK = os.path.join(VERIF, 'work')
ALLOWED_AXIOMS = {'propext', 'Classical.choice', 'Quot.sound'}
FORBIDDEN = re.compile(r'\b(sorry|admit|native_decide|bv_decide|implemented_by|unsafe)\b|^axiom\s|maxHeartbeats\s+0\b', re.M)


class Ctx:
    def __init__(self, pid, tier, seed):
        self.pid = pid
        self.tier = tier
        self.seed = seed
        self.rng = random.Random(seed * 1000003 + int(pid[1:]))
        self.lean = None
        self.evaluations = 0
        self.hashes = set()
        self.samples = []
        self.hist = {}
        self.violations = []      # (key, replay dict): predicate false on the implementation
        self.disagreements = []   # (name, replay dict): model and implementation differ
        self.illcond = 0
        self.contract = {}        # residuals of external-engine contracts (max)
        self.notes = []
        self.t0 = time.time()

    # bookkeeping -------------------------------------------------------
    def case(self, desc, nontrivial=True, sample=None):
        self.evaluations += 1
        if nontrivial:
            h = hashlib.sha1(json.dumps(desc, sort_keys=True, default=str).encode()).hexdigest()
            self.hashes.add(h)
        if len(self.samples) < 3:
            self.samples.append(sample if sample is not None else desc)

    def count(self, label, k=1):
        self.hist[label] = self.hist.get(label, 0) + k

    def residual(self, name, val):
        val = float(val)
        if val != val:
            val = float('inf')
        self.contract[name] = max(self.contract.get(name, 0.0), val)

    def violation(self, key, replay):
        self.violations.append((key, replay))

    def disagree(self, name, replay):
        self.disagreements.append((name, replay))

    def budget(self, quick, thorough):
        return quick if self.tier == 'quick' else thorough

    def elapsed(self):
        return time.time() - self.t0


# ----------------------------------------------------------------------------- known findings

def load_known(pid):
    known = {}
    fixed = []
    p = os.path.join(VERIF, 'known_findings.txt')
    if os.path.exists(p):
        for line in open(p):
            line = line.strip()
            m = re.match(r'finding:\s+property=(\S+)\s+key=(\S+)\s+(.*)', line)
            if m and m.group(1) == pid:
                known[m.group(2)] = m.group(3)
            m = re.match(r'fixed:\s+property=(\S+)\s+(\S+)\s+(.*)', line)
            if m and m.group(1) == pid:
                fixed.append((m.group(2), m.group(3)))
    return known, fixed


# ----------------------------------------------------------------------------- Lean side

def run_translators(pid):
    """regenerate PV/Gen/*.lean from /repo; returns list of (name, ok, message)"""
    res = []
    trdir = os.path.join(HERE, 'tr')
    if not os.path.isdir(trdir):
        return res
    sys.path.insert(0, trdir)
    for fn in sorted(os.listdir(trdir)):
        if not fn.startswith('tr_') or not fn.endswith('.py'):
            continue
        mod = importlib.import_module(fn[:-3])
        if pid not in getattr(mod, 'SERVES', []):
            continue
        try:
            ok, msg = mod.generate(os.path.join(LEAN_DIR, 'PV', 'Gen'))
        except Exception as e:  # translator crashed: fail closed
            ok, msg = False, 'translator %s crashed: %r' % (fn, e)
            mod.fail_closed(os.path.join(LEAN_DIR, 'PV', 'Gen'), msg)
        res.append((fn[:-3], ok, msg))
    return res


def strip_comments(src):
    """remove (nested) block comments and line comments of a Lean source"""
    out = []
    depth = 0
    i = 0
    n = len(src)
    while i < n:
        if src.startswith('/-', i):
            depth += 1
            i += 2
        elif src.startswith('-/', i) and depth > 0:
            depth -= 1
            i += 2
        elif depth > 0:
            i += 1
        elif src.startswith('--', i):
            while i < n and src[i] != '\n':
                i += 1
        else:
            out.append(src[i])
            i += 1
    return ''.join(out)


def prop_files(pid):
    """Props/<pid>.lean and, when present, Props/<pid>Alg.lean (mathematical backbone, imported by the former)"""
    out = []
    for fn in (pid + '.lean', pid + 'Alg.lean'):
        p = os.path.join(LEAN_DIR, 'PV', 'Props', fn)
        if os.path.exists(p):
            out.append(p)
    return out


def theorem_names(pid):
    names = []
    for p in prop_files(pid):
        src_nc = strip_comments(open(p).read())
        for n in re.findall(r'^\s*(?:protected\s+|private\s+)?theorem\s+([A-Za-z0-9_\.\']+)', src_nc, flags=re.M):
            n = n[len('_root_.'):] if n.startswith('_root_.') else n
            n = n[len('PV.'):] if n.startswith('PV.') else n
            if n not in names:
                names.append(n)
    return names


def namespaces(pid):
    ns = []
    for p in prop_files(pid):
        for n in re.findall(r'^namespace\s+([A-Za-z0-9_\.]+)', strip_comments(open(p).read()), flags=re.M):
            n = n if n.startswith('PV') else 'PV.' + n
            if n not in ns and n != 'PV':
                ns.append(n)
    return ns


def grep_forbidden(pid):
    """forbidden constructs in every Lean source the property's theorems depend on"""
    hits = []
    for root, _, files in os.walk(os.path.join(LEAN_DIR, 'PV')):
        staging = os.path.basename(root) == 'Todo'   # scratch statements, never imported
        for fn in files:
            if not fn.endswith('.lean'):
                continue
            src = open(os.path.join(root, fn)).read()
            if staging:
                continue
            if re.search(r'^import PV\.Todo', src, flags=re.M):
                hits.append('%s imports the staging area PV.Todo' % fn)
            src = strip_comments(src)
            for m in FORBIDDEN.finditer(src):
                hits.append('%s: %s' % (os.path.relpath(os.path.join(root, fn), LEAN_DIR), m.group(0).strip()))
    return hits


def build_and_audit(pid):
    """returns dict(build_ok, build_log, theorems: {name: {axioms, statement}}, bad: [...])"""
    out = {'build_ok': False, 'build_log': '', 'theorems': {}, 'bad': [], 'forbidden': []}
    names = theorem_names(pid)
    rc, log = leanmod.lake(['build', 'pvdriver', 'PV.Props.' + pid])
    # a build that fails WITHOUT a Lean error message (process killed under memory pressure, interrupted I/O) says nothing about
    # the proofs: retry, and if it keeps failing report a tooling failure (exit 2), never a violation
    tries = 0
    while rc != 0 and not re.search(r'(?m)^error: .*\.lean:\d+:\d+', log) and tries < 3:
        tries += 1
        time.sleep(5 * tries)
        rc, log = leanmod.lake(['build', 'pvdriver', 'PV.Props.' + pid])
    if rc != 0 and not re.search(r'(?m)^error: .*\.lean:\d+:\d+', log):
        raise RuntimeError('lake build fails without a Lean error message (rc %r): %s' % (rc, log[-800:]))
    out['build_ok'] = (rc == 0)
    out['build_log'] = log[-6000:]
    out['forbidden'] = grep_forbidden(pid)
    if rc != 0:
        # which theorems are affected: those named in error messages, else all
        out['bad'] = [n for n in names if n in log] or names
        return out
    os.makedirs(WORK, exist_ok=True)
    audit = os.path.join(WORK, 'Audit_%s.lean' % pid)
    with open(audit, 'w') as f:
        f.write('import PV.Props.%s\nopen PV\n' % pid)
        for ns in namespaces(pid):
            f.write('open %s\n' % ns)
        for n in names:
            f.write('#print axioms %s\n#check @%s\n' % (n, n))
    for attempt in range(4):
        with leanmod.LakeLock():
            p = subprocess.run(['lake', 'env', 'lean', audit], cwd=LEAN_DIR, stdout=subprocess.PIPE,
                               stderr=subprocess.STDOUT, text=True, timeout=1800)
        txt = p.stdout
        if p.returncode == 0 or re.search(r'(?m)^.*\.lean:\d+:\d+: error', txt):
            break
        time.sleep(5 * (attempt + 1))       # killed / interrupted without a Lean message: not a statement about the theorems
    else:
        raise RuntimeError('the axiom audit process fails without a Lean error message (rc %r): %s' % (p.returncode, txt[-800:]))
    if p.returncode != 0:
        out['build_ok'] = False
        out['build_log'] = txt[-6000:]
        out['bad'] = names
        return out
    # parse
    blocks = re.split(r"(?m)^(?=')|^(?=@)", txt)
    axioms = {}
    for m in re.finditer(r"(?m)^'(.+)' depends on axioms: \[([^\]]*)\]", txt):
        axioms[m.group(1)] = [a.strip() for a in m.group(2).replace('\n', ' ').split(',') if a.strip()]
    for m in re.finditer(r"(?m)^'(.+)' does not depend on any axioms", txt):
        axioms[m.group(1)] = []
    stmts = {}
    for m in re.finditer(r"(?ms)^@?([A-Za-z0-9_\.']+) : (.*?)(?=^\S|\Z)", txt):
        stmts[m.group(1)] = ' '.join(m.group(2).split())
    for n in names:
        key = n if n in axioms else next((k for k in axioms if k.endswith('.' + n) or k == n), None)
        ax = axioms.get(key)
        st = next((v for k, v in stmts.items() if k == n or k.endswith('.' + n)), '')
        out['theorems'][n] = {'axioms': ax, 'statement': st[:600]}
        if ax is None or not set(ax) <= ALLOWED_AXIOMS:
            out['bad'].append(n)
    return out


def pv_modules(pid):
    """the property's theorem modules and every PV module they import, transitively"""
    seen, todo = [], ['PV.Props.' + pid]
    while todo:
        m = todo.pop()
        if m in seen:
            continue
        path = os.path.join(LEAN_DIR, *m.split('.')) + '.lean'
        if not os.path.exists(path):
            continue
        seen.append(m)
        for imp in re.findall(r'^import (PV\.[A-Za-z0-9_\.]+)', open(path).read(), flags=re.M):
            todo.append(imp)
    return seen


def run_leanchecker(pid):
    """independent re-check of the compiled modules (thorough tier); returns (ok, text)"""
    mods = pv_modules(pid)
    with leanmod.LakeLock():
        p = subprocess.run(['lake', 'env', 'leanchecker'] + mods, cwd=LEAN_DIR, stdout=subprocess.PIPE,
                           stderr=subprocess.STDOUT, text=True, timeout=3600)
    return p.returncode == 0, ('%d modules re-checked: %s' % (len(mods), ' '.join(mods)) if p.returncode == 0 else p.stdout[-2000:])


# ----------------------------------------------------------------------------- main

def write_replay(pid, idx, payload):
    os.makedirs(os.path.join(WORK, 'replay'), exist_ok=True)
    path = os.path.join(WORK, 'replay', '%s-%d.json' % (pid, idx))
    with open(path, 'w') as f:
        json.dump(payload, f, indent=1, default=str)
    return path


def main():
    ap = argparse.ArgumentParser()
    ap.add_argument('pid')
    ap.add_argument('--tier', default=os.environ.get('VERIF_TIER', 'quick'))
    ap.add_argument('--replay')
    ap.add_argument('--no-lean-build', action='store_true')
    args = ap.parse_args()
    pid = args.pid
    tier = args.tier if args.tier in ('quick', 'thorough') else 'quick'
    seed = int(os.environ.get('VERIF_SEED', '0') or 0)
    t0 = time.time()
    ctx = Ctx(pid, tier, seed)
    known, fixed = load_known(pid)
    os.environ.setdefault('OMP_NUM_THREADS', '1')
    os.environ.setdefault('OPENBLAS_NUM_THREADS', '1')
    os.environ.setdefault('MKL_NUM_THREADS', '1')
    if not args.replay and os.path.isdir(os.path.join(WORK, 'replay')):
        for fn in os.listdir(os.path.join(WORK, 'replay')):
            if fn.startswith(pid + '-'):
                os.remove(os.path.join(WORK, 'replay', fn))

    try:
        mod = importlib.import_module('props.' + pid.lower())
    except Exception:
        traceback.print_exc()
        print('tooling failure: cannot import property module for', pid)
        return 2

    # an exception that the LIBRARY raises inside a case the harness did not expect to be refused is an outcome of the
    # case (reported with the case as replay), not a crash of the machinery; an exception raised by harness code still is
    if hasattr(mod, 'check_case'):
        _orig_check_case = mod.check_case

        class _CaseTimeout(BaseException):
            pass
        _timed_out = []

        def _on_alarm(signum, frame):
            raise _CaseTimeout()

        def _guarded_check_case(ctx_, case_, *a_, _f=_orig_check_case, **kw_):
            import signal
            if _timed_out:
                return []      # one case that does not come back is reported; the remaining cases are not started
            limit_ = int(os.environ.get('VERIF_CASE_TIMEOUT', '300'))
            old_ = signal.signal(signal.SIGALRM, _on_alarm)
            signal.alarm(limit_)
            try:
                return _f(ctx_, case_, *a_, **kw_)
            except _CaseTimeout:
                _timed_out.append(1)
                # a single case normally takes well under a second: a library call that does not come back is an outcome
                return [('violation', 'case-timeout', 'the case did not finish within %d s' % limit_)]
            except Exception as e_:
                tb_ = traceback.extract_tb(e_.__traceback__)
                drv_ = [i_ for i_, f_ in enumerate(tb_) if os.sep + 'driver' + os.sep in f_.filename]
                below_ = tb_[(drv_[-1] + 1) if drv_ else 0:]      # frames entered from the last harness frame
                if below_ and os.sep + 'pyerrors' + os.sep in below_[0].filename:
                    where_ = [f_ for f_ in tb_ if os.sep + 'driver' + os.sep in f_.filename]
                    return [('violation', 'library-exception', '%s: %s (raised at %s:%d, called from %s:%d)' % (
                        type(e_).__name__, str(e_)[:160], os.path.basename(tb_[-1].filename), tb_[-1].lineno,
                        os.path.basename(where_[-1].filename) if where_ else '?', where_[-1].lineno if where_ else 0))]
                raise
            finally:
                signal.alarm(0)
                signal.signal(signal.SIGALRM, old_)
        mod.check_case = _guarded_check_case

    try:
        trs = run_translators(pid)
        audit = build_and_audit(pid)
    except Exception:
        traceback.print_exc()
        print('tooling failure: Lean build / audit crashed')
        return 2

    proof_broken = []
    for (name, ok, msg) in trs:
        if not ok:
            proof_broken.append('translator %s failed closed: %s' % (name, msg))
    if not audit['build_ok']:
        proof_broken.append('lake build PV.Props.%s failed; affected: %s' % (pid, ', '.join(audit['bad'])))
    elif audit['bad']:
        proof_broken.append('axiom audit failed for: %s' % ', '.join(audit['bad']))
    if audit['forbidden']:
        proof_broken.append('forbidden constructs: %s' % '; '.join(audit['forbidden'][:5]))
    leanchecker_note = None
    if tier == 'thorough' and audit['build_ok'] and not args.replay:
        try:
            ok, txt = run_leanchecker(pid)
            leanchecker_note = ('leanchecker ok: ' if ok else 'leanchecker FAILED: ') + txt
            if not ok:
                proof_broken.append('leanchecker rejects the compiled modules')
        except Exception as e:
            leanchecker_note = 'leanchecker could not be run: %r' % (e,)

    # the correspondence / failing-input search needs the driver; if the model itself does not
    # build any more we cannot run it - fall back to the implementation-only predicate checks
    try:
        rc, log = leanmod.lake(['build', 'pvdriver'])
        if rc == 0:
            ctx.lean = leanmod.LeanDriver()
        else:
            proof_broken.append('model driver does not build')
    except Exception as e:
        proof_broken.append('model driver failed to start: %r' % (e,))

    try:
        if args.replay:
            payload = json.load(open(args.replay))
            case = payload.get('case')
            if case is None:
                print('replay file names a broken theorem / correspondence, nothing to execute:')
                print(json.dumps(payload, indent=1)[:3000])
            else:
                probs = mod.check_case(ctx, case)
                for (kind, key, info) in probs:
                    (ctx.violation if kind == 'violation' else ctx.disagree)(key, {'case': case, 'info': info})
                ctx.case(case)
        else:
            if proof_broken:
                # enlarged search
                ctx.tier = 'thorough' if os.environ.get('VERIF_ENLARGE', '1') == '1' else tier
            mod.run(ctx)
            ctx.tier = tier
    except Exception:
        traceback.print_exc()
        print('tooling failure: property module crashed')
        if ctx.lean:
            ctx.lean.close()
        return 2
    if ctx.lean:
        ctx.lean.close()

    # ---------------- verdict
    lines = []
    exit_code = 0
    new_viol = []
    seen_known = set()
    for key, rp in ctx.violations:
        if key in known:
            seen_known.add(key)
        else:
            new_viol.append((key, rp))
    for key in sorted(seen_known):
        lines.append('KNOWN-FINDING: property=%s %s (%s)' % (pid, key, known[key]))
    nrep = 0
    if new_viol:
        key, rp = new_viol[0]
        payload = {'property': pid, 'seed': seed, 'kind': 'predicate-false-on-implementation', 'key': key}
        payload.update(rp)
        path = write_replay(pid, nrep, payload)
        lines.append('VIOLATION property=%s replay=%s' % (pid, path))
        exit_code = 1
        for k, (key2, rp2) in enumerate(new_viol[1:6]):
            payload = {'property': pid, 'seed': seed, 'kind': 'predicate-false-on-implementation', 'key': key2}
            payload.update(rp2)
            write_replay(pid, k + 1, payload)
    elif proof_broken or ctx.disagreements:
        payload = {'property': pid, 'seed': seed, 'kind': 'proof-or-correspondence-broken',
                   'broken': proof_broken,
                   'disagreements': [{'name': n, **rp} for n, rp in ctx.disagreements[:5]],
                   'build_log': audit['build_log'] if proof_broken else ''}
        if ctx.disagreements:
            payload['case'] = ctx.disagreements[0][1].get('case')
        path = write_replay(pid, 0, payload)
        lines.append('VIOLATION property=%s replay=%s no-failing-input-found' % (pid, path))
        exit_code = 1

    # ---------------- evidence
    names = list(audit['theorems'].keys()) or theorem_names(pid)
    obligations = len(names) + len(trs)
    discharged = len([n for n in names if n not in audit['bad']]) + len([t for t in trs if t[1]])
    if not audit['build_ok']:
        discharged = len([t for t in trs if t[1]])
    ev = {
        'property_id': pid, 'tier': tier, 'seed': seed, 'level': 'proof',
        'coverage': {
            'obligations': max(obligations, 1), 'discharged': discharged,
            'checker_cmd': 'cd lean && lake build PV.Props.%s && lake env lean ../work/Audit_%s.lean  (#print axioms on every property theorem)' % (pid, pid),
            'trusted_base': getattr(mod, 'TRUSTED', []) + [
                'Lean 4.33.0 kernel', 'axioms allowed: propext, Classical.choice, Quot.sound',
                'Mathlib v4.33.0 definitions', 'correspondence harness driver/props/%s.py (differential, generator-bounded)' % pid.lower()],
            'theorems': audit['theorems'],
            'translators': [{'name': t[0], 'ok': t[1], 'msg': t[2]} for t in trs],
            'evaluations': ctx.evaluations, 'distinct_nontrivial': len(ctx.hashes),
            'rule': getattr(mod, 'RULE', ''),
            'samples': ctx.samples if ctx.samples else ['(replay / no cases)'],
            'input_distribution': ctx.hist, 'ill_conditioned_skipped': ctx.illcond,
            'contract_residuals': ctx.contract,
            'correspondence_disagreements': len(ctx.disagreements),
            'predicate_false_on_impl': len(ctx.violations),
            'known_findings_seen': sorted(seen_known),
            'fixed_findings_watched': [f[1] for f in fixed],
            'proof_broken': proof_broken,
            'notes': ctx.notes + ([leanchecker_note] if leanchecker_note else []),
        },
        'assumptions': getattr(mod, 'ASSUMPTIONS', []),
        'wall_s': round(time.time() - t0, 2),
        'violations': len(new_viol) + (1 if (exit_code == 1 and not new_viol) else 0),
    }
    os.makedirs(os.path.join(VERIF, 'evidence'), exist_ok=True)
    with open(os.path.join(VERIF, 'evidence', pid + '.json'), 'w') as f:
        json.dump(ev, f, indent=1, default=str)
    for l in lines:
        print(l)
    print('%s tier=%s seed=%d evaluations=%d distinct=%d theorems=%d/%d disagreements=%d wall=%.1fs exit=%d' % (
        pid, tier, seed, ctx.evaluations, len(ctx.hashes), discharged, obligations, len(ctx.disagreements),
        time.time() - t0, exit_code))
    return exit_code


if __name__ == '__main__':
    try:
        sys.exit(main())
    except SystemExit:
        raise
    except Exception:
        traceback.print_exc()
        sys.exit(2)
