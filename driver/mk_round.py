#!/usr/bin/env python3
"""Prepare a round of seeded changes: one scratch worktree of /repo and one prompt file per property.

usage: mk_round.py <round-dir> <out-dir> <hint-file> [PID ...]

The prompt contains only the text of the property (statement + quantifier) and the paths of the scratch worktree
and of the output directory - nothing from /verif.  <hint-file> holds the paragraph that tells the sub-agent where
to look this round.  Afterwards: launch one sub-agent per prompt, then
  ROUND_DIR=<out-dir> ROUND_A=<label> JOBS=5 python3 driver/ingest_round.py
  python3 driver/mutant_matrix.py -j 6 $(ls seeded | grep _<label>)
and remove the worktrees (git -C /repo worktree remove --force <round-dir>/<PID>/wt; git -C /repo worktree prune).
"""
import json
import os
import subprocess
import sys

rd, od, hint = sys.argv[1], sys.argv[2], open(sys.argv[3]).read().strip()
pids = sys.argv[4:]
props = [json.loads(l) for l in open('/verif/properties.jsonl')]
for p in props:
    pid = p['id']
    if pids and pid not in pids:
        continue
    wt = os.path.join(rd, pid, 'wt')
    out = os.path.join(od, pid, 'A')
    os.makedirs(os.path.join(rd, pid), exist_ok=True)
    os.makedirs(out, exist_ok=True)
    if not os.path.isdir(wt):
        subprocess.check_call(['git', '-C', '/repo', 'worktree', 'add', '--detach', '-q', wt, 'HEAD'])
    text = f"""You are helping to evaluate a verification harness. You work ONLY inside the scratch git worktree {wt} (a checkout of the Python library fjosw/pyerrors) and the output directory {out}. Never touch /repo or /verif, never commit, and never use `git stash` (worktrees share the stash).

The library is expected to satisfy this semantic property:

  [{pid}] {p['title']}
  {p['statement']}
  (Quantifier: {p['quantifier']})

Task: craft ONE realistic change to the library source under {wt}/pyerrors — the kind of slip a maintainer could plausibly make in a refactoring, optimisation, clean-up or feature tweak — such that
  1. the package still imports and the existing test suite still passes exactly as before. Run it as:
       cd {wt} && OMP_NUM_THREADS=1 OPENBLAS_NUM_THREADS=1 MKL_NUM_THREADS=1 /venv/bin/python -m pytest -q -p no:cacheprovider --timeout=900 --continue-on-collection-errors
     first on the unchanged worktree to learn the baseline (a few tests may fail at baseline for environment reasons; the same set must pass after your change; beware that some tests consume the global numpy random stream, so a change that alters how many random numbers are drawn can flip unrelated tests), then with your change;
  2. the property above is violated by the changed library for SOME inputs only. {hint}
  3. the violation is a wrong RESULT (numbers, names, configuration lists, flags, silent acceptance of what must be refused ...), not merely a crash.

Deliver exactly three files in {out}:
  - patch.diff : output of `git -C {wt} diff` (must apply with `git apply` to a clean checkout);
  - demo.py    : a self-contained script run as `/venv/bin/python demo.py <path-to-checkout>`; it must insert <path-to-checkout> at the front of sys.path before importing pyerrors, exercise the property on an input that triggers your change, and exit 0 (printing OK) when the property holds (unchanged checkout) and exit 1 with a short explanation when it is violated (changed checkout). Use an independent oracle in the demo (recompute the expected result by hand / numpy), not a stored number;
  - notes.md   : first line a title; then what the change does, why the tests do not notice, and a paragraph starting with 'Needs to manifest:' stating precisely which inputs trigger the violation.

Verify yourself that demo.py exits 0 on the unchanged worktree (use `git -C {wt} diff > patch; git -C {wt} checkout -- .` to go back, and `git -C {wt} apply` to reapply) and exits 1 with the change, and that the suite result is unchanged. Leave the worktree with the change applied when done. Keep it to one focused change (a few lines). Use /venv/bin/python for everything. Report in two or three sentences what you changed.
"""
    open(os.path.join(rd, pid, 'prompt.txt'), 'w').write(text)
    print(pid, wt)
