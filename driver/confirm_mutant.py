#!/usr/bin/env python3
"""Confirm a seeded change in a scratch worktree of /repo (outside /repo and /verif):
   - patch applies to HEAD, package imports
   - full pinned test suite: same passing set as BASELINE.json (250 stable tests pass)
   - demo exits 0 without the change and 1 with it
   then store it under /verif/seeded/<name>/ (patch.diff, demo.py, notes.md, meta.json).
   usage: confirm_mutant.py <PID> <src_dir> <name>
Not part of any registered command."""
import json, os, shutil, subprocess, sys, tempfile, time, re
import xml.etree.ElementTree as ET

pid, src, name = sys.argv[1:4]
env = dict(os.environ, OMP_NUM_THREADS='1', OPENBLAS_NUM_THREADS='1', MKL_NUM_THREADS='1')
base = json.load(open('/root/.vp/BASELINE.json'))
stable = set(base['stable_pass'])
wt = tempfile.mkdtemp(prefix='confirm_', dir='/tmp')
os.rmdir(wt)
def sh(cmd, cwd=None, timeout=3000):
    p = subprocess.run(cmd, shell=True, cwd=cwd, env=env, stdout=subprocess.PIPE, stderr=subprocess.STDOUT, text=True, timeout=timeout)
    return p.returncode, p.stdout
res = {'property': pid, 'name': name, 'confirmed_at': time.strftime('%Y-%m-%d %H:%M:%S')}
try:
    rc, out = sh('git -C /repo worktree add -q --detach %s HEAD' % wt)
    assert rc == 0, out
    res['repo_head'] = sh('git -C /repo rev-parse --short HEAD')[1].strip()
    demo = os.path.join(src, 'demo.py')
    rc0, out0 = sh('/venv/bin/python %s %s' % (demo, wt), cwd='/tmp')
    res['demo_exit_without_change'] = rc0
    rc, out = sh('git apply %s' % os.path.join(src, 'patch.diff'), cwd=wt)
    res['patch_applies'] = (rc == 0)
    assert rc == 0, out
    rc1, out1 = sh('/venv/bin/python %s %s' % (demo, wt), cwd='/tmp')
    res['demo_exit_with_change'] = rc1
    res['demo_output_with_change'] = out1[-600:]
    junit = os.path.join(wt, 'junit.xml')
    rc, out = sh('/venv/bin/python -m pytest -ra -q -p no:cacheprovider --timeout=900 --continue-on-collection-errors --junitxml=%s' % junit, cwd=wt)
    passed = set()
    for tc in ET.parse(junit).getroot().iter('testcase'):
        ok = not any(ch.tag in ('failure', 'error', 'skipped') for ch in tc)
        if ok:
            passed.add('%s::%s' % (tc.get('classname'), tc.get('name')))
    res['suite_summary'] = out.strip().splitlines()[-1]
    res['stable_tests_failing_with_change'] = sorted(stable - passed)
    ok = rc0 == 0 and rc1 == 1 and not (stable - passed)
    res['confirmed'] = ok
    if ok:
        dst = os.path.join('/verif/seeded', name)
        os.makedirs(dst, exist_ok=True)
        shutil.copy(os.path.join(src, 'patch.diff'), dst)
        shutil.copy(demo, dst)
        if os.path.exists(os.path.join(src, 'notes.md')):
            shutil.copy(os.path.join(src, 'notes.md'), dst)
        notes = open(os.path.join(src, 'notes.md')).read() if os.path.exists(os.path.join(src, 'notes.md')) else ''
        res['what_i_ran'] = ['git worktree add <scratch> HEAD', 'demo.py <scratch> (exit %d)' % rc0, 'git apply patch.diff',
                             'demo.py <scratch> (exit %d)' % rc1, 'pytest full suite single-threaded: ' + res['suite_summary']]
        json.dump(res, open(os.path.join(dst, 'meta.json'), 'w'), indent=1)
except Exception as e:
    res['error'] = repr(e)
    res['confirmed'] = False
finally:
    subprocess.run('git -C /repo worktree remove --force %s' % wt, shell=True)
    shutil.rmtree(wt, ignore_errors=True)
print(json.dumps({k: res.get(k) for k in ['name', 'confirmed', 'demo_exit_without_change', 'demo_exit_with_change', 'suite_summary', 'stable_tests_failing_with_change', 'error']}))
