"""Synthetic writers for the measurement formats read by pyerrors.input (C17 / C18).
Every stored number is distinct and encodes (replica, configuration, slot), so a value attached
to the wrong configuration, replica or slot is visible."""
import os
import struct


def val(rep, cfg, slot=0, sub=0):
    return float(rep * 10000 + cfg + slot / 16.0 + sub / 4096.0)


# ------------------------------------------------------------------ openQCD reweighting factors

def rwms_bytes(version, cfgs, nfct, nsrc, rep):
    """version '1.4' | '1.6' | '2.0'; nfct[i], nsrc[i] per reweighting factor i; returns (bytes, {cfg: [[...sources per factor j]] per i})"""
    nrw = len(nsrc)
    out = b''
    stored = {}
    if version == '2.0':
        out += struct.pack('i', 2 * nrw)
        for i in range(nrw):
            out += struct.pack('i', nfct[i])
        for i in range(nrw):
            out += struct.pack('i', nsrc[i])
        out += struct.pack('i', 0)
    else:
        out += struct.pack('i', nrw)
        if version == '1.6':
            for i in range(nrw):
                out += struct.pack('i', nfct[i])
        for i in range(nrw):
            out += struct.pack('i', nsrc[i])
    for c in cfgs:
        out += struct.pack('i', c)
        stored[c] = []
        for i in range(nrw):
            nf = nfct[i] if version != '1.4' else 1
            facs = []
            if version == '2.0':
                # two arrays (sqn, lnr), each: d=2, n=(nfct, 2*nsrc), size=8; quadruple precision numbers are
                # stored as two doubles of which the reader keeps the first
                for which in (0, 1):
                    out += struct.pack('i', 2) + struct.pack('2i', nf, 2 * nsrc[i]) + struct.pack('i', 8)
                    for j in range(nf):
                        row = []
                        for s in range(nsrc[i]):
                            x = 1e-3 * val(rep, c % 1000, i * 4 + j, s + 1) + 0.11 * ((s * 7 + j * 3 + c) % 5) if which == 1 else 77.0 + s
                            out += struct.pack('dd', x, 0.0)
                            row.append(x)
                        if which == 1:
                            facs.append(row)
            else:
                for j in range(nf):
                    sqn = [55.0 + s for s in range(nsrc[i])]
                    lnr = [1e-3 * val(rep, c % 1000, i * 4 + j, s + 1) + 0.11 * ((s * 7 + j * 3 + c) % 5) for s in range(nsrc[i])]   # sizeable source-to-source spread
                    out += struct.pack('d' * nsrc[i], *sqn) + struct.pack('d' * nsrc[i], *lnr)
                    facs.append(lnr)
            stored[c].append(facs)
    return out, stored


# ------------------------------------------------------------------ gradient flow files

def msdat_bytes(cfgs, dn, nn, tmax, eps, rep):
    """openQCD ms.dat: header (dn, nn, tmax, eps); per record nc + Wsl, Ysl, Qsl, each tmax*(nn+1) doubles
    (index = flow step n major, timeslice minor)"""
    out = struct.pack('iii', dn, nn, tmax) + struct.pack('d', eps)
    stored = {}
    for c in cfgs:
        out += struct.pack('i', c)
        blocks = []
        for b in range(3):
            arr = [val(rep, c % 1000, b * 4 + n, t + 1) * 1e-3 for n in range(nn + 1) for t in range(tmax)]
            out += struct.pack('d' * len(arr), *arr)
            blocks.append(arr)
        stored[c] = blocks
    return out, stored


def gfms_bytes(cfgs, zthfl, ncs, tmax, L, cmax, rep):
    """sfqcd gfms.dat: header (zthfl, ncs, tmax), (L,L,L), (tol, cmax); per record traj + (ncs+1) x iobs x tmax doubles"""
    out = struct.pack('<iii', zthfl, ncs, tmax) + struct.pack('<iii', L, L, L) + struct.pack('<dd', 1e-9, cmax)
    iobs = 8 * (2 if zthfl == 2 else 1)
    stored = {}
    for c in cfgs:
        out += struct.pack('i', c)
        rec = []
        for j in range(ncs + 1):
            row = []
            for i in range(iobs):
                arr = [val(rep, c % 1000, j, i * 32 + t + 1) * 1e-3 for t in range(tmax)]
                out += struct.pack('d' * tmax, *arr)
                row.append(arr)
            rec.append(row)
        stored[c] = rec
    return out, stored


PLACES_BI = ["gS", "gP", "gA", "gV", "gVt", "lA", "lV", "lVt", "lT", "lTt"]
PLACES_BB = ["g1", "l1"]


def ms5xsf_bytes(cfgs, tmax, rep):
    out = struct.pack('d', 0.13) + struct.pack('d', 1.1) + struct.pack('d', 1.0) + struct.pack('d', 1.0) + struct.pack('i', tmax) + struct.pack('i', 1)
    stored = {}
    for c in cfgs:
        bi = {}
        arr = []
        for k, nm in enumerate(PLACES_BI):
            vals = []
            for t in range(tmax):
                re, im = val(rep, c % 1000, k, 2 * t + 1) * 1e-3, val(rep, c % 1000, k, 2 * t + 2) * 1e-3
                arr += [re, im]
                vals.append((re, im))
            bi[nm] = vals
        for k, nm in enumerate(PLACES_BB):
            re, im = val(rep, c % 1000, 12 + k, 1) * 1e-3, val(rep, c % 1000, 12 + k, 2) * 1e-3
            arr += [re, im]
            bi[nm] = [(re, im)]
        out += struct.pack('=i' + 'd' * len(arr), c, *arr)
        stored[c] = bi
    return out, stored


# ------------------------------------------------------------------ sfcf text files

RUN_HDR = """[run]

version     2.1
date        2022-01-19 11:03:58 +0100
host        h
dir         /d
user        u
gauge_name  /%s
gauge_md5   0
param_name  p.in
param_md5   0
param_hash  0
data_name   ./x

"""


def sfcf_corr_block(name, quarks, wf, wf2, T, rep, cfg, slot, bb):
    s = "[correlator]\n\nname      %s\nquarks    %s\noffset    0\nwf        %d\n" % (name, quarks, wf)
    vals = []
    if bb:
        s += "wf_2      %d\ncorr\n" % wf2
        re, im = val(rep, cfg % 1000, slot, 1), val(rep, cfg % 1000, slot, 2) * 1e-9
        s += "%+.16e %+.16e\n\n" % (re, im)
        vals.append((re, im))
    else:
        s += "corr_t\n"
        for t in range(T):
            re, im = val(rep, cfg % 1000, slot, 2 * t + 1), val(rep, cfg % 1000, slot, 2 * t + 2) * 1e-9
            s += "%3d %+.16e %+.16e\n" % (t + 1, re, im)
            vals.append((re, im))
        s += "\n"
    return s, vals


def write_sfcf(root, layout, prefix, reps, T, corrs):
    """layout 'c' (compact, one file per config), 'o' (one directory per config, one file per correlator),
    'a' (appended: one file per replica and correlator).
    reps: {replica number: [cfg numbers]};  corrs: list of (name, quarks, wf, wf2, bb)
    returns expected[(name, wf, wf2)][rep][cfg] = list of (re, im)"""
    exp = {}
    os.makedirs(root, exist_ok=True)
    for r, cfgs in reps.items():
        if layout == 'c':
            d = os.path.join(root, '%s_r%d' % (prefix, r))
            os.makedirs(d, exist_ok=True)
            for c in cfgs:
                txt = RUN_HDR % ('%s_r%d_n%d' % (prefix, r, c))
                for slot, (nm, q, wf, wf2, bb) in enumerate(corrs):
                    b, vals = sfcf_corr_block(nm, q, wf, wf2, T, r, c, slot, bb)
                    txt += b
                    exp.setdefault((nm, wf, wf2), {}).setdefault(r, {})[c] = vals
                open(os.path.join(d, '%s_r%d_n%d' % (prefix, r, c)), 'w').write(txt)
        elif layout == 'o':
            d = os.path.join(root, '%s_r%d' % (prefix, r))
            for c in cfgs:
                cd = os.path.join(d, 'cfg%d' % c)
                os.makedirs(cd, exist_ok=True)
                bynm = {}
                for slot, (nm, q, wf, wf2, bb) in enumerate(corrs):
                    b, vals = sfcf_corr_block(nm, q, wf, wf2, T, r, c, slot, bb)
                    bynm.setdefault(nm, RUN_HDR % ('%s_r%d_n%d' % (prefix, r, c)))
                    bynm[nm] += b
                    exp.setdefault((nm, wf, wf2), {}).setdefault(r, {})[c] = vals
                for nm, txt in bynm.items():
                    open(os.path.join(cd, nm), 'w').write(txt)
        else:
            names = sorted(set(c[0] for c in corrs))
            for nm in names:
                txt = ''
                for c in cfgs:
                    txt += RUN_HDR % ('%s_r%d_n%d' % (prefix, r, c))
                    for slot, (nm2, q, wf, wf2, bb) in enumerate(corrs):
                        if nm2 != nm:
                            continue
                        b, vals = sfcf_corr_block(nm2, q, wf, wf2, T, r, c, slot, bb)
                        txt += b
                        exp.setdefault((nm2, wf, wf2), {}).setdefault(r, {})[c] = vals
                open(os.path.join(root, '%s_r%d.%s' % (prefix, r, nm)), 'w').write(txt)
    return exp
