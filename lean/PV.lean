import PV.Scalar
import PV.Py
import PV.Model.Obs
import PV.Model.Gamma
import PV.Spec.Wolff
import PV.Wire
import PV.Driver
import PV.Props.C02
