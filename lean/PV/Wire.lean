/-
  PV.Wire — JSON transport for the line-protocol driver.
  Floats travel as the decimal string of their IEEE-754 bit pattern (bit exact);
  rationals as `[num, den]`.
-/
import Lean.Data.Json
import PV.Model.Obs

open Lean

namespace PV.Wire

class Codec (α : Type) where
  dec : Json → Except String α
  enc : α → Json

export Codec (dec enc)

instance : Codec Float where
  dec j := match j with
    | .str s => match s.toNat? with
      | some n => .ok (Float.ofBits n.toUInt64)
      | none => .error s!"bad float bits {s}"
    | .num n => .ok n.toFloat
    | _ => .error "float expected"
  enc x := .str (toString x.toBits.toNat)

def jInt (j : Json) : Except String Int :=
  match j with
  | .num n => if n.exponent == 0 then .ok n.mantissa else .error "integer expected"
  | _ => .error "integer expected"

def jNat (j : Json) : Except String Nat := do
  let i ← jInt j
  if i < 0 then .error "nat expected" else pure i.toNat

instance : Codec Rat where
  dec j := match j with
    | .arr #[a, b] => do
      let n ← jInt a
      let d ← jInt b
      if d == 0 then .error "zero denominator" else pure (mkRat n d.toNat)
    | _ => .error "rat [num, den] expected"
  enc x := .arr #[.num (JsonNumber.fromInt x.num), .num (JsonNumber.fromNat x.den)]

instance : Codec Json where
  dec j := .ok j
  enc j := j

instance : Codec Int where
  dec := jInt
  enc x := .num (JsonNumber.fromInt x)

instance : Codec Nat where
  dec := jNat
  enc x := .num (JsonNumber.fromNat x)

instance : Codec String where
  dec j := match j with | .str s => .ok s | _ => .error "string expected"
  enc s := .str s

instance : Codec Bool where
  dec j := match j with | .bool b => .ok b | _ => .error "bool expected"
  enc b := .bool b

instance {α} [Codec α] : Codec (List α) where
  dec j := match j with
    | .arr a => a.toList.mapM dec
    | _ => .error "array expected"
  enc l := .arr (l.map enc).toArray

instance {α} [Codec α] : Codec (Option α) where
  dec j := match j with | .null => .ok none | j => some <$> dec j
  enc o := match o with | none => .null | some x => enc x

def field (j : Json) (k : String) : Except String Json :=
  match j.getObjVal? k with
  | .ok v => .ok v
  | .error _ => .error s!"missing field {k}"

def fieldD (j : Json) (k : String) (d : Json) : Json :=
  match j.getObjVal? k with
  | .ok v => v
  | .error _ => d

def get {α} [Codec α] (j : Json) (k : String) : Except String α := do
  dec (← field j k)

def obj (kvs : List (String × Json)) : Json := Json.mkObj kvs

instance : Codec Idl where
  dec j := match j.getObjVal? "range" with
    | .ok (.arr #[a, b, c]) => do pure (Idl.range (← jInt a) (← jNat b) (← jInt c))
    | _ => match j.getObjVal? "list" with
      | .ok l => do pure (Idl.list (← dec l))
      | _ => .error "idl expected"
  enc i := match i with
    | .range s n st => obj [("range", .arr #[enc s, enc n, enc st])]
    | .list l => obj [("list", enc l)]

instance {α} [Codec α] : Codec (Rep α) where
  dec j := do
    pure { name := ← get j "name", idl := ← get j "idl", deltas := ← get j "deltas",
           rvalue := ← get j "rvalue" }
  enc r := obj [("name", enc r.name), ("idl", enc r.idl), ("deltas", enc r.deltas),
                ("rvalue", enc r.rvalue)]

instance {α} [Codec α] : Codec (CovIn α) where
  dec j := do
    pure { name := ← get j "name", cov := ← get j "cov", grad := ← get j "grad" }
  enc c := obj [("name", enc c.name), ("cov", enc c.cov), ("grad", enc c.grad)]

instance {α} [Codec α] : Codec (Obs α) where
  dec j := do
    pure { value := ← get j "value", reps := ← get j "reps", covs := ← get j "covs",
           reweighted := ← get j "reweighted" }
  enc o := obj [("value", enc o.value), ("reps", enc o.reps), ("covs", enc o.covs),
                ("reweighted", enc o.reweighted)]

end PV.Wire
