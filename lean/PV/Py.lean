/-
  PV.Py — the pieces of Python / numpy container semantics the models rely on.
  Validated against the real interpreter by `driver/c_py.py` (micro-correspondence).
-/

namespace Py

/-- Python `//` for a positive divisor (Lean's `/` on `Int` is Euclidean, which is
    floor division when the divisor is positive). -/
@[inline] def fdiv (a b : Int) : Int := Int.fdiv a b

@[inline] def fmod (a b : Int) : Int := Int.fmod a b

/-- indices selected by the Python slice `[start:stop:step]` on a sequence of length `n`
    (CPython `PySlice_AdjustIndices` + the iteration of `list.__getitem__`). -/
def sliceIndices (n : Nat) (start stop : Option Int) (step : Int) : List Nat :=
  let N : Int := n
  if step > 0 then
    let adj (x : Int) : Int :=
      let x := if x < 0 then x + N else x
      if x < 0 then 0 else if x > N then N else x
    let s := match start with | none => 0 | some x => adj x
    let e := match stop with | none => N | some x => adj x
    if e ≤ s then [] else
      let cnt := ((e - s - 1) / step + 1).toNat
      (List.range cnt).map (fun (k : Nat) => (s + (k : Int) * step).toNat)
  else if step < 0 then
    let adj (x : Int) : Int :=
      let x := if x < 0 then x + N else x
      if x < -1 then -1 else if x > N - 1 then N - 1 else x
    let s := match start with | none => N - 1 | some x => adj x
    let e := match stop with | none => -1 | some x => adj x
    if s ≤ e then [] else
      let cnt := ((s - e - 1) / (-step) + 1).toNat
      (List.range cnt).map (fun (k : Nat) => (s + (k : Int) * step).toNat)
  else []

def slice {α} (l : List α) (start stop : Option Int) (step : Int := 1) : List α :=
  (sliceIndices l.length start stop step).filterMap (fun i => l[i]?)

/-- `l[i]` with Python's negative indexing; `none` = IndexError -/
def index? {α} (l : List α) (i : Int) : Option α :=
  let j := if i < 0 then i + l.length else i
  if j < 0 then none else l[j.toNat]?

/-- `np.roll(l, k)` on a list -/
def roll {α} (l : List α) (k : Int) : List α :=
  let n := l.length
  if n = 0 then l else
    let s := (Int.emod (-k) n).toNat
    l.drop s ++ l.take s

/-- insertion into a sorted list (used by the stable sort below) -/
def insertSorted {α} (le : α → α → Bool) (x : α) : List α → List α
  | [] => [x]
  | y :: ys => if le y x then y :: insertSorted le x ys else x :: y :: ys

/-- stable insertion sort: elements equal under `le` keep their order, as `sorted()` does -/
def sortBy {α} (le : α → α → Bool) (l : List α) : List α :=
  l.foldl (fun acc x => insertSorted le x acc) []

def dedupSorted {α} [BEq α] : List α → List α
  | [] => []
  | [x] => [x]
  | x :: y :: r => if x == y then dedupSorted (y :: r) else x :: dedupSorted (y :: r)

/-- `sorted(set(l))` for integers -/
def sortedSet (l : List Int) : List Int := dedupSorted (sortBy (fun a b => a ≤ b) l)

/-- `sorted(set(l))` for strings (code-point order, which is what Python uses for `str`) -/
def sortedSetStr (l : List String) : List String := dedupSorted (sortBy (fun a b => a ≤ b) l)

/-- text before the first `'|'` (`name.split('|')[0]`) -/
def ensOf (n : String) : String := String.ofList (n.toList.takeWhile (· != '|'))

end Py
