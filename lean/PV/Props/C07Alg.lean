/-
  PV.Todo.C07 — linear least-squares fits reproduce the closed-form GLS estimator (C07).

  Setting: design matrix `A : Matrix ι κ ℝ` (ι = data points, κ = parameters, arbitrary finite
  index types, in particular `Fin n`, `Fin p`), weight matrix `W : Matrix ι ι ℝ` (in the code
  `W = Lᵀ L`, with `L` the Cholesky-type factor of the inverse covariance, or `diag(1/dy²)`),
  data `y : ι → ℝ`, and  χ²(q) = (y - A q) ⬝ᵥ W (y - A q).

  Everything is stated for arbitrary `Fintype` index types, so that the SAME definition of χ²
  serves for the plain system (`Fin n`) and for the prior-augmented system (`Fin n ⊕ Fin k`).
-/
import Mathlib.Data.Real.Basic
import Mathlib.Data.Matrix.Basic
import Mathlib.Data.Matrix.Mul
import Mathlib.Data.Matrix.Block
import Mathlib.Data.Matrix.ColumnRowPartitioned
import Mathlib.LinearAlgebra.Matrix.NonsingularInverse
import Mathlib.LinearAlgebra.Matrix.DotProduct
import Mathlib.LinearAlgebra.Matrix.Notation
import Mathlib.Tactic.Ring
import Mathlib.Tactic.Linarith
import Mathlib.Tactic.NormNum
import Mathlib.Tactic.FinCases

namespace PV
open Matrix

/-! ### definitions -/

namespace C07

section defs
variable {ι κ : Type*} [Fintype ι] [Fintype κ]

/-- χ²(q) = (y - A q) ⬝ᵥ W (y - A q) -/
def chisq (A : Matrix ι κ ℝ) (W : Matrix ι ι ℝ) (y : ι → ℝ) (q : κ → ℝ) : ℝ :=
  (y - A *ᵥ q) ⬝ᵥ W *ᵥ (y - A *ᵥ q)

/-- the gradient of χ² with respect to the parameters: g(q, y) = -2 AᵀW (y - A q) -/
def grad (A : Matrix ι κ ℝ) (W : Matrix ι ι ℝ) (y : ι → ℝ) (q : κ → ℝ) : κ → ℝ :=
  -((2 : ℝ) • ((Aᵀ * W) *ᵥ (y - A *ᵥ q)))

/-- H = ∂²χ²/∂p² for the linear model (W symmetric): 2 AᵀWA -/
def hessian (A : Matrix ι κ ℝ) (W : Matrix ι ι ℝ) : Matrix κ κ ℝ :=
  (2 : ℝ) • (Aᵀ * W * A)

/-- M = ∂²χ²/∂p∂y for the linear model (W symmetric): -2 AᵀW -/
def mixed (A : Matrix ι κ ℝ) (W : Matrix ι ι ℝ) : Matrix κ ι ℝ :=
  -((2 : ℝ) • (Aᵀ * W))

end defs

/-! ### helper lemmas -/

section helpers
variable {ι κ μ : Type*} [Fintype ι] [Fintype κ] [Fintype μ]

/-- (A h) ⬝ᵥ u = (Aᵀ u) ⬝ᵥ h -/
theorem mulVec_dotProduct_eq (A : Matrix ι κ ℝ) (h : κ → ℝ) (u : ι → ℝ) :
    (A *ᵥ h) ⬝ᵥ u = (Aᵀ *ᵥ u) ⬝ᵥ h := by
  rw [dotProduct_comm, dotProduct_mulVec, mulVec_transpose]

/-- for symmetric W the bilinear form u ⬝ᵥ W v is symmetric -/
theorem dotProduct_mulVec_symm (W : Matrix ι ι ℝ) (hW : Wᵀ = W) (u v : ι → ℝ) :
    u ⬝ᵥ W *ᵥ v = v ⬝ᵥ W *ᵥ u := by
  rw [dotProduct_mulVec, ← mulVec_transpose, hW, dotProduct_comm]

/-- d ⬝ᵥ (LᵀL) d = (L d) ⬝ᵥ (L d) -/
theorem gram_quadratic (L : Matrix μ ι ℝ) (d : ι → ℝ) :
    d ⬝ᵥ (Lᵀ * L) *ᵥ d = (L *ᵥ d) ⬝ᵥ (L *ᵥ d) := by
  rw [← mulVec_mulVec, dotProduct_mulVec, vecMul_transpose]

/-- v ⬝ᵥ v ≥ 0 -/
theorem dotProduct_self_nonneg' (v : ι → ℝ) : 0 ≤ v ⬝ᵥ v :=
  Finset.sum_nonneg (fun i _ => mul_self_nonneg (v i))

omit [Fintype ι] in
/-- LᵀL is symmetric -/
theorem gram_symm (L : Matrix μ ι ℝ) : (Lᵀ * L)ᵀ = Lᵀ * L := by
  rw [transpose_mul, transpose_transpose]

/-- the gradient vanishes exactly at solutions of the normal equations -/
theorem grad_eq_zero_iff (A : Matrix ι κ ℝ) (W : Matrix ι ι ℝ) (y : ι → ℝ) (q : κ → ℝ) :
    grad A W y q = 0 ↔ (Aᵀ * W * A) *ᵥ q = (Aᵀ * W) *ᵥ y := by
  unfold grad
  rw [neg_eq_zero, smul_eq_zero_iff_right (two_ne_zero), mulVec_sub, mulVec_mulVec, sub_eq_zero]
  exact eq_comm

/-- second-order expansion of χ² (exact, since χ² is quadratic), for symmetric W -/
theorem chisq_add (A : Matrix ι κ ℝ) (W : Matrix ι ι ℝ) (hW : Wᵀ = W) (y : ι → ℝ)
    (q h : κ → ℝ) :
    chisq A W y (q + h) = chisq A W y q + grad A W y q ⬝ᵥ h + (A *ᵥ h) ⬝ᵥ W *ᵥ (A *ᵥ h) := by
  unfold chisq grad
  have e : y - A *ᵥ (q + h) = (y - A *ᵥ q) - A *ᵥ h := by
    rw [mulVec_add]; abel
  rw [e]
  set r := y - A *ᵥ q with hr
  set d := A *ᵥ h with hd
  have h1 : r ⬝ᵥ W *ᵥ d = d ⬝ᵥ W *ᵥ r := dotProduct_mulVec_symm W hW r d
  have h2 : d ⬝ᵥ W *ᵥ r = ((Aᵀ * W) *ᵥ r) ⬝ᵥ h := by
    rw [hd, mulVec_dotProduct_eq, mulVec_mulVec]
  rw [mulVec_sub, sub_dotProduct, dotProduct_sub, dotProduct_sub, h1, neg_dotProduct,
    smul_dotProduct, ← h2, smul_eq_mul]
  ring

end helpers

/-! ### concrete instance used in the non-vacuity examples:
  straight-line fit through the abscissae 0, 1, 2 with weights 1, 4, 1 -/

/-- design matrix of a straight-line fit a + b·x at x = 0, 1, 2 -/
def exA : Matrix (Fin 3) (Fin 2) ℝ := !![1, 0; 1, 1; 1, 2]
/-- L = diag(1, 2, 1), i.e. errors 1, 1/2, 1 -/
def exL : Matrix (Fin 3) (Fin 3) ℝ := !![1, 0, 0; 0, 2, 0; 0, 0, 1]
/-- W = LᵀL = diag(1, 4, 1) -/
def exW : Matrix (Fin 3) (Fin 3) ℝ := !![1, 0, 0; 0, 4, 0; 0, 0, 1]
/-- data -/
def exY : Fin 3 → ℝ := ![1, 0, 2]
/-- the GLS solution for these data -/
noncomputable def exP : Fin 2 → ℝ := ![0, 1 / 2]

theorem exW_eq : exW = exLᵀ * exL := by
  ext i j
  fin_cases i <;> fin_cases j <;>
    simp [exW, exL, Matrix.mul_apply, Fin.sum_univ_three]
  norm_num

theorem exW_symm : exWᵀ = exW := by
  ext i j
  fin_cases i <;> fin_cases j <;> simp [exW]

theorem exNormal : exAᵀ * exW * exA = !![6, 6; 6, 8] := by
  ext i j
  fin_cases i <;> fin_cases j <;>
    simp [exA, exW, Matrix.mul_apply, Fin.sum_univ_three] <;> norm_num

theorem exNormal_isUnit : IsUnit (exAᵀ * exW * exA).det := by
  rw [exNormal, Matrix.det_fin_two_of]
  norm_num

theorem exP_solves : (exAᵀ * exW * exA) *ᵥ exP = (exAᵀ * exW) *ᵥ exY := by
  rw [exNormal]
  ext i
  fin_cases i <;>
    simp [exA, exW, exP, exY, Matrix.mulVec, dotProduct, Matrix.mul_apply, Fin.sum_univ_three,
      Fin.sum_univ_two] <;> norm_num

end C07

open C07

section main
variable {ι κ μ : Type*} [Fintype ι] [Fintype κ] [Fintype μ]

/-! ### 1. normal equations have a unique solution -/

/-- C07 (normal equations ⇔ closed form): if the normal matrix AᵀWA is invertible (its determinant
    is a unit), then `q` solves the normal equations AᵀWA q = AᵀW y if and only if
    q = (AᵀWA)⁻¹ AᵀW y.  Backs the oracle of the check: the fit result of `least_squares` /
    `total_least_squares` on a linear model is compared with this closed-form GLS estimator.
    Hypothesis: invertibility of AᵀWA (full column rank of L A), explicit. -/
theorem c07_normal_unique [DecidableEq κ] (A : Matrix ι κ ℝ) (W : Matrix ι ι ℝ) (y : ι → ℝ)
    (q : κ → ℝ) (h : IsUnit (Aᵀ * W * A).det) :
    (Aᵀ * W * A) *ᵥ q = (Aᵀ * W) *ᵥ y ↔ q = (Aᵀ * W * A)⁻¹ *ᵥ ((Aᵀ * W) *ᵥ y) := by
  constructor
  · intro hq
    rw [← hq, mulVec_mulVec, nonsing_inv_mul _ h, one_mulVec]
  · intro hq
    rw [hq, mulVec_mulVec, mul_nonsing_inv _ h, one_mulVec]

/-- non-vacuity: the straight-line system has an invertible normal matrix, and `exP` is the
    closed-form solution -/
example : IsUnit (exAᵀ * exW * exA).det ∧
    exP = (exAᵀ * exW * exA)⁻¹ *ᵥ ((exAᵀ * exW) *ᵥ exY) :=
  ⟨exNormal_isUnit, (c07_normal_unique exA exW exY exP exNormal_isUnit).1 exP_solves⟩

/-! ### 2. χ² decomposition and minimiser -/

/-- C07 (χ² decomposition): with W = LᵀL and p̂ a solution of the normal equations, for every
    parameter vector q:  χ²(q) = χ²(p̂) + ‖L A (q - p̂)‖²  (‖v‖² written as v ⬝ᵥ v).
    Backs: the minimiser found numerically by the library is the GLS estimator, and the excess
    χ² away from it is the quadratic form of the normal matrix.
    No invertibility is needed: any solution of the normal equations will do. -/
theorem c07_chisq_decomp (A : Matrix ι κ ℝ) (L : Matrix μ ι ℝ) (W : Matrix ι ι ℝ)
    (hW : W = Lᵀ * L) (y : ι → ℝ) (phat : κ → ℝ)
    (hp : (Aᵀ * W * A) *ᵥ phat = (Aᵀ * W) *ᵥ y) (q : κ → ℝ) :
    chisq A W y q
      = chisq A W y phat + ((L * A) *ᵥ (q - phat)) ⬝ᵥ ((L * A) *ᵥ (q - phat)) := by
  have hsymm : Wᵀ = W := by rw [hW]; exact gram_symm L
  have hg : grad A W y phat = 0 := (grad_eq_zero_iff A W y phat).2 hp
  have hq : q = phat + (q - phat) := by abel
  conv_lhs => rw [hq]
  rw [chisq_add A W hsymm, hg, zero_dotProduct, add_zero, hW, gram_quadratic, mulVec_mulVec]

/-- non-vacuity of the hypotheses of `c07_chisq_decomp` -/
example : exW = exLᵀ * exL ∧ (exAᵀ * exW * exA) *ᵥ exP = (exAᵀ * exW) *ᵥ exY :=
  ⟨exW_eq, exP_solves⟩

/-- C07 (minimiser): with W = LᵀL (symmetric positive semidefinite), every solution p̂ of the normal
    equations is a global minimiser of χ²:  χ²(p̂) ≤ χ²(q) for all q.  Backs: what the library's
    iterative minimiser converges to is the closed-form estimator. -/
theorem c07_minimiser (A : Matrix ι κ ℝ) (L : Matrix μ ι ℝ) (W : Matrix ι ι ℝ)
    (hW : W = Lᵀ * L) (y : ι → ℝ) (phat : κ → ℝ)
    (hp : (Aᵀ * W * A) *ᵥ phat = (Aᵀ * W) *ᵥ y) (q : κ → ℝ) :
    chisq A W y phat ≤ chisq A W y q := by
  rw [c07_chisq_decomp A L W hW y phat hp q]
  have : 0 ≤ ((L * A) *ᵥ (q - phat)) ⬝ᵥ ((L * A) *ᵥ (q - phat)) :=
    dotProduct_self_nonneg' _
  linarith

/-- non-vacuity of the hypotheses of `c07_minimiser` (same as for the decomposition) -/
example : exW = exLᵀ * exL ∧ (exAᵀ * exW * exA) *ᵥ exP = (exAᵀ * exW) *ᵥ exY :=
  ⟨exW_eq, exP_solves⟩

/-! ### 3. implicit-function error propagation reduces to the GLS sensitivity -/

/-- C07 (implicit-function formula, linear model): the library propagates errors through the fit
    with dp/dy = -H⁻¹ M, H = ∂²χ²/∂p², M = ∂²χ²/∂p∂y.  For the linear model H = 2AᵀWA
    (`C07.hessian`) and M = -2AᵀW (`C07.mixed`), and then -H⁻¹ M = (AᵀWA)⁻¹ AᵀW, the GLS
    sensitivity matrix S, assuming AᵀWA invertible.  (Symmetry of W is what makes `hessian` and
    `mixed` the actual second derivatives — see `c07_ift_gradient` — but is not needed for this
    purely algebraic identity, so it is not a hypothesis here.) -/
theorem c07_ift_linear [DecidableEq κ] (A : Matrix ι κ ℝ) (W : Matrix ι ι ℝ)
    (h : IsUnit (Aᵀ * W * A).det) :
    -(hessian A W)⁻¹ * mixed A W = (Aᵀ * W * A)⁻¹ * (Aᵀ * W) := by
  unfold hessian mixed
  have : Invertible (2 : ℝ) := invertibleOfNonzero two_ne_zero
  rw [Matrix.inv_smul _ (2 : ℝ) h, Matrix.neg_mul, Matrix.mul_neg, neg_neg, Matrix.smul_mul, Matrix.mul_smul, smul_smul,
    invOf_mul_self, one_smul]

/-- non-vacuity: the straight-line system satisfies the hypothesis of `c07_ift_linear` -/
example : IsUnit (exAᵀ * exW * exA).det := exNormal_isUnit

/-- C07 (the gradient really is the gradient): for symmetric W and all q, h,
    χ²(q + h) - χ²(q) = g(q, y) ⬝ᵥ h + (A h) ⬝ᵥ W (A h)  with g(q, y) = -2AᵀW (y - A q)
    (`C07.grad`): the part linear in h is g ⬝ᵥ h and the remainder is purely quadratic, so g is the
    gradient of χ² and the quadratic part is ½ hᵀ H h with H = 2AᵀWA (`c07_ift_quadratic`). -/
theorem c07_ift_gradient (A : Matrix ι κ ℝ) (W : Matrix ι ι ℝ) (hW : Wᵀ = W) (y : ι → ℝ)
    (q h : κ → ℝ) :
    chisq A W y (q + h) - chisq A W y q
      = grad A W y q ⬝ᵥ h + (A *ᵥ h) ⬝ᵥ W *ᵥ (A *ᵥ h) := by
  rw [chisq_add A W hW]; ring

/-- non-vacuity: the weight matrix of the straight-line system is symmetric -/
example : exWᵀ = exW := exW_symm

/-- C07 (the quadratic remainder is ½ hᵀ H h): (A h) ⬝ᵥ W (A h) = ½ · h ⬝ᵥ H h, H = 2AᵀWA. -/
theorem c07_ift_quadratic (A : Matrix ι κ ℝ) (W : Matrix ι ι ℝ) (h : κ → ℝ) :
    (A *ᵥ h) ⬝ᵥ W *ᵥ (A *ᵥ h) = (1 / 2 : ℝ) * (h ⬝ᵥ hessian A W *ᵥ h) := by
  unfold hessian
  rw [smul_mulVec, dotProduct_smul, smul_eq_mul, ← mul_assoc]
  norm_num
  rw [mulVec_dotProduct_eq, dotProduct_comm]
  simp only [mulVec_mulVec, Matrix.mul_assoc]

/-- C07 (the gradient is affine — in fact linear — in (q, y) with coefficient matrices H and M):
    g(q, y) = H q + M y, hence ∂g/∂q = H = 2AᵀWA and ∂g/∂y = M = -2AᵀW. -/
theorem c07_ift_grad_affine (A : Matrix ι κ ℝ) (W : Matrix ι ι ℝ) (y : ι → ℝ) (q : κ → ℝ) :
    grad A W y q = hessian A W *ᵥ q + mixed A W *ᵥ y := by
  unfold grad hessian mixed
  rw [mulVec_sub, mulVec_mulVec, smul_sub, neg_sub, smul_mulVec, neg_mulVec, smul_mulVec]
  abel

/-- C07 (increment form of the same fact): g(q + dq, y + dy) = g(q, y) + H dq + M dy. -/
theorem c07_ift_grad_increment (A : Matrix ι κ ℝ) (W : Matrix ι ι ℝ) (y dy : ι → ℝ)
    (q dq : κ → ℝ) :
    grad A W (y + dy) (q + dq) = grad A W y q + hessian A W *ᵥ dq + mixed A W *ᵥ dy := by
  rw [c07_ift_grad_affine, c07_ift_grad_affine, mulVec_add, mulVec_add]
  abel

/-- C07 (stationarity ⇔ implicit-function solution): with AᵀWA invertible, the gradient vanishes at
    q iff q = (-H⁻¹ M) y; i.e. the implicit function defined by g(p̂(y), y) = 0 is the linear map
    with matrix -H⁻¹ M = S, so the derivative the library computes is exact. -/
theorem c07_ift_stationary [DecidableEq κ] (A : Matrix ι κ ℝ) (W : Matrix ι ι ℝ) (y : ι → ℝ)
    (q : κ → ℝ) (h : IsUnit (Aᵀ * W * A).det) :
    grad A W y q = 0 ↔ q = (-(hessian A W)⁻¹ * mixed A W) *ᵥ y := by
  rw [grad_eq_zero_iff, c07_normal_unique A W y q h, c07_ift_linear A W h, mulVec_mulVec]

/-- non-vacuity: hypothesis of `c07_ift_stationary` holds for the straight-line system, and `exP`
    is the stationary point -/
example : IsUnit (exAᵀ * exW * exA).det ∧ grad exA exW exY exP = 0 :=
  ⟨exNormal_isUnit, (grad_eq_zero_iff exA exW exY exP).2 exP_solves⟩

/-! ### 4. invariance under permutation of the data points -/

section perm
variable {ι' : Type*} [Fintype ι']

omit [Fintype κ] in
/-- C07 (row permutation, normal matrix): re-indexing the data points by a bijection σ (rows of A,
    rows and columns of W) leaves AᵀWA unchanged. -/
theorem c07_row_perm_normal (A : Matrix ι κ ℝ) (W : Matrix ι ι ℝ) (σ : ι' ≃ ι) :
    (A.submatrix σ id)ᵀ * W.submatrix σ σ * A.submatrix σ id = Aᵀ * W * A := by
  rw [transpose_submatrix, submatrix_mul_equiv, submatrix_mul_equiv, submatrix_id_id]

omit [Fintype κ] in
/-- C07 (row permutation, right-hand side): the same re-indexing, applied also to the entries of y,
    leaves AᵀW y unchanged. -/
theorem c07_row_perm_rhs (A : Matrix ι κ ℝ) (W : Matrix ι ι ℝ) (y : ι → ℝ) (σ : ι' ≃ ι) :
    ((A.submatrix σ id)ᵀ * W.submatrix σ σ) *ᵥ (y ∘ σ) = (Aᵀ * W) *ᵥ y := by
  rw [transpose_submatrix, submatrix_mul_equiv, submatrix_mulVec_equiv]
  ext i
  simp [Function.comp_assoc]

/-- C07 (row permutation, χ²): the same re-indexing leaves χ²(q) unchanged for every q. -/
theorem c07_row_perm_chisq (A : Matrix ι κ ℝ) (W : Matrix ι ι ℝ) (y : ι → ℝ) (σ : ι' ≃ ι)
    (q : κ → ℝ) :
    chisq (A.submatrix σ id) (W.submatrix σ σ) (y ∘ σ) q = chisq A W y q := by
  unfold chisq
  have e : y ∘ σ - A.submatrix σ id *ᵥ q = (y - A *ᵥ q) ∘ σ := by
    ext i
    simp [Matrix.mulVec, dotProduct]
  rw [e, submatrix_mulVec_equiv, Function.comp_assoc, Equiv.self_comp_symm, Function.comp_id]
  exact Equiv.sum_comp σ (fun i => (y - A *ᵥ q) i * (W *ᵥ (y - A *ᵥ q)) i)

/-- C07 (row permutation): permuting the data points — rows of A, entries of y, rows and columns of W
    by the same permutation σ of the index set (`Matrix.submatrix`) — leaves the normal matrix
    AᵀWA, the right-hand side AᵀW y and χ²(q) unchanged.  Backs: the fit result does not depend on
    the order in which the data points are passed.  (The component lemmas `c07_row_perm_normal`,
    `_rhs`, `_chisq` hold more generally for a bijection from another index type.) -/
theorem c07_row_perm (A : Matrix ι κ ℝ) (W : Matrix ι ι ℝ) (y : ι → ℝ) (σ : Equiv.Perm ι)
    (q : κ → ℝ) :
    (A.submatrix σ id)ᵀ * W.submatrix σ σ * A.submatrix σ id = Aᵀ * W * A ∧
    ((A.submatrix σ id)ᵀ * W.submatrix σ σ) *ᵥ (y ∘ σ) = (Aᵀ * W) *ᵥ y ∧
    chisq (A.submatrix σ id) (W.submatrix σ σ) (y ∘ σ) q = chisq A W y q :=
  ⟨c07_row_perm_normal A W σ, c07_row_perm_rhs A W y σ, c07_row_perm_chisq A W y σ q⟩

/-- concrete instance: exchanging the first and the last data point of the straight-line system -/
example (q : Fin 2 → ℝ) :
    chisq (exA.submatrix (Equiv.swap 0 2) id) (exW.submatrix (Equiv.swap 0 2) (Equiv.swap 0 2))
      (exY ∘ Equiv.swap 0 2) q = chisq exA exW exY q :=
  (c07_row_perm exA exW exY (Equiv.swap 0 2) q).2.2

end perm

/-! ### 5. Gaussian priors are extra rows -/

section priors
variable {ρ : Type*} [Fintype ρ]

/-- C07 (priors = augmented system): with prior rows B (in the code: selector rows picking the
    constrained parameters), prior means m and prior weight matrix Wp (in the code: diag(1/σ²)),
    χ²_total(q) = χ²(q) + (m - B q) ⬝ᵥ Wp (m - B q) is the χ² of the augmented system with design
    matrix `fromRows A B`, data `Sum.elim y m` and block-diagonal weight `fromBlocks W 0 0 Wp`.
    Holds for arbitrary B and Wp (no selector/diagonal assumption needed).  Backs: a fit with
    priors is compared against the closed-form GLS estimator of the augmented system. -/
theorem c07_priors_augment (A : Matrix ι κ ℝ) (W : Matrix ι ι ℝ) (y : ι → ℝ)
    (B : Matrix ρ κ ℝ) (Wp : Matrix ρ ρ ℝ) (m : ρ → ℝ) (q : κ → ℝ) :
    chisq A W y q + (m - B *ᵥ q) ⬝ᵥ Wp *ᵥ (m - B *ᵥ q)
      = chisq (fromRows A B) (fromBlocks W 0 0 Wp) (Sum.elim y m) q := by
  unfold chisq
  have e : Sum.elim y m - fromRows A B *ᵥ q = Sum.elim (y - A *ᵥ q) (m - B *ᵥ q) := by
    rw [fromRows_mulVec]
    ext i
    cases i <;> simp
  rw [e, fromBlocks_mulVec, sumElim_dotProduct_sumElim]
  simp

/-- concrete instance of the prior-augmented system: a prior on the slope (selector row (0 1),
    mean 1, σ = 1/2 so weight 4) added to the straight-line system -/
example (q : Fin 2 → ℝ) :
    chisq exA exW exY q + ((![1] : Fin 1 → ℝ) - !![0, 1] *ᵥ q) ⬝ᵥ
        (Matrix.diagonal ![4]) *ᵥ ((![1] : Fin 1 → ℝ) - !![0, 1] *ᵥ q)
      = chisq (fromRows exA !![0, 1]) (fromBlocks exW 0 0 (Matrix.diagonal ![4]))
          (Sum.elim exY ![1]) q :=
  c07_priors_augment exA exW exY _ _ _ q

end priors

end main

/-! ### 6. degrees of freedom -/

/-- C07 (degrees of freedom): dof = (number of data points + number of priors) - number of
    parameters, computed with natural-number (truncated) subtraction, equals
    points - parameters + priors as integers, PROVIDED points + priors ≥ parameters (otherwise
    the Nat subtraction truncates to 0 and the identity fails).  Backs: `dof = len(y) -
    n_parms + len(priors)` in the fit routines. -/
theorem c07_dof (points priors params : ℕ) (h : params ≤ points + priors) :
    ((points + priors - params : ℕ) : ℤ) = (points : ℤ) - (params : ℤ) + (priors : ℤ) := by
  omega

/-- non-vacuity: 3 points, 1 prior, 2 parameters -/
example : (2 : ℕ) ≤ 3 + 1 := by norm_num

/-- the hypothesis of `c07_dof` cannot be dropped: 0 points, 0 priors, 1 parameter -/
example : ((0 + 0 - 1 : ℕ) : ℤ) ≠ (0 : ℤ) - (1 : ℤ) + (0 : ℤ) := by norm_num

end PV
