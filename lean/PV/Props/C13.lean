/-
  Property C13 — jackknife and bootstrap export / import are exact resampling transforms.
  Property theorems only.
-/
import Mathlib.Algebra.BigOperators.Group.List.Basic
import Mathlib.Tactic.FieldSimp
import Mathlib.Tactic.Linarith
import Mathlib.Tactic.Ring
import PV.Model.Resample
import PV.Proofs.C13Lemmas
import PV.Proofs.RealScalar

namespace PV
open Scalar
open PV.RealS

/-- exact-arithmetic example: leave-one-out means of (1,2,3,6) with value 3, and the import
    restores the samples -/
theorem c13_example :
    exportJack (3 : Rat) [1, 2, 3, 6] = [3, 11 / 3, 10 / 3, 3, 2] ∧
    importJack (exportJack (3 : Rat) [1, 2, 3, 6]) = (3, [1, 2, 3, 6]) ∧
    exportBoot (3 : Rat) [1, 2, 3, 6] [[0, 0, 3, 3], [1, 2, 3, 0]] = [3, 7 / 2, 3] := by
  decide +kernel

/-- C13 (leave-one-out): when the central value is the sample mean, entry i+1 of the exported
    jackknife samples is the mean of all samples except x_i, and entry 0 is the central value -/
theorem c13_jack_loo (x : List ℝ) (hn : 2 ≤ x.length) (i : Nat) (hi : i < x.length) :
    (exportJack (meanL x) x).getD 0 0 = meanL x ∧
    (exportJack (meanL x) x).getD (i + 1) 0 = (x.sum - x.getD i 0) / ((x.length : ℝ) - 1) := by
  obtain ⟨h0, h1⟩ := c13_len_ne x hn
  refine ⟨by simp [exportJack], ?_⟩
  simp only [exportJack, List.getD_cons_succ]
  simp only [List.getD_eq_getElem?_getD, List.getElem?_map, List.getElem?_eq_getElem hi,
    Option.map_some, Option.getD_some, meanL, ofNatS_eq, sum_eq, ofNat_eq_lit, lit_eq, Nat.cast_one]
  rw [mul_div_cancel₀ _ h0]


/-- C13 (import inverts export): the samples reconstructed from the exported jackknife samples are
    the original ones, and the central value is restored -/
theorem c13_jack_inv (x : List ℝ) (hn : 2 ≤ x.length) :
    importJack (exportJack (meanL x) x) = (meanL x, x) := by
  obtain ⟨h0, h1⟩ := c13_len_ne x hn
  simp only [importJack, exportJack, List.drop_one, List.tail_cons, List.headD_cons,
    List.length_map, ofNatS_eq, sum_eq, ofNat_eq_lit, lit_eq, Nat.cast_one, c13_sum_affine,
    List.map_map, meanL, Prod.mk.injEq, true_and]
  conv_rhs => rw [← List.map_id x]
  apply List.map_congr_left
  intro xi _
  simp only [Function.comp, id]
  rw [mul_div_cancel₀ _ h0]
  field_simp
  ring


/-- C13 (jackknife variance): (n−1)/n · Σ (j_i − j̄)² of the exported samples equals Σ δ²/(n(n−1)),
    the squared naive standard error of the mean -/
theorem c13_jack_var (x : List ℝ) (hn : 2 ≤ x.length) :
    let n : ℝ := x.length
    let js := (exportJack (meanL x) x).drop 1
    let jbar := js.sum / n
    (n - 1) / n * (js.map (fun j => (j - jbar) ^ 2)).sum
      = (x.map (fun xi => (xi - meanL x) ^ 2)).sum / (n * (n - 1)) := by
  obtain ⟨h0, h1⟩ := c13_len_ne x hn
  intro n js jbar
  have hjs : js = x.map (fun xi => ((x.length : ℝ) * meanL x - xi) / ((x.length : ℝ) - 1)) := by
    simp [js, exportJack]
  have hm : (x.length : ℝ) * meanL x = x.sum := by
    simp only [meanL, ofNatS_eq, sum_eq]
    rw [mul_div_cancel₀ _ h0]
  have hbar : jbar = meanL x := by
    simp only [jbar, n, hjs, c13_sum_affine]
    rw [hm]
    simp only [meanL, ofNatS_eq, sum_eq]
    field_simp
  have hmap : js.map (fun j => (j - jbar) ^ 2)
      = x.map (fun xi => ((meanL x - xi) / ((x.length : ℝ) - 1)) ^ 2) := by
    rw [hjs, hbar, List.map_map]
    apply List.map_congr_left
    intro xi _
    simp only [Function.comp]
    congr 1
    rw [hm, ← hm]
    field_simp
    ring
  rw [hmap, c13_sum_sq_scale]
  simp only [n]
  field_simp


/-- C13 (bootstrap export): entry b+1 is the mean over the resampled configurations of row b -/
theorem c13_boot_export (v : ℝ) (x : List ℝ) (table : List (List Nat)) (b : Nat) (hb : b < table.length) :
    (exportBoot v x table).getD 0 0 = v ∧
    (exportBoot v x table).getD (b + 1) 0
      = ((table.getD b []).map (fun k => x.getD k 0)).sum / (x.length : ℝ) := by
  refine ⟨by simp [exportBoot], ?_⟩
  simp only [exportBoot, List.getD_cons_succ]
  simp only [List.getD_eq_getElem?_getD, List.getElem?_map, List.getElem?_eq_getElem hb,
    Option.map_some, Option.getD_some, ofNatS_eq, sum_eq, ofNat_eq_lit, lit_eq, Nat.cast_zero]


/-- **C13 (bootstrap export, as requested).**  What `export_bootstrap(samples, random_numbers=table)` returns when it
    accepts the table is, for every row, the MEAN over the configurations that row selects (sum over the row divided by
    the number of entries of the row), one entry per requested sample after the central value ... -/
theorem c13_boot_checked_mean (samples : Nat) (v : ℝ) (x : List ℝ) (table : List (List Nat)) (out : List ℝ)
    (h : exportBootChecked samples v x table = some out) (b : Nat) (hb : b < samples) :
    out.length = samples + 1 ∧ out.getD 0 0 = v ∧
    out.getD (b + 1) 0 = ((table.getD b []).map (fun k => x.getD k 0)).sum / ((table.getD b []).length : ℝ) := by
  unfold exportBootChecked at h
  split at h
  · rename_i hc
    simp only [Bool.and_eq_true, beq_iff_eq, List.all_eq_true] at hc
    obtain ⟨hlen, hrows⟩ := hc
    cases h
    have hb' : b < table.length := by omega
    have hrow : (table.getD b []).length = x.length := by
      have hmem : table.getD b [] ∈ table := by
        rw [List.getD_eq_getElem?_getD, List.getElem?_eq_getElem hb']
        exact List.getElem_mem hb'
      exact hrows _ hmem
    refine ⟨by simp [exportBoot, hlen], (c13_boot_export v x table b hb').1, ?_⟩
    rw [(c13_boot_export v x table b hb').2, hrow]
  · cases h

/-- ... and a table of any other shape is refused -/
theorem c13_boot_refuses_other_shape (samples : Nat) (v : ℝ) (x : List ℝ) (table : List (List Nat))
    (h : table.length ≠ samples ∨ ∃ row ∈ table, row.length ≠ x.length) :
    exportBootChecked samples v x table = none := by
  unfold exportBootChecked
  split
  · rename_i hc
    simp only [Bool.and_eq_true, beq_iff_eq, List.all_eq_true] at hc
    rcases h with h | ⟨row, hr, hne⟩
    · exact absurd hc.1 h
    · exact absurd (hc.2 row hr) hne
  · rfl

/-- non-vacuity: a 2 x 3 table for 2 samples of 3 configurations is accepted -/
example : (exportBootChecked 2 (2 : Rat) [1, 2, 3] [[0, 0, 1], [2, 1, 1]]).isSome = true := by decide +kernel

/-- C13 (chain consistency): with the same resampling table the export is linear, so samples of a
    linear combination are the linear combination of the samples -/
theorem c13_boot_linear (v w a : ℝ) (x y : List ℝ) (hl : x.length = y.length) (table : List (List Nat)) :
    exportBoot (v + a * w) (List.zipWith (fun s t => s + a * t) x y) table
      = List.zipWith (fun s t => s + a * t) (exportBoot v x table) (exportBoot w y table) := by
  simp only [exportBoot, List.zipWith_cons_cons, List.zipWith_map, List.zipWith_self,
    List.length_zipWith, ← hl, Nat.min_self, ofNatS_eq, sum_eq, List.cons.injEq, true_and]
  apply List.map_congr_left
  intro row _
  have : (fun k => (List.zipWith (fun s t => s + a * t) x y).getD k 0)
      = fun k => x.getD k 0 + a * y.getD k 0 := by
    funext k; exact c13_getD_zipWith a x y hl k
  simp only [ofNat_eq_lit, lit_eq, Nat.cast_zero] at this ⊢
  rw [this, c13_sum_lin]
  ring



/-- C13 (bootstrap import): when the resampling table has full column rank — no non-zero chain of
    that length is resampled to zero in every bootstrap sample — the exported samples determine the
    chain: two chains with the same samples under the same table are equal.  Whatever the import
    solves for, the original fluctuations are the only candidate. -/
theorem c13_boot_determined (table : List (List Nat)) (n : Nat)
    (hrank : ∀ z : List ℝ, z.length = n →
      (∀ b, b < table.length → (exportBoot 0 z table).getD (b + 1) 0 = 0) → ∀ k, k < n → z.getD k 0 = 0)
    (v w : ℝ) (x y : List ℝ) (hx : x.length = n) (hy : y.length = n)
    (h : (exportBoot v x table).drop 1 = (exportBoot w y table).drop 1) : x = y := by
  have hlin := c13_boot_linear v w (-1) x y (hx.trans hy.symm) table
  set z := List.zipWith (fun s t => s + -1 * t) x y with hz
  have hzl : z.length = n := by simp [hz, hx, hy]
  have hzero : ∀ b, b < table.length → (exportBoot 0 z table).getD (b + 1) 0 = 0 := by
    intro b hb
    have e1 : (exportBoot 0 z table).getD (b + 1) 0 = (exportBoot (v + -1 * w) z table).getD (b + 1) 0 := by
      simp [exportBoot]
    rw [e1, hlin]
    have hl1 : (exportBoot v x table).length = table.length + 1 := by simp [exportBoot]
    have hl2 : (exportBoot w y table).length = table.length + 1 := by simp [exportBoot]
    simp only [List.getD_eq_getElem?_getD, List.getElem?_zipWith]
    have g1 : (exportBoot v x table)[b + 1]? = (exportBoot w y table)[b + 1]? := by
      have := congrArg (fun l => l[b]?) h
      simpa [Nat.add_comm] using this
    rw [g1]
    have hb2 : b + 1 < (exportBoot w y table).length := by omega
    rw [List.getElem?_eq_getElem hb2]
    simp
  have hk := hrank z hzl hzero
  apply List.ext_getElem (hx.trans hy.symm)
  intro k h1 h2
  have := hk k (by omega)
  rw [hz, List.getD_eq_getElem?_getD, List.getElem?_zipWith, List.getElem?_eq_getElem h1, List.getElem?_eq_getElem h2] at this
  simp at this
  linarith

/-- the rank hypothesis is satisfiable: the table that resamples configuration 0 twice, then 1 twice -/
example : ∀ z : List ℝ, z.length = 2 →
    (∀ b, b < [[0, 0], [1, 1]].length → (exportBoot 0 z [[0, 0], [1, 1]]).getD (b + 1) 0 = 0) →
    ∀ k, k < 2 → z.getD k 0 = 0 := by
  intro z hz h k hk
  match z, hz with
  | [a, b], _ =>
    have h0 := h 0 (by decide)
    have h1 := h 1 (by decide)
    simp [exportBoot, ofNatS_eq, sum_eq] at h0 h1
    subst h0 h1
    match k, hk with
    | 0, _ => rfl
    | 1, _ => rfl

end PV
