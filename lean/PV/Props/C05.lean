/-
  Property C05 — reweighting, correlating and merging pair samples by configuration number.
  Property theorems only.
-/
import PV.Model.Combine

namespace PV
open Scalar

variable {α : Type} [Elem α]

/-- C05 (rejections): observables carrying covariance inputs cannot be reweighted / correlated -/
theorem c05_reweight_rejects_covobs (w o : Obs α) (ac : Bool) (h : o.covs.length > 0) :
    ∃ e, reweight1 w o ac = .error e := by
  unfold reweight1
  simp [h, bind, Except.bind, throw, throwThe, MonadExceptOf.throw]

end PV
