/-
  Property C05 — reweighting, correlating and merging pair samples by configuration number.
  Property theorems only.
-/
import Mathlib.Tactic.Linarith
import Mathlib.Tactic.Ring
import PV.Model.Combine
import PV.Proofs.C05Lemmas
import PV.Proofs.C05bLemmas
import PV.Props.C04
import PV.Proofs.RealScalar

namespace PV
open Scalar

variable {α : Type} [Elem α]

/-- C05 (rejections): observables carrying covariance inputs cannot be reweighted / correlated -/
theorem c05_reweight_rejects_covobs (w o : Obs α) (ac : Bool) (h : o.covs.length > 0) :
    ∃ e, reweight1 w o ac = .error e := by
  unfold reweight1
  simp [h, bind, Except.bind, throw, throwThe, MonadExceptOf.throw]


section by_configuration_number

open Scalar

/-- the per-configuration sample of chain `n` of `o` on configuration `c` (fluctuation + replica
    mean); `none` where not measured -/
def sampleAt {α : Type} [Scalar α] (o : Obs α) (n : String) (c : Int) : Option α := do
  let r ← o.rep? n
  let k ← r.idl.pos? c
  let d ← r.deltas[k]?
  pure (d + r.rvalue)

section generic
variable {α : Type} [Scalar α]

/-- C05 (selection by configuration number): `_reduce_deltas` returns, for every configuration of
    the new list, the entry that the old list holds *at that configuration number* -/
theorem c05_reduce_lookup (d : List α) (old new : Idl) (d' : List α)
    (hold : Idl.strictInc old.toList = true) (hnew : Idl.strictInc new.toList = true)
    (h : reduceDeltas d old new = some d') :
    d'.length = new.len ∧
    ∀ k, k < new.len → ∃ j, old.pos? (new.toList.getD k 0) = some j ∧ d'[k]? = d[j]? := by
  exact C05.reduce_lookup d old new d' hold hnew h

/-- C05 (rejection): a configuration of the new list that the old list lacks makes the selection fail -/
theorem c05_reduce_rejects (d : List α) (old new : Idl)
    (hold : Idl.strictInc old.toList = true) (hnew : Idl.strictInc new.toList = true)
    (hbad : ∃ c ∈ new.toList, c ∉ old.toList) : reduceDeltas d old new = none := by
  exact C05.reduce_rejects d old new hold hbad
end generic

section elem
variable {α : Type} [Elem α]

/-- C05 (flag): a reweighted result carries the flag -/
theorem c05_reweight_flag (w o r : Obs α) (ac : Bool) (h : reweight1 w o ac = .ok r) : r.reweighted = true := by
  rw [C05.reweight1_eq] at h
  split at h
  · cases h
  split at h
  · cases h
  split at h
  · cases h
  split at h
  · cases h
  obtain ⟨_, _, h⟩ := C05.bind_ok h
  exact C05.rwFinish_flag w o r ac h

/-- C05 (rejection): a covariance input has no configurations that could be paired - neither the observable
    nor the weight may carry one (the part would otherwise be dropped silently) -/
theorem c05_reweight_rejects_covobs_either (w o : Obs α) (ac : Bool) (h : 0 < o.covs.length ∨ 0 < w.covs.length) :
    reweight1 w o ac = .error .covobs := by
  rw [C05.reweight1_eq]
  rcases h with h | h
  · simp [h]
  · by_cases ho : o.covs.length > 0
    · simp [ho]
    · simp [ho, h]

/-- C05 (rejection): an observable with a configuration the weight lacks is refused -/
theorem c05_reweight_rejects_missing_config (w o : Obs α) (ac : Bool) (r : Rep α) (wr : Rep α)
    (hr : r ∈ o.reps) (hw : w.rep? r.name = some wr) (hbad : ∃ c ∈ r.idl.toList, c ∉ wr.idl.toList) :
    ∃ e, reweight1 w o ac = .error e := by
  rw [C05.reweight1_eq]
  split
  · exact ⟨_, rfl⟩
  split
  · exact ⟨_, rfl⟩
  split
  · exact ⟨_, rfl⟩
  split
  · exact ⟨_, rfl⟩
  have hf : ∀ y, (∃ e, C05.rwBody w y PUnit.unit = .error e) ∨ C05.rwBody w y PUnit.unit = .ok (.yield PUnit.unit) := by
    intro y
    unfold C05.rwBody
    split
    · exact Or.inl ⟨_, rfl⟩
    · split
      · exact Or.inl ⟨_, rfl⟩
      · exact Or.inr rfl
  have hxe : ∃ e, C05.rwBody w r PUnit.unit = .error e := by
    unfold C05.rwBody
    rw [hw]
    obtain ⟨c, hc, hcw⟩ := hbad
    have : (!(r.idl.toList.all fun c => wr.idl.toList.contains c)) = true := by
      simp only [Bool.not_eq_true', List.all_eq_false]
      exact ⟨c, hc, by simpa using hcw⟩
    simp only [this, if_true]
    exact ⟨_, rfl⟩
  obtain ⟨e, he⟩ := C05.forIn_error o.reps (C05.rwBody w) hf r hr hxe
  rw [he]
  exact ⟨e, rfl⟩

/-- C05 (correlate, rejections): different chains or different configuration lists raise -/
theorem c05_correlate_rejects_names (a b : Obs α) (h : a.names ≠ b.names) : ∃ e, correlate a b = .error e := by
  rw [C05.correlate_eq]
  split
  · exact ⟨_, rfl⟩
  rw [if_pos (by simpa using h)]
  exact ⟨_, rfl⟩

theorem c05_correlate_rejects_idl (a b : Obs α) (ra rb : Rep α) (hz : (ra, rb) ∈ List.zip a.reps b.reps)
    (hbad : ra.idl.toList ≠ rb.idl.toList) : ∃ e, correlate a b = .error e := by
  rw [C05.correlate_eq]
  split
  · exact ⟨_, rfl⟩
  split
  · exact ⟨_, rfl⟩
  split
  · exact ⟨_, rfl⟩
  obtain ⟨e, he⟩ := C05.forIn_error _ C05.corrBody C05.corrBody_cases (ra, rb) hz (by
    unfold C05.corrBody
    split
    · exact ⟨_, rfl⟩
    · have : (!(ra.idl.sameSeq rb.idl && ra.idl.isRange == rb.idl.isRange)) = true := by
        simp [Idl.sameSeq, hbad]
      simp only [this, if_true]
      exact ⟨_, rfl⟩)
  rw [he]
  exact ⟨e, rfl⟩

/-- C05 (merge, rejection): a replica that occurs twice raises -/
theorem c05_merge_rejects_duplicate (l : List (Obs α))
    (hdup : ¬ (l.flatMap (fun o => o.names ++ o.covNames)).Nodup) : ∃ e, mergeObs l = .error e := by
  rw [C05.mergeObs_eq]
  split
  · exact ⟨_, rfl⟩
  rename_i hlen
  simp only [bne_iff_ne, ne_eq, Decidable.not_not] at hlen
  exact absurd (C05.nodup_of_sortedSetStr _ hlen) hdup
end elem

section real
/-- C05 (correlate): on every configuration of every chain the sample of the result is the product
    of the two inputs' samples on that same configuration number -/
theorem c05_correlate_samples (a b o : Obs ℝ) (h : correlate a b = .ok o)
    (hwf : a.WF = true ∧ b.WF = true) :
    o.names = a.names ∧ o.reweighted = (a.reweighted || b.reweighted) ∧
    ∀ ra ∈ a.reps, ∀ c ∈ ra.idl.toList, ∃ x y,
      sampleAt a ra.name c = some x ∧ sampleAt b ra.name c = some y ∧ sampleAt o ra.name c = some (x * y) := by
  exact C05.correlate_samples a b o h hwf

/-- C05 (merge): the chains of the result are the union of the inputs' chains, each with its
    configuration list and samples unchanged -/
theorem c05_merge_union (l : List (Obs ℝ)) (o : Obs ℝ) (h : mergeObs l = .ok o)
    (hwf : ∀ x ∈ l, x.WF = true) :
    (∀ x ∈ l, ∀ r ∈ x.reps, ∀ c ∈ r.idl.toList, ∃ s, sampleAt x r.name c = some s ∧ sampleAt o r.name c = some s) ∧
    (∀ n ∈ o.names, ∃ x ∈ l, n ∈ x.names) ∧ o.reweighted = l.any (·.reweighted) := by
  exact C05.merge_union l o h hwf

open Gen.Grads in
/-- the quotient step of `reweight`: value and fluctuations of `wo / nrm` -/
theorem c05_reweight_quotient (wo nrm res : Obs ℝ) (h : C05.rwDiv wo nrm = .ok res)
    (hwf : wo.WF = true ∧ nrm.WF = true) :
    res.value = wo.value / nrm.value ∧ res.reweighted = true ∧
    ∀ n ∈ newSampleNames [wo, nrm], ∀ c ∈ Spec.unionCfgs [wo, nrm] n,
      res.delta? n c = some (Spec.delta [1 / nrm.value, -wo.value / nrm.value ^ 2] [wo, nrm] n c) := by
  unfold C05.rwDiv at h
  have hs : findSite "truediv_obs" = some truediv_obs := rfl
  rw [hs] at h
  simp only at h
  split at h
  · rename_i r hr
    cases h
    unfold applySite at hr
    have hg : truediv_obs.gradTerms = some [(.div (.num 1) (.var 1)), (.div (.neg (.var 0)) (.pow (.var 1) (.num 2)))] := rfl
    rw [hg] at hr
    simp only at hr
    have hv := c01_value _ _ _ _ _ hr
    have hd := c01_delta _ _ _ _ _ (by intro x hx; simp at hx; rcases hx with rfl | rfl; exact hwf.1; exact hwf.2) (by simp) hr
    refine ⟨?_, rfl, ?_⟩
    · show r.value = _
      rw [hv]
      refine ((c01_func_table _ _).2.2.2.1).trans ?_
      simp
    · intro n hn c hc
      show r.delta? n c = _
      rw [hd n hn c hc]
      congr 2
      site_simp [List.map]
      norm_num
  · cases h

/-- C05 (reweight): an accepted `reweight(w, [o], all_configs=ac)` is the quotient ⟨w·o⟩ / ⟨w⟩:
    `wo` carries, on every configuration number of every chain of `o`, the product of the samples
    of `w` and `o` on that same configuration number (never by array position); the normalisation
    is `w` itself (`all_configs`) or `w` restricted to o's configurations; the result has value
    `wo.value / nrm.value`, the fluctuations of that quotient, and the reweighted flag. -/
theorem c05_reweight_formula (w o res : Obs ℝ) (ac : Bool) (h : reweight1 w o ac = .ok res)
    (hwf : w.WF = true ∧ o.WF = true) :
    ∃ wo nrm : Obs ℝ,
      wo.names = o.names ∧
      (∀ r ∈ o.reps, ∀ c ∈ r.idl.toList, ∃ x y, sampleAt w r.name c = some x ∧
        sampleAt o r.name c = some y ∧ sampleAt wo r.name c = some (x * y)) ∧
      (ac = true → nrm = w) ∧
      (ac = false → nrm.names = o.names ∧ ∀ r ∈ o.reps, ∀ c ∈ r.idl.toList, ∃ x,
        sampleAt w r.name c = some x ∧ sampleAt nrm r.name c = some x) ∧
      res.value = wo.value / nrm.value ∧ res.reweighted = true ∧
      ∀ n ∈ newSampleNames [wo, nrm], ∀ c ∈ Spec.unionCfgs [wo, nrm] n,
        res.delta? n c = some (Spec.delta [1 / nrm.value, -wo.value / nrm.value ^ 2] [wo, nrm] n c) := by
  obtain ⟨wo, nrm, hn, ⟨S, hmk⟩, hprod, hac1, hac0, hdiv⟩ := C05.reweight_formula w o res ac h hwf
  have hstep : ∀ il, some (o.reps.map (·.idl)) = some il → ∀ s n st, Idl.range s n st ∈ il → st ≠ 0 := by
    intro il e; cases e; exact C04.range_step_of_wf o hwf.2
  have hwo : wo.WF = true := c04_wf_implies _ (c04_mk_wf_corrected _ _ _ wo hstep hmk)
  have hnrm : nrm.WF = true := by
    cases ac with
    | true => rw [hac1 rfl]; exact hwf.1
    | false =>
      obtain ⟨⟨S', hmk'⟩, _⟩ := hac0 rfl
      exact c04_wf_implies _ (c04_mk_wf_corrected _ _ _ nrm hstep hmk')
  exact ⟨wo, nrm, hn, hprod, hac1, fun e => (hac0 e).2, c05_reweight_quotient wo nrm res hdiv ⟨hwo, hnrm⟩⟩
end real




end by_configuration_number

end PV
