/-
  Property C05 — reweighting, correlating and merging pair samples by configuration number.
  Property theorems only.
-/
import Mathlib.Tactic.Linarith
import Mathlib.Tactic.Ring
import PV.Model.Combine
import PV.Proofs.C05Lemmas
import PV.Proofs.RealScalar

namespace PV
open Scalar

variable {α : Type} [Elem α]

/-- C05 (rejections): observables carrying covariance inputs cannot be reweighted / correlated -/
theorem c05_reweight_rejects_covobs (w o : Obs α) (ac : Bool) (h : o.covs.length > 0) :
    ∃ e, reweight1 w o ac = .error e := by
  unfold reweight1
  simp [h, bind, Except.bind, throw, throwThe, MonadExceptOf.throw]


section by_configuration_number

open Scalar

/-- the per-configuration sample of chain `n` of `o` on configuration `c` (fluctuation + replica
    mean); `none` where not measured -/
def sampleAt {α : Type} [Scalar α] (o : Obs α) (n : String) (c : Int) : Option α := do
  let r ← o.rep? n
  let k ← r.idl.pos? c
  let d ← r.deltas[k]?
  pure (d + r.rvalue)

section generic
variable {α : Type} [Scalar α]

/-- C05 (selection by configuration number): `_reduce_deltas` returns, for every configuration of
    the new list, the entry that the old list holds *at that configuration number* -/
theorem c05_reduce_lookup (d : List α) (old new : Idl) (d' : List α)
    (hold : Idl.strictInc old.toList = true) (hnew : Idl.strictInc new.toList = true)
    (h : reduceDeltas d old new = some d') :
    d'.length = new.len ∧
    ∀ k, k < new.len → ∃ j, old.pos? (new.toList.getD k 0) = some j ∧ d'[k]? = d[j]? := by
  exact C05.reduce_lookup d old new d' hold hnew h

/-- C05 (rejection): a configuration of the new list that the old list lacks makes the selection fail -/
theorem c05_reduce_rejects (d : List α) (old new : Idl)
    (hold : Idl.strictInc old.toList = true) (hnew : Idl.strictInc new.toList = true)
    (hbad : ∃ c ∈ new.toList, c ∉ old.toList) : reduceDeltas d old new = none := by
  exact C05.reduce_rejects d old new hold hbad
end generic

section elem
variable {α : Type} [Elem α]

/-- C05 (flag): a reweighted result carries the flag -/
theorem c05_reweight_flag (w o r : Obs α) (ac : Bool) (h : reweight1 w o ac = .ok r) : r.reweighted = true := by
  rw [C05.reweight1_eq] at h
  split at h
  · cases h
  split at h
  · cases h
  split at h
  · cases h
  obtain ⟨_, _, h⟩ := C05.bind_ok h
  exact C05.rwFinish_flag w o r ac h

/-- C05 (rejection): an observable with a configuration the weight lacks is refused -/
theorem c05_reweight_rejects_missing_config (w o : Obs α) (ac : Bool) (r : Rep α) (wr : Rep α)
    (hr : r ∈ o.reps) (hw : w.rep? r.name = some wr) (hbad : ∃ c ∈ r.idl.toList, c ∉ wr.idl.toList) :
    ∃ e, reweight1 w o ac = .error e := by
  rw [C05.reweight1_eq]
  split
  · exact ⟨_, rfl⟩
  split
  · exact ⟨_, rfl⟩
  split
  · exact ⟨_, rfl⟩
  have hf : ∀ y, (∃ e, C05.rwBody w y PUnit.unit = .error e) ∨ C05.rwBody w y PUnit.unit = .ok (.yield PUnit.unit) := by
    intro y
    unfold C05.rwBody
    split
    · exact Or.inl ⟨_, rfl⟩
    · split
      · exact Or.inl ⟨_, rfl⟩
      · exact Or.inr rfl
  have hxe : ∃ e, C05.rwBody w r PUnit.unit = .error e := by
    unfold C05.rwBody
    rw [hw]
    obtain ⟨c, hc, hcw⟩ := hbad
    have : (!(r.idl.toList.all fun c => wr.idl.toList.contains c)) = true := by
      simp only [Bool.not_eq_true', List.all_eq_false]
      exact ⟨c, hc, by simpa using hcw⟩
    simp only [this, if_true]
    exact ⟨_, rfl⟩
  obtain ⟨e, he⟩ := C05.forIn_error o.reps (C05.rwBody w) hf r hr hxe
  rw [he]
  exact ⟨e, rfl⟩

/-- C05 (correlate, rejections): different chains or different configuration lists raise -/
theorem c05_correlate_rejects_names (a b : Obs α) (h : a.names ≠ b.names) : ∃ e, correlate a b = .error e := by
  rw [C05.correlate_eq]
  split
  · exact ⟨_, rfl⟩
  rw [if_pos (by simpa using h)]
  exact ⟨_, rfl⟩

theorem c05_correlate_rejects_idl (a b : Obs α) (ra rb : Rep α) (hz : (ra, rb) ∈ List.zip a.reps b.reps)
    (hbad : ra.idl.toList ≠ rb.idl.toList) : ∃ e, correlate a b = .error e := by
  rw [C05.correlate_eq]
  split
  · exact ⟨_, rfl⟩
  split
  · exact ⟨_, rfl⟩
  split
  · exact ⟨_, rfl⟩
  obtain ⟨e, he⟩ := C05.forIn_error _ C05.corrBody C05.corrBody_cases (ra, rb) hz (by
    unfold C05.corrBody
    split
    · exact ⟨_, rfl⟩
    · have : (!(ra.idl.sameSeq rb.idl && ra.idl.isRange == rb.idl.isRange)) = true := by
        simp [Idl.sameSeq, hbad]
      simp only [this, if_true]
      exact ⟨_, rfl⟩)
  rw [he]
  exact ⟨e, rfl⟩

/-- C05 (merge, rejection): a replica that occurs twice raises -/
theorem c05_merge_rejects_duplicate (l : List (Obs α))
    (hdup : ¬ (l.flatMap (fun o => o.names ++ o.covNames)).Nodup) : ∃ e, mergeObs l = .error e := by
  rw [C05.mergeObs_eq]
  split
  · exact ⟨_, rfl⟩
  rename_i hlen
  simp only [bne_iff_ne, ne_eq, Decidable.not_not] at hlen
  exact absurd (C05.nodup_of_sortedSetStr _ hlen) hdup
end elem

section real
/-- C05 (correlate): on every configuration of every chain the sample of the result is the product
    of the two inputs' samples on that same configuration number -/
theorem c05_correlate_samples (a b o : Obs ℝ) (h : correlate a b = .ok o)
    (hwf : a.WF = true ∧ b.WF = true) :
    o.names = a.names ∧ o.reweighted = (a.reweighted || b.reweighted) ∧
    ∀ ra ∈ a.reps, ∀ c ∈ ra.idl.toList, ∃ x y,
      sampleAt a ra.name c = some x ∧ sampleAt b ra.name c = some y ∧ sampleAt o ra.name c = some (x * y) := by
  exact C05.correlate_samples a b o h hwf

/-- C05 (merge): the chains of the result are the union of the inputs' chains, each with its
    configuration list and samples unchanged -/
theorem c05_merge_union (l : List (Obs ℝ)) (o : Obs ℝ) (h : mergeObs l = .ok o)
    (hwf : ∀ x ∈ l, x.WF = true) :
    (∀ x ∈ l, ∀ r ∈ x.reps, ∀ c ∈ r.idl.toList, ∃ s, sampleAt x r.name c = some s ∧ sampleAt o r.name c = some s) ∧
    (∀ n ∈ o.names, ∃ x ∈ l, n ∈ x.names) ∧ o.reweighted = l.any (·.reweighted) := by
  exact C05.merge_union l o h hwf
end real




end by_configuration_number

end PV
