/-
  Property C12 — dobs / pobs XML export and import are mutually inverse.
  Property theorems only.
-/
import PV.Model.Dobs

namespace PV
open Scalar

/-- C12 (known limitation of the format, as a theorem about the model): a measured configuration
    whose written number is exactly 0 is dropped by the import, because 0 is the marker for
    "not measured" — exact-arithmetic witness: chain (1,2,3) with written numbers (1/2, 0, -1/2) -/
theorem c12_zero_marker_drops :
    (dobsImport [1, 2, 3] (dobsColumn (α := Rat) [1, 2, 3] [1, 2, 3] [1 / 2, 0, -1 / 2]) 7).map (·.1) = [1, 3] := by
  decide +kernel

/-- an observable measured on a subset of the merged configurations comes back on exactly that
    subset when none of its written numbers is 0 -/
theorem c12_subset_example :
    dobsImport [1, 2, 3, 4, 5] (dobsColumn (α := Rat) [1, 2, 3, 4, 5] [2, 5] [1 / 4, -1 / 4]) 10
      = [(2, 41 / 4), (5, 39 / 4)] := by
  decide +kernel

end PV
