/-
  Property C12 — dobs / pobs XML export and import are mutually inverse.
  Property theorems only; the induction is in PV/Proofs/C12Lemmas.lean.

  The model (PV/Model/Dobs.lean) is the per-replica table of the Zeuthen dobs format: the rows are the
  merged configuration list of all observables of the file, each observable is one column, the number
  written for a measured configuration is fluctuation + (replica mean − central value), and `0` marks
  "this observable was not measured on this configuration".
-/
import Mathlib.Data.List.Sort
import Mathlib.Data.List.Perm.Subperm
import PV.Proofs.C12Lemmas
import PV.Proofs.C01bLemmas

namespace PV
open Scalar

variable {α : Type} [Scalar α]

/-- **C12 (what the import returns), all inputs.**  For every merged configuration list without
    duplicates, every observable measured on a sub-list of it and every column of written numbers, the
    import returns exactly the measured configurations whose written number is not the marker, each with
    its number + central value: nothing is shifted to another configuration, nothing is invented. -/
theorem c12_dobs_import_export (v : α) (hz : isZero (0 : α) = true) (merged idl : List Int) (nums : List α)
    (hnd : merged.Nodup) (hs : idl.Sublist merged) (hl : nums.length = idl.length) :
    dobsImport merged (dobsColumn merged idl nums) v
      = ((idl.zip nums).filter (fun p => !isZero p.2)).map (fun p => (p.1, p.2 + v)) :=
  dobs_import_export v hz merged idl nums hnd hs hl

/-- **C12 (round trip, partial).**  If no written number is exactly 0, the observable comes back on exactly
    its own configurations with every sample restored — for lists of observables on different
    configuration subsets alike, since each column is read independently against the merged list.
    The hypothesis excludes precisely the known finding `dobs-drops-sample-equal-to-central-value`. -/
theorem c12_dobs_roundtrip_partial (v : α) (hz : isZero (0 : α) = true) (merged idl : List Int) (nums : List α)
    (hnd : merged.Nodup) (hs : idl.Sublist merged) (hl : nums.length = idl.length)
    (hnz : ∀ x ∈ nums, isZero x = false) :
    dobsImport merged (dobsColumn merged idl nums) v = (idl.zip nums).map (fun p => (p.1, p.2 + v)) := by
  rw [c12_dobs_import_export v hz merged idl nums hnd hs hl]
  congr 1
  apply List.filter_eq_self.mpr
  intro p hp
  have := hnz p.2 (List.of_mem_zip hp).2
  simp [this]

/-- **C12 (the known finding, in general).**  A measured configuration whose written number is exactly 0 is
    never returned by the import, whatever the rest of the chain looks like. -/
theorem c12_dobs_zero_dropped (v : α) (hz : isZero (0 : α) = true) (merged idl : List Int) (nums : List α)
    (hnd : merged.Nodup) (hs : idl.Sublist merged) (hl : nums.length = idl.length)
    (k : Nat) (hk : k < idl.length) (hzero : isZero (nums.getD k 0) = true) :
    idl.getD k 0 ∉ (dobsImport merged (dobsColumn merged idl nums) v).map (·.1) := by
  rw [c12_dobs_import_export v hz merged idl nums hnd hs hl]
  have hidl : idl.Nodup := hs.nodup hnd
  intro hmem
  simp only [List.map_map, List.mem_map, List.mem_filter, Function.comp] at hmem
  obtain ⟨p, ⟨hp, hnzp⟩, hpe⟩ := hmem
  -- p is the k-th pair because configuration numbers are unique
  obtain ⟨i, hi, hpi⟩ := List.getElem_of_mem hp
  have hi1 : i < idl.length := by simp at hi; omega
  have hi2 : i < nums.length := by simp at hi; omega
  have hpi' : p = (idl[i], nums[i]) := by rw [← hpi]; simp
  have hik : idl[i] = idl[k] := by
    have : p.1 = idl.getD k 0 := hpe
    rw [hpi'] at this
    simpa [List.getD_eq_getElem?_getD, hk] using this
  have : i = k := (List.Nodup.getElem_inj_iff hidl).mp hik
  subst this
  rw [hpi'] at hnzp
  simp [List.getD_eq_getElem?_getD, hi2] at hzero
  simp [hzero] at hnzp

/-- the unconditional round-trip statement is false for the format: exact-arithmetic witness, chain (1,2,3)
    with written numbers (1/2, 0, -1/2) -/
theorem c12_zero_marker_drops :
    (dobsImport [1, 2, 3] (dobsColumn (α := Rat) [1, 2, 3] [1, 2, 3] [1 / 2, 0, -1 / 2]) 7).map (·.1) = [1, 3] := by
  decide +kernel

/-- non-vacuity of the round trip: an observable measured on a subset of the merged configurations comes
    back on exactly that subset -/
theorem c12_subset_example :
    dobsImport [1, 2, 3, 4, 5] (dobsColumn (α := Rat) [1, 2, 3, 4, 5] [2, 5] [1 / 4, -1 / 4]) 10
      = [(2, 41 / 4), (5, 39 / 4)] := by
  decide +kernel

/-- **C12 (lists of observables).**  The merged list written to the file is the sorted union of the
    configuration lists of all observables; every strictly increasing configuration list that enters the
    union is a sub-list of it, so the hypotheses of the theorems above hold for every member of the list. -/
theorem c12_member_sublist_of_merged (idls : List (List Int)) (idl : List Int) (hmem : idl ∈ idls)
    (hinc : idl.Pairwise (· < ·)) :
    idl.Sublist (Py.sortedSet (idls.flatMap id)) ∧ (Py.sortedSet (idls.flatMap id)).Nodup := by
  have hm : (Py.sortedSet (idls.flatMap id)).Pairwise (· < ·) := C01b.pairwise_sortedSet _
  refine ⟨?_, hm.imp (fun h => ne_of_lt h)⟩
  have hsub : idl ⊆ Py.sortedSet (idls.flatMap id) := by
    intro x hx
    rw [C01b.mem_sortedSet]
    exact List.mem_flatMap.mpr ⟨idl, hmem, hx⟩
  have hnd : idl.Nodup := hinc.imp (fun h => ne_of_lt h)
  exact List.sublist_of_subperm_of_pairwise (hnd.subperm hsub) hinc hm

end PV
