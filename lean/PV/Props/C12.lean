/-
  Property C12 — dobs / pobs XML export and import are mutually inverse.
  Property theorems only; the induction is in PV/Proofs/C12Lemmas.lean.

  The model (PV/Model/Dobs.lean) is the per-replica table of the Zeuthen dobs format: the rows are the
  merged configuration list of all observables of the file, each observable is one column, the number
  written for a measured configuration is fluctuation + (replica mean − central value), and `0` marks
  "this observable was not measured on this configuration".
-/
import Mathlib.Data.List.Sort
import Mathlib.Data.List.Perm.Subperm
import PV.Proofs.C12Lemmas
import PV.Proofs.C01bLemmas
import PV.Proofs.C12bLemmas
import Mathlib.Tactic.NormNum
import Mathlib.Tactic.Ring

namespace PV
open Scalar

variable {α : Type} [Scalar α]

/-- **C12 (what the import returns), all inputs.**  For every merged configuration list without
    duplicates, every observable measured on a sub-list of it and every column of written numbers, the
    import returns exactly the measured configurations whose written number is not the marker, each with
    its number + central value: nothing is shifted to another configuration, nothing is invented. -/
theorem c12_dobs_import_export (v : α) (hz : isZero (0 : α) = true) (merged idl : List Int) (nums : List α)
    (hnd : merged.Nodup) (hs : idl.Sublist merged) (hl : nums.length = idl.length) :
    dobsImport merged (dobsColumn merged idl nums) v
      = ((idl.zip nums).filter (fun p => !isZero p.2)).map (fun p => (p.1, p.2 + v)) :=
  dobs_import_export v hz merged idl nums hnd hs hl

/-- **C12 (round trip, partial).**  If no written number is exactly 0, the observable comes back on exactly
    its own configurations with every sample restored — for lists of observables on different
    configuration subsets alike, since each column is read independently against the merged list.
    The hypothesis excludes precisely the known finding `dobs-drops-sample-equal-to-central-value`. -/
theorem c12_dobs_roundtrip_partial (v : α) (hz : isZero (0 : α) = true) (merged idl : List Int) (nums : List α)
    (hnd : merged.Nodup) (hs : idl.Sublist merged) (hl : nums.length = idl.length)
    (hnz : ∀ x ∈ nums, isZero x = false) :
    dobsImport merged (dobsColumn merged idl nums) v = (idl.zip nums).map (fun p => (p.1, p.2 + v)) := by
  rw [c12_dobs_import_export v hz merged idl nums hnd hs hl]
  congr 1
  apply List.filter_eq_self.mpr
  intro p hp
  have := hnz p.2 (List.of_mem_zip hp).2
  simp [this]

/-- **C12 (the known finding, in general).**  A measured configuration whose written number is exactly 0 is
    never returned by the import, whatever the rest of the chain looks like. -/
theorem c12_dobs_zero_dropped (v : α) (hz : isZero (0 : α) = true) (merged idl : List Int) (nums : List α)
    (hnd : merged.Nodup) (hs : idl.Sublist merged) (hl : nums.length = idl.length)
    (k : Nat) (hk : k < idl.length) (hzero : isZero (nums.getD k 0) = true) :
    idl.getD k 0 ∉ (dobsImport merged (dobsColumn merged idl nums) v).map (·.1) := by
  rw [c12_dobs_import_export v hz merged idl nums hnd hs hl]
  have hidl : idl.Nodup := hs.nodup hnd
  intro hmem
  simp only [List.map_map, List.mem_map, List.mem_filter, Function.comp] at hmem
  obtain ⟨p, ⟨hp, hnzp⟩, hpe⟩ := hmem
  -- p is the k-th pair because configuration numbers are unique
  obtain ⟨i, hi, hpi⟩ := List.getElem_of_mem hp
  have hi1 : i < idl.length := by simp at hi; omega
  have hi2 : i < nums.length := by simp at hi; omega
  have hpi' : p = (idl[i], nums[i]) := by rw [← hpi]; simp
  have hik : idl[i] = idl[k] := by
    have : p.1 = idl.getD k 0 := hpe
    rw [hpi'] at this
    simpa [List.getD_eq_getElem?_getD, hk] using this
  have : i = k := (List.Nodup.getElem_inj_iff hidl).mp hik
  subst this
  rw [hpi'] at hnzp
  simp [List.getD_eq_getElem?_getD, hi2] at hzero
  simp [hzero] at hnzp

/-- the unconditional round-trip statement is false for the format: exact-arithmetic witness, chain (1,2,3)
    with written numbers (1/2, 0, -1/2) -/
theorem c12_zero_marker_drops :
    (dobsImport [1, 2, 3] (dobsColumn (α := Rat) [1, 2, 3] [1, 2, 3] [1 / 2, 0, -1 / 2]) 7).map (·.1) = [1, 3] := by
  decide +kernel

/-- non-vacuity of the round trip: an observable measured on a subset of the merged configurations comes
    back on exactly that subset -/
theorem c12_subset_example :
    dobsImport [1, 2, 3, 4, 5] (dobsColumn (α := Rat) [1, 2, 3, 4, 5] [2, 5] [1 / 4, -1 / 4]) 10
      = [(2, 41 / 4), (5, 39 / 4)] := by
  decide +kernel

/-- **C12 (lists of observables).**  The merged list written to the file is the sorted union of the
    configuration lists of all observables; every strictly increasing configuration list that enters the
    union is a sub-list of it, so the hypotheses of the theorems above hold for every member of the list. -/
theorem c12_member_sublist_of_merged (idls : List (List Int)) (idl : List Int) (hmem : idl ∈ idls)
    (hinc : idl.Pairwise (· < ·)) :
    idl.Sublist (Py.sortedSet (idls.flatMap id)) ∧ (Py.sortedSet (idls.flatMap id)).Nodup := by
  have hm : (Py.sortedSet (idls.flatMap id)).Pairwise (· < ·) := C01b.pairwise_sortedSet _
  refine ⟨?_, hm.imp (fun h => ne_of_lt h)⟩
  have hsub : idl ⊆ Py.sortedSet (idls.flatMap id) := by
    intro x hx
    rw [C01b.mem_sortedSet]
    exact List.mem_flatMap.mpr ⟨idl, hmem, hx⟩
  have hnd : idl.Nodup := hinc.imp (fun h => ne_of_lt h)
  exact List.sublist_of_subperm_of_pairwise (hnd.subperm hsub) hinc hm

/-- **C12 (dobs, one chain of one observable end to end).**  Let the chain have configuration list `idl`,
    zero-mean fluctuations `ds`, replica mean `r`, and let `v` be the central value of the observable.  The
    writer puts `d + (r - v)` in the column; if none of these numbers is the marker 0, the import - column
    scan, `+ v`, `np.average`, subtraction - returns the configuration list, every fluctuation and the replica
    mean exactly, for every merged list the chain is a sub-list of. -/
theorem c12_dobs_chain_roundtrip (v r : ℝ) (merged idl : List Int) (ds : List ℝ)
    (hnd : merged.Nodup) (hs : idl.Sublist merged) (hl : ds.length = idl.length) (hne : ds ≠ [])
    (hzero : ds.sum = 0) (hnz : ∀ d ∈ ds, d + (r - v) ≠ 0) :
    dobsChain (dobsImport merged (dobsColumn merged idl (ds.map (· + (r - v)))) v) = (idl, ds, r) := by
  have hz : Scalar.isZero (@OfNat.ofNat ℝ 0 (Scalar.instOfNatScalar 0)) = true := by
    simp [Scalar.isZero, RealS.ofNat_eq_lit, RealS.lit_eq]
  rw [c12_dobs_roundtrip_partial v hz merged idl _ hnd hs (by simpa using hl)]
  · unfold dobsChain
    have h1 : ((idl.zip (ds.map (· + (r - v)))).map (fun p => (p.1, p.2 + v))).map (·.1) = idl := by
      rw [List.map_map]
      have : ((fun p : Int × ℝ => p.1) ∘ fun p : Int × ℝ => (p.1, p.2 + v)) = Prod.fst := by funext p; rfl
      rw [this, List.map_fst_zip]
      simp [hl]
    have h2 : ((idl.zip (ds.map (· + (r - v)))).map (fun p => (p.1, p.2 + v))).map (·.2) = ds.map (· + r) := by
      rw [List.map_map]
      have : ((fun p : Int × ℝ => p.2) ∘ fun p : Int × ℝ => (p.1, p.2 + v)) = (fun x => x + v) ∘ Prod.snd := by funext p; rfl
      rw [this, ← List.map_map, List.map_snd_zip (by simp [hl]), List.map_map]
      apply List.map_congr_left
      intro x _
      simp only [Function.comp]
      ring
    simp only [h1, h2]
    have hm : Scalar.sum (ds.map (· + r)) / Scalar.ofNatS (ds.map (· + r)).length = r := by
      have := C03b.mean_add_const ds r hne
      unfold mean at this
      rw [this]
      simp [RealS.sum_eq, hzero]
    rw [hm]
    congr 2
    rw [List.map_map]
    conv_rhs => rw [← List.map_id ds]
    apply List.map_congr_left
    intro x _
    simp
  · intro x hx
    obtain ⟨d, hd, rfl⟩ := List.mem_map.mp hx
    simpa [Scalar.isZero] using hnz d hd

/-! ### the pobs format (PV/Model/Pobs.lean) -/

section pobs
open PV.Pobs

/-- **C12 (pobs, reading the table).**  For every configuration list and every set of sample columns of
    that length, the strided reads `tmp[0 :: na+1]` and `tmp[1+a :: na+1]` of `_import_array` applied to the
    flattened block return the configuration numbers and column `a` - no sample moves to another
    configuration or to another observable, whatever `na` and the number of configurations. -/
theorem c12_pobs_columns (idl : List Int) (cols : List (List α)) :
    stride (cols.length + 1) 0 (rowsOf idl cols).flatten = idl.map Tok.cfg ∧
    ∀ a col, cols[a]? = some col → col.length = idl.length →
      stride (cols.length + 1) (1 + a) (rowsOf idl cols).flatten = col.map Tok.num :=
  stride_rows idl cols

/-- **C12 (pobs round trip), all inputs.**  For every non-empty list of observables on one ensemble that
    `create_pobs_string` accepts (the same chains on the same configuration lists throughout), whose
    fluctuations have zero mean on every chain, whose chains have at least five configurations and whose
    central value is the weighted mean of the replica means, reading the written blocks returns exactly the
    original list: values, chain names, configuration lists in their original representation, every
    fluctuation, every replica mean, flag.  `fix` is the treatment of the separator on import
    (`c12_pobs_separator`). -/
theorem c12_pobs_roundtrip (fix : String → String) (o0 : Obs ℝ) (rest : List (Obs ℝ)) (H : PWritable fix o0 rest) :
    (Pobs.write (o0 :: rest)).bind (readWith fix) = .ok (o0 :: rest) :=
  pobs_roundtrip fix o0 rest H

/-- non-vacuity: a two-replica observable (one range, one irregular configuration list) meets every hypothesis
    of `c12_pobs_roundtrip` with `separator_insertion = 1` -/
noncomputable def pobsExample : Obs ℝ :=
  { value := 2,
    reps := [{ name := "A|r1", idl := .range 1 5 1, deltas := [1, -1, 2, -2, 0], rvalue := 1 },
             { name := "A|r2", idl := .list [1, 2, 4, 7, 8], deltas := [3, -3, 1, -1, 0], rvalue := 3 }],
    covs := [] }

example : PWritable (fixOf (some 1)) pobsExample [] := by
  refine ⟨?_, by simp, ?_⟩
  · intro o ho
    simp only [List.mem_singleton] at ho
    subst ho
    refine ⟨by decide, by decide, rfl, ?_, ?_, rfl, ?_⟩
    · intro r hr
      simp only [pobsExample, List.mem_cons, List.not_mem_nil, or_false] at hr
      rcases hr with rfl | rfl <;> norm_num
    · intro r hr
      simp only [pobsExample, List.mem_cons, List.not_mem_nil, or_false] at hr
      rcases hr with rfl | rfl <;> decide
    · simp [pobsExample, Idl.len, Idl.toList, RealS.sum_eq, RealS.ofNatS_eq]
      norm_num
  · intro r hr
    simp only [pobsExample, List.mem_cons, List.not_mem_nil, or_false] at hr
    rcases hr with rfl | rfl <;> decide

/-- **C12 (pobs, separator).**  A chain `e|r` without further separators is restored by
    `separator_insertion = len(e)`; a chain without separator by `separator_insertion = None`. -/
theorem c12_pobs_separator (e r : List Char) (he : '|' ∉ e) (hr : '|' ∉ r) :
    fixOf (some e.length) (stripBar (String.ofList (e ++ '|' :: r))) = String.ofList (e ++ '|' :: r) ∧
    fixOf none (stripBar (String.ofList e)) = String.ofList e :=
  ⟨fix_restores e r he hr, fix_none e he⟩

/-- **C12 (pobs, refusal; fix 776c1b2).**  Whatever list the writer accepts has the chains and the
    configuration lists of its first observable throughout: observables on different configuration lists
    are refused instead of being written under the first observable's configuration numbers. -/
theorem c12_pobs_refuses_different_lists (o0 : Obs α) (rest : List (Obs α)) (bs : List (Block α))
    (h : Pobs.write (o0 :: rest) = .ok bs) :
    ∀ o ∈ o0 :: rest, o.reps.map (fun r => (r.name, r.idl.toList)) = o0.reps.map (fun r => (r.name, r.idl.toList)) :=
  write_ok_same o0 rest bs h

/-- **C12 (pobs, the central value; the known finding in general).**  The file holds no central value: every
    observable `read_pobs` returns has the weighted mean of its replica means as central value.  For an
    observable whose central value is something else (a non-linear function of an observable on two or more
    replicas) the round trip therefore cannot hold - the hypothesis `primary` of `c12_pobs_roundtrip` is
    necessary. -/
theorem c12_pobs_value_is_weighted_mean (fix : String → String) (bs : List (Block α)) (got : List (Obs α))
    (h : readWith fix bs = .ok got) :
    ∀ o ∈ got, o.value = Scalar.sum (o.reps.map (fun r => Scalar.ofNatS r.idl.len * r.rvalue))
      / Scalar.ofNatS ((o.reps.map (·.idl.len)).foldr (· + ·) 0) :=
  read_value fix bs got h

/-- witness in exact arithmetic: two replicas of five configurations with replica means 1 and 3 and central
    value 5 (as for a derived observable); everything but the central value comes back, the value is 2 -/
def pobsWitness : Obs Rat :=
  { value := 5,
    reps := [{ name := "A|r1", idl := .range 1 5 1, deltas := [1, -1, 2, -2, 0], rvalue := 1 },
             { name := "A|r2", idl := .range 1 5 1, deltas := [3, -3, 1, -1, 0], rvalue := 3 }],
    covs := [] }

theorem c12_pobs_derived_value_lost :
    (((Pobs.write [pobsWitness]).bind (Pobs.read (some 1))).toOption.map (fun l => l.map (fun o => (o.value, o.reps.map (fun r => (r.name, r.idl.toList, r.idl.isRange, r.deltas, r.rvalue)))))
      == some [(2, pobsWitness.reps.map (fun r => (r.name, r.idl.toList, r.idl.isRange, r.deltas, r.rvalue)))]) = true := by
  decide +kernel

end pobs

end PV
