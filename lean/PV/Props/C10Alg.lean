/-
  C10: matrix operations on observable matrices satisfy their defining identities.

  An observable is viewed as a pair (value, fluctuation) = dual number: a first-order perturbation
  `A + ε dA` with `ε² = 0`.  The theorems below are the mathematical identities that the matrix
  routines of pyerrors (`linalg.matmul`, `linalg.inv`, `linalg.cholesky`, `linalg.det`,
  `linalg.eigh`, `linalg.pinv`, the complex block embedding and `jack_matmul`) rely on, proved for
  all sizes.
-/
import Mathlib.Data.Matrix.Basic
import Mathlib.Data.Matrix.Block
import Mathlib.Data.Complex.Basic
import Mathlib.Data.Complex.BigOperators
import Mathlib.Algebra.Order.Star.Real
import Mathlib.LinearAlgebra.Matrix.NonsingularInverse
import Mathlib.LinearAlgebra.Matrix.Adjugate
import Mathlib.LinearAlgebra.Matrix.Block
import Mathlib.LinearAlgebra.Matrix.PosDef
import Mathlib.LinearAlgebra.Matrix.Trace
import Mathlib.LinearAlgebra.Matrix.Charpoly.Coeff
import Mathlib.Analysis.Calculus.Deriv.Mul
import Mathlib.Analysis.Calculus.Deriv.Add
import Mathlib.Analysis.Calculus.Deriv.Polynomial
import Mathlib.Tactic.Ring
import Mathlib.Tactic.Linarith
import Mathlib.Tactic.FieldSimp
import Mathlib.Tactic.NormNum
import Mathlib.Tactic.Abel
import Mathlib.Tactic.NoncommRing
import Mathlib.Tactic.LinearCombination

namespace PV

open Matrix

/-! ## 1. matmul: product rule -/

/-- C10 (matmul, product rule).  For `A dA : Matrix l m ℝ`, `B dB : Matrix m n ℝ` and every real `t`
    the product of the perturbed matrices expands exactly as
    `(A + t dA)(B + t dB) = A B + t (dA B + A dB) + t² dA dB`,
    so the first-order (fluctuation) part of a matrix product is `dA B + A dB`; and the product is
    by definition the explicit sum of element products `(A B) i k = Σ j, A i j * B j k`.
    Backs `linalg.matmul` (derivative of the product = sum of element products rule).
    No hypotheses. -/
theorem c10_matmul_product_rule {l m n : Type*} [Fintype m]
    (A dA : Matrix l m ℝ) (B dB : Matrix m n ℝ) (t : ℝ) :
    (A + t • dA) * (B + t • dB) = A * B + t • (dA * B + A * dB) + t ^ 2 • (dA * dB) ∧
    ∀ i k, (A * B) i k = ∑ j, A i j * B j k := by
  refine ⟨?_, fun i k => Matrix.mul_apply⟩
  simp only [Matrix.add_mul, Matrix.mul_add, Matrix.smul_mul, Matrix.mul_smul, smul_add, smul_smul,
    pow_two]
  abel

/-- concrete instance of the product rule (2×2, all four matrices non-trivial) -/
example :
    ((!![1, 2; 3, 4] : Matrix (Fin 2) (Fin 2) ℝ) + (2 : ℝ) • !![0, 1; 1, 0]) *
        (!![0, 1; 1, 1] + (2 : ℝ) • !![1, 0; 0, 2]) =
      !![1, 2; 3, 4] * !![0, 1; 1, 1] +
        (2 : ℝ) • (!![0, 1; 1, 0] * !![0, 1; 1, 1] + !![1, 2; 3, 4] * !![1, 0; 0, 2]) +
        (2 : ℝ) ^ 2 • (!![0, 1; 1, 0] * !![1, 0; 0, 2]) :=
  (c10_matmul_product_rule _ _ _ _ _).1

/-! ## 2. complex matrices as real block matrices -/

/-- The real `2n × 2n` block matrix `[[X, -Y], [Y, X]]` representing the complex matrix `X + iY`. -/
def C10.embed {n : Type*} (X Y : Matrix n n ℝ) : Matrix (n ⊕ n) (n ⊕ n) ℝ :=
  Matrix.fromBlocks X (-Y) Y X

/-- The block embedding of a genuinely complex matrix `Z`: `embed (Re Z) (Im Z)`. -/
def C10.embedC {n : Type*} (Z : Matrix n n ℂ) : Matrix (n ⊕ n) (n ⊕ n) ℝ :=
  C10.embed (Z.map Complex.re) (Z.map Complex.im)

open C10

/-- C10 (complex block embedding is a ring homomorphism).  With
    `embed X Y = fromBlocks X (-Y) Y X = [[X, -Y],[Y, X]]` standing for `X + iY`:
    (i) `embed (X1,Y1) * embed (X2,Y2) = embed (X1 X2 - Y1 Y2, X1 Y2 + Y1 X2)` (complex product),
    (ii) `embed (X1,Y1) + embed (X2,Y2) = embed (X1 + X2, Y1 + Y2)`,
    (iii) `embed (1, 0) = 1`.
    Backs the complex branch of `linalg.inv`/`_mat_mat_op` (a complex matrix is inverted through its
    real block form).  No hypotheses. -/
theorem c10_complex_block_embed {n : Type*} [Fintype n] [DecidableEq n]
    (X1 Y1 X2 Y2 : Matrix n n ℝ) :
    embed X1 Y1 * embed X2 Y2 = embed (X1 * X2 - Y1 * Y2) (X1 * Y2 + Y1 * X2) ∧
    embed X1 Y1 + embed X2 Y2 = embed (X1 + X2) (Y1 + Y2) ∧
    embed (1 : Matrix n n ℝ) 0 = 1 := by
  refine ⟨?_, ?_, ?_⟩
  · simp only [embed, Matrix.fromBlocks_multiply, Matrix.neg_mul, Matrix.mul_neg]
    congr 1 <;> abel
  · simp only [embed, Matrix.fromBlocks_add, neg_add]
  · simp [embed, Matrix.fromBlocks_one]

/-- C10 (block embedding commutes with inversion).  If `X2 + iY2` is a (right) complex inverse of
    `X1 + iY1`, i.e. `X1 X2 - Y1 Y2 = 1` and `X1 Y2 + Y1 X2 = 0`, then `embed (X1,Y1)` is invertible
    and `embed (X2, Y2) = (embed (X1, Y1))⁻¹`: inverting the real block matrix and reading off the
    blocks yields the complex inverse.  Hypothesis: the complex inverse exists (given explicitly). -/
theorem c10_complex_block_embed_inv {n : Type*} [Fintype n] [DecidableEq n]
    (X1 Y1 X2 Y2 : Matrix n n ℝ)
    (hre : X1 * X2 - Y1 * Y2 = 1) (him : X1 * Y2 + Y1 * X2 = 0) :
    IsUnit (embed X1 Y1).det ∧ (embed X1 Y1)⁻¹ = embed X2 Y2 := by
  have h : embed X1 Y1 * embed X2 Y2 = 1 := by
    rw [(c10_complex_block_embed X1 Y1 X2 Y2).1, hre, him]
    exact (c10_complex_block_embed (1 : Matrix n n ℝ) 0 0 0).2.2
  exact ⟨(Matrix.isUnit_det_of_right_inverse h), Matrix.inv_eq_right_inv h⟩

/-- non-vacuity: `Z = i·1` on 1×1 (`X1 = 0, Y1 = 1`) has inverse `-i` (`X2 = 0, Y2 = -1`) -/
example : (embed (0 : Matrix (Fin 1) (Fin 1) ℝ) 1)⁻¹ = embed 0 (-1) :=
  (c10_complex_block_embed_inv (0 : Matrix (Fin 1) (Fin 1) ℝ) 1 0 (-1) (by simp) (by simp)).2

/-- real part of a complex matrix product -/
lemma C10.map_re_mul {n : Type*} [Fintype n] (Z W : Matrix n n ℂ) :
    (Z * W).map Complex.re = Z.map Complex.re * W.map Complex.re - Z.map Complex.im * W.map Complex.im := by
  ext i j
  simp [Matrix.mul_apply, Complex.re_sum, Finset.sum_sub_distrib]

/-- imaginary part of a complex matrix product -/
lemma C10.map_im_mul {n : Type*} [Fintype n] (Z W : Matrix n n ℂ) :
    (Z * W).map Complex.im = Z.map Complex.re * W.map Complex.im + Z.map Complex.im * W.map Complex.re := by
  ext i j
  simp [Matrix.mul_apply, Complex.im_sum, Finset.sum_add_distrib]

/-- C10 (block embedding, stated on genuinely complex matrices).  For `Z W : Matrix n n ℂ`,
    `embedC Z = [[Re Z, -Im Z],[Im Z, Re Z]]` satisfies `embedC (Z W) = embedC Z * embedC W`,
    `embedC (Z + W) = embedC Z + embedC W`, `embedC 1 = 1`, and if `Z` is invertible
    (`IsUnit Z.det`, explicit hypothesis) then `embedC Z⁻¹ = (embedC Z)⁻¹`. -/
theorem c10_complex_block_embed_complex {n : Type*} [Fintype n] [DecidableEq n]
    (Z W : Matrix n n ℂ) :
    embedC (Z * W) = embedC Z * embedC W ∧
    embedC (Z + W) = embedC Z + embedC W ∧
    embedC (1 : Matrix n n ℂ) = 1 ∧
    (IsUnit Z.det → embedC Z⁻¹ = (embedC Z)⁻¹) := by
  have hmul : ∀ Z W : Matrix n n ℂ, embedC (Z * W) = embedC Z * embedC W := by
    intro Z W
    unfold embedC
    rw [(c10_complex_block_embed _ _ _ _).1, map_re_mul, map_im_mul]
  have hone : embedC (1 : Matrix n n ℂ) = 1 := by
    unfold embedC
    rw [← (c10_complex_block_embed (1 : Matrix n n ℝ) 0 0 0).2.2]
    congr 1
    · ext i j; by_cases h : i = j <;> simp [Matrix.one_apply, h]
    · ext i j; by_cases h : i = j <;> simp [h]
  refine ⟨hmul Z W, ?_, hone, ?_⟩
  · unfold embedC
    rw [(c10_complex_block_embed _ _ _ _).2.1]
    congr 1
  · intro hZ
    have h : embedC Z * embedC Z⁻¹ = 1 := by
      rw [← hmul, Matrix.mul_nonsing_inv _ hZ, hone]
    exact (Matrix.inv_eq_right_inv h).symm

/-- non-vacuity: the 1×1 complex matrix `(i)` is invertible -/
example : IsUnit (!![Complex.I] : Matrix (Fin 1) (Fin 1) ℂ).det := by
  simp [Matrix.det_unique]

/-! ## 3. inverse -/

/-- C10 (derivative of the matrix inverse).  If `A` is invertible (`IsUnit A.det`, the explicit and
    minimal hypothesis) then `B := A⁻¹` and `dB := -A⁻¹ dA A⁻¹` satisfy `dA B + A dB = 0`, i.e. the
    first-order part of `A A⁻¹ = 1` vanishes; conversely `dB` is the unique matrix with that
    property.  Backs `linalg.inv` (fluctuation of the inverse). -/
theorem c10_inv_derivative {n : Type*} [Fintype n] [DecidableEq n]
    (A dA : Matrix n n ℝ) (hA : IsUnit A.det) :
    dA * A⁻¹ + A * (-(A⁻¹ * dA * A⁻¹)) = 0 ∧
    ∀ dB : Matrix n n ℝ, dA * A⁻¹ + A * dB = 0 → dB = -(A⁻¹ * dA * A⁻¹) := by
  constructor
  · rw [Matrix.mul_neg, Matrix.mul_assoc, Matrix.mul_nonsing_inv_cancel_left _ _ hA, add_neg_cancel]
  · intro dB h
    have h1 : A * dB = -(dA * A⁻¹) := by
      rw [eq_neg_iff_add_eq_zero, add_comm]; exact h
    calc dB = A⁻¹ * (A * dB) := by rw [Matrix.nonsing_inv_mul_cancel_left _ _ hA]
      _ = -(A⁻¹ * dA * A⁻¹) := by rw [h1, Matrix.mul_neg, Matrix.mul_assoc]

/-- non-vacuity: `[[2,1],[1,1]]` has determinant 1 -/
example : IsUnit (!![2, 1; 1, 1] : Matrix (Fin 2) (Fin 2) ℝ).det := by
  norm_num [Matrix.det_fin_two]

/-! ## 4. Cholesky -/

/-- C10 (derivative of the Cholesky factor).  If `A = L Lᵀ` and `dL` solves the first-order equation
    `dL Lᵀ + L dLᵀ = dA`, then for every `t`
    `(L + t dL)(L + t dL)ᵀ = A + t dA + t² dL dLᵀ`,
    i.e. the perturbed factor reproduces the perturbed matrix to first order.
    Backs `linalg.cholesky`.  (`L` may even be rectangular.) -/
theorem c10_cholesky_derivative {n m : Type*} [Fintype m]
    (A dA : Matrix n n ℝ) (L dL : Matrix n m ℝ) (t : ℝ)
    (hA : A = L * Lᵀ) (hd : dL * Lᵀ + L * dLᵀ = dA) :
    (L + t • dL) * (L + t • dL)ᵀ = A + t • dA + t ^ 2 • (dL * dLᵀ) := by
  subst hA; subst hd
  simp only [Matrix.transpose_add, Matrix.transpose_smul, Matrix.add_mul, Matrix.mul_add,
    Matrix.smul_mul, Matrix.mul_smul, smul_add, smul_smul, pow_two]
  abel

/-- non-vacuity: `L = [[1,0],[2,3]]`, `dL = [[1,0],[1,1]]`, `A = L Lᵀ`, `dA = dL Lᵀ + L dLᵀ` -/
example : ∃ (A dA L dL : Matrix (Fin 2) (Fin 2) ℝ),
    A = L * Lᵀ ∧ dL * Lᵀ + L * dLᵀ = dA ∧ L ≠ 0 ∧ dL ≠ 0 :=
  ⟨_, _, !![1, 0; 2, 3], !![1, 0; 1, 1], rfl, rfl,
    fun h => by simpa using congrFun (congrFun h 0) 0,
    fun h => by simpa using congrFun (congrFun h 0) 0⟩

/-- a lower-triangular antisymmetric real matrix vanishes -/
lemma C10.lower_antisymm_eq_zero {n : Type*} [LinearOrder n] (M : Matrix n n ℝ)
    (hM : M.IsLowerTriangular) (hs : M + Mᵀ = 0) : M = 0 := by
  ext i j
  have hij : M i j + M j i = 0 := by simpa using congrFun (congrFun hs i) j
  rcases lt_trichotomy i j with h | h | h
  · exact hM (by simpa using h)
  · subst h
    simp only [Matrix.zero_apply]; linarith
  · have : M j i = 0 := hM (by simpa using h)
    simp only [Matrix.zero_apply]; linarith

/-- C10 (uniqueness of the Cholesky derivative).  If `L` is lower triangular with non-zero diagonal
    entries then the first-order equation `dL Lᵀ + L dLᵀ = dA` has at most one lower-triangular
    solution `dL`: the fluctuation of the Cholesky factor is determined by the fluctuation of `A`. -/
theorem c10_cholesky_derivative_unique {n : Type*} [Fintype n] [DecidableEq n] [LinearOrder n]
    (L dA dL₁ dL₂ : Matrix n n ℝ)
    (hL : L.IsLowerTriangular) (hdiag : ∀ i, L i i ≠ 0)
    (h₁t : dL₁.IsLowerTriangular) (h₂t : dL₂.IsLowerTriangular)
    (h₁ : dL₁ * Lᵀ + L * dL₁ᵀ = dA) (h₂ : dL₂ * Lᵀ + L * dL₂ᵀ = dA) :
    dL₁ = dL₂ := by
  have hdet : IsUnit L.det := by
    rw [Matrix.det_of_isLowerTriangular L hL, isUnit_iff_ne_zero]
    exact Finset.prod_ne_zero_iff.mpr fun i _ => hdiag i
  have hdetT : IsUnit Lᵀ.det := by rwa [Matrix.det_transpose]
  set D := dL₁ - dL₂ with hD
  have hDt : D.IsLowerTriangular := h₁t.sub h₂t
  have hD0 : D * Lᵀ + L * Dᵀ = 0 := by
    rw [hD, Matrix.transpose_sub, Matrix.sub_mul, Matrix.mul_sub]
    rw [← h₂] at h₁
    rw [← sub_eq_zero] at h₁
    rw [← h₁]; abel
  have : Invertible L := Matrix.invertibleOfIsUnitDet L hdet
  have hLinv : (L⁻¹).IsLowerTriangular := Matrix.blockTriangular_inv_of_blockTriangular hL
  set M := L⁻¹ * D with hM
  have hMt : M.IsLowerTriangular := hLinv.mul hDt
  have hDM : D = L * M := by rw [hM, Matrix.mul_nonsing_inv_cancel_left _ _ hdet]
  have hMs : M + Mᵀ = 0 := by
    have e : L * (M + Mᵀ) * Lᵀ = 0 := by
      rw [Matrix.mul_add, Matrix.add_mul, ← hDM, Matrix.mul_assoc L Mᵀ Lᵀ, ← Matrix.transpose_mul,
        ← hDM, add_comm]
      rw [add_comm] at hD0
      exact hD0
    have e2 : L⁻¹ * (L * (M + Mᵀ) * Lᵀ) * (Lᵀ)⁻¹ = 0 := by rw [e]; simp
    rwa [Matrix.mul_assoc L, Matrix.nonsing_inv_mul_cancel_left _ _ hdet,
      Matrix.mul_nonsing_inv_cancel_right _ _ hdetT] at e2
  have hM0 : M = 0 := lower_antisymm_eq_zero M hMt hMs
  have : D = 0 := by rw [hDM, hM0, Matrix.mul_zero]
  exact sub_eq_zero.mp this

/-- non-vacuity: `L = [[1,0],[2,3]]` is lower triangular with non-zero diagonal -/
example : (!![1, 0; 2, 3] : Matrix (Fin 2) (Fin 2) ℝ).IsLowerTriangular ∧
    ∀ i, (!![1, 0; 2, 3] : Matrix (Fin 2) (Fin 2) ℝ) i i ≠ 0 := by
  constructor
  · intro i j h
    have h' : i < j := OrderDual.toDual_lt_toDual.mp h
    revert h'
    fin_cases i <;> fin_cases j <;> simp
  · intro i; fin_cases i <;> simp

/-! ## 5. determinant (Jacobi's formula) -/

/-- Leibniz expansion of the determinant with column `i` replaced by `b`, with the `i`-th factor
    split off. -/
lemma C10.det_updateCol_eq_sum {n : Type*} [Fintype n] [DecidableEq n] (A : Matrix n n ℝ) (i : n)
    (b : n → ℝ) :
    (A.updateCol i b).det =
      ∑ σ : Equiv.Perm n, (Equiv.Perm.sign σ : ℝ) *
        ((∏ j ∈ Finset.univ.erase i, A (σ j) j) * b (σ i)) := by
  rw [Matrix.det_apply']
  refine Finset.sum_congr rfl fun σ _ => ?_
  congr 1
  rw [← Finset.mul_prod_erase Finset.univ _ (Finset.mem_univ i), Matrix.updateCol_self, mul_comm]
  congr 1
  refine Finset.prod_congr rfl fun j hj => ?_
  rw [Matrix.updateCol_ne (Finset.ne_of_mem_erase hj)]

/-- `trace (adj A · dA) = Σ_i det (A with column i replaced by column i of dA)` -/
lemma C10.trace_adjugate_mul_eq_sum_det {n : Type*} [Fintype n] [DecidableEq n]
    (A dA : Matrix n n ℝ) :
    Matrix.trace (A.adjugate * dA) = ∑ i, (A.updateCol i (fun k => dA k i)).det := by
  unfold Matrix.trace
  refine Finset.sum_congr rfl fun i _ => ?_
  rw [← Matrix.cramer_apply, Matrix.cramer_eq_adjugate_mulVec]
  rfl

/-- C10 (Jacobi's formula, general size).  For all real `n × n` matrices `A`, `dA` (no
    invertibility hypothesis) the function `t ↦ det (A + t dA)` is differentiable at `t = 0` with
    derivative `trace (adj(A) dA)`: `d(det A) = tr(adj(A) dA)`.  Backs `linalg.det`
    (fluctuation of the determinant). -/
theorem c10_det_derivative {n : Type*} [Fintype n] [DecidableEq n] (A dA : Matrix n n ℝ) :
    HasDerivAt (fun t : ℝ => (A + t • dA).det) (Matrix.trace (A.adjugate * dA)) 0 := by
  have hlin : ∀ (σ : Equiv.Perm n) (i : n),
      HasDerivAt (fun t : ℝ => A (σ i) i + t * dA (σ i) i) (dA (σ i) i) 0 := by
    intro σ i
    simpa using ((hasDerivAt_id (0 : ℝ)).mul_const (dA (σ i) i)).const_add (A (σ i) i)
  have hprod : ∀ σ : Equiv.Perm n,
      HasDerivAt (fun t : ℝ => ∏ i, (A (σ i) i + t * dA (σ i) i))
        (∑ i, (∏ j ∈ Finset.univ.erase i, A (σ j) j) * dA (σ i) i) 0 := by
    intro σ
    have := HasDerivAt.fun_finsetProd (u := Finset.univ)
      (f := fun i (t : ℝ) => A (σ i) i + t * dA (σ i) i) (f' := fun i => dA (σ i) i)
      (x := (0 : ℝ)) (fun i _ => hlin σ i)
    simpa using this
  have hsum : HasDerivAt
      (fun t : ℝ => ∑ σ : Equiv.Perm n, (Equiv.Perm.sign σ : ℝ) *
        ∏ i, (A (σ i) i + t * dA (σ i) i))
      (∑ σ : Equiv.Perm n, (Equiv.Perm.sign σ : ℝ) *
        ∑ i, (∏ j ∈ Finset.univ.erase i, A (σ j) j) * dA (σ i) i) 0 :=
    HasDerivAt.fun_sum fun σ _ => (hprod σ).const_mul _
  have hfun : (fun t : ℝ => (A + t • dA).det) =
      fun t : ℝ => ∑ σ : Equiv.Perm n, (Equiv.Perm.sign σ : ℝ) *
        ∏ i, (A (σ i) i + t * dA (σ i) i) := by
    funext t
    rw [Matrix.det_apply']
    simp [Matrix.add_apply, Matrix.smul_apply]
  have hval : Matrix.trace (A.adjugate * dA) =
      ∑ σ : Equiv.Perm n, (Equiv.Perm.sign σ : ℝ) *
        ∑ i, (∏ j ∈ Finset.univ.erase i, A (σ j) j) * dA (σ i) i := by
    rw [trace_adjugate_mul_eq_sum_det]
    simp_rw [det_updateCol_eq_sum, Finset.mul_sum]
    exact Finset.sum_comm
  rw [hfun, hval]
  exact hsum

/-- C10 (Jacobi's formula as a `deriv` statement). -/
theorem c10_det_derivative_deriv {n : Type*} [Fintype n] [DecidableEq n] (A dA : Matrix n n ℝ) :
    deriv (fun t : ℝ => (A + t • dA).det) 0 = Matrix.trace (A.adjugate * dA) :=
  (c10_det_derivative A dA).deriv

/-- C10 (Jacobi's formula with explicit remainder).  For all real `n × n` matrices there is a
    polynomial `p` with `det (A + t dA) = det A + t · tr(adj(A) dA) + t² · p(t)` for every `t`:
    the first-order expansion of the determinant holds with an `O(t²)` polynomial remainder. -/
theorem c10_det_derivative_expansion {n : Type*} [Fintype n] [DecidableEq n]
    (A dA : Matrix n n ℝ) :
    ∃ p : Polynomial ℝ, ∀ t : ℝ,
      (A + t • dA).det = A.det + t * Matrix.trace (A.adjugate * dA) + t ^ 2 * p.eval t := by
  set q : Polynomial ℝ :=
    (A.map Polynomial.C + (Polynomial.X : Polynomial ℝ) • dA.map Polynomial.C).det with hq
  have heval : ∀ t : ℝ, q.eval t = (A + t • dA).det := by
    intro t
    rw [hq, ← Polynomial.coe_evalRingHom, RingHom.map_det]
    congr 1
    ext i j
    simp
    ring
  have h0 : q.coeff 0 = A.det := by
    rw [Polynomial.coeff_zero_eq_eval_zero, heval]; simp
  have h1 : q.coeff 1 = Matrix.trace (A.adjugate * dA) := by
    have hd := q.hasDerivAt 0
    have hfun : (fun x => Polynomial.eval x q) = fun t : ℝ => (A + t • dA).det := funext heval
    rw [hfun] at hd
    rw [← hd.unique (c10_det_derivative A dA)]
    simp only [← Polynomial.coeff_zero_eq_eval_zero, Polynomial.coeff_derivative, zero_add,
      Nat.cast_zero, mul_one]
  refine ⟨q.divX.divX, fun t => ?_⟩
  rw [← heval, ← h0, ← h1]
  have e1 := congrArg (Polynomial.eval t) (Polynomial.divX_mul_X_add q)
  have e2 := congrArg (Polynomial.eval t) (Polynomial.divX_mul_X_add q.divX)
  simp only [Polynomial.eval_add, Polynomial.eval_mul, Polynomial.eval_X, Polynomial.eval_C,
    Polynomial.coeff_divX, zero_add] at e1 e2
  linear_combination (-1 : ℝ) * e1 - t * e2

/-- C10 (Jacobi's formula, 2×2, exact expansion).  `det (A + t dA) = det A + t tr(adj(A) dA)
    + t² det dA` for 2×2 real matrices. -/
theorem c10_det_derivative_two (A dA : Matrix (Fin 2) (Fin 2) ℝ) (t : ℝ) :
    (A + t • dA).det = A.det + t * Matrix.trace (A.adjugate * dA) + t ^ 2 * dA.det := by
  simp [Matrix.det_fin_two, Matrix.trace, Matrix.adjugate_fin_two, Matrix.vecMul, dotProduct,
    Fin.sum_univ_two]
  ring

/-! ## 6. eigh -/

/-- C10 (first-order eigenvalue perturbation, general form).  If `A` is symmetric, `A v = λ v`,
    `vᵀ v = 1` and `(dλ, dv)` satisfy the first-order eigen-equation
    `dA v + A dv = dλ v + λ dv`, then `dλ = vᵀ dA v`.  The gauge condition `vᵀ dv = 0` is not needed. -/
theorem c10_eigh_first_order' {n : Type*} [Fintype n]
    (A dA : Matrix n n ℝ) (v dv : n → ℝ) (lam dlam : ℝ)
    (hsym : Aᵀ = A) (hev : A *ᵥ v = lam • v) (hnorm : v ⬝ᵥ v = 1)
    (hfo : dA *ᵥ v + A *ᵥ dv = dlam • v + lam • dv) :
    dlam = v ⬝ᵥ (dA *ᵥ v) := by
  have h1 : v ⬝ᵥ (A *ᵥ dv) = lam * (v ⬝ᵥ dv) := by
    rw [Matrix.dotProduct_mulVec, ← Matrix.mulVec_transpose, hsym, hev, smul_dotProduct,
      smul_eq_mul]
  have h2 := congrArg (fun w => v ⬝ᵥ w) hfo
  simp only [dotProduct_add, dotProduct_smul, smul_eq_mul, hnorm, h1] at h2
  linarith

/-- C10 (first-order eigenvalue perturbation).  If `A v = λ v`, `vᵀ v = 1`, `A` symmetric, and
    `(dλ, dv)` satisfy `dA v + A dv = dλ v + λ dv` and `vᵀ dv = 0`, then `dλ = vᵀ dA v`:
    the fluctuation of an eigenvalue is the quadratic form of the fluctuation of the matrix on the
    eigenvector.  Backs `linalg.eigh` / `linalg.eigv`. -/
theorem c10_eigh_first_order {n : Type*} [Fintype n]
    (A dA : Matrix n n ℝ) (v dv : n → ℝ) (lam dlam : ℝ)
    (hsym : Aᵀ = A) (hev : A *ᵥ v = lam • v) (hnorm : v ⬝ᵥ v = 1)
    (hfo : dA *ᵥ v + A *ᵥ dv = dlam • v + lam • dv) (_hgauge : v ⬝ᵥ dv = 0) :
    dlam = v ⬝ᵥ (dA *ᵥ v) :=
  c10_eigh_first_order' A dA v dv lam dlam hsym hev hnorm hfo

/-- non-vacuity: `A = diag(1,2)`, `v = e₀`, `λ = 1`, `dA = [[5,1],[1,7]]`; first order theory gives
    `dλ = 5`, `dv = (0,-1)` -/
example : ∃ (A dA : Matrix (Fin 2) (Fin 2) ℝ) (v dv : Fin 2 → ℝ) (lam dlam : ℝ),
    Aᵀ = A ∧ A *ᵥ v = lam • v ∧ v ⬝ᵥ v = 1 ∧
    dA *ᵥ v + A *ᵥ dv = dlam • v + lam • dv ∧ v ⬝ᵥ dv = 0 ∧ dlam = 5 := by
  refine ⟨!![1, 0; 0, 2], !![5, 1; 1, 7], ![1, 0], ![0, -1], 1, 5, ?_, ?_, ?_, ?_, ?_, rfl⟩
  · ext i j; fin_cases i <;> fin_cases j <;> simp
  · ext i; fin_cases i <;> simp [Matrix.mulVec, dotProduct]
  · simp [dotProduct]
  · ext i; fin_cases i <;> norm_num
  · simp [dotProduct]

/-! ## 7. pseudo-inverse -/

/-- C10 (Moore–Penrose pseudo-inverse of a full-column-rank matrix).  If `AᵀA` is invertible then
    `A⁺ := (AᵀA)⁻¹ Aᵀ` satisfies `A A⁺ A = A` and `A⁺ A = 1`. -/
theorem c10_pinv_identity_first_order_of_isUnit {m n : Type*} [Fintype m] [Fintype n]
    [DecidableEq n] (A : Matrix m n ℝ) (h : IsUnit (Aᵀ * A).det) :
    A * ((Aᵀ * A)⁻¹ * Aᵀ) * A = A ∧ ((Aᵀ * A)⁻¹ * Aᵀ) * A = 1 := by
  have h1 : ((Aᵀ * A)⁻¹ * Aᵀ) * A = 1 := by
    rw [Matrix.mul_assoc, Matrix.nonsing_inv_mul _ h]
  exact ⟨by rw [Matrix.mul_assoc, h1, Matrix.mul_one], h1⟩

/-- full column rank (injectivity of `x ↦ A x`) makes `AᵀA` invertible -/
lemma C10.isUnit_det_transpose_mul_self {m n : Type*} [Fintype m] [Fintype n] [DecidableEq n]
    (A : Matrix m n ℝ) (h : Function.Injective A.mulVec) : IsUnit (Aᵀ * A).det := by
  have hpd : (Aᵀ * A).PosDef := by
    have := Matrix.PosDef.conjTranspose_mul_self A h
    simpa [Matrix.conjTranspose_eq_transpose_of_trivial] using this
  exact (Matrix.isUnit_iff_isUnit_det _).mp hpd.isUnit

/-- C10 (Moore–Penrose pseudo-inverse of a full-column-rank matrix).  For `A : Matrix m n ℝ` with
    full column rank, stated as injectivity of `x ↦ A x` (equivalently `rank A = n`), the matrix
    `AᵀA` is invertible and `A⁺ := (AᵀA)⁻¹ Aᵀ` satisfies `A A⁺ A = A` and `A⁺ A = 1`.
    Backs `linalg.pinv` (and the left-inverse formula used for its derivative). -/
theorem c10_pinv_identity_first_order {m n : Type*} [Fintype m] [Fintype n] [DecidableEq n]
    (A : Matrix m n ℝ) (h : Function.Injective A.mulVec) :
    A * ((Aᵀ * A)⁻¹ * Aᵀ) * A = A ∧ ((Aᵀ * A)⁻¹ * Aᵀ) * A = 1 :=
  c10_pinv_identity_first_order_of_isUnit A (isUnit_det_transpose_mul_self A h)

/-- non-vacuity: the 3×2 matrix `[[1,0],[0,1],[1,1]]` has full column rank -/
example : Function.Injective (!![1, 0; 0, 1; 1, 1] : Matrix (Fin 3) (Fin 2) ℝ).mulVec := by
  intro x y hxy
  have h0 := congrFun hxy 0
  have h1 := congrFun hxy 1
  simp [Matrix.mulVec, dotProduct, Fin.sum_univ_two] at h0 h1
  ext i; fin_cases i <;> simp [h0, h1]

/-! ## 8. jackknife product remainder -/

/-- C10 (jackknife vs. linearised product).  For samples `a i = ā + δa i`, `b i = b̄ + δb i`
    (`i : Fin N`, `N > 0`) with `Σ δa = Σ δb = 0`, the mean of the products minus the product of the
    means is exactly `(1/N) Σ δa_i δb_i`: the difference between the jackknife-based product
    (`jack_matmul`) and the linearised product is second order in the fluctuations and `O(1/N)`.
    Hypothesis `0 < N` is needed for the means to be defined. -/
theorem c10_jack_remainder {N : ℕ} (hN : 0 < N) (a b da db : Fin N → ℝ) (abar bbar : ℝ)
    (ha : ∀ i, a i = abar + da i) (hb : ∀ i, b i = bbar + db i)
    (hda : ∑ i, da i = 0) (hdb : ∑ i, db i = 0) :
    (∑ i, a i * b i) / N - ((∑ i, a i) / N) * ((∑ i, b i) / N) = (∑ i, da i * db i) / N := by
  have hN' : (N : ℝ) ≠ 0 := Nat.cast_ne_zero.mpr hN.ne'
  have sa : ∑ i, a i = N * abar := by
    simp only [ha, Finset.sum_add_distrib, hda, Finset.sum_const, Finset.card_univ,
      Fintype.card_fin, nsmul_eq_mul, add_zero]
  have sb : ∑ i, b i = N * bbar := by
    simp only [hb, Finset.sum_add_distrib, hdb, Finset.sum_const, Finset.card_univ,
      Fintype.card_fin, nsmul_eq_mul, add_zero]
  have sab : ∑ i, a i * b i = N * (abar * bbar) + ∑ i, da i * db i := by
    have : ∀ i, a i * b i = abar * bbar + abar * db i + bbar * da i + da i * db i := by
      intro i; rw [ha, hb]; ring
    simp only [this, Finset.sum_add_distrib, ← Finset.mul_sum, hda, hdb, Finset.sum_const,
      Finset.card_univ, Fintype.card_fin, nsmul_eq_mul, mul_zero, add_zero]
    ring
  rw [sa, sb, sab]
  field_simp
  ring

/-- non-vacuity: `N = 2`, `a = (1,3)`, `b = (5,1)`: means 2 and 3, fluctuations `(-1,1)`, `(2,-2)` -/
example : ∃ (a b da db : Fin 2 → ℝ) (abar bbar : ℝ),
    (∀ i, a i = abar + da i) ∧ (∀ i, b i = bbar + db i) ∧ ∑ i, da i = 0 ∧ ∑ i, db i = 0 ∧
    ∑ i, da i * db i ≠ 0 := by
  refine ⟨![1, 3], ![5, 1], ![-1, 1], ![2, -2], 2, 3, ?_, ?_, ?_, ?_, ?_⟩
  · intro i; fin_cases i <;> norm_num
  · intro i; fin_cases i <;> norm_num
  · simp
  · simp
  · norm_num [Fin.sum_univ_two]

end PV

section AxiomCheck
end AxiomCheck
