/-
  Property C10 — matrix operations on observable matrices satisfy their defining identities.
  The mathematical backbone (product rule for matmul, complex block embedding, first-order
  identities of inverse / Cholesky / determinant / symmetric eigenproblem / pseudo-inverse,
  jackknife remainder) is in PV/Props/C10Alg.lean.
-/
import PV.Props.C10Alg
import PV.Proofs.EinsumLemmas

namespace PV

/-- shape bookkeeping of `_mat_mat_op`: the real embedding [[A, -B], [B, A]] of an n x n complex
    matrix is 2n x 2n and its upper-left / lower-left blocks start at rows 0 and n -/
theorem c10_embed_shape (n : Nat) : n + n = 2 * n ∧ (2 * n) / 2 = n := by omega

/-! ### `linalg.einsum`: the implicit output made explicit -/

/-- **C10 (einsum, implicit mode).**  Without `->` the output indices handed to numpy are in alphabetical order ... -/
theorem c10_einsum_implicit_sorted (s : List Char) : (Einsum.implicitOut s).Pairwise (· ≤ ·) :=
  Einsum.pairwise_sortC _

/-- ... and they are exactly the letters of the subscripts that occur once (numpy's rule for the implicit mode) -/
theorem c10_einsum_implicit_mem (s : List Char) (x : Char) :
    x ∈ Einsum.implicitOut s ↔ x ∈ Einsum.letters s ∧ (Einsum.letters s).count x = 1 := by
  unfold Einsum.implicitOut
  rw [Einsum.mem_sortC, List.mem_filter]
  simp

/-- explicit subscripts are handed on unchanged -/
theorem c10_einsum_explicit_unchanged (s : String) (h : s.toList.contains '-' = true) : Einsum.complete s = s := by
  unfold Einsum.complete
  rw [if_pos h]

/-- the forms the correspondence uses: `'jk,ij'` is the product in the other order, `'ji'` the transpose, `'ii'` the trace -/
example : Einsum.complete "jk,ij" = "jk,ij->ik" ∧ Einsum.complete "ji" = "ji->ij" ∧ Einsum.complete "ii" = "ii->"
    ∧ Einsum.complete "ij,jk,kl" = "ij,jk,kl->il" ∧ Einsum.complete "ij,j->i" = "ij,j->i" := by decide +kernel

end PV
