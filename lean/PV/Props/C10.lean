/-
  Property C10 — matrix operations on observable matrices satisfy their defining identities.
  The mathematical backbone (product rule for matmul, complex block embedding, first-order
  identities of inverse / Cholesky / determinant / symmetric eigenproblem / pseudo-inverse,
  jackknife remainder) is in PV/Props/C10Alg.lean.
-/
import PV.Props.C10Alg

namespace PV

/-- shape bookkeeping of `_mat_mat_op`: the real embedding [[A, -B], [B, A]] of an n x n complex
    matrix is 2n x 2n and its upper-left / lower-left blocks start at rows 0 and n -/
theorem c10_embed_shape (n : Nat) : n + n = 2 * n ∧ (2 * n) / 2 = n := by omega

end PV
