/-
  Property C15 — correlator derived quantities equal their defining formulas where defined.
  Property theorems only; they hold for every cell type and every temporal extent.
-/
import PV.Model.Corr

namespace PV
open Corr

variable {β : Type}

/-- padding: `ofCells cells a b` is undefined on the first `a` and the last `b` timeslices and
    holds `cells` in between -/
theorem c15_ofCells_cell (cells : List (Option β)) (a b t : Nat) :
    (Corr.ofCells cells a b).cell? t =
      (if t < a then none else (cells.getD (t - a) none)) := by
  unfold Corr.ofCells Corr.cell?
  by_cases h : t < a
  · simp [h, List.getD_eq_getElem?_getD, List.getElem?_append_left, List.length_replicate]
  · simp only [h, if_false]
    have h' : a ≤ t := Nat.le_of_not_lt h
    by_cases h2 : t - a < cells.length
    · have : t < a + cells.length := by omega
      simp [List.getD_eq_getElem?_getD, List.getElem?_append, List.length_replicate, h, h2, this, List.getElem?_map]
      cases hc : cells[t - a] <;> simp [hc]
    · simp [List.getD_eq_getElem?_getD, List.getElem?_append, List.length_replicate, h, h2, List.getElem?_map]
      cases hr : (List.replicate b (none : Option (Mat β)))[t - a - cells.length]? with
      | none => simp
      | some v =>
        have := List.getElem?_eq_some_iff.mp hr
        obtain ⟨_, hv⟩ := this
        simp at hv
        subst hv
        simp

end PV
