/-
  Property C15 — correlator derived quantities equal their defining formulas where defined.
  Property theorems only; they hold for every cell type and every temporal extent.
-/
import PV.Model.Corr
import PV.Proofs.CorrLemmas
import PV.Props.C15Alg

namespace PV
open Corr Scalar

variable {β : Type}

/-- padding: `ofCells cells a b` is undefined on the first `a` and the last `b` timeslices and
    holds `cells` in between -/
theorem c15_ofCells_cell (cells : List (Option β)) (a b t : Nat) :
    (Corr.ofCells cells a b).cell? t =
      (if t < a then none else (cells.getD (t - a) none)) := by
  unfold Corr.ofCells Corr.cell?
  by_cases h : t < a
  · simp [h, List.getD_eq_getElem?_getD, List.getElem?_append_left, List.length_replicate]
  · simp only [h, if_false]
    have h' : a ≤ t := Nat.le_of_not_lt h
    by_cases h2 : t - a < cells.length
    · have : t < a + cells.length := by omega
      simp [List.getD_eq_getElem?_getD, List.getElem?_append, List.length_replicate, h, h2, this, List.getElem?_map]
      cases hc : cells[t - a] <;> simp [hc]
    · simp [List.getD_eq_getElem?_getD, List.getElem?_append, List.length_replicate, h, h2, List.getElem?_map]
      cases hr : (List.replicate b (none : Option (Mat β)))[t - a - cells.length]? with
      | none => simp
      | some v =>
        have := List.getElem?_eq_some_iff.mp hr
        obtain ⟨_, hv⟩ := this
        simp at hv
        subst hv
        simp

/-- the window builder behind every derivative / effective-mass variant: `padL` undefined slices,
    then `n` slices `f(lo), f(lo+1), ...`, then `padR` undefined slices -/
theorem c15_build_ok (T lo n padL padR : Nat) (f : Nat → Option β) (r : Corr β)
    (h : Corr.build T lo n padL padR f = .ok r) :
    r.T = padL + n + padR ∧ r.N = 1 ∧
    ∀ t, r.cell? t = (if padL ≤ t ∧ t < padL + n then f (lo + (t - padL)) else none) := by
  unfold Corr.build at h
  simp only [] at h
  split at h
  · cases h
  cases h
  refine ⟨by simp [Corr.T, ofCells]; omega, rfl, fun t => ?_⟩
  rw [ofCells_cell?]
  simp only [List.length_map, List.length_range]
  split
  · rename_i hc
    have : t - padL < n := by omega
    simp [List.getD_eq_getElem?_getD, List.getElem?_map, List.getElem?_range this]
  · rfl


/-- C15 (never raises while something is defined): the builder fails exactly when every output
    slice is undefined -/
theorem c15_build_fails_iff (T lo n padL padR : Nat) (f : Nat → Option β) :
    (∃ e, Corr.build (β := β) T lo n padL padR f = .error e) ↔ ∀ k, k < n → f (lo + k) = none := by
  unfold Corr.build
  simp only []
  constructor
  · rintro ⟨e, h⟩ k hk
    split at h
    · rename_i hall
      simp at hall
      exact hall k hk
    · cases h
  · intro hall
    refine ⟨.allNone, ?_⟩
    rw [if_pos]
    simp
    exact hall


theorem mapCells_cell (f : β → β) (a : Corr β) (t : Nat) : (a.mapCells f).cell? t = (a.cell? t).map f := by
  unfold Corr.cell?
  have : (a.mapCells f).content.getD t none = (a.content.getD t none).map (·.map (·.map f)) := by
    simp [Corr.mapCells, List.getD_eq_getElem?_getD, List.getElem?_map]
    cases a.content[t]? <;> simp
  rw [this]
  cases h : a.content.getD t none with
  | none => simp
  | some m =>
    simp only [Option.map_some]
    match m with
    | [[x]] => simp
    | [] => simp
    | [] :: _ => simp
    | [_ :: _ :: _] => simp
    | (_ :: _) :: _ :: _ => simp


section formulas
variable [Elem β]

/-- C15 (symmetric derivative): ½(C(t+1) - C(t-1)) on 1 ≤ t ≤ T-2, undefined exactly when a
    referenced slice is undefined, and at t = 0, T-1 -/
theorem c15_deriv_symmetric (a r : Corr β) (hT : 2 ≤ a.T) (h : a.deriv "symmetric" = .ok r) :
    r.T = a.T ∧ ∀ t, t < a.T → r.cell? t =
      (if 1 ≤ t ∧ t + 1 < a.T then
        (match a.cell? (t - 1), a.cell? (t + 1) with
         | some m, some p => some ((1 / 2 : β) * (p - m))
         | _, _ => none)
       else none) := by
  unfold Corr.deriv at h
  split at h
  · cases h
  simp only [] at h
  obtain ⟨h1, -, h3⟩ := c15_build_ok _ _ _ _ _ _ _ h
  refine ⟨by omega, fun t ht => ?_⟩
  rw [h3]
  by_cases hc : 1 ≤ t ∧ t + 1 < a.T
  · rw [if_pos hc, if_pos (by omega)]
    have : 1 + (t - 1) = t := by omega
    rw [this]
    cases a.cell? (t - 1) <;> cases a.cell? (t + 1) <;> rfl
  · rw [if_neg hc, if_neg (by omega)]


/-- C15 (improved derivative): (C(t-2) - 8C(t-1) + 8C(t+1) - C(t+2))/12 on 2 ≤ t ≤ T-3 -/
theorem c15_deriv_improved (a r : Corr β) (hT : 4 ≤ a.T) (h : a.deriv "improved" = .ok r) :
    r.T = a.T ∧ ∀ t, t < a.T → r.cell? t =
      (if 2 ≤ t ∧ t + 2 < a.T then
        (match a.cell? (t - 2), a.cell? (t - 1), a.cell? (t + 1), a.cell? (t + 2) with
         | some m2, some m1, some p1, some p2 => some ((1 / 12 : β) * (m2 - 8 * m1 + 8 * p1 - p2))
         | _, _, _, _ => none)
       else none) := by
  unfold Corr.deriv at h
  split at h
  · cases h
  simp only [] at h
  obtain ⟨h1, -, h3⟩ := c15_build_ok _ _ _ _ _ _ _ h
  refine ⟨by omega, fun t ht => ?_⟩
  rw [h3]
  by_cases hc : 2 ≤ t ∧ t + 2 < a.T
  · rw [if_pos hc, if_pos (by omega)]
    have : 2 + (t - 2) = t := by omega
    rw [this]
    cases a.cell? (t - 2) <;> cases a.cell? (t - 1) <;> cases a.cell? (t + 1) <;> cases a.cell? (t + 2) <;> rfl
  · rw [if_neg hc, if_neg (by omega)]


/-- C15 (symmetric second derivative): C(t+1) - 2C(t) + C(t-1), undefined when ANY of the three
    slices is undefined (including the central one) -/
theorem c15_second_symmetric (a r : Corr β) (hT : 2 ≤ a.T) (h : a.secondDeriv "symmetric" = .ok r) :
    r.T = a.T ∧ ∀ t, t < a.T → r.cell? t =
      (if 1 ≤ t ∧ t + 1 < a.T then
        (match a.cell? (t - 1), a.cell? t, a.cell? (t + 1) with
         | some m, some x, some p => some (p - 2 * x + m)
         | _, _, _ => none)
       else none) := by
  unfold Corr.secondDeriv at h
  split at h
  · cases h
  simp only [] at h
  obtain ⟨h1, -, h3⟩ := c15_build_ok _ _ _ _ _ _ _ h
  refine ⟨by omega, fun t ht => ?_⟩
  rw [h3]
  by_cases hc : 1 ≤ t ∧ t + 1 < a.T
  · rw [if_pos hc, if_pos (by omega)]
    have : 1 + (t - 1) = t := by omega
    rw [this]
    cases a.cell? (t - 1) <;> cases a.cell? t <;> cases a.cell? (t + 1) <;> rfl
  · rw [if_neg hc, if_neg (by omega)]


/-- C15 (big symmetric second derivative): (C(t+2) - 2C(t) + C(t-2))/4 on 2 ≤ t ≤ T-3 -/
theorem c15_second_big_symmetric (a r : Corr β) (hT : 4 ≤ a.T) (h : a.secondDeriv "big_symmetric" = .ok r) :
    r.T = a.T ∧ ∀ t, t < a.T → r.cell? t =
      (if 2 ≤ t ∧ t + 2 < a.T then
        (match a.cell? (t - 2), a.cell? t, a.cell? (t + 2) with
         | some m, some x, some p => some ((p - 2 * x + m) / 4)
         | _, _, _ => none)
       else none) := by
  unfold Corr.secondDeriv at h
  split at h
  · cases h
  simp only [] at h
  obtain ⟨h1, -, h3⟩ := c15_build_ok _ _ _ _ _ _ _ h
  refine ⟨by omega, fun t ht => ?_⟩
  rw [h3]
  by_cases hc : 2 ≤ t ∧ t + 2 < a.T
  · rw [if_pos hc, if_pos (by omega)]
    have : 2 + (t - 2) = t := by omega
    rw [this]
    cases a.cell? (t - 2) <;> cases a.cell? t <;> cases a.cell? (t + 2) <;> rfl
  · rw [if_neg hc, if_neg (by omega)]


/-- C15 (forward derivative): C(t+1) - C(t) on 0 ≤ t ≤ T-2, undefined at T-1 -/
theorem c15_deriv_forward (a r : Corr β) (hT : 1 ≤ a.T) (h : a.deriv "forward" = .ok r) :
    r.T = a.T ∧ ∀ t, t < a.T → r.cell? t =
      (if t + 1 < a.T then
        (match a.cell? t, a.cell? (t + 1) with
         | some x, some p => some (p - x)
         | _, _ => none)
       else none) := by
  unfold Corr.deriv at h
  split at h
  · cases h
  simp only [] at h
  obtain ⟨h1, -, h3⟩ := c15_build_ok _ _ _ _ _ _ _ h
  refine ⟨by omega, fun t ht => ?_⟩
  rw [h3]
  by_cases hc : t + 1 < a.T
  · rw [if_pos hc, if_pos (by omega)]
    have : 0 + (t - 0) = t := by omega
    rw [this]
    cases a.cell? t <;> cases a.cell? (t + 1) <;> rfl
  · rw [if_neg hc, if_neg (by omega)]

/-- C15 (backward derivative): C(t) - C(t-1) on 1 ≤ t ≤ T-1, undefined at 0 -/
theorem c15_deriv_backward (a r : Corr β) (hT : 1 ≤ a.T) (h : a.deriv "backward" = .ok r) :
    r.T = a.T ∧ ∀ t, t < a.T → r.cell? t =
      (if 1 ≤ t then
        (match a.cell? (t - 1), a.cell? t with
         | some m, some x => some (x - m)
         | _, _ => none)
       else none) := by
  unfold Corr.deriv at h
  split at h
  · cases h
  simp only [] at h
  obtain ⟨h1, -, h3⟩ := c15_build_ok _ _ _ _ _ _ _ h
  refine ⟨by omega, fun t ht => ?_⟩
  rw [h3]
  by_cases hc : 1 ≤ t
  · rw [if_pos hc, if_pos (by omega)]
    have : 1 + (t - 1) = t := by omega
    rw [this]
    cases a.cell? (t - 1) <;> cases a.cell? t <;> rfl
  · rw [if_neg hc, if_neg (by omega)]

/-- C15 (improved second derivative): (-C(t+2) + 16C(t+1) - 30C(t) + 16C(t-1) - C(t-2))/12 on 2 ≤ t ≤ T-3,
    undefined exactly when one of the five slices is -/
theorem c15_second_improved (a r : Corr β) (hT : 4 ≤ a.T) (h : a.secondDeriv "improved" = .ok r) :
    r.T = a.T ∧ ∀ t, t < a.T → r.cell? t =
      (if 2 ≤ t ∧ t + 2 < a.T then
        (match a.cell? (t - 2), a.cell? (t - 1), a.cell? t, a.cell? (t + 1), a.cell? (t + 2) with
         | some m2, some m1, some x, some p1, some p2 => some ((1 / 12 : β) * (-p2 + 16 * p1 - 30 * x + 16 * m1 - m2))
         | _, _, _, _, _ => none)
       else none) := by
  unfold Corr.secondDeriv at h
  split at h
  · cases h
  simp only [] at h
  obtain ⟨h1, -, h3⟩ := c15_build_ok _ _ _ _ _ _ _ h
  refine ⟨by omega, fun t ht => ?_⟩
  rw [h3]
  by_cases hc : 2 ≤ t ∧ t + 2 < a.T
  · rw [if_pos hc, if_pos (by omega)]
    have : 2 + (t - 2) = t := by omega
    rw [this]
    cases a.cell? (t - 2) <;> cases a.cell? (t - 1) <;> cases a.cell? t <;> cases a.cell? (t + 1) <;> cases a.cell? (t + 2) <;> rfl
  · rw [if_neg hc, if_neg (by omega)]

/-- C15 (effective mass, log variant): log(C(t)/C(t+1)) on 0 ≤ t ≤ T-2, undefined when a referenced slice is
    undefined, C(t+1) vanishes or the ratio is negative -/
theorem c15_meff_log (a r : Corr β) (root : Nat → β → β) (hT : 1 ≤ a.T) (h : a.mEff "log" root = .ok r) :
    r.T = a.T ∧ ∀ t, t < a.T → r.cell? t =
      (if t + 1 < a.T then
        (match a.cell? t, a.cell? (t + 1) with
         | some x, some p => if Scalar.isZero p then none else if x / p < 0 then none else some (Transc.log (x / p))
         | _, _ => none)
       else none) := by
  unfold Corr.mEff at h
  split at h
  · cases h
  simp only [] at h
  simp only [bind, Except.bind] at h
  split at h
  · cases h
  rename_i r0 hr0
  simp only [pure, Except.pure] at h
  injection h with h
  subst h
  obtain ⟨h1, -, h3⟩ := c15_build_ok _ _ _ _ _ _ _ hr0
  refine ⟨by simp only [Corr.T, Corr.mapCells, List.length_map] at *; omega, fun t ht => ?_⟩
  rw [mapCells_cell, h3]
  by_cases hc : t + 1 < a.T
  · rw [if_pos hc, if_pos (by omega)]
    have : 0 + (t - 0) = t := by omega
    rw [this]
    cases a.cell? t with
    | none => rfl
    | some x =>
      cases a.cell? (t + 1) with
      | none => rfl
      | some p =>
        show Option.map Transc.log (if Scalar.isZero p = true then none else if x / p < 0 then none else pure (x / p)) = _
        by_cases hz : Scalar.isZero p = true
        · simp [hz]
        · by_cases hn : x / p < 0
          · simp [hz, hn]
          · simp [hz, hn, pure]
  · rw [if_neg hc, if_neg (by omega)]
    rfl

/-- C15 (plateau by average): the mean of the defined slices of the inclusive range -/
theorem c15_plateau_avg (a : Corr β) (lo hi : Nat) (x : β) (h : a.plateauAvg lo hi = .ok x) :
    let xs := (List.range (hi + 1 - lo)).filterMap (fun k => a.cell? (lo + k))
    xs ≠ [] ∧ x = Scalar.sum xs / ofNatS xs.length := by
  intro xs
  unfold Corr.plateauAvg at h
  split at h
  · cases h
  simp only [] at h
  split at h
  · cases h
  rename_i hne
  cases h
  exact ⟨by simpa [xs] using hne, rfl⟩

end formulas

end PV
