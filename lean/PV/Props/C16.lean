/-
  Property C16 — GEVP and matrix pencil satisfy the eigen-equation and recover exact spectra.

  Two layers.
  * PV/Props/C16Alg.lean: the mathematics (exact N-state spectrum solves the generalised eigenproblem,
    projected correlator = exp(-E (t - t0)), Cholesky route equivalence, ordering, Hankel / Vandermonde
    factorisation behind the matrix-pencil method, pruning, symmetrisation).
  * this file: theorems about the executable model PV/Model/Gevp.lean of pyerrors' own logic around the
    eigen-solver — which entries of the result are undefined, that state 0 is the LAST vector LAPACK
    returns, that the permutation search of `_sort_vectors` only re-orders and recovers the reference
    labelling, the refusals, and that the Hankel slicing of the pencil method produces the two shifted
    Hankel matrices the factorisation theorem is about.  The model is run against pyerrors on every case.
-/
import PV.Proofs.DetBridge
import PV.Props.C16Alg
import PV.Proofs.C16Lemmas

set_option linter.unusedSimpArgs false
set_option linter.unusedSectionVars false

namespace PV
open Scalar

variable {α : Type} [Scalar α]

/-- `[::-1]` on the ascending eigenvalue order puts the largest first: state index bookkeeping -/
theorem c16_reverse_index (n i : Nat) (h : i < n) : n - 1 - (n - 1 - i) = i := by omega

/-! ### `_GEVP_solver`: state `i` is the `(N-1-i)`-th vector of the ascending decomposition -/

/-- eigh route: `eigh(Gt, G0)[1].T[::-1]` — state `i` is LAPACK's vector `N-1-i`; with
    `c16_order_reverse` (ascending eigenvalues) state 0 carries the largest eigenvalue -/
theorem c16_solver_descending (asc : List (List α)) (i : Nat) (hi : i < asc.length) :
    (solverOut none asc)[i]? = asc[asc.length - 1 - i]? := by
  simp [solverOut, List.getElem?_reverse hi]

/-- Cholesky route: state `i` is `L⁻ᵀ w_{N-1-i}` (the back-substitution of `c16_cholesky_equivalence`) -/
theorem c16_solver_descending_cholesky (Li : List (List α)) (asc : List (List α)) (i : Nat) (hi : i < asc.length) :
    (solverOut (some Li) asc)[i]? = (asc[asc.length - 1 - i]?).map (tMulVec Li) := by
  have : i < (asc.map (tMulVec Li)).length := by simpa using hi
  simp [solverOut, List.getElem?_reverse this]

/-- non-vacuity: three "vectors" in ascending order come out reversed -/
example : solverOut none ([[1], [2], [3]] : List (List Rat)) = [[3], [2], [1]] := by decide

/-! ### `Corr.GEVP`: which entries are undefined -/

/-- `all_vecs[t]` is undefined for `t ≤ t0` and is the solver's answer at `t` afterwards -/
theorem c16_allVecs_entry (g : GevpIn α) (t : Nat) (ht : t < g.T) :
    g.allVecs[t]? = some (if t ≤ g.t0 then none else g.solve t) := by
  simp [GevpIn.allVecs, ht]

theorem c16_allVecs_length (g : GevpIn α) : g.allVecs.length = g.T := by
  simp [GevpIn.allVecs]

/-- an undefined timeslice yields no vectors -/
theorem c16_solve_undefined (g : GevpIn α) (t : Nat) (h : g.isDef t = false) : g.solve t = none := by
  simp [GevpIn.solve, h]

/-- a defined timeslice yields the reversed (back-substituted) decomposition of that timeslice -/
theorem c16_solve_defined (g : GevpIn α) (t : Nat) (h : g.isDef t = true) (vs : List (List α))
    (hasc : g.asc.getD t none = some vs) :
    g.solve t = some (solverOut (if g.cholesky then some g.cholInv else none) vs) := by
  rw [List.getD_eq_getElem?_getD] at hasc
  simp [GevpIn.solve, h, hasc]

/-- entry `(s, t)` of the re-ordered result is vector `s` of timeslice `t`, undefined where the slice is -/
theorem c16_reorder_entry (N : Nat) (av : List (Option (List (List α)))) (s t : Nat) (hs : s < N) (ht : t < av.length) :
    ((reorder N av)[s]?.bind (fun l => l[t]?)) = some ((av[t]).bind (fun vs => vs[s]?)) := by
  simp [reorder, hs, ht]

/-- **C16 (result structure, sort by eigenvalue).**  For an admissible request the result has, for every
    state `s < N` and timeslice `t < T`: undefined if `t ≤ t0` or the timeslice is undefined, otherwise the
    `s`-th vector of the descending decomposition at `t`. -/
theorem c16_gevp_eigenvalue (g : GevpIn α) (hN : g.N ≠ 1) (hts : ∀ ts, g.ts = some ts → g.t0 < ts)
    (ht0 : g.t0 < g.T) (hdef : g.isDef g.t0 = true) (hpd : g.pd = true) (hsort : g.sort = .eigenvalue) :
    gevp g = .ok (.perT (reorder g.N g.allVecs)) := by
  unfold gevp
  have h1 : (g.N == 1) = false := by simpa using hN
  cases hts' : g.ts with
  | none => simp [h1, hts', Nat.not_le.mpr ht0, hdef, hpd, hsort, pure, Except.pure, bind, Except.bind, throw, throwThe, MonadExceptOf.throw]
  | some ts =>
    have := hts ts hts'
    simp [h1, hts', Nat.not_le.mpr ht0, Nat.not_le.mpr this, hdef, hpd, hsort, pure, Except.pure, bind, Except.bind, throw, throwThe, MonadExceptOf.throw]

/-! ### refusals -/

theorem c16_gevp_refuses_single (g : GevpIn α) (h : g.N = 1) : ∃ m, gevp g = .error (.valueError m) := by
  refine ⟨"GEVP methods only works on correlator matrices and not single correlators.", ?_⟩
  unfold gevp
  simp [h, bind, Except.bind, throw, throwThe, MonadExceptOf.throw]

theorem c16_gevp_refuses_ts_le_t0 (g : GevpIn α) (hN : g.N ≠ 1) (ts : Nat) (h : g.ts = some ts) (hle : ts ≤ g.t0) :
    ∃ m, gevp g = .error (.valueError m) := by
  refine ⟨"ts has to be larger than t0.", ?_⟩
  unfold gevp
  have h1 : (g.N == 1) = false := by simpa using hN
  simp [h1, h, hle, bind, Except.bind, throw, throwThe, MonadExceptOf.throw, pure, Except.pure]

theorem c16_gevp_refuses_undefined_t0 (g : GevpIn α) (hN : g.N ≠ 1) (hts : ∀ ts, g.ts = some ts → g.t0 < ts)
    (ht0 : g.t0 < g.T) (hdef : g.isDef g.t0 = false) : gevp g = .error .attributeError := by
  unfold gevp
  have h1 : (g.N == 1) = false := by simpa using hN
  cases hts' : g.ts with
  | none => simp [h1, hts', Nat.not_le.mpr ht0, hdef, pure, Except.pure, bind, Except.bind, throw, throwThe, MonadExceptOf.throw]
  | some ts =>
    have := hts ts hts'
    simp [h1, hts', Nat.not_le.mpr ht0, Nat.not_le.mpr this, hdef, pure, Except.pure, bind, Except.bind, throw, throwThe, MonadExceptOf.throw]

/-! ### `_sort_vectors` -/

/-- **C16 (the eigenvector sort only re-orders).**  Whatever the scores are, the slice returned for a
    timeslice is a permutation of the vectors found at that timeslice: nothing is lost or duplicated. -/
theorem c16_sort_slice_perm (ref vs : List (List α)) (prev bp : Option (List Nat)) (hlen : vs.length = ref.length)
    (hprev : ∀ q, prev = some q → q ∈ perms ref.length)
    (h : bestPerm (permScore ref vs) (perms ref.length) prev = bp) (q : List Nat) (hq : bp = some q) :
    ((applyPerm vs q).map (fun o => o.getD [])).Perm vs := by
  have hmem : q ∈ perms ref.length := by
    rcases bestPerm_mem (permScore ref vs) (perms ref.length) prev with h1 | ⟨p, hp, h2⟩
    · exact hprev q (by rw [← h1, h, hq])
    · have : some q = some p := by rw [← hq, ← h, h2]
      cases this
      exact hp
  have hperm := applyPerm_perm vs q (by rw [hlen]; exact perms_perm hmem)
  have := hperm.map (fun o : Option (List α) => o.getD [])
  simpa [List.map_map, Function.comp_def] using this

/-- **C16 (`_sort_vectors` as a whole).**  For every list of timeslices (any length, any pattern of undefined
    slices, whatever the scores): the result has the same undefined pattern, and every defined slice is a
    permutation of the corresponding input slice. -/
theorem c16_sortVectors_perm (ref : List (List α)) (ts : Nat) :
    ∀ (l : List (Option (List (List α)))) (t : Nat) (prev : Option (List Nat)) (r : List (Option (List (List α)))),
      (∀ vs, some vs ∈ l → vs.length = ref.length) →
      (∀ q, prev = some q → q ∈ perms ref.length) →
      sortVectorsAux ref ts t l prev = .ok r →
      List.Forall₂ SliceRel l r := by
  intro l
  induction l with
  | nil =>
    intro t prev r _ _ h
    simp [sortVectorsAux] at h
    cases h
    exact List.Forall₂.nil
  | cons a rest ih =>
    intro t prev r hlen hprev h
    cases a with
    | none =>
      simp only [sortVectorsAux, bind, Except.bind, pure, Except.pure] at h
      cases hrec : sortVectorsAux ref ts (t + 1) rest prev with
      | error e => rw [hrec] at h; cases h
      | ok r' =>
        rw [hrec] at h
        cases h
        exact List.Forall₂.cons (by simp [SliceRel]) (ih (t + 1) prev r' (fun vs hvs => hlen vs (by simp [hvs])) hprev hrec)
    | some vs =>
      simp only [sortVectorsAux] at h
      by_cases hts : (t == ts) = true
      · rw [if_pos hts] at h
        simp only [bind, Except.bind, pure, Except.pure] at h
        cases hrec : sortVectorsAux ref ts (t + 1) rest prev with
        | error e => rw [hrec] at h; cases h
        | ok r' =>
          rw [hrec] at h
          cases h
          exact List.Forall₂.cons (by simp [SliceRel]) (ih (t + 1) prev r' (fun vs hvs => hlen vs (by simp [hvs])) hprev hrec)
      · rw [if_neg hts] at h
        cases hb : bestPerm (permScore ref vs) (perms ref.length) prev with
        | none => rw [hb] at h; cases h
        | some bp =>
          rw [hb] at h
          simp only [bind, Except.bind, pure, Except.pure] at h
          have hbp := bestPerm_some_mem _ _ prev hprev bp hb
          cases hrec : sortVectorsAux ref ts (t + 1) rest (some bp) with
          | error e => rw [hrec] at h; cases h
          | ok r' =>
            rw [hrec] at h
            cases h
            refine List.Forall₂.cons ?_ (ih (t + 1) (some bp) r' (fun vs hvs => hlen vs (by simp [hvs])) (fun q hq => by cases hq; exact hbp) hrec)
            simp only [SliceRel]
            exact c16_sort_slice_perm ref vs prev (some bp) (hlen vs (by simp)) hprev hb bp rfl

/-- the same for the entry point (`reference = vec_set[ts]`) -/
theorem c16_sortVectors_perm_top (vecSet : List (Option (List (List α)))) (ts : Nat) (ref : List (List α))
    (r : List (Option (List (List α)))) (href : vecSet.getD ts none = some ref)
    (hlen : ∀ vs, some vs ∈ vecSet → vs.length = ref.length) (h : sortVectors vecSet ts = .ok r) :
    List.Forall₂ SliceRel vecSet r := by
  unfold sortVectors at h
  split at h
  · cases h
  · rw [href] at h
    exact c16_sortVectors_perm ref ts vecSet 0 none r hlen (fun q hq => by cases hq) h

/-- **C16 (the eigenvector sort recovers the reference labelling).**  Over the reals: if the scores single
    out one candidate `σ` (positive score, all others zero — the situation `c16_sort_score_alg` establishes
    for vectors that are non-zero multiples of the reference vectors in the order `σ`), the search returns
    `σ` whatever it held before, and the slice puts vector `k` at state `σ[k]`. -/
theorem c16_sort_search_unique (score : List Nat → ℝ) (ps : List (List Nat)) (prev : Option (List Nat))
    (σ : List Nat) (hσ : σ ∈ ps) (hpos : 0 < score σ) (hz : ∀ p ∈ ps, p ≠ σ → score p = 0) :
    bestPerm score ps prev = some σ :=
  bestPerm_unique score ps prev σ hσ hpos hz

/-- vector `k` lands at state `σ[k]` -/
theorem c16_applyPerm_places {β : Type} (vs : List β) (σ : List Nat) (hnd : σ.Nodup) (k : Nat) (hk : k < σ.length)
    (hlt : σ[k] < σ.length) : (applyPerm vs σ)[σ[k]]? = some vs[k]? := by
  unfold applyPerm
  rw [List.getElem?_map, List.getElem?_range hlt]
  simp [List.Nodup.idxOf_getElem hnd k hk]

/-- the scores of exact data: with `v_k = c_k · ref_{σ k}` (non-zero `c_k`, independent reference vectors) the
    product of determinants is non-zero exactly for the assignment `τ = σ` -/
theorem c16_sort_score_alg {n : ℕ} (M : Matrix (Fin n) (Fin n) ℝ) (hM : M.det ≠ 0) (c : Fin n → ℝ)
    (hc : ∀ k, c k ≠ 0) (σ τ : Equiv.Perm (Fin n)) :
    (∏ k, |(M.updateRow (τ k) (c k • M (σ k))).det|) ≠ 0 ↔ τ = σ := by
  constructor
  · intro h
    by_contra hne
    obtain ⟨k, hk⟩ : ∃ k, τ k ≠ σ k := by
      by_contra hall
      push Not at hall
      exact hne (Equiv.ext hall)
    apply h
    apply Finset.prod_eq_zero (Finset.mem_univ k)
    rw [Matrix.det_updateRow_smul, abs_eq_zero, mul_eq_zero]
    right
    apply Matrix.det_zero_of_row_eq hk
    rw [Matrix.updateRow_self, Matrix.updateRow_ne (Ne.symm hk)]
  · rintro rfl
    rw [Finset.prod_ne_zero_iff]
    intro k _
    rw [Matrix.det_updateRow_smul, Matrix.updateRow_eq_self]
    exact abs_ne_zero.mpr (mul_ne_zero (hc k) hM)

/-- non-vacuity of `c16_sort_score_alg`: the identity matrix, a 3-cycle -/
example : (1 : Matrix (Fin 3) (Fin 3) ℝ).det ≠ 0 := by simp

/-! ### matrix pencil: the Hankel slicing -/

/-- **C16 (pencil matrices).**  `y1[i][j] = y[i + j]` and `y2[i][j] = y[i + j + 1]` for `i < n - p`, `j < p`:
    the two matrices built by `scipy.linalg.hankel(data[:n-p], data[n-p-1:])[:, :p]` / `[:, 1:]` are the Hankel
    matrices with offsets 0 and 1 of `c16_hankel_factor`. -/
theorem c16_pencil_entries (y : List α) (p i j : Nat) (hp : p < y.length) (hi : i < y.length - p) (hj : j < p) :
    (((pencil y p).1.getD i []).getD j 0 = y.getD (i + j) 0) ∧
    (((pencil y p).2.getD i []).getD j 0 = y.getD (i + j + 1) 0) := by
  have hj1 : j < p + 1 := by omega
  have hj2 : j + 1 < p + 1 := by omega
  have hmin : min (y.length - p) y.length = y.length - p := by omega
  have hr : y.length - (y.length - p - 1) = p + 1 := by omega
  constructor
  · simp [pencil, hankelPy, List.getD_eq_getElem?_getD, hi, hj, hj1, hmin, hr, List.getElem?_take, List.getElem?_drop]
    split
    · rfl
    · congr 2 <;> omega
  · simp [pencil, hankelPy, List.getD_eq_getElem?_getD, hi, hj, hj2, hmin, hr, List.getElem?_take, List.getElem?_drop]
    split
    · congr 2 <;> omega
    · congr 2 <;> omega

/-- non-vacuity: n = 6, p = 3 -/
example : pencil ([10, 11, 12, 13, 14, 15] : List Rat) 3
    = ([[10, 11, 12], [11, 12, 13], [12, 13, 14]], [[11, 12, 13], [12, 13, 14], [13, 14, 15]]) := by decide

/-! ### `Corr.projected` -/

/-- the projected correlator is undefined exactly where the matrix or the vector is -/
theorem c16_projected_defined (content : List (Option (List (List α)))) (vs : List (Option (List α))) (t : Nat)
    (ht : t < content.length) :
    ((projectedList content vs)[t]? = some none) ↔ (content.getD t none = none ∨ vs.getD t none = none) := by
  simp only [projectedList, List.getElem?_map, List.getElem?_range ht, Option.map_some, Option.some.injEq]
  cases content.getD t none <;> cases vs.getD t none <;> simp


/-! ### the model's determinant is the determinant -/

section det_bridge
open PV.DetBridge Matrix BigOperators PV.RealS

/-- the Laplace-expansion determinant of the model equals Mathlib's `Matrix.det` for every square list matrix -/
theorem c16_det_is_det (M : List (List ℝ)) (n : Nat) (h : ShapedR M n n) : PV.det M = (toMR M n n).det :=
  det_model_eq M n h

/-- **C16 (the assignment found by the sorting is the true one, on the model).**  For a square, non-singular reference
    and vectors `v_k = c_k · ref_{σ k}` (exact data: every solved vector is a non-zero multiple of one reference
    vector), the score the model computes for an assignment `τ` is non-zero exactly for `τ = σ`. -/
theorem c16_sort_score_model (n : Nat) (ref : List (List ℝ)) (href : ShapedR ref n n) (hdet : (toMR ref n n).det ≠ 0)
    (c : Fin n → ℝ) (hc : ∀ k, c k ≠ 0) (σ τ : Equiv.Perm (Fin n)) :
    permScore ref (List.ofFn (fun k : Fin n => (ref.getD (σ k) []).map (c k * ·))) (List.ofFn (fun k : Fin n => ((τ k : Fin n) : Nat))) ≠ 0
      ↔ τ = σ := by
  have hperm : ∀ k, k < n → (List.ofFn (fun k : Fin n => ((τ k : Fin n) : Nat))).getD k 0 < n := by
    intro k hk
    simp [List.getD_eq_getElem?_getD, hk]
  have hvecs : ∀ k, k < n → ((List.ofFn (fun k : Fin n => (ref.getD (σ k) []).map (c k * ·))).getD k []).length = n := by
    intro k hk
    have hs : ((σ ⟨k, hk⟩ : Fin n) : Nat) < ref.length := by rw [href.1]; exact (σ ⟨k, hk⟩).2
    simp [List.getD_eq_getElem?_getD, hk, hs, href.2 _ (List.getElem_mem hs)]
  rw [permScore_eq ref _ _ n href hperm hvecs, ← c16_sort_score_alg (toMR ref n n) hdet c hc σ τ]
  have : ∀ k : Fin n,
      ((toMR ref n n).updateRow ⟨(List.ofFn (fun k : Fin n => ((τ k : Fin n) : Nat))).getD k 0, hperm k k.2⟩
        (fun j => ((List.ofFn (fun k : Fin n => (ref.getD (σ k) []).map (c k * ·))).getD k []).getD j 0))
      = (toMR ref n n).updateRow (τ k) (c k • toMR ref n n (σ k)) := by
    intro k
    have hs : ((σ k : Fin n) : Nat) < ref.length := by rw [href.1]; exact (σ k).2
    congr 1
    · apply Fin.ext; simp [List.getD_eq_getElem?_getD]
    · funext j
      have hj : (j : Nat) < (ref[(σ k : Nat)]).length := by rw [href.2 _ (List.getElem_mem hs)]; exact j.2
      simp [toMR, List.getD_eq_getElem?_getD, hs, hj]
  simp only [this]

end det_bridge

end PV
