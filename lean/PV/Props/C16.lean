/-
  Property C16 — GEVP and matrix pencil satisfy the eigen-equation and recover exact spectra.
  The mathematical backbone (exact N-state spectrum solves the generalised eigenproblem, projected
  correlator = exp(-E (t - t0)), Cholesky route equivalence, ordering, Hankel / Vandermonde
  factorisation behind the matrix-pencil method, pruning, symmetrisation) is in PV/Props/C16Alg.lean.
-/
import PV.Props.C16Alg

namespace PV

/-- `[::-1]` on the ascending eigenvalue order puts the largest first: state index bookkeeping -/
theorem c16_reverse_index (n i : Nat) (h : i < n) : n - 1 - (n - 1 - i) = i := by omega

end PV
