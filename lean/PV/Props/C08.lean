/-
  Property C08 — non-linear and total least-squares fits obey the implicit-function rule.
  The mathematical backbone (implicit-function algebra, one-dimensional analytic form, block
  slices of the ODR Hessian, TLS limit) is in PV/Props/C08Alg.lean.
-/
import PV.Props.C08Alg
import PV.Props.C07

namespace PV

/-- the slice bookkeeping of total_least_squares: rows [:a], columns [a:] of an (a+b) x (a+b)
    matrix have a rows and b columns for every a, b (index arithmetic is total) -/
theorem c08_slice_shape (a b : Nat) : (a + b) - a = b ∧ min a (a + b) = a := by omega


section executable
open PV.Gls

/-- **C08 (the executable implicit-function step).**  Whatever `iftSens H M` returns satisfies `H X + M = 0`
    column by column, exactly - the algebraic form of the implicit-function rule (`c08_ift_alg`) evaluated on
    the Hessian and the mixed derivative of the chi-square at the fitted point. -/
theorem c08_iftSens_sound (H M X : Mat) (h : iftSens H M = some X) :
    ∃ cols, X = transpose cols ∧
      List.Forall₂ (fun col x => mulVec H x = col.map (fun v => -v)) (transpose M) cols := by
  unfold iftSens at h
  split at h
  · cases h
  · rename_i cols hcols
    injection h with h
    refine ⟨cols, h.symm, ?_⟩
    have : (transpose M).mapM (fun col => solveChecked H (col.map (fun v => -v)))
        = ((transpose M).map (fun col => col.map (fun v => -v))).mapM (fun c => solveChecked H c) := by
      rw [List.mapM_map]; rfl
    rw [this] at hcols
    have := mapM_solveChecked H _ cols hcols
    rw [List.forall₂_map_left_iff] at this
    exact this

end executable

end PV
