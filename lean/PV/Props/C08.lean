/-
  Property C08 — non-linear and total least-squares fits obey the implicit-function rule.
  The mathematical backbone (implicit-function algebra, one-dimensional analytic form, block
  slices of the ODR Hessian, TLS limit) is in PV/Props/C08Alg.lean.
-/
import PV.Props.C08Alg

namespace PV

/-- the slice bookkeeping of total_least_squares: rows [:a], columns [a:] of an (a+b) x (a+b)
    matrix have a rows and b columns for every a, b (index arithmetic is total) -/
theorem c08_slice_shape (a b : Nat) : (a + b) - a = b ∧ min a (a + b) = a := by omega

end PV
