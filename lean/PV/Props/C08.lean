/-
  Property C08 — non-linear and total least-squares fits obey the implicit-function rule.
  The mathematical backbone (implicit-function algebra, one-dimensional analytic form, block
  slices of the ODR Hessian, TLS limit) is in PV/Props/C08Alg.lean.
-/
import PV.Props.C08Alg
import PV.Props.C07

namespace PV

/-- the slice bookkeeping of total_least_squares: rows [:a], columns [a:] of an (a+b) x (a+b)
    matrix have a rows and b columns for every a, b (index arithmetic is total) -/
theorem c08_slice_shape (a b : Nat) : (a + b) - a = b ∧ min a (a + b) = a := by omega


section executable
open PV.Gls

/-- **C08 (the executable implicit-function step).**  Whatever `iftSens H M` returns satisfies `H X + M = 0`
    column by column, exactly - the algebraic form of the implicit-function rule (`c08_ift_alg`) evaluated on
    the Hessian and the mixed derivative of the chi-square at the fitted point. -/
theorem c08_iftSens_sound (H M X : Mat) (h : iftSens H M = some X) :
    ∃ cols, X = transpose cols ∧
      List.Forall₂ (fun col x => mulVec H x = col.map (fun v => -v)) (transpose M) cols := by
  unfold iftSens at h
  split at h
  · cases h
  · rename_i cols hcols
    injection h with h
    refine ⟨cols, h.symm, ?_⟩
    have : (transpose M).mapM (fun col => solveChecked H (col.map (fun v => -v)))
        = ((transpose M).map (fun col => col.map (fun v => -v))).mapM (fun c => solveChecked H c) := by
      rw [List.mapM_map]; rfl
    rw [this] at hcols
    have := mapM_solveChecked H _ cols hcols
    rw [List.forall₂_map_left_iff] at this
    exact this

/-- **C08 (the executable step is the implicit-function rule).**  For a well-shaped Hessian `H` (n × n) and mixed
    derivative `M` (n × k) what `iftSens` returns satisfies `H X = -M` as Mathlib matrices and equals `-H⁻¹ M`
    whenever `H` is invertible: the sensitivity of the minimiser with respect to the data that `c08_ift_alg`
    derives from stationarity. -/
theorem c08_iftSens_is_rule (H M X : Mat) (n k : Nat) (hH : Shaped H n n) (hM : Shaped M n k)
    (hn : 1 ≤ n) (hk : 1 ≤ k) (h : iftSens H M = some X) :
    toM H n n * toM X n k = - toM M n k ∧
    (IsUnit (toM H n n).det → toM X n k = - ((toM H n n)⁻¹ * toM M n k)) :=
  iftSens_is_inverse H M X n k hH hM hn hk h

end executable

end PV
