/-
  Property C06 — covariance and correlation matrices are consistent with the individual errors.
  Property theorems only.
-/
import PV.Model.Cov
import PV.Props.C06Alg
import PV.Proofs.C06bLemmas
import PV.Proofs.RealScalar
import Mathlib.Tactic.Ring
import Mathlib.Tactic.FieldSimp

namespace PV
open Scalar

variable {α : Type} [Transc α]

/-- C06 (disjoint): observables without a common chain or covariance input have zero covariance -/
theorem c06_disjoint_zero (o1 o2 : Obs α)
    (h : (o1.names ++ o1.covNames).any (fun n => (o2.names ++ o2.covNames).contains n) = false) :
    covElement o1 o2 = 0 := by
  unfold covElement
  simp only [h, Bool.not_false, ↓reduceIte]


/-! ### the assembled matrix of the executable model -/

section assembled
open PV.RealS
set_option linter.unusedSimpArgs false

theorem covMatrix_entry (obs : List (Obs ℝ)) (dv : List ℝ) (correlation : Bool) (i j : Nat)
    (hi : i < obs.length) (hj : j < obs.length) :
    ((covarianceMatrix obs dv correlation).getD i []).getD j 0 =
      (let el := fun (a b : Nat) => covElement (obs.getD (min a b) default) (obs.getD (max a b) default)
       let c := el i j / Transc.sqrt (el i i) / Transc.sqrt (el j j)
       if correlation then c else dv.getD i 0 * c * dv.getD j 0) := by
  unfold covarianceMatrix
  simp [List.getD_eq_getElem?_getD, List.getElem?_map, List.getElem?_range, hi, hj]

/-- **C06 (the assembled matrix is symmetric).**  For every list of observables, every error vector and both
    normalisations, entry (i, j) of the model of `covariance` equals entry (j, i): the element is computed from
    the unordered pair and the normalisation commutes. -/
theorem c06_model_symmetric (obs : List (Obs ℝ)) (dv : List ℝ) (correlation : Bool) (i j : Nat)
    (hi : i < obs.length) (hj : j < obs.length) :
    ((covarianceMatrix obs dv correlation).getD i []).getD j 0
      = ((covarianceMatrix obs dv correlation).getD j []).getD i 0 := by
  rw [covMatrix_entry obs dv correlation i j hi hj, covMatrix_entry obs dv correlation j i hj hi]
  simp only [Nat.min_comm j i, Nat.max_comm j i]
  cases correlation
  · simp only [Bool.false_eq_true, if_false]
    ring
  · simp only [if_true]
    ring

/-- **C06 (unit diagonal of the correlation matrix, diagonal = squared errors of the covariance matrix).**
    Whenever the self-covariance of observable i is positive, the correlation entry (i, i) is 1 and the
    covariance entry is `dvalue_i²`. -/
theorem c06_model_diagonal (obs : List (Obs ℝ)) (dv : List ℝ) (i : Nat) (hi : i < obs.length)
    (hpos : 0 < covElement (obs.getD i default) (obs.getD i default)) :
    ((covarianceMatrix obs dv true).getD i []).getD i 0 = 1 ∧
    ((covarianceMatrix obs dv false).getD i []).getD i 0 = dv.getD i 0 * dv.getD i 0 := by
  have hs : Real.sqrt (covElement (obs.getD i default) (obs.getD i default)) ≠ 0 :=
    (Real.sqrt_pos.mpr hpos).ne'
  have hsq : Real.sqrt (covElement (obs.getD i default) (obs.getD i default)) * Real.sqrt (covElement (obs.getD i default) (obs.getD i default))
      = covElement (obs.getD i default) (obs.getD i default) := Real.mul_self_sqrt hpos.le
  constructor
  · rw [covMatrix_entry obs dv true i i hi hi]
    simp only [Nat.min_self, Nat.max_self, if_true]
    show covElement _ _ / Real.sqrt _ / Real.sqrt _ = 1
    rw [div_div, hsq, div_self hpos.ne']
  · rw [covMatrix_entry obs dv false i i hi hi]
    simp only [Nat.min_self, Nat.max_self, Bool.false_eq_true, if_false]
    show dv.getD i 0 * (covElement _ _ / Real.sqrt _ / Real.sqrt _) * dv.getD i 0 = _
    rw [div_div, hsq, div_self hpos.ne']
    ring


/-- **C06 (Cauchy–Schwarz in the model).**  For observables without covariance inputs the element computed by the
    model of `_covariance_element` is bounded in modulus by the number of ensembles the two observables share: per
    ensemble it is Σ_r ⟨a_r, b_r⟩ / Σ_r √(⟨a_r, a_r⟩⟨b_r, b_r⟩) on the common configurations, of modulus at most one
    - for every layout of replicas and configuration lists. -/
theorem c06_model_element_bound (o1 o2 : Obs ℝ) (hc : o1.covs = []) :
    |covElement o1 o2| ≤ ((o1.mcNames.filter (fun e => o2.mcNames.contains e)).length : ℝ) :=
  C06m.covElement_bound o1 o2 hc

/-- on a single ensemble the element lies in [-1, 1] -/
theorem c06_model_element_single (o1 o2 : Obs ℝ) (hc : o1.covs = []) (h1 : o1.mcNames.length ≤ 1) :
    |covElement o1 o2| ≤ 1 := by
  refine (c06_model_element_bound o1 o2 hc).trans ?_
  have : (o1.mcNames.filter (fun e => o2.mcNames.contains e)).length ≤ 1 :=
    (List.length_filter_le _ _).trans h1
  exact_mod_cast this

/-- Cauchy–Schwarz for the inner product the model uses (lists of any lengths) -/
theorem c06_dot_cauchy_schwarz (a b : List ℝ) : |dot a b| ≤ Real.sqrt (dot a a * dot b b) :=
  C06m.abs_dot_le a b

end assembled

end PV
