/-
  Property C06 — covariance and correlation matrices are consistent with the individual errors.
  Property theorems only.
-/
import PV.Model.Cov
import PV.Props.C06Alg

namespace PV
open Scalar

variable {α : Type} [Transc α]

/-- C06 (disjoint): observables without a common chain or covariance input have zero covariance -/
theorem c06_disjoint_zero (o1 o2 : Obs α)
    (h : (o1.names ++ o1.covNames).any (fun n => (o2.names ++ o2.covNames).contains n) = false) :
    covElement o1 o2 = 0 := by
  unfold covElement
  simp only [h, Bool.not_false, ↓reduceIte]

end PV
