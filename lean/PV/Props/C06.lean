/-
  Property C06 — covariance and correlation matrices are consistent with the individual errors.
  Property theorems only.
-/
import PV.Model.Cov
import PV.Props.C06Alg
import PV.Proofs.C06bLemmas
import PV.Proofs.C06cLemmas
import PV.Proofs.RealScalar
import Mathlib.Tactic.Ring
import Mathlib.Tactic.NormNum
import Mathlib.Tactic.FieldSimp

namespace PV
open Scalar

variable {α : Type} [Transc α]

/-- C06 (disjoint): observables without a common chain or covariance input have zero covariance -/
theorem c06_disjoint_zero (o1 o2 : Obs α)
    (h : (o1.names ++ o1.covNames).any (fun n => (o2.names ++ o2.covNames).contains n) = false) :
    covElement o1 o2 = 0 := by
  unfold covElement
  simp only [h, Bool.not_false, ↓reduceIte]


/-! ### the assembled matrix of the executable model -/

section assembled
open PV.RealS
set_option linter.unusedSimpArgs false

theorem covMatrix_entry (obs : List (Obs ℝ)) (dv : List ℝ) (correlation : Bool) (i j : Nat)
    (hi : i < obs.length) (hj : j < obs.length) :
    ((covarianceMatrix obs dv correlation).getD i []).getD j 0 =
      (let el := fun (a b : Nat) => covElement (obs.getD (min a b) default) (obs.getD (max a b) default)
       let c := el i j / Transc.sqrt (el i i) / Transc.sqrt (el j j)
       if correlation then c else dv.getD i 0 * c * dv.getD j 0) := by
  unfold covarianceMatrix
  simp [List.getD_eq_getElem?_getD, List.getElem?_map, List.getElem?_range, hi, hj]

/-- **C06 (the assembled matrix is symmetric).**  For every list of observables, every error vector and both
    normalisations, entry (i, j) of the model of `covariance` equals entry (j, i): the element is computed from
    the unordered pair and the normalisation commutes. -/
theorem c06_model_symmetric (obs : List (Obs ℝ)) (dv : List ℝ) (correlation : Bool) (i j : Nat)
    (hi : i < obs.length) (hj : j < obs.length) :
    ((covarianceMatrix obs dv correlation).getD i []).getD j 0
      = ((covarianceMatrix obs dv correlation).getD j []).getD i 0 := by
  rw [covMatrix_entry obs dv correlation i j hi hj, covMatrix_entry obs dv correlation j i hj hi]
  simp only [Nat.min_comm j i, Nat.max_comm j i]
  cases correlation
  · simp only [Bool.false_eq_true, if_false]
    ring
  · simp only [if_true]
    ring

/-- **C06 (unit diagonal of the correlation matrix, diagonal = squared errors of the covariance matrix).**
    Whenever the self-covariance of observable i is positive, the correlation entry (i, i) is 1 and the
    covariance entry is `dvalue_i²`. -/
theorem c06_model_diagonal (obs : List (Obs ℝ)) (dv : List ℝ) (i : Nat) (hi : i < obs.length)
    (hpos : 0 < covElement (obs.getD i default) (obs.getD i default)) :
    ((covarianceMatrix obs dv true).getD i []).getD i 0 = 1 ∧
    ((covarianceMatrix obs dv false).getD i []).getD i 0 = dv.getD i 0 * dv.getD i 0 := by
  have hs : Real.sqrt (covElement (obs.getD i default) (obs.getD i default)) ≠ 0 :=
    (Real.sqrt_pos.mpr hpos).ne'
  have hsq : Real.sqrt (covElement (obs.getD i default) (obs.getD i default)) * Real.sqrt (covElement (obs.getD i default) (obs.getD i default))
      = covElement (obs.getD i default) (obs.getD i default) := Real.mul_self_sqrt hpos.le
  constructor
  · rw [covMatrix_entry obs dv true i i hi hi]
    simp only [Nat.min_self, Nat.max_self, if_true]
    show covElement _ _ / Real.sqrt _ / Real.sqrt _ = 1
    rw [div_div, hsq, div_self hpos.ne']
  · rw [covMatrix_entry obs dv false i i hi hi]
    simp only [Nat.min_self, Nat.max_self, Bool.false_eq_true, if_false]
    show dv.getD i 0 * (covElement _ _ / Real.sqrt _ / Real.sqrt _) * dv.getD i 0 = _
    rw [div_div, hsq, div_self hpos.ne']
    ring


/-- **C06 (Cauchy–Schwarz in the model).**  For observables without covariance inputs the element computed by the
    model of `_covariance_element` is bounded in modulus by the number of ensembles the two observables share: per
    ensemble it is Σ_r ⟨a_r, b_r⟩ / Σ_r √(⟨a_r, a_r⟩⟨b_r, b_r⟩) on the common configurations, of modulus at most one
    - for every layout of replicas and configuration lists. -/
theorem c06_model_element_bound (o1 o2 : Obs ℝ) (hc : o1.covs = []) :
    |covElement o1 o2| ≤ ((o1.mcNames.filter (fun e => o2.mcNames.contains e)).length : ℝ) :=
  C06m.covElement_bound o1 o2 hc

/-- on a single ensemble the element lies in [-1, 1] -/
theorem c06_model_element_single (o1 o2 : Obs ℝ) (hc : o1.covs = []) (h1 : o1.mcNames.length ≤ 1) :
    |covElement o1 o2| ≤ 1 := by
  refine (c06_model_element_bound o1 o2 hc).trans ?_
  have : (o1.mcNames.filter (fun e => o2.mcNames.contains e)).length ≤ 1 :=
    (List.length_filter_le _ _).trans h1
  exact_mod_cast this

/-- Cauchy–Schwarz for the inner product the model uses (lists of any lengths) -/
theorem c06_dot_cauchy_schwarz (a b : List ℝ) : |dot a b| ≤ Real.sqrt (dot a a * dot b b) :=
  C06m.abs_dot_le a b

/-! ### the model on a common chain is a Gram matrix: positive semidefinite -/

open Matrix in
/-- **C06 (the assembled correlation matrix of the executable model is `D (X Xᵀ) D`).**  For every list of
    observables that live on one common chain (same name, same configuration list, no covariance inputs, data not
    constant), the matrix computed by the model of `covariance(obs, correlation=True)` - through
    `_covariance_element` with its intersection by configuration number, the square-root normalisation and the
    mirrored triangle - is the Gram matrix `X Xᵀ` of the fluctuations conjugated with `D = diag(1/‖δ_i‖)`. -/
theorem c06_model_corr_is_gram (n : String) (idl : Idl) (hp : idl.toList.Pairwise (· < ·)) (obs : List (Obs ℝ)) (dv : List ℝ)
    (hall : ∀ o ∈ obs, C06c.OnChain n idl o ∧ 0 < dot (C06c.fl o) (C06c.fl o)) :
    C06c.modelM obs dv true
      = diagonal (C06c.dinv obs) * (C06c.X obs idl.len * (C06c.X obs idl.len)ᵀ) * diagonal (C06c.dinv obs) :=
  C06c.corr_is_gram n idl hp obs dv hall

open Matrix in
/-- **C06 (positive semidefiniteness, on the model).**  Under the same hypotheses the correlation matrix AND the
    covariance matrix (rescaled by any error vector `dv`) of the executable model are symmetric and positive
    semidefinite: `vᵀ C v ≥ 0` for every `v`.  (On observables with different configuration subsets the
    intersections differ from pair to pair and the matrix need not be PSD - which is why pyerrors warns about
    it; that regime is covered by the element bound above.) -/
theorem c06_model_psd_common_chain (n : String) (idl : Idl) (hp : idl.toList.Pairwise (· < ·)) (obs : List (Obs ℝ)) (dv : List ℝ)
    (hall : ∀ o ∈ obs, C06c.OnChain n idl o ∧ 0 < dot (C06c.fl o) (C06c.fl o)) :
    ((C06c.modelM obs dv true).IsSymm ∧ ∀ v : Fin obs.length → ℝ, 0 ≤ v ⬝ᵥ (C06c.modelM obs dv true) *ᵥ v) ∧
    ((C06c.modelM obs dv false).IsSymm ∧ ∀ v : Fin obs.length → ℝ, 0 ≤ v ⬝ᵥ (C06c.modelM obs dv false) *ᵥ v) :=
  ⟨C06c.corr_psd n idl hp obs dv hall, C06c.cov_psd n idl hp obs dv hall⟩

/-- the element on a common chain is the normalised inner product (the formula the two theorems rest on) -/
theorem c06_model_element_common_chain (n : String) (idl : Idl) (hp : idl.toList.Pairwise (· < ·))
    (o1 o2 : Obs ℝ) (h1 : C06c.OnChain n idl o1) (h2 : C06c.OnChain n idl o2) :
    covElement o1 o2 = dot (C06c.fl o1) (C06c.fl o2)
      / Real.sqrt (dot (C06c.fl o1) (C06c.fl o1) * dot (C06c.fl o2) (C06c.fl o2)) :=
  C06c.covElement_onChain n idl hp o1 o2 h1 h2

/-- non-vacuity: two observables on the chain `A|r1`, configurations 1, 3, 4 -/
example : let o1 : Obs ℝ := { value := 1, reps := [{ name := "A|r1", idl := .list [1, 3, 4], deltas := [1, -2, 1], rvalue := 1 }], covs := [] }
    let o2 : Obs ℝ := { value := 2, reps := [{ name := "A|r1", idl := .list [1, 3, 4], deltas := [2, 0, -2], rvalue := 2 }], covs := [] }
    (∀ o ∈ [o1, o2], C06c.OnChain "A|r1" (.list [1, 3, 4]) o ∧ 0 < dot (C06c.fl o) (C06c.fl o))
      ∧ (Idl.list [1, 3, 4]).toList.Pairwise (· < ·) := by
  intro o1 o2
  refine ⟨?_, by decide⟩
  intro o ho
  simp only [List.mem_cons, List.not_mem_nil, or_false] at ho
  rcases ho with rfl | rfl
  · exact ⟨⟨rfl, ⟨_, rfl, rfl, rfl, rfl⟩⟩, by simp [C06c.fl, o1, dot, ofNat_eq_lit, lit_eq] <;> norm_num⟩
  · exact ⟨⟨rfl, ⟨_, rfl, rfl, rfl, rfl⟩⟩, by simp [C06c.fl, o2, dot, ofNat_eq_lit, lit_eq] <;> norm_num⟩

end assembled

end PV
