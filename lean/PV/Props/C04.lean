/-
  Property C04 — every observable produced by the library is structurally well-formed.
  Property theorems only.
-/
import Mathlib.Tactic.Linarith
import Mathlib.Tactic.Ring
import PV.Proofs.C04Lemmas
import PV.Proofs.C04cLemmas
import PV.Proofs.RealScalar
import PV.Props.C01
import PV.Spec.Propagate
import PV.Spec.WF

namespace PV
open Scalar

variable {α : Type} [Scalar α]

/-- the C04 invariant contains the propagation invariant used by the C01 theorems -/
theorem c04_wf_implies (o : Obs α) (h : Spec.wfC04 o = true) : o.WF = true := by
  unfold Spec.wfC04 at h
  simp only [Bool.and_eq_true] at h
  exact h.1

/-- the diagnostic agrees with the invariant -/
theorem c04_diag_ok (o : Obs α) (h : Spec.wfDiag o = "ok") : strictSortedStr o.names = true := by
  unfold Spec.wfDiag at h
  by_cases hs : strictSortedStr o.names = true
  · exact hs
  · simp [hs] at h


section constructor_and_propagation

open Scalar

variable {α : Type} [Scalar α]

/- C04 (constructor).  The statement as given,

     theorem c04_mk_wf (samples : List (List α)) (names : List String) (idl : Option (List Idl)) (o : Obs α)
         (h : mkObs samples names idl = .ok o) : Spec.wfC04 o = true

   is FALSE for the model: the type `Idl` admits `Idl.range s n 0` (a "range" with step 0, which is
   not a Python object: `range(a, b, 0)` raises ValueError), `Idl.normalise` only rejects `st < 0`,
   and `mkObs` hands a range through unchanged.  `mkObs [[0,0,0,0,0]] ["a"] (some [.range 0 5 0])`
   is accepted and yields a chain on the configurations `[0,0,0,0,0]`, which violates both
   `Idl.strictInc` and the `st > 0` clause of `Obs.WF` (`c04_mk_wf_false`).  Everything else in the
   statement holds: `c04_mk_wf_corrected` assumes only that the ranges handed to the constructor
   have a non-zero step (which every Python `range` has). -/

/-- the original statement of `c04_mk_wf` (universally closed) is refuted, for every scalar type -/
theorem c04_mk_wf_false :
    ¬ ∀ (samples : List (List α)) (names : List String) (idl : Option (List Idl)) (o : Obs α),
        mkObs samples names idl = .ok o → Spec.wfC04 o = true := by
  intro H
  have := H [[0, 0, 0, 0, 0]] ["a"] (some [.range 0 5 0]) _ rfl
  simp [Spec.wfC04, Obs.WF, Idl.toList, Idl.strictInc, List.range_succ] at this

/-- C04 (constructor), corrected: whatever `Obs(samples, names, idl)` accepts satisfies the
    invariant (sorted unique chain names, strictly increasing configuration numbers, one
    fluctuation per configuration, range exactly when equally spaced and then at least two
    configurations), provided no `range` handed in has step 0 -/
theorem c04_mk_wf_corrected (samples : List (List α)) (names : List String) (idl : Option (List Idl)) (o : Obs α)
    (hstep : ∀ il, idl = some il → ∀ s n st, Idl.range s n st ∈ il → st ≠ 0)
    (h : mkObs samples names idl = .ok o) : Spec.wfC04 o = true := by
  obtain ⟨hlen, hil, hchk, hfew, reps, hM, hreps, hcovs⟩ := C04.mkObs_ok samples names idl o h
  have hF := C04.mapM_ok _ _ _ hM
  have hnames : o.names = Py.sortBy (fun a b => decide (a ≤ b)) names := by
    rw [Obs.names, hreps, ← C04.mkTriples_names samples names idl hlen hil]
    exact C04.forall₂_map_eq C04.mkRep (·.name) (·.1) (fun a r har => (C04.mkRep_ok a r har).1) _ _ hF
  have hsorted : strictSortedStr o.names = true := by
    rw [hnames]
    exact C04.sorted_names_of_checks names (fun h1 => (hchk h1).1)
  have hrep : ∀ r ∈ o.reps, C04.repOK r = true := by
    intro r hr
    rw [hreps] at hr
    obtain ⟨t, ht, htr⟩ := C04.forall₂_mem _ _ _ hF r hr
    obtain ⟨_, hti, hts⟩ := C04.mem_mkTriples samples names idl t ht
    apply C04.mkRep_wf t r htr (hfew _ hts)
    intro s n st hteq
    rw [hteq] at hti
    exact C04.mkIdls_step samples idl hstep s n st hti
  simp only [Spec.wfC04, Obs.WF, Obs.covNames, hcovs, hsorted, Bool.and_eq_true, List.all_eq_true]
  simp only [C04.repOK, Bool.and_eq_true] at hrep
  refine ⟨⟨⟨⟨⟨trivial, fun r hr => (hrep r hr).1⟩, ?_⟩, ?_⟩, ?_⟩, fun r hr => (hrep r hr).2⟩ <;> simp [strictSortedStr]

/-- the default call `Obs(samples, names)` (no `idl`) needs no extra hypothesis -/
theorem c04_mk_wf_default (samples : List (List α)) (names : List String) (o : Obs α)
    (h : mkObs samples names none = .ok o) : Spec.wfC04 o = true :=
  c04_mk_wf_corrected samples names none o (fun il e => by cases e) h

/-- C04 (rejections) — each listed malformed request raises -/
theorem c04_reject_length (samples : List (List α)) (names : List String) (idl : Option (List Idl))
    (hbad : samples.length ≠ names.length) : ∃ e, mkObs samples names idl = .error e := by
  cases hm : mkObs samples names idl with
  | error e => exact ⟨e, rfl⟩
  | ok o => exact absurd (C04.mkObs_ok samples names idl o hm).1 hbad

theorem c04_reject_duplicate_names (samples : List (List α)) (names : List String) (idl : Option (List Idl))
    (hlen : 1 < names.length) (hdup : ¬ names.Nodup) : ∃ e, mkObs samples names idl = .error e := by
  cases hm : mkObs samples names idl with
  | error e => exact ⟨e, rfl⟩
  | ok o =>
    obtain ⟨_, _, hchk, _⟩ := C04.mkObs_ok samples names idl o hm
    exact absurd (C04.nodup_of_unique names (hchk hlen).1) hdup

theorem c04_reject_too_few (samples : List (List α)) (names : List String) (idl : Option (List Idl))
    (hbad : ∃ s ∈ samples, s.length ≤ 4) : ∃ e, mkObs samples names idl = .error e := by
  cases hm : mkObs samples names idl with
  | error e => exact ⟨e, rfl⟩
  | ok o =>
    obtain ⟨_, _, _, hfew, _⟩ := C04.mkObs_ok samples names idl o hm
    obtain ⟨s, hs, hle⟩ := hbad
    have := hfew s hs
    omega

theorem c04_reject_several_ensembles (samples : List (List α)) (names : List String) (idl : Option (List Idl))
    (hbad : ∃ a ∈ names, ∃ b ∈ names, Py.ensOf a ≠ Py.ensOf b) : ∃ e, mkObs samples names idl = .error e := by
  cases hm : mkObs samples names idl with
  | error e => exact ⟨e, rfl⟩
  | ok o =>
    obtain ⟨_, _, hchk, _⟩ := C04.mkObs_ok samples names idl o hm
    obtain ⟨a, ha, b, hb, hne⟩ := hbad
    have hab : a ≠ b := fun e => hne (by rw [e])
    have hlen : 1 < names.length := C04.two_le_length_of_mem_ne ha hb hab
    have h1 : Py.ensOf a ∈ Py.sortedSetStr (names.map Py.ensOf) :=
      (C04.mem_sortedSetStr _ _).2 (List.mem_map.2 ⟨a, ha, rfl⟩)
    have h2 : Py.ensOf b ∈ Py.sortedSetStr (names.map Py.ensOf) :=
      (C04.mem_sortedSetStr _ _).2 (List.mem_map.2 ⟨b, hb, rfl⟩)
    have := C04.two_le_length_of_mem_ne h1 h2 hne
    have := (hchk hlen).2
    omega

/-- a list of configuration numbers that is not strictly increasing (unsorted or duplicate
    entries), or a range with negative step, is rejected by the normalisation the constructor applies -/
theorem c04_reject_idl (l : List Int) (hbad : Idl.strictInc l = false) : ∃ e, Idl.normalise (.list l) = .error e := by
  cases hn : Idl.normalise (.list l) with
  | error e => exact ⟨e, rfl⟩
  | ok i =>
    have := (C04.normalise_list_ok l i hn).1
    rw [hbad] at this
    cases this

theorem c04_reject_negative_range (s : Int) (n : Nat) (st : Int) (h : st < 0) :
    ∃ e, Idl.normalise (.range s n st) = .error e := by
  exact ⟨.negativeStep, by simp [Idl.normalise, h]⟩

/-- accepted lists are stored in normal form: a range exactly when equally spaced -/
theorem c04_normalise_form (l : List Int) (i : Idl) (h : Idl.normalise (.list l) = .ok i) :
    i.toList = l ∧ Idl.strictInc l = true ∧ (i.isRange = true ↔ equallySpaced l = true) := by
  obtain ⟨hs, hi⟩ := C04.normalise_list_ok l i h
  have := C01b.normOr_list l hs
  rw [← hi] at this
  exact ⟨this.1, hs, this.2⟩

/-- C04 (propagation): if every input satisfies the invariant and has chains of at least two
    configurations, so does every result of `derived_observable` -/
theorem c04_derived_wf (f : List ℝ → ℝ) (g : List ℝ) (xs : List (Obs ℝ))
    (covEq : List (List ℝ) → List (List ℝ) → Bool) (o : Obs ℝ)
    (hwf : ∀ x ∈ xs, Spec.wfC04 x = true)
    (hlen2 : ∀ x ∈ xs, ∀ q ∈ x.reps, 2 ≤ q.idl.len)
    (hcov : ∀ x ∈ xs, ∀ c ∈ x.covs, ∀ x' ∈ xs, ∀ c' ∈ x'.covs, c.name = c'.name →
      c.grad.length = c'.grad.length ∧ c.cov = c'.cov)
    (h : derivedObs f g xs covEq = .ok o) :
    Spec.wfC04 o = true ∧ ∀ q ∈ o.reps, 2 ≤ q.idl.len := by
  have hWF : ∀ x ∈ xs, x.WF = true := by
    intro x hx
    have := hwf x hx
    simp only [Spec.wfC04, Bool.and_eq_true] at this
    exact this.1
  have hnames := c01_chains f g xs covEq o h
  have hunion := c01_union f g xs covEq o hWF h
  have hnorm := c01_range_normal_corrected f g xs covEq o hWF (fun x hx q hq _ => hlen2 x hx q hq) h
  obtain ⟨allcov, hcc, ho⟩ := C04.derivedObs_ok' h
  have hdl := C04.derivedCore_deltas_length f g xs allcov hWF
  rw [← ho] at hdl
  have hcovs := C04.derivedCore_covs_full f g xs allcov
  rw [← ho] at hcovs
  -- the chains
  have hsorted : strictSortedStr o.names = true := by
    rw [hnames]
    apply C04.strictSortedStr_of_pairwise
    exact (C04.pairwise_sortedSetStr _).filter _
  have hlenr : ∀ r ∈ o.reps, 2 ≤ r.idl.len := by
    intro r hr
    unfold Idl.len
    rw [hunion r hr]
    exact C04.two_le_union xs hWF hlen2 r.name (hdl r hr).1
  have hrep : ∀ r ∈ o.reps, C04.repOK r = true := by
    intro r hr
    apply C04.repOK_of r.idl ?_ (hlenr r hr) (hnorm r hr) r rfl ?_
    · rw [hunion r hr]; exact C01b.strictInc_sortedSet _
    · rw [(hdl r hr).2, Idl.len, hunion r hr]
  -- the covariance inputs
  have hsortedcov : strictSortedStr o.covNames = true :=
    C04.strictSortedStr_of_pairwise _ ((C04.pairwise_sortedSetStr _).sublist hcovs.1)
  have hclash : ∀ n ∈ o.covNames, (!(n.contains '|')) = true ∧ (!(o.names.contains n)) = true := by
    intro n hn
    have hn' := hcovs.1.subset hn
    have hn'' := hn'
    rw [C04.mem_sortedSetStr, List.mem_flatMap] at hn''
    obtain ⟨x, hx, hnx⟩ := hn''
    refine ⟨by simp [(C04.wf_cov (hWF x hx)).1 n hnx], ?_⟩
    rw [hnames]
    simp only [Bool.not_eq_true', List.contains_eq_mem, decide_eq_false_iff_not]
    intro hmem
    exact (C04.mem_newSampleNames xs n hmem).2 hn'
  have hshape : ∀ c ∈ o.covs, (c.cov.length == c.grad.length) = true ∧
      ∀ row ∈ c.cov, (row.length == c.grad.length) = true := by
    intro c hc
    obtain ⟨hmem, p, ps, hparts, hgrad⟩ := hcovs.2 c hc
    rcases C04.collectCov_spec covEq _ [] allcov hcc _ hmem with h0 | ⟨c', hc', hn', hcov'⟩
    · cases h0
    simp only at hn' hcov'
    rw [List.mem_flatMap] at hc'
    obtain ⟨x, hx, hcx⟩ := hc'
    obtain ⟨hsq, hrows⟩ := (C04.wf_cov (hWF x hx)).2 c' hcx
    have hpl := C01b.partsOf_lengths g xs c.name
      (fun x hx c hc x' hx' c' hc' hnn => (hcov x hx c hc x' hx' c' hc' hnn).1)
    have hpmem : p ∈ C01b.partsOf g xs c.name := by rw [hparts]; simp
    have hgl : c.grad.length = c'.grad.length := by
      rw [hgrad, C04.length_foldl_addLists ps p
        (fun q hq => hpl q (by rw [hparts]; simp [hq]) p hpmem)]
      simp only [C01b.partsOf, List.mem_filterMap, Option.map_eq_some_iff] at hpmem
      obtain ⟨⟨a, x''⟩, hz, c'', hc'', rfl⟩ := hpmem
      have h1 := C01b.cov?_mem hc''
      rw [List.length_map]
      exact (hcov x'' (List.of_mem_zip hz).2 c'' h1.1 x hx c' hcx (by rw [h1.2, hn'])).1
    rw [← hcov', hgl]
    exact ⟨by simpa using hsq, fun row hrow => by simpa using hrows row hrow⟩
  refine ⟨?_, hlenr⟩
  simp only [C04.repOK, Bool.and_eq_true] at hrep
  simp only [Spec.wfC04, Obs.WF, Bool.and_eq_true, List.all_eq_true]
  exact ⟨⟨⟨⟨⟨hsorted, fun r hr => (hrep r hr).1⟩, hsortedcov⟩, hclash⟩, hshape⟩, fun r hr => (hrep r hr).2⟩


end constructor_and_propagation

section closure_of_combinations

open Scalar

variable {α : Type} [Elem α]

/-- every chain of a constructed observable has at least five configurations (the constructor's
    "fewer than 5 samples" refusal), and the constructed observable carries no covariance input -/
theorem c04_mk_len (samples : List (List α)) (names : List String) (idl : Option (List Idl)) (o : Obs α)
    (h : mkObs samples names idl = .ok o) : (∀ r ∈ o.reps, 5 ≤ r.idl.len) ∧ o.covs = [] := by
  obtain ⟨hlen, hil, hchk, hfew, reps, hM, hreps, hcovs⟩ := C04.mkObs_ok samples names idl o h
  refine ⟨?_, hcovs⟩
  intro r hr
  rw [hreps] at hr
  obtain ⟨t, ht, htr⟩ := C04.forall₂_mem _ _ _ (C04.mapM_ok _ _ _ hM) r hr
  obtain ⟨_, _, hts⟩ := C04.mem_mkTriples samples names idl t ht
  have := (C04.mkRep_ok t r htr).2.2.1
  have := hfew _ hts
  omega

/-- C04 (closure): whatever `correlate(a, b)` returns satisfies the invariant, if `a` does -/
theorem c04_correlate_wf (a b o : Obs α) (ha : Spec.wfC04 a = true) (h : correlate a b = .ok o) :
    Spec.wfC04 o = true := by
  obtain ⟨o', ho', rfl⟩ := C04.correlate_ok a b o h
  rw [C04.wf_reweighted]
  exact c04_mk_wf_corrected _ _ _ o' (fun il e => by cases e; exact C04.range_step_of_wf a (c04_wf_implies a ha)) ho'

/-- C04 (closure): whatever `merge_obs(l)` returns satisfies the invariant, if every member of `l` does -/
theorem c04_merge_wf (l : List (Obs α)) (o : Obs α) (hl : ∀ x ∈ l, Spec.wfC04 x = true) (h : mergeObs l = .ok o) :
    Spec.wfC04 o = true := by
  obtain ⟨o', ho', rfl⟩ := C04.mergeObs_ok l o h
  rw [C04.wf_reweighted]
  refine c04_mk_wf_corrected _ _ _ o' ?_ ho'
  intro il e s n st hm
  cases e
  obtain ⟨r, hr, hri⟩ := List.mem_map.1 hm
  have hr' := (C04.perm_sortBy _ _).subset hr
  obtain ⟨x, hx, hrx⟩ := List.mem_flatMap.1 hr'
  exact C04.range_step_of_wf x (c04_wf_implies x (hl x hx)) s n st (List.mem_map.2 ⟨r, hrx, hri⟩)


/-- C04 (closure): whatever `reweight(w, [o])` returns satisfies the invariant, if `w` and `o` do
    (both settings of `all_configs`) -/
theorem c04_reweight_wf (w o res : Obs ℝ) (ac : Bool)
    (hw : Spec.wfC04 w = true) (hw2 : ∀ q ∈ w.reps, 2 ≤ q.idl.len) (ho : Spec.wfC04 o = true)
    (h : reweight1 w o ac = .ok res) : Spec.wfC04 res = true := by
  obtain ⟨s, ws, tmp, norm, r, hs, htmp, hnorm, hr, rfl⟩ := C04.reweight1_ok w o res ac h
  rw [C04.wf_reweighted]
  have hstep : ∀ il, some (o.reps.map (·.idl)) = some il → ∀ s n st, Idl.range s n st ∈ il → st ≠ 0 := by
    intro il e; cases e; exact C04.range_step_of_wf o (c04_wf_implies o ho)
  have htw := c04_mk_wf_corrected _ _ _ tmp hstep htmp
  obtain ⟨htl, htc⟩ := c04_mk_len _ _ _ tmp htmp
  have hnw : Spec.wfC04 norm = true ∧ (∀ q ∈ norm.reps, 2 ≤ q.idl.len) := by
    rcases hnorm with rfl | ⟨ws', hn⟩
    · exact ⟨hw, hw2⟩
    · exact ⟨c04_mk_wf_corrected _ _ _ norm hstep hn, fun q hq => by have := (c04_mk_len _ _ _ norm hn).1 q hq; omega⟩
  unfold applySite at hr
  split at hr
  · cases hr
  · refine (c04_derived_wf _ _ [tmp, norm] _ r ?_ ?_ ?_ hr).1
    · intro x hx
      simp only [List.mem_cons, List.not_mem_nil, or_false] at hx
      rcases hx with rfl | rfl
      · exact htw
      · exact hnw.1
    · intro x hx
      simp only [List.mem_cons, List.not_mem_nil, or_false] at hx
      rcases hx with rfl | rfl
      · intro q hq; have := htl q hq; omega
      · exact hnw.2
    · intro x hx c hc x' hx' c' hc' e
      simp only [List.mem_cons, List.not_mem_nil, or_false] at hx hx'
      have hcases : ∀ y, y = tmp ∨ y = norm → ∀ d ∈ y.covs, d ∈ norm.covs := by
        intro y hy d hd
        rcases hy with rfl | rfl
        · rw [htc] at hd; cases hd
        · exact hd
      have := C04.covs_unique norm hnw.1 c (hcases x hx c hc) c' (hcases x' hx' c' hc') e
      subst this
      exact ⟨rfl, rfl⟩

end closure_of_combinations

end PV
