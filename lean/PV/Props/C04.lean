/-
  Property C04 — every observable produced by the library is structurally well-formed.
  Property theorems only.
-/
import PV.Spec.WF

namespace PV
open Scalar

variable {α : Type} [Scalar α]

/-- the C04 invariant contains the propagation invariant used by the C01 theorems -/
theorem c04_wf_implies (o : Obs α) (h : Spec.wfC04 o = true) : o.WF = true := by
  unfold Spec.wfC04 at h
  simp only [Bool.and_eq_true] at h
  exact h.1

/-- the diagnostic agrees with the invariant -/
theorem c04_diag_ok (o : Obs α) (h : Spec.wfDiag o = "ok") : strictSortedStr o.names = true := by
  unfold Spec.wfDiag at h
  by_cases hs : strictSortedStr o.names = true
  · exact hs
  · simp [hs] at h

end PV
