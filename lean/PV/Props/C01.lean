/-
  Property C01 — linear error propagation is exact and aligned by configuration number.
  Property theorems only.
-/
import PV.Gen.Grads
import PV.Model.Ops

namespace PV
open Scalar

/-- the translator recognised every `derived_observable` call site of the overloads -/
theorem c01_grads_translated : Gen.Grads.translated = true := by decide

/-- every overload the property lists has a call site: 13 operator forms, 15 functions, abs,
    and the two sites of the complex product -/
theorem c01_sites_complete :
    ∀ n ∈ ["add_obs", "add_num", "mul_obs", "mul_num", "sub_obs", "sub_num", "truediv_obs", "truediv_num",
           "rtruediv_obs", "rtruediv_num", "pow_obs", "pow_num", "rpow", "abs", "sqrt", "log", "exp", "sin", "cos",
           "tan", "arcsin", "arccos", "arctan", "sinh", "cosh", "tanh", "arcsinh", "arccosh", "arctanh", "cmul", "cmul_2"],
      (findSite n).isSome = true := by decide

end PV
