/-
  Property C01 — linear error propagation is exact and aligned by configuration number.
  Property theorems only.
-/
import PV.Proofs.C04Lemmas
import PV.Proofs.C05Lemmas
import Mathlib.Tactic.FieldSimp
import Mathlib.Algebra.BigOperators.Group.List.Basic
import Mathlib.Analysis.SpecialFunctions.Arcosh
import Mathlib.Analysis.SpecialFunctions.Arsinh
import Mathlib.Analysis.SpecialFunctions.Artanh
import Mathlib.Analysis.SpecialFunctions.ExpDeriv
import Mathlib.Analysis.SpecialFunctions.Log.Deriv
import Mathlib.Analysis.SpecialFunctions.Pow.Deriv
import Mathlib.Analysis.SpecialFunctions.Sqrt
import Mathlib.Analysis.SpecialFunctions.Trigonometric.ArctanDeriv
import Mathlib.Analysis.SpecialFunctions.Trigonometric.Deriv
import Mathlib.Analysis.SpecialFunctions.Trigonometric.InverseDeriv
import Mathlib.Tactic.FieldSimp
import Mathlib.Tactic.Linarith
import Mathlib.Tactic.Ring
import PV.Gen.Grads
import PV.Model.Ops
import PV.Proofs.C01aDeriv
import PV.Proofs.C01aLemmas
import PV.Proofs.C01bLemmas
import PV.Proofs.C01cLemmas
import PV.Proofs.RealScalar
import PV.Spec.Propagate

namespace PV
open Scalar

/-- the translator recognised every `derived_observable` call site of the overloads -/
theorem c01_grads_translated : Gen.Grads.translated = true := by decide

/-- every overload the property lists has a call site: 13 operator forms, 15 functions, abs,
    and the two sites of the complex product -/
theorem c01_sites_complete :
    ∀ n ∈ ["add_obs", "add_num", "mul_obs", "mul_num", "sub_obs", "sub_num", "truediv_obs", "truediv_num",
           "rtruediv_obs", "rtruediv_num", "pow_obs", "pow_num", "rpow", "abs", "sqrt", "log", "exp", "sin", "cos",
           "tan", "arcsin", "arccos", "arctan", "sinh", "cosh", "tanh", "arcsinh", "arccosh", "arctanh", "cmul", "cmul_2"],
      (findSite n).isSome = true := by decide


open Scalar

/-- "the site's gradient list is the derivative of its lambda body on `dom`":
    for every point of the domain and every argument position `i`, the function
    `t ↦ func(x with x_i := t)` has derivative `grads[i](x)` at `x i`. -/
def SiteOK (s : Site) (dom : (Nat → ℝ) → ℝ → Prop) : Prop :=
  ∃ gs, s.gradTerms = some gs ∧ gs.length = s.nvars ∧
    ∀ (x : Nat → ℝ) (y : ℝ), dom x y → ∀ i, i < s.nvars →
      HasDerivAt (fun t => s.func.eval (Function.update x i t) y) ((gs.getD i (.num 0)).eval x y) (x i)

open Gen.Grads

open EvalR in
/-- unfold one site and evaluate its terms at ℝ into plain Mathlib expressions -/
macro "site_simp" "[" s:term "]" : tactic =>
  `(tactic| simp (config := {decide := true}) only [$s:term, eval_var, eval_par, eval_num, eval_add,
     eval_sub, eval_mul, eval_div, eval_neg, eval_pow, eval_sqrt, eval_log, eval_exp, eval_sin, eval_cos,
     eval_tan, eval_sinh, eval_cosh, eval_tanh, eval_arcsin, eval_arccos, eval_arctan, eval_arcsinh,
     eval_arccosh, eval_arctanh, eval_abs,
     Function.update_self, Function.update_of_ne, ne_eq, not_false_eq_true,
     List.getD_cons_zero, List.getD_cons_succ, List.getD_eq_getElem?_getD, List.getElem?_cons_zero,
     List.getElem?_cons_succ, Option.getD_some, Int.cast_one, Int.cast_zero, Int.cast_ofNat])

/-! ### the one-variable derivative facts, as plain Mathlib statements -/

-- arithmetic with observable partners
theorem c01_grad_add_obs : SiteOK add_obs (fun _ _ => True) := by
  refine ⟨_, rfl, rfl, ?_⟩
  intro x y _ i hi
  obtain rfl | rfl := lt_two_cases hi rfl
  · site_simp [add_obs]; exact DerivFacts.add_const _ _
  · site_simp [add_obs]; exact DerivFacts.const_add _ _
theorem c01_grad_sub_obs : SiteOK sub_obs (fun _ _ => True) := by
  refine ⟨_, rfl, rfl, ?_⟩
  intro x y _ i hi
  obtain rfl | rfl := lt_two_cases hi rfl
  · site_simp [sub_obs]; exact DerivFacts.sub_const _ _
  · site_simp [sub_obs]; exact DerivFacts.const_sub _ _
theorem c01_grad_mul_obs : SiteOK mul_obs (fun _ _ => True) := by
  refine ⟨_, rfl, rfl, ?_⟩
  intro x y _ i hi
  obtain rfl | rfl := lt_two_cases hi rfl
  · site_simp [mul_obs]; exact DerivFacts.mul_const _ _
  · site_simp [mul_obs]; exact DerivFacts.const_mul _ _
theorem c01_grad_truediv_obs : SiteOK truediv_obs (fun x _ => x 1 ≠ 0) := by
  refine ⟨_, rfl, rfl, ?_⟩
  intro x y h i hi
  obtain rfl | rfl := lt_two_cases hi rfl
  · site_simp [truediv_obs]; exact DerivFacts.div_const _ _
  · site_simp [truediv_obs]; exact DerivFacts.const_div _ _ h
theorem c01_grad_rtruediv_obs : SiteOK rtruediv_obs (fun x _ => x 1 ≠ 0) := by
  refine ⟨_, rfl, rfl, ?_⟩
  intro x y h i hi
  obtain rfl | rfl := lt_two_cases hi rfl
  · site_simp [rtruediv_obs]; exact DerivFacts.div_const _ _
  · site_simp [rtruediv_obs]; exact DerivFacts.const_div _ _ h
theorem c01_grad_pow_obs : SiteOK pow_obs (fun x _ => 0 < x 0) := by
  refine ⟨_, rfl, rfl, ?_⟩
  intro x y h i hi
  obtain rfl | rfl := lt_two_cases hi rfl
  · site_simp [pow_obs]; exact DerivFacts.rpow_const _ _ h
  · site_simp [pow_obs]; exact DerivFacts.const_rpow _ _ h
-- arithmetic with plain-number partners
theorem c01_grad_add_num : SiteOK add_num (fun _ _ => True) := by
  refine ⟨_, rfl, rfl, ?_⟩
  intro x y _ i hi
  obtain rfl := lt_one_eq hi rfl
  site_simp [add_num]; exact DerivFacts.add_const _ _
theorem c01_grad_sub_num : SiteOK sub_num (fun _ _ => True) := by
  refine ⟨_, rfl, rfl, ?_⟩
  intro x y _ i hi
  obtain rfl := lt_one_eq hi rfl
  site_simp [sub_num]; exact DerivFacts.sub_const _ _
theorem c01_grad_mul_num : SiteOK mul_num (fun _ _ => True) := by
  refine ⟨_, rfl, rfl, ?_⟩
  intro x y _ i hi
  obtain rfl := lt_one_eq hi rfl
  site_simp [mul_num]; exact DerivFacts.mul_const _ _
theorem c01_grad_truediv_num : SiteOK truediv_num (fun _ y => y ≠ 0) := by
  refine ⟨_, rfl, rfl, ?_⟩
  intro x y _ i hi
  obtain rfl := lt_one_eq hi rfl
  site_simp [truediv_num]; exact DerivFacts.div_const _ _
theorem c01_grad_rtruediv_num : SiteOK rtruediv_num (fun x _ => x 0 ≠ 0) := by
  refine ⟨_, rfl, rfl, ?_⟩
  intro x y h i hi
  obtain rfl := lt_one_eq hi rfl
  site_simp [rtruediv_num]; exact DerivFacts.const_div _ _ h
theorem c01_grad_pow_num : SiteOK pow_num (fun x _ => 0 < x 0) := by
  refine ⟨_, rfl, rfl, ?_⟩
  intro x y h i hi
  obtain rfl := lt_one_eq hi rfl
  site_simp [pow_num]; exact DerivFacts.rpow_const _ _ h
theorem c01_grad_rpow : SiteOK rpow (fun _ y => 0 < y) := by
  refine ⟨_, rfl, rfl, ?_⟩
  intro x y h i hi
  obtain rfl := lt_one_eq hi rfl
  site_simp [rpow]; exact DerivFacts.const_rpow _ _ h
-- functions with hand-written gradients
theorem c01_grad_sqrt : SiteOK sqrt (fun x _ => 0 < x 0) := by
  refine ⟨_, rfl, rfl, ?_⟩
  intro x y h i hi
  obtain rfl := lt_one_eq hi rfl
  site_simp [sqrt]; exact DerivFacts.sqrt _ h
theorem c01_grad_log : SiteOK log (fun x _ => x 0 ≠ 0) := by
  refine ⟨_, rfl, rfl, ?_⟩
  intro x y h i hi
  obtain rfl := lt_one_eq hi rfl
  site_simp [log]; exact DerivFacts.log _ h
theorem c01_grad_exp : SiteOK exp (fun _ _ => True) := by
  refine ⟨_, rfl, rfl, ?_⟩
  intro x y _ i hi
  obtain rfl := lt_one_eq hi rfl
  site_simp [exp]; exact Real.hasDerivAt_exp _
theorem c01_grad_sin : SiteOK sin (fun _ _ => True) := by
  refine ⟨_, rfl, rfl, ?_⟩
  intro x y _ i hi
  obtain rfl := lt_one_eq hi rfl
  site_simp [sin]; exact Real.hasDerivAt_sin _
theorem c01_grad_cos : SiteOK cos (fun _ _ => True) := by
  refine ⟨_, rfl, rfl, ?_⟩
  intro x y _ i hi
  obtain rfl := lt_one_eq hi rfl
  site_simp [cos]; exact Real.hasDerivAt_cos _
theorem c01_grad_tan : SiteOK tan (fun x _ => Real.cos (x 0) ≠ 0) := by
  refine ⟨_, rfl, rfl, ?_⟩
  intro x y h i hi
  obtain rfl := lt_one_eq hi rfl
  site_simp [tan]; exact DerivFacts.tan _ h
theorem c01_grad_sinh : SiteOK sinh (fun _ _ => True) := by
  refine ⟨_, rfl, rfl, ?_⟩
  intro x y _ i hi
  obtain rfl := lt_one_eq hi rfl
  site_simp [sinh]; exact Real.hasDerivAt_sinh _
theorem c01_grad_cosh : SiteOK cosh (fun _ _ => True) := by
  refine ⟨_, rfl, rfl, ?_⟩
  intro x y _ i hi
  obtain rfl := lt_one_eq hi rfl
  site_simp [cosh]; exact Real.hasDerivAt_cosh _
theorem c01_grad_tanh : SiteOK tanh (fun _ _ => True) := by
  refine ⟨_, rfl, rfl, ?_⟩
  intro x y _ i hi
  obtain rfl := lt_one_eq hi rfl
  site_simp [tanh]; exact DerivFacts.tanh _
-- the complex product
theorem c01_grad_cmul : SiteOK cmul (fun _ _ => True) := by
  refine ⟨_, rfl, rfl, ?_⟩
  intro x y _ i hi
  obtain rfl | rfl | rfl | rfl := lt_four_cases hi rfl
  · site_simp [cmul]; exact (DerivFacts.mul_const _ _).sub_const _
  · site_simp [cmul]; exact (DerivFacts.const_mul _ _).sub_const _
  · site_simp [cmul]; exact (DerivFacts.mul_const _ _).const_sub _
  · site_simp [cmul]; exact (DerivFacts.const_mul _ _).const_sub _
theorem c01_grad_cmul_2 : SiteOK cmul_2 (fun _ _ => True) := by
  refine ⟨_, rfl, rfl, ?_⟩
  intro x y _ i hi
  obtain rfl | rfl | rfl | rfl := lt_four_cases hi rfl
  · site_simp [cmul_2]; exact (DerivFacts.mul_const _ _).const_add _
  · site_simp [cmul_2]; exact (DerivFacts.const_mul _ _).add_const _
  · site_simp [cmul_2]; exact (DerivFacts.mul_const _ _).add_const _
  · site_simp [cmul_2]; exact (DerivFacts.const_mul _ _).const_add _
-- sites that rely on autograd: the derivative autograd is specified to return (`autoGrad`)
theorem c01_grad_abs : SiteOK abs (fun x _ => x 0 ≠ 0) := by
  refine ⟨_, rfl, rfl, ?_⟩
  intro x y h i hi
  obtain rfl := lt_one_eq hi rfl
  site_simp [Gen.Grads.abs]; exact DerivFacts.abs _ h
theorem c01_grad_arcsin : SiteOK arcsin (fun x _ => -1 < x 0 ∧ x 0 < 1) := by
  refine ⟨_, rfl, rfl, ?_⟩
  intro x y h i hi
  obtain rfl := lt_one_eq hi rfl
  site_simp [arcsin]; exact DerivFacts.arcsin _ h.1 h.2
theorem c01_grad_arccos : SiteOK arccos (fun x _ => -1 < x 0 ∧ x 0 < 1) := by
  refine ⟨_, rfl, rfl, ?_⟩
  intro x y h i hi
  obtain rfl := lt_one_eq hi rfl
  site_simp [arccos]; exact DerivFacts.arccos _ h.1 h.2
theorem c01_grad_arctan : SiteOK arctan (fun _ _ => True) := by
  refine ⟨_, rfl, rfl, ?_⟩
  intro x y _ i hi
  obtain rfl := lt_one_eq hi rfl
  site_simp [arctan]; exact DerivFacts.arctan _
theorem c01_grad_arcsinh : SiteOK arcsinh (fun _ _ => True) := by
  refine ⟨_, rfl, rfl, ?_⟩
  intro x y _ i hi
  obtain rfl := lt_one_eq hi rfl
  site_simp [arcsinh]; exact DerivFacts.arsinh _
theorem c01_grad_arccosh : SiteOK arccosh (fun x _ => 1 < x 0) := by
  refine ⟨_, rfl, rfl, ?_⟩
  intro x y h i hi
  obtain rfl := lt_one_eq hi rfl
  site_simp [arccosh]; exact DerivFacts.arcosh _ h
theorem c01_grad_arctanh : SiteOK arctanh (fun x _ => -1 < x 0 ∧ x 0 < 1) := by
  refine ⟨_, rfl, rfl, ?_⟩
  intro x y h i hi
  obtain rfl := lt_one_eq hi rfl
  site_simp [arctanh]; exact DerivFacts.artanh _ h.1 h.2

/-- the lambda bodies are the intended functions (so a consistent but wrong func/gradient pair
    cannot slip through) -/
theorem c01_func_table (x : Nat → ℝ) (y : ℝ) :
    add_obs.func.eval x y = x 0 + x 1 ∧ sub_obs.func.eval x y = x 0 - x 1 ∧
    mul_obs.func.eval x y = x 0 * x 1 ∧ truediv_obs.func.eval x y = x 0 / x 1 ∧
    rtruediv_obs.func.eval x y = x 0 / x 1 ∧ pow_obs.func.eval x y = x 0 ^ x 1 ∧
    add_num.func.eval x y = x 0 + y ∧ sub_num.func.eval x y = x 0 - y ∧
    mul_num.func.eval x y = x 0 * y ∧ truediv_num.func.eval x y = x 0 / y ∧
    rtruediv_num.func.eval x y = y / x 0 ∧ pow_num.func.eval x y = x 0 ^ y ∧
    rpow.func.eval x y = y ^ x 0 ∧
    sqrt.func.eval x y = Real.sqrt (x 0) ∧ log.func.eval x y = Real.log (x 0) ∧
    exp.func.eval x y = Real.exp (x 0) ∧ sin.func.eval x y = Real.sin (x 0) ∧
    cos.func.eval x y = Real.cos (x 0) ∧ tan.func.eval x y = Real.tan (x 0) ∧
    sinh.func.eval x y = Real.sinh (x 0) ∧ cosh.func.eval x y = Real.cosh (x 0) ∧
    tanh.func.eval x y = Real.tanh (x 0) ∧ abs.func.eval x y = |x 0| ∧
    arcsin.func.eval x y = Real.arcsin (x 0) ∧ arccos.func.eval x y = Real.arccos (x 0) ∧
    arctan.func.eval x y = Real.arctan (x 0) ∧ arcsinh.func.eval x y = Real.arsinh (x 0) ∧
    arccosh.func.eval x y = Real.arcosh (x 0) ∧ arctanh.func.eval x y = Real.artanh (x 0) ∧
    cmul.func.eval x y = x 0 * x 1 - x 2 * x 3 ∧ cmul_2.func.eval x y = x 2 * x 1 + x 0 * x 3 := by
  refine ⟨?_, ?_, ?_, ?_, ?_, ?_, ?_, ?_, ?_, ?_, ?_, ?_, ?_, ?_, ?_, ?_, ?_, ?_, ?_, ?_, ?_, ?_, ?_, ?_,
    ?_, ?_, ?_, ?_, ?_, ?_, ?_⟩ <;> first | rfl | exact RealS.absS_eq _



section structure_of_result

open Scalar

variable (f : List ℝ → ℝ) (g : List ℝ) (xs : List (Obs ℝ))
  (covEq : List (List ℝ) → List (List ℝ) → Bool) (o : Obs ℝ)

/-- C01 (value): the central value is f of the central values -/
theorem c01_value (h : derivedObs f g xs covEq = .ok o) : o.value = f (xs.map (·.value)) := by
  obtain ⟨allcov, rfl⟩ := C01b.derivedObs_ok h
  rfl

/-- C01 (replica means): per chain, f of the inputs' replica means, an input that lacks the chain
    entering with its central value -/
theorem c01_rvalue (h : derivedObs f g xs covEq = .ok o) :
    ∀ r ∈ o.reps, r.rvalue = f (xs.map (fun x => match x.rep? r.name with | some q => q.rvalue | none => x.value)) := by
  obtain ⟨allcov, rfl⟩ := C01b.derivedObs_ok h
  intro r hr
  exact (C01b.derivedCore_reps f g xs allcov r hr).2.2

/-- C01 (flag): the reweighted flag is inherited -/
theorem c01_reweighted (h : derivedObs f g xs covEq = .ok o) : o.reweighted = xs.any (·.reweighted) := by
  obtain ⟨allcov, rfl⟩ := C01b.derivedObs_ok h
  rfl

/-- C01 (chains): the result has exactly the chains of the inputs, in sorted order -/
theorem c01_chains (h : derivedObs f g xs covEq = .ok o) : o.names = newSampleNames xs := by
  obtain ⟨allcov, rfl⟩ := C01b.derivedObs_ok h
  simp only [Obs.names, derivedCore, newIdlD, List.map_map]
  conv_rhs => rw [← List.map_id (newSampleNames xs)]
  apply List.map_congr_left
  intro n _
  simp only [Function.comp]
  split <;> rfl

/-- C01 (union): every chain of the result is defined on the sorted union of the inputs'
    configurations of that chain -/
theorem c01_union (hwf : ∀ x ∈ xs, x.WF = true) (h : derivedObs f g xs covEq = .ok o) :
    ∀ r ∈ o.reps, r.idl.toList = Spec.unionCfgs xs r.name := by
  obtain ⟨allcov, rfl⟩ := C01b.derivedObs_ok h
  intro r hr
  obtain ⟨_, hidl, _⟩ := C01b.derivedCore_reps f g xs allcov r hr
  have hs := C01b.idlsOf_strictInc xs hwf r.name
  have hm := (C01b.mergeIdx_spec _ hs).1
  have hs' : Idl.strictInc (mergeIdx (C01b.idlsOf xs r.name)).toList = true := by
    rw [hm]; exact C01b.strictInc_sortedSet _
  rw [hidl, C01b.normOr_toList _ hs', hm, Spec.unionCfgs, C01b.idlsOf, C01b.flatMap_cfgs]

/- C01 (normal form).  The statement "held as a range exactly when equally spaced" WITHOUT a lower
   bound on the chain length is false for the model: `Obs.WF` admits a chain held as a `range`
   with fewer than two configurations (e.g. `range 0 1 1`), `mergeIdx` hands it through unchanged
   and `Idl.normalise` leaves every range alone (`c01_range_normal_false` below).  The constructor
   rejects chains with fewer than five samples, so no constructed observable is affected; the
   theorem that holds is `c01_range_normal_corrected` (range chains of the inputs have >= 2
   configurations). -/

/-- the counterexample: one input with one chain `"a"` held as `range(0, 1, 1)` -/
noncomputable def c01_range_normal_cex : Obs ℝ :=
  { value := 0, reps := [{ name := "a", idl := .range 0 1 1, deltas := [0], rvalue := 0 }], covs := [] }

theorem c01_range_normal_cex_wf : c01_range_normal_cex.WF = true := by
  simp [c01_range_normal_cex, Obs.WF, Obs.names, Obs.covNames, strictSortedStr, Idl.strictInc,
    Idl.toList, Idl.len]

theorem c01_range_normal_cex_ok :
    derivedObs (fun _ => 0) [1] [c01_range_normal_cex] (fun _ _ => true)
      = .ok (derivedCore (fun _ => 0) [1] [c01_range_normal_cex] []) := by
  simp [derivedObs, c01_range_normal_cex, collectCov, Obs.covNames, Py.sortedSetStr, Py.sortBy,
    Py.dedupSorted]

/-- the original statement of `c01_range_normal` (universally closed) is refuted -/
theorem c01_range_normal_false :
    ¬ ∀ (f : List ℝ → ℝ) (g : List ℝ) (xs : List (Obs ℝ))
        (covEq : List (List ℝ) → List (List ℝ) → Bool) (o : Obs ℝ),
        (∀ x ∈ xs, x.WF = true) → derivedObs f g xs covEq = .ok o →
        ∀ r ∈ o.reps, (r.idl.isRange = true ↔ equallySpaced r.idl.toList = true) := by
  intro H
  have hwf : ∀ x ∈ [c01_range_normal_cex], x.WF = true := by
    intro x hx
    rw [List.mem_singleton.1 hx]
    exact c01_range_normal_cex_wf
  have H' := H _ _ _ _ _ hwf c01_range_normal_cex_ok
  have hnames := c01_chains _ _ _ _ _ c01_range_normal_cex_ok
  have hn : newSampleNames [c01_range_normal_cex] = ["a"] := by
    simp [newSampleNames, c01_range_normal_cex, Obs.names, Obs.covNames, Py.sortedSetStr, Py.sortBy,
      Py.insertSorted, Py.dedupSorted]
  rw [hn, Obs.names] at hnames
  generalize hreps : (derivedCore (fun _ => (0 : ℝ)) [1] [c01_range_normal_cex] []).reps = reps
    at hnames H'
  match reps, hnames with
  | [r], hnames =>
    have hname : r.name = "a" := by simpa using hnames
    have hr : r ∈ (derivedCore (fun _ => (0 : ℝ)) [1] [c01_range_normal_cex] []).reps := by
      rw [hreps]; simp
    have hidl := (C01b.derivedCore_reps _ _ _ _ r hr).2.1
    have hval : C01b.normOr (mergeIdx (C01b.idlsOf [c01_range_normal_cex] "a")) = .range 0 1 1 := by
      simp [C01b.idlsOf, c01_range_normal_cex, Obs.rep?, mergeIdx, C01b.normOr_range]
    rw [hname, hval] at hidl
    have := H' r (by simp)
    rw [hidl] at this
    simp [Idl.isRange, Idl.toList, equallySpaced, Idl.diffs] at this

/-- C01 (normal form), corrected: the equivalence holds when no input holds a chain of fewer than
    two configurations as a `range` (the constructor `mkObs` / `Obs.__init__` guarantees at least
    five configurations per chain, but `Obs.WF` does not record it) -/
theorem c01_range_normal_corrected (hwf : ∀ x ∈ xs, x.WF = true)
    (hlen2 : ∀ x ∈ xs, ∀ q ∈ x.reps, q.idl.isRange = true → 2 ≤ q.idl.len)
    (h : derivedObs f g xs covEq = .ok o) :
    ∀ r ∈ o.reps, (r.idl.isRange = true ↔ equallySpaced r.idl.toList = true) := by
  obtain ⟨allcov, rfl⟩ := C01b.derivedObs_ok h
  intro r hr
  obtain ⟨_, hidl, _⟩ := C01b.derivedCore_reps f g xs allcov r hr
  have hs := C01b.idlsOf_strictInc xs hwf r.name
  have spec := C01b.mergeIdx_spec _ hs
  have hs' : Idl.strictInc (mergeIdx (C01b.idlsOf xs r.name)).toList = true := by
    rw [spec.1]; exact C01b.strictInc_sortedSet _
  rw [hidl]
  apply C01b.normOr_isRange_iff _ hs'
  intro s n st heq
  rcases spec.2 with hmem | hge
  · obtain ⟨x, hx, q, hq, hqi⟩ := C01b.idlsOf_mem xs r.name _ hmem
    have := hlen2 x hx q hq (by rw [hqi, heq]; rfl)
    rw [hqi, heq] at this
    simpa [Idl.len, C01b.length_toList_range] using this
  · exact hge s n st heq

/-- the direction of `c01_range_normal` that holds without the extra hypothesis: equally spaced
    configurations are always held as a range -/
theorem c01_range_normal_mpr (hwf : ∀ x ∈ xs, x.WF = true) (h : derivedObs f g xs covEq = .ok o) :
    ∀ r ∈ o.reps, equallySpaced r.idl.toList = true → r.idl.isRange = true := by
  obtain ⟨allcov, rfl⟩ := C01b.derivedObs_ok h
  intro r hr
  obtain ⟨_, hidl, _⟩ := C01b.derivedCore_reps f g xs allcov r hr
  have hs := C01b.idlsOf_strictInc xs hwf r.name
  have spec := C01b.mergeIdx_spec _ hs
  have hs' : Idl.strictInc (mergeIdx (C01b.idlsOf xs r.name)).toList = true := by
    rw [spec.1]; exact C01b.strictInc_sortedSet _
  rw [hidl]
  generalize mergeIdx (C01b.idlsOf xs r.name) = i at hs'
  cases i with
  | range s n st => intro _; rw [C01b.normOr_range]; rfl
  | list l =>
    rw [(C01b.normOr_list l hs').1]
    exact (C01b.normOr_list l hs').2.2

/-- C01 (covariance inputs): gradients with respect to external inputs combine by the chain rule -/
theorem c01_cov_chain (hlen : g.length = xs.length)
    (hgrad : ∀ x ∈ xs, ∀ c ∈ x.covs, ∀ x' ∈ xs, ∀ c' ∈ x'.covs, c.name = c'.name → c.grad.length = c'.grad.length)
    (h : derivedObs f g xs covEq = .ok o) :
    ∀ c ∈ o.covs, ∀ k, k < c.grad.length → c.grad.getD k 0 = Spec.covGrad g xs c.name k := by
  obtain ⟨allcov, rfl⟩ := C01b.derivedObs_ok h
  intro c hc k _
  obtain ⟨p, ps, hparts, hgr⟩ := C01b.derivedCore_covs f g xs allcov c hc
  have hl := C01b.partsOf_lengths g xs c.name hgrad
  rw [C01b.covGrad_eq, hparts, hgr, C01b.foldl_addLists ps p
    (fun q hq => hl q (by rw [hparts]; simp [hq]) p (by rw [hparts]; simp)) k]
  simp


end structure_of_result



/-- C01 (fluctuations): on every configuration `c` of the union of chain `n`, the fluctuation of
    the result is Σ_j (∂f/∂x_j) · w_j(n) · δ_j(n, c), where δ_j(n, c) is input j's fluctuation on
    *that configuration number* of *that chain* (zero if j was not measured there) and
    w_j(n) = (union size / own size) · (ensemble size / size of the replicas j has).
    The right-hand side never mentions array positions. -/
theorem c01_delta (f : List ℝ → ℝ) (g : List ℝ) (xs : List (Obs ℝ))
    (covEq : List (List ℝ) → List (List ℝ) → Bool) (o : Obs ℝ)
    (hwf : ∀ x ∈ xs, x.WF = true) (hlen : g.length = xs.length)
    (h : derivedObs f g xs covEq = .ok o) :
    ∀ n ∈ newSampleNames xs, ∀ c ∈ Spec.unionCfgs xs n,
      o.delta? n c = some (Spec.delta g xs n c) := by
  intro n hn c hc
  have _ := hlen  -- implied by `h` (the model checks the gradient length itself); not needed
  have ho : o = derivedCore f g xs (match collectCov covEq (xs.flatMap (·.covs)) [] with
      | .ok a => a | .error _ => []) := by
    unfold derivedObs at h
    split at h
    · cases h
    · split at h
      · cases h
      · split at h
        · cases h
        · rename_i heq _
          simp only [heq]
          cases h; rfl
  rw [ho]
  obtain ⟨r, hr, hidl, hdel⟩ := derivedCore_rep f g xs _ n hn
  rw [merged_toList xs hwf n] at hidl
  rw [newDeltas_eq g xs hwf n, ← hidl] at hdel
  exact delta?_of_map _ n r hr _ hdel c (by rw [hidl]; exact hc)



/-! ### independence of the splitting into intermediate steps -/

section compose
open PV.RealS
set_option linter.unusedSimpArgs false
set_option linter.unusedVariables false

local notation "𝟘" => (@OfNat.ofNat ℝ 0 (Scalar.instOfNatScalar 0))

/-- what `c01_chains`, `c01_union`, `c01_delta` establish about the result `y` of one propagation step with
    gradient `g` from the inputs `xs` -/
structure IsDerived (g : List ℝ) (xs : List (Obs ℝ)) (y : Obs ℝ) : Prop where
  glen : g.length = xs.length
  hasChain : ∀ n, (y.rep? n).isSome = true ↔ n ∈ newSampleNames xs
  cfgs : ∀ n ∈ newSampleNames xs, Spec.cfgs y n = Spec.unionCfgs xs n
  delta : ∀ n ∈ newSampleNames xs, ∀ c ∈ Spec.unionCfgs xs n, y.delta? n c = some (Spec.delta g xs n c)
  nodelta : ∀ n c, c ∉ Spec.cfgs y n → y.delta? n c = none
  inputChains : ∀ x ∈ xs, ∀ n, (x.rep? n).isSome = true → n ∈ newSampleNames xs

/-- the term of input `o` (gradient `g`) in the fluctuation formula, relative to the input list `xs` -/
noncomputable def dterm (xs : List (Obs ℝ)) (n : String) (c : Int) (g : ℝ) (o : Obs ℝ) : Option ℝ :=
  match o.rep? n with
  | none => none
  | some _ => some (g * (Spec.weight xs o n * (o.delta? n c).getD 𝟘))

theorem delta_eq_dterm (g : List ℝ) (xs : List (Obs ℝ)) (n : String) (c : Int) :
    Spec.delta g xs n c = ((List.zip g xs).filterMap (fun p => dterm xs n c p.1 p.2)).sum := by
  unfold Spec.delta dterm
  rw [sum_eq]
  congr 2
  funext p
  rcases p with ⟨g, o⟩
  dsimp only
  cases o.rep? n <;> rfl

/-- sum of the terms of one group -/
noncomputable def groupSum (ref : List (Obs ℝ)) (n : String) (c : Int) (g : List ℝ) (xs : List (Obs ℝ)) : ℝ :=
  ((List.zip g xs).filterMap (fun p => dterm ref n c p.1 p.2)).sum

/-- a two-level evaluation: per intermediate result its outer gradient entry, inner gradient, inputs, and the
    intermediate observable itself -/
structure Group where
  a : ℝ
  G : List ℝ
  X : List (Obs ℝ)
  y : Obs ℝ

/-- the one-shot gradient (chain rule) and the one-shot input list of a two-level evaluation -/
def totalGrad (qs : List Group) : List ℝ := qs.flatMap (fun q => q.G.map (q.a * ·))
def totalInputs (qs : List Group) : List (Obs ℝ) := qs.flatMap (fun q => q.X)

theorem groupSum_flatten (ref : List (Obs ℝ)) (n : String) (c : Int) (qs : List Group)
    (hlen : ∀ q ∈ qs, q.G.length = q.X.length) :
    groupSum ref n c (totalGrad qs) (totalInputs qs)
      = (qs.map (fun q => groupSum ref n c (q.G.map (q.a * ·)) q.X)).sum := by
  induction qs with
  | nil => simp [groupSum, totalGrad, totalInputs]
  | cons q qs ih =>
    have hq := hlen q (by simp)
    have := ih (fun q' hq' => hlen q' (by simp [hq']))
    simp only [List.map_cons, List.sum_cons, ← this]
    simp only [groupSum, totalGrad, totalInputs, List.flatMap_cons]
    rw [List.zip_append (by simp [hq]), List.filterMap_append, List.sum_append]

theorem mem_unionCfgs (X : List (Obs ℝ)) (n : String) (c : Int) :
    c ∈ Spec.unionCfgs X n ↔ ∃ x ∈ X, c ∈ Spec.cfgs x n := by
  unfold Spec.unionCfgs
  rw [C01b.mem_sortedSet, List.mem_flatMap]

theorem sum_filterMap_zero {β : Type} (l : List β) (f : β → Option ℝ) (h : ∀ b ∈ l, f b = none ∨ f b = some 0) :
    (l.filterMap f).sum = 0 := by
  induction l with
  | nil => simp
  | cons b bs ih =>
    rw [List.filterMap_cons]
    rcases h b (by simp) with h1 | h1
    · rw [h1]; exact ih (fun b' hb' => h b' (by simp [hb']))
    · rw [h1]; simp [ih (fun b' hb' => h b' (by simp [hb']))]

theorem sum_filterMap_scale {β : Type} (l : List β) (f f' : β → Option ℝ) (k : ℝ)
    (h : ∀ b ∈ l, f' b = (f b).map (k * ·)) : (l.filterMap f').sum = k * (l.filterMap f).sum := by
  induction l with
  | nil => simp
  | cons b bs ih =>
    rw [List.filterMap_cons, List.filterMap_cons, h b (by simp)]
    have := ih (fun b' hb' => h b' (by simp [hb']))
    cases f b with
    | none => simpa using this
    | some v => simp [this, mul_add]

/-- one group: the term of the intermediate result `y` equals the sum of the terms of its inputs in the
    one-shot evaluation, provided the weights telescope -/
theorem group_identity (ys flat X : List (Obs ℝ)) (G : List ℝ) (y : Obs ℝ) (a : ℝ) (n : String) (c : Int)
    (hd : IsDerived G X y)
    (hW : ∀ x ∈ X, (x.rep? n).isSome = true → Spec.weight ys y n * Spec.weight X x n = Spec.weight flat x n)
    (hnod : ∀ x ∈ X, ∀ c, c ∉ Spec.cfgs x n → x.delta? n c = none) :
    (dterm ys n c a y).getD 0 = groupSum flat n c (G.map (a * ·)) X := by
  have hzip : List.zip (G.map (a * ·)) X = (List.zip G X).map (fun p => (a * p.1, p.2)) := by
    rw [List.zip_map_left]; rfl
  unfold groupSum
  rw [hzip, List.filterMap_map]
  cases hy : y.rep? n with
  | none =>
    -- no input of the group has the chain
    simp only [dterm, hy]
    symm
    apply sum_filterMap_zero
    intro p hp
    left
    have hx : p.2 ∈ X := (List.of_mem_zip hp).2
    have hnone : p.2.rep? n = none := by
      by_contra hne
      have hsome : (p.2.rep? n).isSome = true := by
        cases h : p.2.rep? n with
        | none => exact absurd h hne
        | some _ => rfl
      have := (hd.hasChain n).mpr (hd.inputChains p.2 hx n hsome)
      rw [hy] at this
      simp at this
    simp [dterm, hnone]
  | some r =>
    have hn : n ∈ newSampleNames X := (hd.hasChain n).mp (by rw [hy]; rfl)
    simp only [dterm, hy]
    by_cases hc : c ∈ Spec.unionCfgs X n
    · rw [hd.delta n hn c hc, delta_eq_dterm]
      simp only [Option.getD_some]
      rw [← mul_assoc, ← sum_filterMap_scale (List.zip G X) (fun p => dterm X n c p.1 p.2) _ (a * Spec.weight ys y n)]
      intro p hp
      have hx : p.2 ∈ X := (List.of_mem_zip hp).2
      simp only [Function.comp, dterm]
      cases hp2 : p.2.rep? n with
      | none => simp
      | some r2 =>
        have hw := hW p.2 hx (by rw [hp2]; rfl)
        simp only [Option.map_some]
        congr 1
        rw [← hw]
        ring
    · have hnone : y.delta? n c = none := hd.nodelta n c (by rw [hd.cfgs n hn]; exact hc)
      rw [hnone]
      have h0 : a * (Spec.weight ys y n * (none : Option ℝ).getD 𝟘) = 0 := by simp
      rw [h0]
      symm
      apply sum_filterMap_zero
      intro p hp
      have hx : p.2 ∈ X := (List.of_mem_zip hp).2
      simp only [Function.comp, dterm]
      cases hp2 : p.2.rep? n with
      | none => left; rfl
      | some r2 =>
        right
        have : c ∉ Spec.cfgs p.2 n := fun hcc => hc ((mem_unionCfgs X n c).mpr ⟨p.2, hx, hcc⟩)
        rw [hnod p.2 hx c this]
        simp

theorem sum_filterMap_eq_sum_map {β : Type} (l : List β) (f : β → Option ℝ) :
    (l.filterMap f).sum = (l.map (fun b => (f b).getD 0)).sum := by
  induction l with
  | nil => simp
  | cons b bs ih =>
    rw [List.filterMap_cons, List.map_cons, List.sum_cons, ← ih]
    cases f b <;> simp

/-- **composition of two propagation steps = one step with the chain-rule gradient**, per chain and
    configuration, whenever the up-weighting factors telescope -/
theorem compose_delta (qs : List Group) (n : String) (c : Int)
    (hd : ∀ q ∈ qs, IsDerived q.G q.X q.y)
    (hW : ∀ q ∈ qs, ∀ x ∈ q.X, (x.rep? n).isSome = true →
      Spec.weight (qs.map (·.y)) q.y n * Spec.weight q.X x n = Spec.weight (totalInputs qs) x n)
    (hnod : ∀ q ∈ qs, ∀ x ∈ q.X, ∀ c, c ∉ Spec.cfgs x n → x.delta? n c = none) :
    Spec.delta (qs.map (·.a)) (qs.map (·.y)) n c = Spec.delta (totalGrad qs) (totalInputs qs) n c := by
  rw [delta_eq_dterm, delta_eq_dterm]
  have hR := groupSum_flatten (totalInputs qs) n c qs (fun q hq => (hd q hq).glen)
  have hz : List.zip (qs.map (·.a)) (qs.map (·.y)) = qs.map (fun q => (q.a, q.y)) := List.zip_map'
  have hL : ((List.zip (qs.map (·.a)) (qs.map (·.y))).filterMap (fun p => dterm (qs.map (·.y)) n c p.1 p.2)).sum
      = (qs.map (fun q => (dterm (qs.map (·.y)) n c q.a q.y).getD 0)).sum := by
    rw [hz, sum_filterMap_eq_sum_map, List.map_map]
    rfl
  rw [hL]
  have hR' : ((List.zip (totalGrad qs) (totalInputs qs)).filterMap (fun p => dterm (totalInputs qs) n c p.1 p.2)).sum
      = (qs.map (fun q => groupSum (totalInputs qs) n c (q.G.map (q.a * ·)) q.X)).sum := hR
  rw [hR']
  have hterm : ∀ q ∈ qs, (dterm (qs.map (·.y)) n c q.a q.y).getD 0
      = groupSum (totalInputs qs) n c (q.G.map (q.a * ·)) q.X := by
    intro q hq
    have h1 := hd q hq
    have h2 := hW q hq
    have h3 := hnod q hq
    exact group_identity _ _ _ _ _ _ n c h1 h2 h3
  exact congrArg List.sum (List.map_congr_left hterm)
theorem rep_isSome_iff (o : Obs ℝ) (n : String) : (o.rep? n).isSome = true ↔ n ∈ o.names := by
  unfold Obs.rep? Obs.names
  rw [List.find?_isSome]
  simp only [beq_iff_eq, List.mem_map]

theorem rep_name_of_some (o : Obs ℝ) (n : String) (r : Rep ℝ) (h : o.rep? n = some r) : r.name = n ∧ r ∈ o.reps := by
  unfold Obs.rep? at h
  have h1 := List.find?_some h
  have h2 := List.mem_of_find?_eq_some h
  exact ⟨by simpa using h1, h2⟩

theorem delta_none_of_not_mem (o : Obs ℝ) (n : String) (c : Int) (h : c ∉ Spec.cfgs o n) : o.delta? n c = none := by
  unfold Obs.delta? Spec.cfgs at *
  cases hr : o.rep? n with
  | none => rfl
  | some r =>
    rw [hr] at h
    simp only [Option.bind_eq_bind, Option.bind_some]
    have : r.idl.pos? c = none := by
      unfold Idl.pos?
      simp only
      have : ¬ (List.findIdx (fun x => x == c) r.idl.toList < r.idl.toList.length) := by
        intro hlt
        have hget := List.findIdx_getElem (w := hlt)
        simp only [beq_iff_eq] at hget
        exact h (hget ▸ List.getElem_mem hlt)
      simp [this]
    rw [this]
    rfl

theorem mem_newSampleNames_of_input (xs : List (Obs ℝ)) (x : Obs ℝ) (hx : x ∈ xs) (n : String) (hn : n ∈ x.names)
    (hclash : ¬ ((Py.sortedSetStr (xs.flatMap (·.covNames))).any (fun m => xs.any (fun o => o.names.contains m))) = true) :
    n ∈ newSampleNames xs := by
  unfold newSampleNames
  simp only [List.mem_filter]
  constructor
  · rw [C04.mem_sortedSetStr]
    exact List.mem_flatMap.mpr ⟨x, hx, by simp [hn]⟩
  · simp only [Bool.not_eq_true', ← Bool.not_eq_true]
    intro hc
    apply hclash
    rw [List.any_eq_true]
    exact ⟨n, by simpa using hc, by rw [List.any_eq_true]; exact ⟨x, hx, by simpa using hn⟩⟩

theorem derivedObs_checks {f : List ℝ → ℝ} {g : List ℝ} {xs : List (Obs ℝ)}
    {covEq : List (List ℝ) → List (List ℝ) → Bool} {o : Obs ℝ} (h : derivedObs f g xs covEq = .ok o) :
    g.length = xs.length ∧
    ¬ ((Py.sortedSetStr (xs.flatMap (·.covNames))).any (fun m => xs.any (fun o => o.names.contains m))) = true := by
  unfold derivedObs at h
  split at h
  · cases h
  · rename_i hg
    split at h
    · cases h
    · split at h
      · cases h
      · rename_i hc
        exact ⟨by simpa using hg, hc⟩

/-- one successful propagation step has the properties collected in `IsDerived` -/
theorem isDerived_of_derivedObs (f : List ℝ → ℝ) (g : List ℝ) (xs : List (Obs ℝ))
    (covEq : List (List ℝ) → List (List ℝ) → Bool) (y : Obs ℝ)
    (hwf : ∀ x ∈ xs, x.WF = true) (h : derivedObs f g xs covEq = .ok y) : IsDerived g xs y := by
  obtain ⟨hlen, hclash⟩ := derivedObs_checks h
  have hnames := c01_chains f g xs covEq y h
  have hchain : ∀ n, (y.rep? n).isSome = true ↔ n ∈ newSampleNames xs := by
    intro n; rw [rep_isSome_iff, hnames]
  refine ⟨hlen, hchain, ?_, ?_, ?_, ?_⟩
  · intro n hn
    have hs := (hchain n).mpr hn
    cases hr : y.rep? n with
    | none => rw [hr] at hs; cases hs
    | some r =>
      obtain ⟨hname, hmem⟩ := rep_name_of_some y n r hr
      have := c01_union f g xs covEq y hwf h r hmem
      simp only [Spec.cfgs, hr]
      rw [this, hname]
  · exact c01_delta f g xs covEq y hwf hlen h
  · exact fun n c hc => delta_none_of_not_mem y n c hc
  · intro x hx n hn
    exact mem_newSampleNames_of_input xs x hx n ((rep_isSome_iff x n).mp hn) hclash

theorem cfgs_nonempty_has_chain (o : Obs ℝ) (n : String) (c : Int) (h : c ∈ Spec.cfgs o n) : (o.rep? n).isSome = true := by
  unfold Spec.cfgs at h
  cases hr : o.rep? n with
  | none => rw [hr] at h; simp at h
  | some r => rfl

/-- the intermediate result of a group is measured exactly where some input of the group is -/
theorem mem_cfgs_group (q : Group) (hd : IsDerived q.G q.X q.y) (n : String) (c : Int) :
    c ∈ Spec.cfgs q.y n ↔ ∃ x ∈ q.X, c ∈ Spec.cfgs x n := by
  constructor
  · intro h
    have hn := (hd.hasChain n).mp (cfgs_nonempty_has_chain q.y n c h)
    rw [hd.cfgs n hn] at h
    exact (mem_unionCfgs q.X n c).mp h
  · rintro ⟨x, hx, hc⟩
    have hn := hd.inputChains x hx n (cfgs_nonempty_has_chain x n c hc)
    rw [hd.cfgs n hn]
    exact (mem_unionCfgs q.X n c).mpr ⟨x, hx, hc⟩

/-- the union over the intermediate results is the union over all inputs -/
theorem unionCfgs_groups (qs : List Group) (n : String) (hd : ∀ q ∈ qs, IsDerived q.G q.X q.y) :
    Spec.unionCfgs (qs.map (·.y)) n = Spec.unionCfgs (totalInputs qs) n := by
  unfold Spec.unionCfgs
  apply C01b.sortedSet_eq_of _ _ (C01b.pairwise_sortedSet _)
  intro c
  rw [C01b.mem_sortedSet]
  simp only [List.mem_flatMap, List.mem_map, totalInputs]
  constructor
  · rintro ⟨x, ⟨q, hq, hx⟩, hc⟩
    exact ⟨q.y, ⟨q, hq, rfl⟩, (mem_cfgs_group q (hd q hq) n c).mpr ⟨x, hx, hc⟩⟩
  · rintro ⟨y, ⟨q, hq, rfl⟩, hc⟩
    obtain ⟨x, hx, hc'⟩ := (mem_cfgs_group q (hd q hq) n c).mp hc
    exact ⟨x, ⟨q, hq, hx⟩, hc'⟩

/-- the up-weighting factors telescope when no missing-replica factor occurs -/
theorem weight_telescope (qs : List Group) (q : Group) (hq : q ∈ qs) (x : Obs ℝ) (hx : x ∈ q.X) (n : String)
    (hd : ∀ q ∈ qs, IsDerived q.G q.X q.y) (hne : Spec.cfgs x n ≠ [])
    (hs1 : Spec.sigma (qs.map (·.y)) q.y (Py.ensOf n) = 1) (hs2 : Spec.sigma q.X x (Py.ensOf n) = 1)
    (hs3 : Spec.sigma (totalInputs qs) x (Py.ensOf n) = 1) :
    Spec.weight (qs.map (·.y)) q.y n * Spec.weight q.X x n = Spec.weight (totalInputs qs) x n := by
  obtain ⟨c, hc⟩ := List.exists_mem_of_ne_nil _ hne
  have hn := (hd q hq).inputChains x hx n (cfgs_nonempty_has_chain x n c hc)
  have hcU : c ∈ Spec.unionCfgs q.X n := (mem_unionCfgs q.X n c).mpr ⟨x, hx, hc⟩
  have hB : ((Spec.unionCfgs q.X n).length : ℝ) ≠ 0 := by
    have : 0 < (Spec.unionCfgs q.X n).length := List.length_pos_of_mem hcU
    exact_mod_cast this.ne'
  have hC : ((Spec.cfgs x n).length : ℝ) ≠ 0 := by
    have : 0 < (Spec.cfgs x n).length := List.length_pos_of_mem hc
    exact_mod_cast this.ne'
  unfold Spec.weight
  rw [hs1, hs2, hs3, unionCfgs_groups qs n hd, (hd q hq).cfgs n hn]
  simp only [ofNatS_eq, mul_one]
  field_simp

/-- **C01 (independence of the splitting into intermediate steps), partial.**  Evaluate an expression in two
    levels - every intermediate result `q.y` by one propagation step from its own inputs `q.X` with gradient
    `q.G`, then the final result from the intermediate results with gradient `a` - or in one step from all
    inputs with the chain-rule gradient `a_i · G_ij`.  On every chain and every configuration the two results
    carry the same fluctuation, for any number of groups, inputs, replicas and any configuration lists, provided
    no missing-replica factor occurs (all `sigma = 1`: the inputs touching an ensemble share their replica set).
    The union factors `|U|/|I|` telescope through the intermediate unions.

    The two regimes in which the statement holds are `c01_compose_complete` (hypothesis on the sets of chain names
    only: the `sigma = 1` hypotheses below are derived) and `c01_compose_subsets` ("same configuration list per
    chain, different replica sets", where the missing-replica factors telescope instead).  With both freedoms at
    once the two evaluations differ (the missing-replica factor then depends on the intermediate merged lists);
    the hypothesis `hywf` is what `c04_derived_wf` provides. -/
theorem c01_compose_partial (qs : List Group) (fs : Group → List ℝ → ℝ) (f2 F : List ℝ → ℝ)
    (covEq : List (List ℝ) → List (List ℝ) → Bool) (z z1 : Obs ℝ)
    (hwf : ∀ q ∈ qs, ∀ x ∈ q.X, x.WF = true)
    (hy : ∀ q ∈ qs, derivedObs (fs q) q.G q.X covEq = .ok q.y)
    (hywf : ∀ q ∈ qs, q.y.WF = true)
    (hz : derivedObs f2 (qs.map (·.a)) (qs.map (·.y)) covEq = .ok z)
    (hz1 : derivedObs F (totalGrad qs) (totalInputs qs) covEq = .ok z1)
    (hne : ∀ q ∈ qs, ∀ x ∈ q.X, ∀ n, (x.rep? n).isSome = true → Spec.cfgs x n ≠ [])
    (hs1 : ∀ q ∈ qs, ∀ e, Spec.sigma (qs.map (·.y)) q.y e = 1)
    (hs2 : ∀ q ∈ qs, ∀ x ∈ q.X, ∀ e, Spec.sigma q.X x e = 1 ∧ Spec.sigma (totalInputs qs) x e = 1) :
    ∀ n, n ∈ newSampleNames (qs.map (·.y)) → n ∈ newSampleNames (totalInputs qs) →
      ∀ c ∈ Spec.unionCfgs (totalInputs qs) n, z.delta? n c = z1.delta? n c := by
  intro n hn1 hn2 c hc
  have hd : ∀ q ∈ qs, IsDerived q.G q.X q.y :=
    fun q hq => isDerived_of_derivedObs (fs q) q.G q.X covEq q.y (hwf q hq) (hy q hq)
  have hU := unionCfgs_groups qs n hd
  have hwfY : ∀ y ∈ qs.map (·.y), y.WF = true := by
    intro y hy'
    obtain ⟨q, hq, rfl⟩ := List.mem_map.mp hy'
    exact hywf q hq
  have hwfX : ∀ x ∈ totalInputs qs, x.WF = true := by
    intro x hx
    obtain ⟨q, hq, hxq⟩ := List.mem_flatMap.mp hx
    exact hwf q hq x hxq
  have e1 := c01_delta f2 (qs.map (·.a)) (qs.map (·.y)) covEq z hwfY (by simp) hz n hn1 c (by rw [hU]; exact hc)
  have e2 := c01_delta F (totalGrad qs) (totalInputs qs) covEq z1 hwfX (derivedObs_checks hz1).1 hz1 n hn2 c hc
  rw [e1, e2]
  congr 1
  apply compose_delta qs n c hd
  · intro q hq x hx hxn
    exact weight_telescope qs q hq x hx n hd (hne q hq x hx n hxn) (hs1 q hq _) (hs2 q hq x hx _).1 (hs2 q hq x hx _).2
  · intro q hq x hx c' hc'
    exact delta_none_of_not_mem x n c' hc'


/-! ### deriving the absence of missing-replica factors from the sets of chain names -/


/-- every input that touches an ensemble has all the chains of that ensemble that occur among the inputs -/
def Complete (X : List (Obs ℝ)) : Prop :=
  ∀ x ∈ X, ∀ x' ∈ X, ∀ m ∈ x'.names, ∀ e, e ∈ x.mcNames → ((e ++ "|").isPrefixOf m || m == e) = true → m ∈ x.names

theorem names_of_mem_newSampleNames (xs : List (Obs ℝ)) (m : String) (h : m ∈ newSampleNames xs) :
    ∃ x ∈ xs, m ∈ x.names := by
  unfold newSampleNames at h
  simp only [List.mem_filter, C04.mem_sortedSetStr, List.mem_flatMap, List.mem_append] at h
  obtain ⟨⟨x, hx, hm⟩, hnc⟩ := h
  rcases hm with hm | hm
  · exact ⟨x, hx, hm⟩
  · exfalso
    simp only [Bool.not_eq_true', ← Bool.not_eq_true] at hnc
    apply hnc
    rw [List.contains_iff_mem, C04.mem_sortedSetStr]
    exact List.mem_flatMap.mpr ⟨x, hx, hm⟩

/-- no missing-replica factor when the input has every chain of the ensemble that occurs in the result -/
theorem sigma_one_of_cover (xs : List (Obs ℝ)) (o : Obs ℝ) (e : String)
    (hcov : e ∈ o.mcNames → ∀ m ∈ Spec.chainsOf (Spec.allChains xs) e, m ∈ o.names) : Spec.sigma xs o e = 1 := by
  unfold Spec.sigma
  split
  · simp [ofNat_eq_lit, lit_eq]
  · rename_i hin
    replace hcov := hcov (by simpa using hin)
    have hnd : (Spec.chainsOf (Spec.allChains xs) e).Nodup := by
      unfold Spec.chainsOf Spec.allChains newSampleNames
      exact (((C04.pairwise_sortedSetStr _).imp (fun h => ne_of_lt h)).filter _).filter _
    have hsub : Spec.chainsOf (Spec.allChains xs) e ⊆ Spec.chainsOf o.names e := by
      intro m hm
      have h1 := hcov m hm
      unfold Spec.chainsOf at hm ⊢
      rw [List.mem_filter] at hm ⊢
      exact ⟨h1, hm.2⟩
    have hle : (Spec.chainsOf (Spec.allChains xs) e).length ≤ (Spec.chainsOf o.names e).length :=
      (List.subperm_of_subset hnd hsub).length_le
    rw [if_neg]
    · simp [ofNat_eq_lit, lit_eq]
    · simp only [Bool.and_eq_true, decide_eq_true_eq, not_and, not_lt]
      intro _
      exact hle

theorem mem_mcNames (o : Obs ℝ) (e : String) : e ∈ o.mcNames ↔ ∃ m ∈ o.names, Py.ensOf m = e := by
  unfold Obs.mcNames
  rw [C04.mem_sortedSetStr, List.mem_map]

/-- within any sub-collection of a complete collection of inputs no missing-replica factor occurs -/
theorem sigma_one_of_complete (X xs : List (Obs ℝ)) (hsub : ∀ x ∈ xs, x ∈ X) (hC : Complete X)
    (x : Obs ℝ) (hx : x ∈ xs) (e : String) : Spec.sigma xs x e = 1 := by
  apply sigma_one_of_cover
  intro he m hm
  unfold Spec.chainsOf at hm
  rw [List.mem_filter] at hm
  obtain ⟨x', hx', hmx'⟩ := names_of_mem_newSampleNames xs m hm.1
  exact hC x (hsub x hx) x' (hsub x' hx') m hmx' e he hm.2

/-- ... and none for the intermediate results either: each has every chain its inputs have -/
theorem sigma_one_intermediate (qs : List Group) (hd : ∀ q ∈ qs, IsDerived q.G q.X q.y)
    (hC : Complete (totalInputs qs)) (q : Group) (hq : q ∈ qs) (e : String) :
    Spec.sigma (qs.map (·.y)) q.y e = 1 := by
  apply sigma_one_of_cover
  intro he m hm
  unfold Spec.chainsOf at hm
  rw [List.mem_filter] at hm
  obtain ⟨y', hy', hmy'⟩ := names_of_mem_newSampleNames _ m hm.1
  obtain ⟨q', hq', rfl⟩ := List.mem_map.mp hy'
  have h1 : m ∈ newSampleNames q'.X := ((hd q' hq').hasChain m).mp ((rep_isSome_iff q'.y m).mpr hmy')
  obtain ⟨x', hx', hmx'⟩ := names_of_mem_newSampleNames _ m h1
  obtain ⟨m'', hm'', hens⟩ := (mem_mcNames q.y e).mp he
  have h2 : m'' ∈ newSampleNames q.X := ((hd q hq).hasChain m'').mp ((rep_isSome_iff q.y m'').mpr hm'')
  obtain ⟨x'', hx'', hmx''⟩ := names_of_mem_newSampleNames _ m'' h2
  have he'' : e ∈ x''.mcNames := (mem_mcNames x'' e).mpr ⟨m'', hmx'', hens⟩
  have hx''t : x'' ∈ totalInputs qs := List.mem_flatMap.mpr ⟨q, hq, hx''⟩
  have hx't : x' ∈ totalInputs qs := List.mem_flatMap.mpr ⟨q', hq', hx'⟩
  have h3 : m ∈ x''.names := hC x'' hx''t x' hx't m hmx' e he'' hm.2
  have h4 : m ∈ newSampleNames q.X := (hd q hq).inputChains x'' hx'' m ((rep_isSome_iff x'' m).mpr h3)
  exact (rep_isSome_iff q.y m).mp (((hd q hq).hasChain m).mpr h4)
/-- **C01 (independence of the splitting into intermediate steps), for inputs that share their replica sets.**
    If every input that touches an ensemble has all the chains of that ensemble which occur among the inputs
    (`Complete`: a hypothesis about the sets of chain names only), the two-level evaluation and the one-shot evaluation
    with the chain-rule gradient carry the same fluctuation on every chain and configuration - for any number of
    groups, inputs, replicas and any configuration lists per chain.  The `sigma = 1` hypotheses of
    `c01_compose_partial` are derived, for the inputs within their groups, within the whole, and for the
    intermediate results. -/
theorem c01_compose_complete (qs : List Group) (fs : Group → List ℝ → ℝ) (f2 F : List ℝ → ℝ)
    (covEq : List (List ℝ) → List (List ℝ) → Bool) (z z1 : Obs ℝ)
    (hwf : ∀ q ∈ qs, ∀ x ∈ q.X, x.WF = true)
    (hy : ∀ q ∈ qs, derivedObs (fs q) q.G q.X covEq = .ok q.y)
    (hywf : ∀ q ∈ qs, q.y.WF = true)
    (hz : derivedObs f2 (qs.map (·.a)) (qs.map (·.y)) covEq = .ok z)
    (hz1 : derivedObs F (totalGrad qs) (totalInputs qs) covEq = .ok z1)
    (hne : ∀ q ∈ qs, ∀ x ∈ q.X, ∀ n, (x.rep? n).isSome = true → Spec.cfgs x n ≠ [])
    (hC : Complete (totalInputs qs)) :
    ∀ n, n ∈ newSampleNames (qs.map (·.y)) → n ∈ newSampleNames (totalInputs qs) →
      ∀ c ∈ Spec.unionCfgs (totalInputs qs) n, z.delta? n c = z1.delta? n c := by
  have hd : ∀ q ∈ qs, IsDerived q.G q.X q.y :=
    fun q hq => isDerived_of_derivedObs (fs q) q.G q.X covEq q.y (hwf q hq) (hy q hq)
  apply c01_compose_partial qs fs f2 F covEq z z1 hwf hy hywf hz hz1 hne
  · intro q hq e
    exact sigma_one_intermediate qs hd hC q hq e
  · intro q hq x hx e
    refine ⟨sigma_one_of_complete (totalInputs qs) q.X ?_ hC x hx e,
            sigma_one_of_complete (totalInputs qs) (totalInputs qs) (fun _ h => h) hC x ?_ e⟩
    · intro x' hx'; exact List.mem_flatMap.mpr ⟨q, hq, hx'⟩
    · exact List.mem_flatMap.mpr ⟨q, hq, hx⟩


/-! ### inputs that lack whole replicas: the missing-replica factors telescope -/


/-- all inputs that have a chain have it on the same configurations ("subsets" layouts: inputs may lack whole
    replicas, but never part of one) -/
def SameCfgs (X : List (Obs ℝ)) : Prop :=
  ∀ x ∈ X, ∀ x' ∈ X, ∀ n, Spec.cfgs x n ≠ [] → Spec.cfgs x' n ≠ [] → Spec.cfgs x n = Spec.cfgs x' n

theorem cfgs_pairwise (x : Obs ℝ) (hwf : x.WF = true) (n : String) : (Spec.cfgs x n).Pairwise (· < ·) := by
  unfold Spec.cfgs
  cases hr : x.rep? n with
  | none => simp
  | some r =>
    have hm := List.mem_of_find?_eq_some hr
    exact ((C05.wf_parts hwf).2 r hm).1

theorem unionCfgs_same (xs : List (Obs ℝ)) (hwf : ∀ x ∈ xs, x.WF = true) (hS : SameCfgs xs)
    (x : Obs ℝ) (hx : x ∈ xs) (n : String) (hne : Spec.cfgs x n ≠ []) :
    Spec.unionCfgs xs n = Spec.cfgs x n := by
  apply C01b.eq_of_pairwise_lt _ _ (C01b.pairwise_sortedSet _) (cfgs_pairwise x (hwf x hx) n)
  intro c
  show c ∈ Spec.unionCfgs xs n ↔ _
  rw [mem_unionCfgs]
  constructor
  · rintro ⟨x', hx', hc⟩
    have : Spec.cfgs x' n ≠ [] := List.ne_nil_of_mem hc
    rw [hS x hx x' hx' n hne this]; exact hc
  · intro hc; exact ⟨x, hx, hc⟩

/-- Σ over the chains `l` of the number of union configurations -/
def lenSum (xs : List (Obs ℝ)) (l : List String) : Nat := (l.map (fun m => (Spec.unionCfgs xs m).length)).sum

theorem foldr_add_eq_sum (l : List Nat) : l.foldr (· + ·) 0 = l.sum := by
  induction l with
  | nil => rfl
  | cons a l ih => simp [ih]

theorem lenSum_perm (xs : List (Obs ℝ)) (l l' : List String) (h : l.Perm l') : lenSum xs l = lenSum xs l' :=
  (h.map _).sum_eq

theorem chainsOf_nodup (xs : List (Obs ℝ)) (e : String) : (Spec.chainsOf (Spec.allChains xs) e).Nodup := by
  unfold Spec.chainsOf Spec.allChains newSampleNames
  exact (((C04.pairwise_sortedSetStr _).imp (fun h => ne_of_lt h)).filter _).filter _

/-- the missing-replica factor is (Σ over the chains of the ensemble in the result) / (Σ over the chains the input has),
    both of the numbers of union configurations - also when the input has all of them (the ratio is then 1) -/
theorem sigma_ratio (xs : List (Obs ℝ)) (o : Obs ℝ) (e : String) (he : e ∈ o.mcNames)
    (hown : ∀ m ∈ Spec.chainsOf o.names e, m ∈ Spec.allChains xs)
    (hnd : (Spec.chainsOf o.names e).Nodup) (hpos : 0 < lenSum xs (Spec.chainsOf o.names e)) :
    Spec.sigma xs o e = (lenSum xs (Spec.chainsOf (Spec.allChains xs) e) : ℝ) / (lenSum xs (Spec.chainsOf o.names e) : ℝ) := by
  have hsub : Spec.chainsOf o.names e ⊆ Spec.chainsOf (Spec.allChains xs) e := by
    intro m hm
    have h1 := hown m hm
    unfold Spec.chainsOf at hm ⊢
    rw [List.mem_filter] at hm ⊢
    exact ⟨h1, hm.2⟩
  have hposR : ((lenSum xs (Spec.chainsOf o.names e) : Nat) : ℝ) ≠ 0 := by exact_mod_cast hpos.ne'
  unfold Spec.sigma
  rw [if_neg (by simpa using he)]
  simp only
  split
  · rename_i hlt
    have hperm : ((Spec.allChains xs).filter (fun m => (Spec.chainsOf o.names e).contains m)).Perm (Spec.chainsOf o.names e) := by
      rw [List.perm_ext_iff_of_nodup]
      · intro m
        simp only [List.mem_filter, List.contains_iff_mem, decide_eq_true_eq]
        constructor
        · exact fun h => h.2
        · exact fun h => ⟨hown m h, h⟩
      · unfold Spec.allChains newSampleNames
        exact (((C04.pairwise_sortedSetStr _).imp (fun h => ne_of_lt h)).filter _).filter _
      · exact hnd
    have := lenSum_perm xs _ _ hperm
    simp only [lenSum] at this ⊢
    simp only [ofNatS_eq, foldr_add_eq_sum, this]
  · rename_i hge
    have hle : (Spec.chainsOf (Spec.allChains xs) e).length ≤ (Spec.chainsOf o.names e).length := by
      simp only [Bool.and_eq_true, decide_eq_true_eq, not_and, not_lt] at hge
      apply hge
      by_contra h0
      have : (Spec.chainsOf o.names e).length = 0 := by omega
      rw [List.length_eq_zero_iff] at this
      rw [this] at hpos
      simp [lenSum] at hpos
    have hperm : (Spec.chainsOf o.names e).Perm (Spec.chainsOf (Spec.allChains xs) e) :=
      (List.subperm_of_subset hnd hsub).perm_of_length_le hle
    rw [lenSum_perm xs _ _ hperm.symm, div_self hposR]
    simp [ofNat_eq_lit, lit_eq]

theorem lenSum_congr (xs xs' : List (Obs ℝ)) (l : List String)
    (h : ∀ m ∈ l, Spec.unionCfgs xs m = Spec.unionCfgs xs' m) : lenSum xs l = lenSum xs' l := by
  unfold lenSum
  congr 1
  apply List.map_congr_left
  intro m hm
  rw [h m hm]

theorem lenSum_pos_of_mem (xs : List (Obs ℝ)) (l : List String) (m : String) (hm : m ∈ l)
    (hpos : Spec.unionCfgs xs m ≠ []) : 0 < lenSum xs l := by
  unfold lenSum
  have h1 : (Spec.unionCfgs xs m).length ∈ l.map (fun m => (Spec.unionCfgs xs m).length) :=
    List.mem_map.mpr ⟨m, hm, rfl⟩
  have h2 : 0 < (Spec.unionCfgs xs m).length := List.length_pos_iff.mpr hpos
  have := List.single_le_sum (fun _ _ => Nat.zero_le _) _ h1
  omega

theorem names_nodup (x : Obs ℝ) (hwf : x.WF = true) : x.names.Nodup :=
  (C05.wf_parts hwf).1.imp (fun h => ne_of_lt h)

theorem chainsOf_names_nodup (x : Obs ℝ) (hwf : x.WF = true) (e : String) : (Spec.chainsOf x.names e).Nodup := by
  unfold Spec.chainsOf
  exact (names_nodup x hwf).filter _

theorem mem_chainsOf (names : List String) (e m : String) :
    m ∈ Spec.chainsOf names e ↔ m ∈ names ∧ ((e ++ "|").isPrefixOf m || m == e) = true := by
  unfold Spec.chainsOf; rw [List.mem_filter]

/-- the up-weighting factors telescope when every input has each of its chains on the full configuration list of
    that chain (inputs may lack whole replicas): the union factors are 1 and the missing-replica factors multiply
    to the one-shot factor -/
theorem weight_telescope_subsets (qs : List Group) (q : Group) (hq : q ∈ qs) (x : Obs ℝ) (hx : x ∈ q.X) (n : String)
    (hd : ∀ q ∈ qs, IsDerived q.G q.X q.y)
    (hwfX : ∀ x ∈ totalInputs qs, x.WF = true) (hwfY : ∀ q ∈ qs, q.y.WF = true)
    (hS : SameCfgs (totalInputs qs))
    (hne : ∀ x ∈ totalInputs qs, ∀ m, (x.rep? m).isSome = true → Spec.cfgs x m ≠ [])
    (hinT : ∀ x ∈ totalInputs qs, ∀ m ∈ x.names, m ∈ newSampleNames (totalInputs qs))
    (hinY : ∀ q ∈ qs, ∀ m ∈ q.y.names, m ∈ newSampleNames (qs.map (·.y)))
    (hxn : (x.rep? n).isSome = true) :
    Spec.weight (qs.map (·.y)) q.y n * Spec.weight q.X x n = Spec.weight (totalInputs qs) x n := by
  have hxT : x ∈ totalInputs qs := List.mem_flatMap.mpr ⟨q, hq, hx⟩
  have hsubQ : ∀ x' ∈ q.X, x' ∈ totalInputs qs := fun x' h => List.mem_flatMap.mpr ⟨q, hq, h⟩
  have hSQ : SameCfgs q.X := fun a ha b hb m h1 h2 => hS a (hsubQ a ha) b (hsubQ b hb) m h1 h2
  have hnx : n ∈ x.names := (rep_isSome_iff x n).mp hxn
  have hcx : Spec.cfgs x n ≠ [] := hne x hxT n hxn
  -- union configurations of a chain, relative to the three input lists
  have hUT : ∀ x' ∈ totalInputs qs, ∀ m, (x'.rep? m).isSome = true → Spec.unionCfgs (totalInputs qs) m = Spec.cfgs x' m :=
    fun x' hx' m hm => unionCfgs_same _ hwfX hS x' hx' m (hne x' hx' m hm)
  have hUQ : ∀ x' ∈ q.X, ∀ m, (x'.rep? m).isSome = true → Spec.unionCfgs q.X m = Spec.cfgs x' m :=
    fun x' hx' m hm => unionCfgs_same _ (fun a ha => hwfX a (hsubQ a ha)) hSQ x' hx' m (hne x' (hsubQ x' hx') m hm)
  have hUY : ∀ m, Spec.unionCfgs (qs.map (·.y)) m = Spec.unionCfgs (totalInputs qs) m := fun m => unionCfgs_groups qs m hd
  have hnQ : n ∈ newSampleNames q.X := (hd q hq).inputChains x hx n hxn
  have hcy : Spec.cfgs q.y n = Spec.cfgs x n := by rw [(hd q hq).cfgs n hnQ, hUQ x hx n hxn]
  have hlen : ((Spec.cfgs x n).length : ℝ) ≠ 0 := by
    have : 0 < (Spec.cfgs x n).length := List.length_pos_iff.mpr hcx
    exact_mod_cast this.ne'
  -- the ensemble and the three sets of chains
  set e := Py.ensOf n with he
  have hpre : ((e ++ "|").isPrefixOf n || n == e) = true := ensOf_prefix_or_eq n
  have hex : e ∈ x.mcNames := (mem_mcNames x e).mpr ⟨n, hnx, rfl⟩
  have hny : n ∈ q.y.names := (rep_isSome_iff q.y n).mp (((hd q hq).hasChain n).mpr hnQ)
  have hey : e ∈ q.y.mcNames := (mem_mcNames q.y e).mpr ⟨n, hny, rfl⟩
  have hA : n ∈ Spec.chainsOf x.names e := (mem_chainsOf _ _ _).mpr ⟨hnx, hpre⟩
  have hB' : n ∈ Spec.chainsOf q.y.names e := (mem_chainsOf _ _ _).mpr ⟨hny, hpre⟩
  have hUn : Spec.unionCfgs (totalInputs qs) n ≠ [] := by rw [hUT x hxT n hxn]; exact hcx
  -- sigma as ratios
  have s3 := sigma_ratio (totalInputs qs) x e hex
    (fun m hm => hinT x hxT m ((mem_chainsOf _ _ _).mp hm).1) (chainsOf_names_nodup x (hwfX x hxT) e)
    (lenSum_pos_of_mem _ _ n hA hUn)
  have s2 := sigma_ratio q.X x e hex
    (fun m hm => (hd q hq).inputChains x hx m ((rep_isSome_iff x m).mpr ((mem_chainsOf _ _ _).mp hm).1))
    (chainsOf_names_nodup x (hwfX x hxT) e)
    (lenSum_pos_of_mem _ _ n hA (by rw [hUQ x hx n hxn]; exact hcx))
  have s1 := sigma_ratio (qs.map (fun q : Group => q.y)) q.y e hey
    (fun m hm => hinY q hq m ((mem_chainsOf _ _ _).mp hm).1) (chainsOf_names_nodup q.y (hwfY q hq) e)
    (lenSum_pos_of_mem _ _ n hB' (by rw [hUY]; exact hUn))
  -- all sums are sums over the union configurations of the whole
  have L1 : lenSum q.X (Spec.chainsOf x.names e) = lenSum (totalInputs qs) (Spec.chainsOf x.names e) := by
    apply lenSum_congr
    intro m hm
    have hmx := (rep_isSome_iff x m).mpr ((mem_chainsOf _ _ _).mp hm).1
    rw [hUQ x hx m hmx, hUT x hxT m hmx]
  have L2 : lenSum q.X (Spec.chainsOf (Spec.allChains q.X) e) = lenSum (totalInputs qs) (Spec.chainsOf (Spec.allChains q.X) e) := by
    apply lenSum_congr
    intro m hm
    obtain ⟨x', hx', hmx'⟩ := names_of_mem_newSampleNames q.X m ((mem_chainsOf _ _ _).mp hm).1
    have h' := (rep_isSome_iff x' m).mpr hmx'
    rw [hUQ x' hx' m h', hUT x' (hsubQ x' hx') m h']
  have L3 : ∀ l, lenSum (qs.map (fun q : Group => q.y)) l = lenSum (totalInputs qs) l :=
    fun l => lenSum_congr _ _ l (fun m _ => hUY m)
  have L4 : (Spec.chainsOf q.y.names e).Perm (Spec.chainsOf (Spec.allChains q.X) e) := by
    rw [List.perm_ext_iff_of_nodup (chainsOf_names_nodup q.y (hwfY q hq) e) (chainsOf_nodup q.X e)]
    intro m
    rw [mem_chainsOf, mem_chainsOf]
    constructor
    · rintro ⟨h1, h2⟩
      exact ⟨((hd q hq).hasChain m).mp ((rep_isSome_iff q.y m).mpr h1), h2⟩
    · rintro ⟨h1, h2⟩
      exact ⟨(rep_isSome_iff q.y m).mp (((hd q hq).hasChain m).mpr h1), h2⟩
  have L5 : (Spec.chainsOf (Spec.allChains (qs.map (fun q : Group => q.y))) e).Perm
      (Spec.chainsOf (Spec.allChains (totalInputs qs)) e) := by
    rw [List.perm_ext_iff_of_nodup (chainsOf_nodup _ e) (chainsOf_nodup _ e)]
    intro m
    rw [mem_chainsOf, mem_chainsOf]
    constructor
    · rintro ⟨h1, h2⟩
      refine ⟨?_, h2⟩
      obtain ⟨y', hy', hmy'⟩ := names_of_mem_newSampleNames _ m h1
      obtain ⟨q', hq', rfl⟩ := List.mem_map.mp hy'
      have h3 : m ∈ newSampleNames q'.X := ((hd q' hq').hasChain m).mp ((rep_isSome_iff q'.y m).mpr hmy')
      obtain ⟨x', hx', hmx'⟩ := names_of_mem_newSampleNames _ m h3
      exact hinT x' (List.mem_flatMap.mpr ⟨q', hq', hx'⟩) m hmx'
    · rintro ⟨h1, h2⟩
      refine ⟨?_, h2⟩
      obtain ⟨x', hx', hmx'⟩ := names_of_mem_newSampleNames _ m h1
      obtain ⟨q', hq', hx'q⟩ := List.mem_flatMap.mp hx'
      have h3 : m ∈ newSampleNames q'.X := (hd q' hq').inputChains x' hx'q m ((rep_isSome_iff x' m).mpr hmx')
      exact hinY q' hq' m ((rep_isSome_iff q'.y m).mp (((hd q' hq').hasChain m).mpr h3))
  have hApos : ((lenSum (totalInputs qs) (Spec.chainsOf x.names e) : Nat) : ℝ) ≠ 0 := by
    have := lenSum_pos_of_mem (totalInputs qs) _ n hA hUn
    exact_mod_cast this.ne'
  have hBpos : ((lenSum (totalInputs qs) (Spec.chainsOf (Spec.allChains q.X) e) : Nat) : ℝ) ≠ 0 := by
    have hnB : n ∈ Spec.chainsOf (Spec.allChains q.X) e := (mem_chainsOf _ _ _).mpr ⟨hnQ, hpre⟩
    have := lenSum_pos_of_mem (totalInputs qs) _ n hnB hUn
    exact_mod_cast this.ne'
  unfold Spec.weight
  rw [s1, s2, s3, hUY n, hUT x hxT n hxn, hUQ x hx n hxn, hcy, L3, L3, L1, L2,
    lenSum_perm _ _ _ L4, lenSum_perm _ _ _ L5]
  simp only [ofNatS_eq]
  field_simp

/-- **C01 (independence of the splitting into intermediate steps), for inputs that lack whole replicas.**  If every
    input has each of its chains on the full configuration list of that chain (`SameCfgs`; inputs may lack whole
    replicas of an ensemble, so missing-replica factors do occur), the
    two-level evaluation and the one-shot evaluation with the chain-rule gradient carry the same fluctuation on
    every chain and configuration: the union factors are 1 and the missing-replica factors of the two levels
    multiply to the one-shot factor (`weight_telescope_subsets`). -/
theorem c01_compose_subsets (qs : List Group) (fs : Group → List ℝ → ℝ) (f2 F : List ℝ → ℝ)
    (covEq : List (List ℝ) → List (List ℝ) → Bool) (z z1 : Obs ℝ)
    (hwf : ∀ q ∈ qs, ∀ x ∈ q.X, x.WF = true)
    (hy : ∀ q ∈ qs, derivedObs (fs q) q.G q.X covEq = .ok q.y)
    (hywf : ∀ q ∈ qs, q.y.WF = true)
    (hz : derivedObs f2 (qs.map (·.a)) (qs.map (·.y)) covEq = .ok z)
    (hz1 : derivedObs F (totalGrad qs) (totalInputs qs) covEq = .ok z1)
    (hne : ∀ q ∈ qs, ∀ x ∈ q.X, ∀ n, (x.rep? n).isSome = true → Spec.cfgs x n ≠ [])
    (hS : SameCfgs (totalInputs qs)) :
    ∀ n, n ∈ newSampleNames (qs.map (·.y)) → n ∈ newSampleNames (totalInputs qs) →
      ∀ c ∈ Spec.unionCfgs (totalInputs qs) n, z.delta? n c = z1.delta? n c := by
  intro n hn1 hn2 c hc
  have hd : ∀ q ∈ qs, IsDerived q.G q.X q.y :=
    fun q hq => isDerived_of_derivedObs (fs q) q.G q.X covEq q.y (hwf q hq) (hy q hq)
  have hU := unionCfgs_groups qs n hd
  have hwfY : ∀ y ∈ qs.map (·.y), y.WF = true := by
    intro y hy'
    obtain ⟨q, hq, rfl⟩ := List.mem_map.mp hy'
    exact hywf q hq
  have hwfX : ∀ x ∈ totalInputs qs, x.WF = true := by
    intro x hx
    obtain ⟨q, hq, hxq⟩ := List.mem_flatMap.mp hx
    exact hwf q hq x hxq
  have hneT : ∀ x ∈ totalInputs qs, ∀ m, (x.rep? m).isSome = true → Spec.cfgs x m ≠ [] := by
    intro x hx
    obtain ⟨q, hq, hxq⟩ := List.mem_flatMap.mp hx
    exact hne q hq x hxq
  have hinT : ∀ x ∈ totalInputs qs, ∀ m ∈ x.names, m ∈ newSampleNames (totalInputs qs) :=
    fun x hx m hm => mem_newSampleNames_of_input _ x hx m hm (derivedObs_checks hz1).2
  have hinY : ∀ q ∈ qs, ∀ m ∈ q.y.names, m ∈ newSampleNames (qs.map (·.y)) :=
    fun q hq m hm => mem_newSampleNames_of_input _ q.y (List.mem_map.mpr ⟨q, hq, rfl⟩) m hm (derivedObs_checks hz).2
  have e1 := c01_delta f2 (qs.map (·.a)) (qs.map (·.y)) covEq z hwfY (by simp) hz n hn1 c (by rw [hU]; exact hc)
  have e2 := c01_delta F (totalGrad qs) (totalInputs qs) covEq z1 hwfX (derivedObs_checks hz1).1 hz1 n hn2 c hc
  rw [e1, e2]
  congr 1
  apply compose_delta qs n c hd
  · intro q hq x hx hxn
    exact weight_telescope_subsets qs q hq x hx n hd hwfX hywf hS hneT hinT hinY hxn
  · intro q hq x hx c' hc'
    exact delta_none_of_not_mem x n c' hc'

end compose

end PV
