/-
  Property C14 — correlator arithmetic acts timeslice-wise and propagates undefined slices.
  Property theorems only; they hold for every cell type β (observables, complex observables,
  numbers) and every temporal extent / matrix dimension.
-/
import PV.Model.Corr
import PV.Proofs.CorrLemmas

namespace PV
open Corr Scalar

variable {β : Type}

/-- C14 (Corr ⊙ scalar, neg, abs, sqrt, log, exp, **): `mapCells f` keeps extent, dimension and
    plateau range, and acts on every entry of every defined slice -/
theorem c14_mapCells (f : β → β) (a : Corr β) :
    (a.mapCells f).T = a.T ∧ (a.mapCells f).N = a.N ∧ (a.mapCells f).prange = a.prange ∧
    ∀ t, (a.mapCells f).content.getD t none = (a.content.getD t none).map (·.map (·.map f)) := by
  refine ⟨by simp [Corr.mapCells, Corr.T], rfl, rfl, ?_⟩
  intro t
  simp [Corr.mapCells, List.getD_eq_getElem?_getD, List.getElem?_map]
  cases a.content[t]? <;> simp

/-- C14 (reverse): slice t of the reversed correlator is slice T-1-t -/
theorem c14_reverse (a : Corr β) (t : Nat) (ht : t < a.T) :
    a.reverse.content.getD t none = a.content.getD (a.T - 1 - t) none := by
  have h1 : t < a.content.length := by simpa [Corr.T] using ht
  simp [Corr.reverse, Corr.T, List.getD_eq_getElem?_getD, List.getElem?_reverse h1]

/-- C14 (Corr + Corr): same temporal extent and matrix dimension; slice t is undefined iff an
    operand is undefined there, else the element-wise sum of the operands' slices -/
theorem c14_add_pointwise [Add β] (a b c : Corr β) (h : Corr.add a b = .ok c) :
    c.T = a.T ∧ c.N = a.N ∧
    ∀ t, t < a.T → c.content.getD t none = zipSpec (· + ·) (a.content.getD t none) (b.content.getD t none) := by
  unfold Corr.add at h
  split at h
  · cases h
  · rename_i hc
    simp at hc
    cases h
    refine ⟨zipCorr_length _ a b hc.2, rfl, fun t ht => zipCorr_getD _ a b hc.2 t ht⟩


/-- C14 (Corr * Corr) -/
theorem c14_mul_pointwise [Mul β] (a b c : Corr β) (h : Corr.mul a b = .ok c) :
    c.T = a.T ∧ c.N = max a.N b.N ∧
    ∀ t, t < a.T → c.content.getD t none = zipSpec (· * ·) (a.content.getD t none) (b.content.getD t none) := by
  unfold Corr.mul at h
  split at h
  · cases h
  · rename_i hc
    simp at hc
    cases h
    refine ⟨zipCorr_length _ a b hc.2, rfl, fun t ht => zipCorr_getD _ a b hc.2 t ht⟩


/-- C14 (Corr / Corr): as above, and additionally undefined where the quotient is not a number -/
theorem c14_div_pointwise [Scalar β] (a b c : Corr β) (h : Corr.div a b = .ok c) :
    c.T = a.T ∧
    ∀ t, t < a.T → c.content.getD t none =
      nanToNone (zipSpec (· / ·) (a.content.getD t none) (b.content.getD t none)) := by
  unfold Corr.div at h
  split at h
  · cases h
  · rename_i hc
    simp only [] at h
    split at h
    · cases h
    · simp at hc
      cases h
      refine ⟨by simpa [Corr.T] using zipCorr_length _ a b hc.2, fun t ht => ?_⟩
      have hl := zipCorr_length (· / ·) a b hc.2
      have := zipCorr_getD (· / ·) a b hc.2 t ht
      rw [← this]
      simp only [List.getD_eq_getElem?_getD, List.getElem?_map]
      have h3 : t < (zipCorr (· / ·) a b).length := by omega
      simp [List.getElem?_eq_getElem h3]


/-- C14 (functions): an elementary function acts on every entry of every defined slice; a slice
    whose result is not a number becomes undefined; the call fails only if nothing is defined -/
theorem c14_applyFunc [Scalar β] (f : β → β) (a c : Corr β) (h : Corr.applyFunc f a = .ok c) :
    c.T = a.T ∧ c.N = a.N ∧
    ∀ t, c.content.getD t none = nanToNone ((a.content.getD t none).map (·.map (·.map f))) := by
  unfold Corr.applyFunc at h
  simp only [] at h
  split at h
  · cases h
  · cases h
    exact ⟨by simp [Corr.T], rfl, fun t => applyFunc_getD f a t⟩


theorem c14_applyFunc_fails_iff [Scalar β] (f : β → β) (a : Corr β) :
    (∃ e, Corr.applyFunc f a = .error e) ↔
      ∀ t, t < a.T → nanToNone ((a.content.getD t none).map (·.map (·.map f))) = none := by
  unfold Corr.applyFunc
  simp only []
  constructor
  · rintro ⟨e, h⟩ t ht
    split at h
    · rename_i hall
      rw [← applyFunc_getD]
      rw [List.all_eq_true] at hall
      have hl : t < ((a.content.map (·.map (·.map (·.map f)))).map nanToNone).length := by
        simpa [Corr.T] using ht
      have := hall _ (List.getElem_mem hl)
      rw [List.getD_eq_getElem?_getD, List.getElem?_eq_getElem hl]
      simpa using this
    · cases h
  · intro hall
    refine ⟨.allNone, ?_⟩
    rw [if_pos]
    rw [List.all_eq_true]
    intro x hx
    obtain ⟨t, ht, rfl⟩ := List.getElem_of_mem hx
    have h1 := hall t (by simpa [Corr.T] using ht)
    rw [← applyFunc_getD, List.getD_eq_getElem?_getD, List.getElem?_eq_getElem ht] at h1
    simp at h1
    simp [h1]


/-- C14 (roll): slice t of the rolled correlator is slice (t - dt) mod T, for EVERY integer shift
    (also |dt| > T) -/
theorem c14_roll (a : Corr β) (dt : Int) (t : Nat) (ht : t < a.T) :
    (a.roll dt).T = a.T ∧
    (a.roll dt).content.getD t none = a.content.getD (Int.toNat (Int.emod ((t : Int) - dt) (a.T : Int))) none := by
  have hne : a.content.length ≠ 0 := by simp [Corr.T] at ht; omega
  obtain ⟨hs, hidx⟩ := roll_index a.T t dt ht
  rw [hidx]
  simp only [Corr.roll, Py.roll, Corr.T, if_neg hne] at *
  exact rot_getD a.content _ t hs ht


/-- C14 (thin): keeps exactly the slices with (offset + t) ≡ 0 mod spacing -/
theorem c14_thin (a : Corr β) (spacing : Nat) (offset : Int) (t : Nat) (ht : t < a.T) :
    (a.thin spacing offset).T = a.T ∧
    (a.thin spacing offset).content.getD t none =
      (if Py.fmod (offset + t) spacing != 0 then none else a.content.getD t none) := by
  have h1 : t < a.content.length := by simpa [Corr.T] using ht
  constructor
  · simp [Corr.thin, Corr.T]
  · simp [Corr.thin, Corr.T, List.getD_eq_getElem?_getD, h1]


/-- C14 (symmetric / anti_symmetric): slice 0 is kept; slice t ≥ 1 is ½(C(t) ± C(T-t)), undefined
    when either is undefined -/
theorem c14_symmetrize [Scalar β] (sign half : β) (a c : Corr β) (h : Corr.symmetrize sign half a = .ok c) :
    c.T = a.T ∧ c.prange = a.prange ∧ c.content.getD 0 none = a.content.getD 0 none ∧
    ∀ t, 1 ≤ t → t < a.T → c.cell? t =
      (match a.cell? t, a.cell? (a.T - t) with
       | some x, some y => some (half * (x + sign * y))
       | _, _ => none) := by
  unfold Corr.symmetrize at h
  split at h
  · cases h
  split at h
  · cases h
  simp only [] at h
  split at h
  · cases h
  rename_i hall
  cases h
  refine ⟨by simp [Corr.T], rfl, ?_, ?_⟩
  · by_cases h0 : a.T = 0
    · exfalso; apply hall; simp [h0]
    · simp [List.getD_eq_getElem?_getD, List.getElem?_map, List.getElem?_range (Nat.pos_of_ne_zero h0)]
  · intro t h1 ht
    have ht0 : (t == 0) = false := by simp; omega
    have hc : ∀ (l : List (Option (Mat β))), Corr.cell? ({ content := l, N := 1, prange := a.prange } : Corr β) t
        = match l.getD t none with | some [[x]] => some x | _ => none := fun l => rfl
    rw [hc]
    simp only [List.getD_eq_getElem?_getD, List.getElem?_map, List.getElem?_range ht,
      Option.map_some, Option.getD_some, ht0]
    cases a.cell? t <;> cases a.cell? (a.T - t) <;> simp


/-- C14 (Hankel, periodic): entry (i, j) of slice t is C((t + i + j) mod T) -/
theorem c14_hankel_periodic (a c : Corr β) (n : Nat) (h : a.hankel n true = .ok c) (t : Nat) (ht : t < a.T) :
    c.T = a.T ∧ c.N = n ∧
    c.content.getD t none =
      (List.range n).mapM (fun i => (List.range n).mapM (fun j => a.cell? ((t + i + j) % a.T))) := by
  unfold Corr.hankel at h
  split at h
  · cases h
  cases h
  refine ⟨by simp [Corr.T], rfl, ?_⟩
  simp [List.getD_eq_getElem?_getD, List.getElem?_map, List.getElem?_range ht]


/-- C14 (Hankel, not periodic): slices whose window leaves the lattice are undefined -/
theorem c14_hankel_open (a c : Corr β) (n : Nat) (hn : 0 < n) (h : a.hankel n false = .ok c) (t : Nat) (ht : t < a.T) :
    c.content.getD t none =
      (if t + 2 * (n - 1) ≥ a.T then none
       else (List.range n).mapM (fun i => (List.range n).mapM (fun j => a.cell? (t + i + j)))) := by
  unfold Corr.hankel at h
  split at h
  · cases h
  cases h
  simp [List.getD_eq_getElem?_getD, List.getElem?_map, List.getElem?_range ht, hn]


/-- C14 (item): `item(i, j)` keeps the temporal extent, is single-valued, and on every timeslice holds
    entry (i, j) of the operand's matrix — undefined exactly where the operand is undefined (or has
    no such entry) -/
theorem c14_item (a c : Corr β) (i j : Nat) (h : a.item i j = .ok c) :
    c.T = a.T ∧ c.N = 1 ∧
    ∀ t, t < a.T → c.content.getD t none =
      (a.content.getD t none).bind (fun mm => ((mm.getD i [])[j]?).map (fun x => [[x]])) := by
  unfold Corr.item at h
  split at h
  · cases h
  cases h
  refine ⟨by simp [Corr.T], rfl, ?_⟩
  intro t ht
  have h1 : t < a.content.length := by simpa [Corr.T] using ht
  simp only [List.getD_eq_getElem?_getD, List.getElem?_map, List.getElem?_eq_getElem h1, Option.map_some, Option.getD_some]
  cases a.content[t] with
  | none => rfl
  | some mm =>
    simp only [Option.bind_some]
    cases (mm[i]?.getD [])[j]? <;> rfl

/-- C14 (trace): on every defined timeslice the sum of the diagonal entries; undefined exactly where
    the operand is undefined -/
theorem c14_trace [Scalar β] (a c : Corr β) (h : a.trace = .ok c) :
    c.T = a.T ∧ c.N = 1 ∧
    ∀ t, t < a.T → c.content.getD t none =
      (a.content.getD t none).map (fun mm => [[Scalar.sum ((List.range a.N).map (fun i => (mm.getD i []).getD i 0))]]) := by
  unfold Corr.trace at h
  split at h
  · cases h
  cases h
  refine ⟨by simp [Corr.T], rfl, ?_⟩
  intro t ht
  have h1 : t < a.content.length := by simpa [Corr.T] using ht
  simp only [List.getD_eq_getElem?_getD, List.getElem?_map, List.getElem?_eq_getElem h1, Option.map_some, Option.getD_some]

/-- `item` and `trace` are refused for single-valued correlators -/
theorem c14_item_trace_need_matrix [Scalar β] (a : Corr β) (h : a.N = 1) (i j : Nat) :
    a.item i j = .error .needMatrix ∧ a.trace = .error .needMatrix := by
  simp [Corr.item, Corr.trace, h]

/-! ### the constructor from an N × N array of single-valued correlators -/

/-- **C14 (matrix correlator from an array of correlators), all inputs.**  Whatever array the constructor accepts: the result has
    dimension N = number of rows, and on every timeslice `t` it is undefined exactly where SOME entry is undefined at `t`; where
    it is defined, entry (i, j) of its matrix is the cell of correlator (i, j) at `t` - no transposition, no shift in `t`. -/
theorem c14_ctor_matrix (cs : List (List (Corr β))) (c : Corr β) (h : Corr.ofMatrix cs = .ok c) :
    c.N = cs.length ∧
    ∀ t, t < c.T →
      (∀ m, c.content[t]? = some (some m) →
        ∀ i (hi : i < cs.length) j (hj : j < cs[i].length), (cs[i][j]).cell? t = (m[i]?.bind (·[j]?))) ∧
      (c.content[t]? = some none ↔ ∃ i, ∃ hi : i < cs.length, ∃ j, ∃ hj : j < cs[i].length, (cs[i][j]).cell? t = none) := by
  unfold Corr.ofMatrix at h
  simp only [] at h
  split at h
  · cases h
  split at h
  · cases h
  split at h
  · cases h
  rename_i c0 rest hfl
  split at h
  · cases h
  injection h with h
  subst h
  refine ⟨rfl, ?_⟩
  intro t ht
  have ht' : t < c0.T := by simpa [Corr.T] using ht
  have hcont : ((List.range c0.T).map (fun t => cs.mapM (fun r => r.mapM (fun x => x.cell? t))))[t]?
      = some (cs.mapM (fun r => r.mapM (fun x => x.cell? t))) := by
    simp [List.getElem?_map, List.getElem?_range ht']
  show (∀ m, ((List.range c0.T).map (fun t => cs.mapM (fun r => r.mapM (fun x => x.cell? t))))[t]? = some (some m) → _) ∧
    (((List.range c0.T).map (fun t => cs.mapM (fun r => r.mapM (fun x => x.cell? t))))[t]? = some none ↔ _)
  rw [hcont]
  constructor
  · intro m hm
    have hm' : cs.mapM (fun r => r.mapM (fun x => x.cell? t)) = some m := Option.some.inj hm
    obtain ⟨hl, hk⟩ := (mapM_some_iff' _ cs m).1 hm'
    intro i hi j hj
    have hrow := hk i hi
    have hmi : i < m.length := by omega
    rw [List.getElem?_eq_getElem hmi] at hrow
    obtain ⟨hl2, hk2⟩ := (mapM_some_iff' _ cs[i] m[i]).1 hrow
    rw [List.getElem?_eq_getElem hmi]
    simpa using hk2 j hj
  · constructor
    · intro hn
      have hn' : cs.mapM (fun r => r.mapM (fun x => x.cell? t)) = none := Option.some.inj hn
      obtain ⟨i, hi, hrow⟩ := (mapM_none_iff' _ cs).1 hn'
      obtain ⟨j, hj, hcell⟩ := (mapM_none_iff' _ cs[i]).1 hrow
      exact ⟨i, hi, j, hj, hcell⟩
    · rintro ⟨i, hi, j, hj, hcell⟩
      have hrow : cs[i].mapM (fun x => x.cell? t) = none := (mapM_none_iff' _ cs[i]).2 ⟨j, hj, hcell⟩
      have : cs.mapM (fun r => r.mapM (fun x => x.cell? t)) = none := (mapM_none_iff' _ cs).2 ⟨i, hi, hrow⟩
      rw [this]

end PV
