/-
  Property C14 — correlator arithmetic acts timeslice-wise and propagates undefined slices.
  Property theorems only; they hold for every cell type β (observables, complex observables,
  numbers) and every temporal extent / matrix dimension.
-/
import PV.Model.Corr

namespace PV
open Corr

variable {β : Type}

/-- C14 (Corr ⊙ scalar, neg, abs, sqrt, log, exp, **): `mapCells f` keeps extent, dimension and
    plateau range, and acts on every entry of every defined slice -/
theorem c14_mapCells (f : β → β) (a : Corr β) :
    (a.mapCells f).T = a.T ∧ (a.mapCells f).N = a.N ∧ (a.mapCells f).prange = a.prange ∧
    ∀ t, (a.mapCells f).content.getD t none = (a.content.getD t none).map (·.map (·.map f)) := by
  refine ⟨by simp [Corr.mapCells, Corr.T], rfl, rfl, ?_⟩
  intro t
  simp [Corr.mapCells, List.getD_eq_getElem?_getD, List.getElem?_map]
  cases a.content[t]? <;> simp

/-- C14 (reverse): slice t of the reversed correlator is slice T-1-t -/
theorem c14_reverse (a : Corr β) (t : Nat) (ht : t < a.T) :
    a.reverse.content.getD t none = a.content.getD (a.T - 1 - t) none := by
  have h1 : t < a.content.length := by simpa [Corr.T] using ht
  simp [Corr.reverse, Corr.T, List.getD_eq_getElem?_getD, List.getElem?_reverse h1]

end PV
