/-
  PV.Todo.C06 — mathematical backbone of property C06: covariance and correlation matrices are
  consistent with the individual errors.

  Background.  For observables a, b measured on replicas r with fluctuation vectors a_r, b_r
  (restricted to the common configurations) the library computes per ensemble
      g = (Σ_r ⟨a_r, b_r⟩) / (Σ_r √(⟨a_r, a_r⟩ ⟨b_r, b_r⟩))
  and sums these over ensembles; the correlation matrix is corr_ij = cov_ij / √(cov_ii cov_jj).
  The theorems below are the identities and inequalities, valid for all sizes, that this code
  relies on.  Everything is stated over ℝ with Mathlib's `Matrix`, `dotProduct` (`⬝ᵥ`),
  `mulVec` (`*ᵥ`), `Real.sqrt`.
-/
import Mathlib.Data.Matrix.Basic
import Mathlib.Data.Matrix.Mul
import Mathlib.Data.Matrix.PEquiv
import Mathlib.Data.Real.Basic
import Mathlib.Analysis.Real.Sqrt
import Mathlib.Algebra.Order.BigOperators.Ring.Finset
import Mathlib.LinearAlgebra.Matrix.NonsingularInverse
import Mathlib.LinearAlgebra.Matrix.Permutation
import Mathlib.LinearAlgebra.Matrix.Trace
import Mathlib.LinearAlgebra.Matrix.DotProduct
import Mathlib.LinearAlgebra.Matrix.PosDef
import Mathlib.Algebra.Order.Star.Real
import Mathlib.Tactic.Ring
import Mathlib.Tactic.Linarith
import Mathlib.Tactic.Positivity
import Mathlib.Tactic.FieldSimp
import Mathlib.Tactic.NormNum
import Mathlib.Tactic.FinCases

namespace PV.C06
open Matrix Finset

/-! ### helper lemmas -/

/-- Cauchy–Schwarz for one replica, in the `|·| ≤ √(· * ·)` form -/
theorem abs_sum_mul_le_sqrt {κ : Type*} [Fintype κ] (f g : κ → ℝ) :
    |∑ k, f k * g k| ≤ Real.sqrt ((∑ k, f k ^ 2) * (∑ k, g k ^ 2)) :=
  Real.abs_le_sqrt (Finset.sum_mul_sq_le_sq_mul_sq Finset.univ f g)

/-- the quadratic form of a matrix written out as a double sum -/
theorem quadForm_eq_sum {n : Type*} [Fintype n] (C : Matrix n n ℝ) (g h : n → ℝ) :
    g ⬝ᵥ C *ᵥ h = ∑ i, ∑ j, g i * C i j * h j := by
  simp only [dotProduct, mulVec, Finset.mul_sum, mul_assoc]

/-- bilinear form of a transposed matrix: swap the arguments -/
theorem bilin_transpose {m n : Type*} [Fintype m] [Fintype n] (C : Matrix m n ℝ)
    (g : m → ℝ) (h : n → ℝ) : g ⬝ᵥ C *ᵥ h = h ⬝ᵥ Cᵀ *ᵥ g := by
  rw [Matrix.mulVec_transpose, Matrix.dotProduct_mulVec, dotProduct_comm]

/-- conjugating the quadratic form: `v ⬝ᵥ (Aᵀ * C * A) *ᵥ w = (A *ᵥ v) ⬝ᵥ C *ᵥ (A *ᵥ w)` -/
theorem bilin_conj {m n : Type*} [Fintype m] [Fintype n] (A : Matrix m n ℝ) (C : Matrix m m ℝ)
    (v w : n → ℝ) : v ⬝ᵥ (Aᵀ * C * A) *ᵥ w = (A *ᵥ v) ⬝ᵥ C *ᵥ (A *ᵥ w) := by
  rw [← Matrix.mulVec_mulVec, ← Matrix.mulVec_mulVec, Matrix.dotProduct_mulVec v Aᵀ,
    Matrix.vecMul_transpose]

end PV.C06

namespace PV
open Matrix Finset PV.C06

/-! ### 1. Cauchy–Schwarz summed over replicas -/

/-- C06 (correlation entries lie in [-1,1]; numerator vs. denominator of the per-ensemble
    normalised element `g`).  For finitely many replicas `r : ι`, each with its own finite set of
    common configurations `κ r` (so no zero padding is needed) and real fluctuation vectors
    `a r, b r : κ r → ℝ`,
    `|Σ_r Σ_k a_r k * b_r k| ≤ Σ_r √((Σ_k (a_r k)²) * (Σ_k (b_r k)²))`.
    No hypotheses. -/
theorem c06_cauchy_replicas {ι : Type*} [Fintype ι] {κ : ι → Type*} [∀ r, Fintype (κ r)]
    (a b : ∀ r, κ r → ℝ) :
    |∑ r, ∑ k, a r k * b r k| ≤
      ∑ r, Real.sqrt ((∑ k, a r k ^ 2) * (∑ k, b r k ^ 2)) :=
  (Finset.abs_sum_le_sum_abs _ _).trans
    (Finset.sum_le_sum fun r _ => abs_sum_mul_le_sqrt (a r) (b r))

/-- C06 (the version with one common configuration index `κ`, i.e. with zero padding): special
    case of `c06_cauchy_replicas` for a non-dependent family `a b : ι → κ → ℝ`. -/
theorem c06_cauchy_replicas_common {ι κ : Type*} [Fintype ι] [Fintype κ] (a b : ι → κ → ℝ) :
    |∑ r, ∑ k, a r k * b r k| ≤
      ∑ r, Real.sqrt ((∑ k, a r k ^ 2) * (∑ k, b r k ^ 2)) :=
  c06_cauchy_replicas (κ := fun _ => κ) a b

/-- C06 (|g| ≤ 1 per ensemble): the normalised element
    `g = (Σ_r ⟨a_r,b_r⟩) / (Σ_r √(⟨a_r,a_r⟩⟨b_r,b_r⟩))` has absolute value at most one.  This holds
    without hypotheses: when the denominator vanishes, real division by zero gives `g = 0`. -/
theorem c06_cauchy_replicas_ratio {ι : Type*} [Fintype ι] {κ : ι → Type*} [∀ r, Fintype (κ r)]
    (a b : ∀ r, κ r → ℝ) :
    |(∑ r, ∑ k, a r k * b r k) /
      (∑ r, Real.sqrt ((∑ k, a r k ^ 2) * (∑ k, b r k ^ 2)))| ≤ 1 := by
  have hden : 0 ≤ ∑ r, Real.sqrt ((∑ k, a r k ^ 2) * (∑ k, b r k ^ 2)) :=
    Finset.sum_nonneg fun r _ => Real.sqrt_nonneg _
  rw [abs_div, abs_of_nonneg hden]
  exact div_le_one_of_le₀ (c06_cauchy_replicas a b) hden

/-! ### 2. unit diagonal of the normalised element -/

/-- C06 (unit diagonal of the normalised element): with `a = b` the ratio numerator / denominator
    is exactly one, `(Σ_r Σ_k (a_r k)²) / (Σ_r √((Σ_k (a_r k)²) * (Σ_k (a_r k)²))) = 1`.
    Added hypothesis (explicit, minimal): the denominator is non-zero (equivalently, some replica
    has a non-zero fluctuation). -/
theorem c06_self_normalised {ι : Type*} [Fintype ι] {κ : ι → Type*} [∀ r, Fintype (κ r)]
    (a : ∀ r, κ r → ℝ)
    (hden : (∑ r, Real.sqrt ((∑ k, a r k ^ 2) * (∑ k, a r k ^ 2))) ≠ 0) :
    (∑ r, ∑ k, a r k ^ 2) /
      (∑ r, Real.sqrt ((∑ k, a r k ^ 2) * (∑ k, a r k ^ 2))) = 1 := by
  have h : ∀ r, Real.sqrt ((∑ k, a r k ^ 2) * (∑ k, a r k ^ 2)) = ∑ k, a r k ^ 2 := fun r =>
    Real.sqrt_mul_self (Finset.sum_nonneg fun k _ => sq_nonneg _)
  simp only [h] at hden ⊢
  exact div_self hden

/-- non-vacuity of `c06_self_normalised`: two replicas, three configurations,
    `a_0 = (1,2,0)`, `a_1 = (0,-1,3)`; the denominator is `5 + 10 ≠ 0`. -/
example :
    (∑ r : Fin 2, Real.sqrt ((∑ k : Fin 3, (!![1, 2, 0; 0, -1, 3] : Matrix _ _ ℝ) r k ^ 2) *
      (∑ k : Fin 3, (!![1, 2, 0; 0, -1, 3] : Matrix _ _ ℝ) r k ^ 2))) ≠ 0 := by
  simp [Fin.sum_univ_succ]
  norm_num
  exact ne_of_gt (by positivity)

/-! ### 3. Gram matrices are positive semidefinite -/

/-- C06 (single chain, common configurations: the covariance at window 0 is PSD).  For a real
    matrix `X : Matrix m n ℝ` the Gram matrix `Xᵀ * X` is positive semidefinite in the
    quadratic-form sense, because `v ⬝ᵥ (Xᵀ * X) *ᵥ v = ‖X v‖²`; it is also symmetric.
    No hypotheses. -/
theorem c06_gram_psd {m n : Type*} [Fintype m] [Fintype n] (X : Matrix m n ℝ) :
    (Xᵀ * X).IsSymm ∧
    (∀ v : n → ℝ, v ⬝ᵥ (Xᵀ * X) *ᵥ v = (X *ᵥ v) ⬝ᵥ (X *ᵥ v)) ∧
    (∀ v : n → ℝ, 0 ≤ v ⬝ᵥ (Xᵀ * X) *ᵥ v) := by
  have key : ∀ v : n → ℝ, v ⬝ᵥ (Xᵀ * X) *ᵥ v = (X *ᵥ v) ⬝ᵥ (X *ᵥ v) := fun v => by
    rw [← Matrix.mulVec_mulVec, Matrix.dotProduct_mulVec, Matrix.vecMul_transpose]
  refine ⟨?_, key, fun v => ?_⟩
  · rw [Matrix.IsSymm, Matrix.transpose_mul, Matrix.transpose_transpose]
  · rw [key]
    exact Finset.sum_nonneg fun i _ => mul_self_nonneg _

/-- C06 (same fact in Mathlib's vocabulary): `Xᵀ * X` is `Matrix.PosSemidef` over ℝ. -/
theorem c06_gram_posSemidef {m n : Type*} [Fintype m] [Fintype n] (X : Matrix m n ℝ) :
    (Xᵀ * X).PosSemidef := by
  have h := Matrix.posSemidef_conjTranspose_mul_self X
  rwa [Matrix.conjTranspose_eq_transpose_of_trivial] at h

/-! ### 4. rescaling by the errors keeps PSD -/

/-- C06 (rescaling the correlation matrix by the errors keeps PSD).  If `C` is positive
    semidefinite in the quadratic-form sense (`∀ v, 0 ≤ v ⬝ᵥ C *ᵥ v`) and `D = diagonal d`, then
    `D * C * D` is positive semidefinite; if moreover `C` is symmetric then so is `D * C * D`.
    (Symmetry of `C` is not needed for the quadratic-form inequality, so it is only a hypothesis of
    the symmetry conclusion.) -/
theorem c06_rescale_psd {n : Type*} [Fintype n] [DecidableEq n] (C : Matrix n n ℝ) (d : n → ℝ)
    (hC : ∀ v : n → ℝ, 0 ≤ v ⬝ᵥ C *ᵥ v) :
    (∀ v : n → ℝ, 0 ≤ v ⬝ᵥ (diagonal d * C * diagonal d) *ᵥ v) ∧
    (C.IsSymm → (diagonal d * C * diagonal d).IsSymm) := by
  constructor
  · intro v
    have h := bilin_conj (diagonal d) C v v
    rw [Matrix.diagonal_transpose] at h
    rw [h]
    exact hC _
  · intro hs
    rw [Matrix.IsSymm, Matrix.transpose_mul, Matrix.transpose_mul, Matrix.diagonal_transpose,
      hs.eq, Matrix.mul_assoc]

/-- non-vacuity of `c06_rescale_psd`: `C = [[2,1],[1,2]]` is symmetric and PSD
    (`2x² + 2xy + 2y² = x² + y² + (x+y)²`). -/
example : (!![2, 1; 1, 2] : Matrix (Fin 2) (Fin 2) ℝ).IsSymm ∧
    ∀ v : Fin 2 → ℝ, 0 ≤ v ⬝ᵥ (!![2, 1; 1, 2] : Matrix (Fin 2) (Fin 2) ℝ) *ᵥ v := by
  constructor
  · ext i j; fin_cases i <;> fin_cases j <;> rfl
  · intro v
    simp [dotProduct, mulVec, Fin.sum_univ_succ]
    nlinarith [sq_nonneg (v 0), sq_nonneg (v 1), sq_nonneg (v 0 + v 1)]

/-! ### 5. permuting rows and columns simultaneously -/

/-- C06 (`sort_corr` and list permutation).  For a permutation `σ` of a finite index type and a
    matrix `C`, the reindexed matrix `C' i j = C (σ i) (σ j)` (`C.submatrix σ σ`) equals
    `P * C * Pᵀ` for the permutation matrix `P = σ.permMatrix ℝ` (`P i j = 1` iff `σ i = j`);
    entrywise `C' i j = C (σ i) (σ j)`, in particular the diagonal is permuted,
    `C' i i = C (σ i) (σ i)`; and a symmetric `C` stays symmetric. -/
theorem c06_perm_conj {n : Type*} [Fintype n] [DecidableEq n] (σ : Equiv.Perm n)
    (C : Matrix n n ℝ) :
    σ.permMatrix ℝ * C * (σ.permMatrix ℝ)ᵀ = C.submatrix σ σ ∧
    (∀ i j, (σ.permMatrix ℝ * C * (σ.permMatrix ℝ)ᵀ) i j = C (σ i) (σ j)) ∧
    (∀ i, (σ.permMatrix ℝ * C * (σ.permMatrix ℝ)ᵀ) i i = C (σ i) (σ i)) ∧
    (C.IsSymm → (σ.permMatrix ℝ * C * (σ.permMatrix ℝ)ᵀ).IsSymm) := by
  have key : σ.permMatrix ℝ * C * (σ.permMatrix ℝ)ᵀ = C.submatrix σ σ := by
    rw [Matrix.transpose_permMatrix, Equiv.Perm.permMatrix, Equiv.Perm.permMatrix,
      PEquiv.toMatrix_toPEquiv_mul, PEquiv.mul_toMatrix_toPEquiv]
    ext i j
    simp [Equiv.Perm.inv_def]
  refine ⟨key, fun i j => ?_, fun i => ?_, fun hs => ?_⟩
  · rw [key, Matrix.submatrix_apply]
  · rw [key, Matrix.submatrix_apply]
  · rw [key]
    exact hs.submatrix σ

/-- non-vacuity of the symmetry hypothesis in `c06_perm_conj` -/
example : (!![1, 5; 5, 2] : Matrix (Fin 2) (Fin 2) ℝ).IsSymm := by
  ext i j; fin_cases i <;> fin_cases j <;> rfl

/-! ### 6. eigenvalue smoothing preserves the trace -/

/-- C06 (eigenvalue smoothing preserves the trace).  If `Vᵀ * V = 1` then
    `trace (V * diagonal d * Vᵀ) = Σ i, d i`.  For a square `V` the TASK hypothesis "orthogonal"
    (`Vᵀ * V = 1` and `V * Vᵀ = 1`) is equivalent to `Vᵀ * V = 1` alone and only this half is
    used, so only it is assumed; the statement then also covers rectangular `V` with orthonormal
    columns. -/
theorem c06_smooth_trace {m n : Type*} [Fintype m] [Fintype n] [DecidableEq n]
    (V : Matrix m n ℝ) (d : n → ℝ) (hV : Vᵀ * V = 1) :
    trace (V * diagonal d * Vᵀ) = ∑ i, d i := by
  rw [Matrix.trace_mul_comm, ← Matrix.mul_assoc, hV, Matrix.one_mul, Matrix.trace_diagonal]

/-- C06 (corollary: smoothing followed by normalising the eigenvalues to mean 1 keeps the trace
    `n` of a correlation matrix).  If `V` is orthogonal (only `Vᵀ * V = 1` is used; for square `V`
    it implies `V * Vᵀ = 1`) and the eigenvalues `d` have mean one, `(Σ d) / n = 1`, then
    `trace (V * diagonal d * Vᵀ) = n`.  (The mean-one hypothesis forces `n ≠ 0`, since
    `x / 0 = 0 ≠ 1` in ℝ.) -/
theorem c06_smooth_trace_mean_one {n : Type*} [Fintype n] [DecidableEq n]
    (V : Matrix n n ℝ) (d : n → ℝ) (hV : Vᵀ * V = 1)
    (hmean : (∑ i, d i) / (Fintype.card n : ℝ) = 1) :
    trace (V * diagonal d * Vᵀ) = (Fintype.card n : ℝ) := by
  rw [c06_smooth_trace V d hV]
  have hn : (Fintype.card n : ℝ) ≠ 0 := by
    intro h0
    rw [h0, div_zero] at hmean
    exact zero_ne_one hmean
  exact (div_eq_one_iff_eq hn).mp hmean

/-- non-vacuity of `c06_smooth_trace` / `c06_smooth_trace_mean_one`: the rotation by the angle with
    `cos = 3/5, sin = 4/5` is orthogonal, and `d = (1/2, 3/2)` has mean one. -/
example :
    let V : Matrix (Fin 2) (Fin 2) ℝ := !![3/5, -4/5; 4/5, 3/5]
    let d : Fin 2 → ℝ := ![1/2, 3/2]
    Vᵀ * V = 1 ∧ V * Vᵀ = 1 ∧ (∑ i, d i) / (Fintype.card (Fin 2) : ℝ) = 1 := by
  refine ⟨?_, ?_, ?_⟩
  · ext i j
    fin_cases i <;> fin_cases j <;> simp [Matrix.mul_apply, Fin.sum_univ_succ] <;> norm_num
  · ext i j
    fin_cases i <;> fin_cases j <;> simp [Matrix.mul_apply, Fin.sum_univ_succ] <;> norm_num
  · simp [Fin.sum_univ_succ]; norm_num

/-! ### 7. Cholesky factor of the inverse covariance -/

/-- C06 (`invert_corr_cov_cholesky` returns the factor of the inverse covariance).  Let
    `L * Lᵀ = C` with `L` invertible (`IsUnit L.det`), `D = diagonal d` with all `d i ≠ 0`, and
    `X := L⁻¹ * D`.  Then `X` is the solution of `L * X = D`, and
    `Xᵀ * X = (D⁻¹ * C * D⁻¹)⁻¹`, i.e. `X` is a factor of the inverse of the correlation-type
    matrix `D⁻¹ C D⁻¹`.  Hypotheses: invertibility of `L` and non-vanishing of the `d i`, exactly
    as in the TASK; triangularity of `L` is not needed. -/
theorem c06_chol_inverse {n : Type*} [Fintype n] [DecidableEq n] (L C : Matrix n n ℝ) (d : n → ℝ)
    (hLC : L * Lᵀ = C) (hL : IsUnit L.det) (hd : ∀ i, d i ≠ 0) :
    L * (L⁻¹ * diagonal d) = diagonal d ∧
    (L⁻¹ * diagonal d)ᵀ * (L⁻¹ * diagonal d) =
      ((diagonal d)⁻¹ * C * (diagonal d)⁻¹)⁻¹ := by
  have hLL : L * L⁻¹ = 1 := Matrix.mul_nonsing_inv L hL
  have hLL' : L⁻¹ * L = 1 := Matrix.nonsing_inv_mul L hL
  have hLt : Lᵀ * (L⁻¹)ᵀ = 1 := by rw [← Matrix.transpose_mul, hLL', Matrix.transpose_one]
  have hDdet : IsUnit (diagonal d).det := by
    rw [Matrix.det_diagonal, isUnit_iff_ne_zero]
    exact Finset.prod_ne_zero_iff.mpr fun i _ => hd i
  have hDD : diagonal d * (diagonal d)⁻¹ = 1 := Matrix.mul_nonsing_inv _ hDdet
  have hDD' : (diagonal d)⁻¹ * diagonal d = 1 := Matrix.nonsing_inv_mul _ hDdet
  constructor
  · rw [← Matrix.mul_assoc, hLL, Matrix.one_mul]
  · symm
    apply Matrix.inv_eq_right_inv
    rw [← hLC, Matrix.transpose_mul, Matrix.diagonal_transpose]
    calc (diagonal d)⁻¹ * (L * Lᵀ) * (diagonal d)⁻¹ * (diagonal d * (L⁻¹)ᵀ * (L⁻¹ * diagonal d))
        = (diagonal d)⁻¹ * (L * (Lᵀ * (((diagonal d)⁻¹ * diagonal d) * (L⁻¹)ᵀ)) * L⁻¹)
            * diagonal d := by
          simp only [Matrix.mul_assoc]
      _ = 1 := by
          rw [hDD', Matrix.one_mul, hLt, Matrix.mul_one, hLL, Matrix.mul_one, hDD']

/-- non-vacuity of `c06_chol_inverse`: `L = [[2,0],[1,3]]` (lower triangular, det 6),
    `C = L Lᵀ = [[4,2],[2,10]]`, `d = (2, 5)`. -/
example :
    let L : Matrix (Fin 2) (Fin 2) ℝ := !![2, 0; 1, 3]
    let C : Matrix (Fin 2) (Fin 2) ℝ := !![4, 2; 2, 10]
    let d : Fin 2 → ℝ := ![2, 5]
    L * Lᵀ = C ∧ IsUnit L.det ∧ ∀ i, d i ≠ 0 := by
  refine ⟨?_, ?_, ?_⟩
  · ext i j
    fin_cases i <;> fin_cases j <;> simp [Matrix.mul_apply, Fin.sum_univ_succ] <;> norm_num
  · simp [Matrix.det_fin_two]
  · intro i; fin_cases i <;> simp

/-! ### 8. fit error band -/

/-- C06 (fit error band).  For a PSD matrix `C` (quadratic-form sense) and a gradient vector `g`,
    the argument of the square root in `√(g ⬝ᵥ C *ᵥ g)` is non-negative, it equals the variance of
    the linear combination `Σ i j, g i * C i j * g j`, and hence the square root is a genuine
    standard deviation: `√(g ⬝ᵥ C *ᵥ g) ^ 2 = Σ i j, g i * C i j * g j`.  (Symmetry of `C` is not
    needed for any of these statements and is therefore not assumed.) -/
theorem c06_error_band {n : Type*} [Fintype n] (C : Matrix n n ℝ) (g : n → ℝ)
    (hC : ∀ v : n → ℝ, 0 ≤ v ⬝ᵥ C *ᵥ v) :
    0 ≤ g ⬝ᵥ C *ᵥ g ∧
    g ⬝ᵥ C *ᵥ g = ∑ i, ∑ j, g i * C i j * g j ∧
    Real.sqrt (g ⬝ᵥ C *ᵥ g) ^ 2 = ∑ i, ∑ j, g i * C i j * g j := by
  refine ⟨hC g, quadForm_eq_sum C g g, ?_⟩
  rw [Real.sq_sqrt (hC g), quadForm_eq_sum]

/-- non-vacuity of `c06_error_band` (same PSD matrix as above) -/
example : ∀ v : Fin 2 → ℝ, 0 ≤ v ⬝ᵥ (!![2, 1; 1, 2] : Matrix (Fin 2) (Fin 2) ℝ) *ᵥ v := by
  intro v
  simp [dotProduct, mulVec, Fin.sum_univ_succ]
  nlinarith [sq_nonneg (v 0), sq_nonneg (v 1), sq_nonneg (v 0 + v 1)]

/-! ### 9. external covariance input -/

/-- C06 (symmetry of the external-input contribution `J1 Σ J2ᵀ`).  For a symmetric covariance
    matrix `S` and gradient vectors `g1 g2`, `g1 ⬝ᵥ S *ᵥ g2 = g2 ⬝ᵥ S *ᵥ g1`; and if `S` is PSD
    (quadratic-form sense) the diagonal contribution `g ⬝ᵥ S *ᵥ g` is non-negative. -/
theorem c06_external_cov {n : Type*} [Fintype n] (S : Matrix n n ℝ) (hS : S.IsSymm) :
    (∀ g1 g2 : n → ℝ, g1 ⬝ᵥ S *ᵥ g2 = g2 ⬝ᵥ S *ᵥ g1) ∧
    ((∀ v : n → ℝ, 0 ≤ v ⬝ᵥ S *ᵥ v) → ∀ g : n → ℝ, 0 ≤ g ⬝ᵥ S *ᵥ g) := by
  refine ⟨fun g1 g2 => ?_, fun h g => h g⟩
  rw [bilin_transpose S g1 g2, hS.eq]

/-- non-vacuity of `c06_external_cov`: a symmetric PSD matrix exists -/
example : (!![2, 1; 1, 2] : Matrix (Fin 2) (Fin 2) ℝ).IsSymm ∧
    ∀ v : Fin 2 → ℝ, 0 ≤ v ⬝ᵥ (!![2, 1; 1, 2] : Matrix (Fin 2) (Fin 2) ℝ) *ᵥ v := by
  constructor
  · ext i j; fin_cases i <;> fin_cases j <;> rfl
  · intro v
    simp [dotProduct, mulVec, Fin.sum_univ_succ]
    nlinarith [sq_nonneg (v 0), sq_nonneg (v 1), sq_nonneg (v 0 + v 1)]

end PV

section AxiomAudit
end AxiomAudit
