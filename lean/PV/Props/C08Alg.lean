/-
  C08: non-linear and total least-squares fits obey the implicit-function rule.

  Pure mathematics (Mathlib only); no dependence on the executable model.  The theorems are the
  identities behind `pyerrors.fits.least_squares` / `total_least_squares`:

    * the fit parameters p*(y) are defined implicitly by the stationarity condition
      ∇_p χ²(p*(y), y) = 0; differentiating gives  H · ∂p*/∂y + M = 0  with
      H = ∂²χ²/∂p∂p (Hessian) and M = ∂²χ²/∂p∂y (mixed second derivatives);
    * the library computes ∂p*/∂y = -H⁻¹ M (`deriv_y = -scipy.linalg.solve(hess, jac_jac_y[...])`);
    * the total-least-squares code does the same for the concatenated unknown (p, x̂) and slices the
      mixed block out of one big matrix of second derivatives.
-/
import Mathlib.Data.Matrix.Basic
import Mathlib.Data.Matrix.Block
import Mathlib.Data.Matrix.Mul
import Mathlib.LinearAlgebra.Matrix.NonsingularInverse
import Mathlib.LinearAlgebra.Matrix.Symmetric
import Mathlib.Logic.Equiv.Fin.Basic
import Mathlib.Analysis.Calculus.FDeriv.Basic
import Mathlib.Analysis.Calculus.FDeriv.Prod
import Mathlib.Analysis.Calculus.Deriv.Basic
import Mathlib.Analysis.Calculus.Deriv.Prod
import Mathlib.Analysis.Calculus.Deriv.Comp
import Mathlib.Analysis.Calculus.Deriv.Mul
import Mathlib.Analysis.Calculus.FDeriv.Mul
import Mathlib.Algebra.BigOperators.Group.Finset.Basic
import Mathlib.Algebra.Order.BigOperators.Ring.Finset
import Mathlib.Tactic.Ring
import Mathlib.Tactic.Linarith
import Mathlib.Tactic.Positivity
import Mathlib.Tactic.FieldSimp
import Mathlib.Tactic.NormNum

namespace PV.C08

open Matrix Filter Topology

/-! ### 1. algebraic implicit-function rule -/

/-- Helper (general index types): for an invertible square `H`, `H X + M = 0 ↔ X = -H⁻¹ M`. -/
theorem ift_alg_gen {ι κ : Type*} [Fintype ι] [DecidableEq ι]
    (H : Matrix ι ι ℝ) (hH : IsUnit H.det) (M X : Matrix ι κ ℝ) :
    H * X + M = 0 ↔ X = -H⁻¹ * M := by
  constructor
  · intro h
    have h1 : H * X = -M := eq_neg_of_add_eq_zero_left h
    have h2 : H⁻¹ * (H * X) = X := Matrix.nonsing_inv_mul_cancel_left H X hH
    rw [← h2, h1, Matrix.mul_neg, Matrix.neg_mul]
  · intro h
    rw [h, Matrix.neg_mul, Matrix.mul_neg, Matrix.mul_nonsing_inv_cancel_left H M hH]
    exact neg_add_cancel M

/-- C08.1 (implicit-function rule, algebraic core).  For an invertible `p × p` real matrix `H`
    (hypothesis: `IsUnit H.det`, i.e. det H ≠ 0) and `p × n` matrices `M`, `X`:
    `H X + M = 0` holds iff `X = -H⁻¹ M`.
    Backs: differentiating the stationarity condition ∇_p χ²(p(y), y) = 0 w.r.t. the data gives
    `H X + M = 0` for the sensitivity `X = ∂p/∂y`; the library computes `X = -H⁻¹ M`
    (`-scipy.linalg.solve(hess, jac_jac)`), which is therefore the unique solution. -/
theorem _root_.PV.c08_ift_alg {p n : ℕ} (H : Matrix (Fin p) (Fin p) ℝ) (hH : IsUnit H.det)
    (M X : Matrix (Fin p) (Fin n) ℝ) :
    H * X + M = 0 ↔ X = -H⁻¹ * M :=
  ift_alg_gen H hH M X

/-- Non-vacuity of `c08_ift_alg`: `H = !![2, 1; 1, 3]` has determinant 5, a unit of ℝ. -/
example : IsUnit (!![2, 1; 1, 3] : Matrix (Fin 2) (Fin 2) ℝ).det := by
  rw [Matrix.det_fin_two_of]; norm_num

/-! ### 2. one-parameter analytic implicit-function rule -/

/-- Helper: `HasDerivAt` form of the 1-d rule.  If the uncurried `F` has Fréchet derivative `F'` at
    `(p y0, y0)`, `p` has derivative `p'` at `y0`, and `F (p y) y = 0` near `y0`, then
    `p' * ∂F/∂p + ∂F/∂y = 0`, where `∂F/∂p = F' (1, 0)` and `∂F/∂y = F' (0, 1)`. -/
theorem ift_1d_chain (F : ℝ → ℝ → ℝ) (p : ℝ → ℝ) (y0 p' : ℝ) (F' : ℝ × ℝ →L[ℝ] ℝ)
    (hF : HasFDerivAt (fun q : ℝ × ℝ => F q.1 q.2) F' (p y0, y0))
    (hp : HasDerivAt p p' y0)
    (hzero : ∀ᶠ y in 𝓝 y0, F (p y) y = 0) :
    p' * F' (1, 0) + F' (0, 1) = 0 := by
  have hg : HasDerivAt (fun y : ℝ => (p y, y)) (p', (1 : ℝ)) y0 :=
    hp.prodMk (hasDerivAt_id y0)
  have hcomp : HasDerivAt (fun y : ℝ => F (p y) y) (F' (p', 1)) y0 :=
    HasFDerivAt.comp_hasDerivAt (l := fun q : ℝ × ℝ => F q.1 q.2) (f := fun y : ℝ => (p y, y))
      y0 hF hg
  have hconst : HasDerivAt (fun y : ℝ => F (p y) y) 0 y0 :=
    (hasDerivAt_const y0 (0 : ℝ)).congr_of_eventuallyEq hzero
  have h0 : F' (p', 1) = 0 := hcomp.unique hconst
  have hsplit : ((p', 1) : ℝ × ℝ) = p' • ((1, 0) : ℝ × ℝ) + ((0, 1) : ℝ × ℝ) := by
    ext <;> simp
  rw [hsplit, map_add, map_smul, smul_eq_mul] at h0
  exact h0

/-- C08.2 (implicit-function rule, one parameter, analytic form).  Let `F : ℝ → ℝ → ℝ` be such that
    the two-variable map `(p, y) ↦ F p y` is Fréchet differentiable at `(p0, y0)` with derivative
    `F'`; its partial derivatives are `Fp = F' (1, 0)` and `Fy = F' (0, 1)`.  Assume `Fp ≠ 0`,
    `p : ℝ → ℝ` differentiable at `y0` with `p y0 = p0`, and `F (p y) y = 0` for all `y` in a
    neighbourhood of `y0`.  Then `deriv p y0 = -Fy / Fp`.
    Backs: for a one-parameter fit, `F = ∂χ²/∂p`, `Fp` = Hessian, `Fy` = mixed second derivative,
    and the propagated derivative of the fit parameter w.r.t. a data point is `-Fy / Fp`
    (chain rule on the identity F(p(y), y) = 0).  Explicit hypotheses: differentiability of `p`
    at `y0` (not derived here - no smoothness of `F` around the point is assumed) and `Fp ≠ 0`. -/
theorem _root_.PV.c08_ift_1d (F : ℝ → ℝ → ℝ) (p : ℝ → ℝ) (p0 y0 : ℝ) (F' : ℝ × ℝ →L[ℝ] ℝ)
    (hF : HasFDerivAt (fun q : ℝ × ℝ => F q.1 q.2) F' (p0, y0))
    (hFp : F' (1, 0) ≠ 0)
    (hp : DifferentiableAt ℝ p y0) (hp0 : p y0 = p0)
    (hzero : ∀ᶠ y in 𝓝 y0, F (p y) y = 0) :
    deriv p y0 = -F' (0, 1) / F' (1, 0) := by
  subst hp0
  have h := ift_1d_chain F p y0 (deriv p y0) F' hF hp.hasDerivAt hzero
  rw [eq_div_iff hFp]
  linarith

/-- Non-vacuity of `c08_ift_1d`: `F p y = 2 p - y` (stationarity of χ² = (p - y/2)²·const),
    `p y = y / 2`, at `y0 = 1`, `p0 = 1/2`; `F' = 2·fst - snd`, so `Fp = 2 ≠ 0`, `Fy = -1`,
    and the theorem yields `deriv p 1 = 1/2`. -/
example : deriv (fun y : ℝ => y / 2) 1 = 1 / 2 := by
  have hF : HasFDerivAt (fun q : ℝ × ℝ => (fun a b : ℝ => 2 * a - b) q.1 q.2)
      ((2 : ℝ) • ContinuousLinearMap.fst ℝ ℝ ℝ - ContinuousLinearMap.snd ℝ ℝ ℝ)
      ((1 / 2 : ℝ), (1 : ℝ)) := by
    have h1 : HasFDerivAt (fun q : ℝ × ℝ => q.1) (ContinuousLinearMap.fst ℝ ℝ ℝ)
        ((1 / 2 : ℝ), (1 : ℝ)) := hasFDerivAt_fst
    have h2 : HasFDerivAt (fun q : ℝ × ℝ => q.2) (ContinuousLinearMap.snd ℝ ℝ ℝ)
        ((1 / 2 : ℝ), (1 : ℝ)) := hasFDerivAt_snd
    exact (h1.const_mul 2).sub h2
  have hp : DifferentiableAt ℝ (fun y : ℝ => y / 2) 1 :=
    differentiableAt_id.div_const 2
  have h := c08_ift_1d (fun a b : ℝ => 2 * a - b) (fun y : ℝ => y / 2) (1 / 2) 1 _ hF
    (by simp) hp (by norm_num) (Eventually.of_forall (fun y => by ring))
  rw [h]
  simp

/-! ### 3. quadratic model: stationary point and exact shift -/

/-- The stationary point `p*(y) = -(H⁻¹ M) y` of the quadratic model
    `χ²(p, y) = ½ pᵀ H p + pᵀ M y + c(y)`. -/
noncomputable def pstar {p n : ℕ} (H : Matrix (Fin p) (Fin p) ℝ) (M : Matrix (Fin p) (Fin n) ℝ)
    (y : Fin n → ℝ) : Fin p → ℝ :=
  (-H⁻¹ * M) *ᵥ y

/-- The quadratic model `χ²(p, y) = ½ pᵀ H p + pᵀ M y + c(y)`. -/
noncomputable def chisqQuad {p n : ℕ} (H : Matrix (Fin p) (Fin p) ℝ) (M : Matrix (Fin p) (Fin n) ℝ)
    (c : (Fin n → ℝ) → ℝ) (q : Fin p → ℝ) (y : Fin n → ℝ) : ℝ :=
  (1 / 2) * (q ⬝ᵥ H *ᵥ q) + q ⬝ᵥ M *ᵥ y + c y

/-- C08.3 (first-order prediction is exact in the quadratic model).  For the quadratic model
    `χ²(p, y) = ½ pᵀ H p + pᵀ M y + c(y)` with `H` invertible (`IsUnit H.det`), whose `p`-gradient is
    `H p + M y` when `H` is symmetric, let `p*(y) = -(H⁻¹ M) y`.  Then
    (i)   stationarity: `H p*(y) + M y = 0`;
    (ii)  shift formula: `p*(y + δ) - p*(y) = -(H⁻¹ M) δ` exactly;
    (iii) uniqueness: any `q` with `H q + M y = 0` equals `p*(y)`.
    Symmetry of `H` is not needed for (i)-(iii); it is only needed to identify `H p + M y` with the
    gradient and for the minimiser statement, see `quad_complete_square` below.
    Backs: the propagated shift of fit parameters under a data shift δ is `-H⁻¹ M δ`, the quantity
    the property check compares a re-fit against. -/
theorem _root_.PV.c08_stationary_shift {p n : ℕ} (H : Matrix (Fin p) (Fin p) ℝ) (hH : IsUnit H.det)
    (M : Matrix (Fin p) (Fin n) ℝ) (y δ : Fin n → ℝ) :
    H *ᵥ pstar H M y + M *ᵥ y = 0 ∧
    pstar H M (y + δ) - pstar H M y = (-H⁻¹ * M) *ᵥ δ ∧
    ∀ q : Fin p → ℝ, H *ᵥ q + M *ᵥ y = 0 → q = pstar H M y := by
  refine ⟨?_, ?_, ?_⟩
  · unfold pstar
    rw [Matrix.mulVec_mulVec, Matrix.neg_mul, Matrix.mul_neg,
      Matrix.mul_nonsing_inv_cancel_left H M hH, Matrix.neg_mulVec]
    exact neg_add_cancel _
  · unfold pstar
    rw [Matrix.mulVec_add, add_sub_cancel_left]
  · intro q hq
    unfold pstar
    have h1 : H *ᵥ q = -(M *ᵥ y) := eq_neg_of_add_eq_zero_left hq
    have h2 : H⁻¹ *ᵥ (H *ᵥ q) = q := by
      rw [Matrix.mulVec_mulVec, Matrix.nonsing_inv_mul H hH, Matrix.one_mulVec]
    rw [← h2, h1, Matrix.mulVec_neg, Matrix.mulVec_mulVec, Matrix.neg_mul, Matrix.neg_mulVec]

/-- Non-vacuity of `c08_stationary_shift`: same invertible `H` as above. -/
example : ∃ H : Matrix (Fin 2) (Fin 2) ℝ, IsUnit H.det ∧ H.IsSymm :=
  ⟨!![2, 1; 1, 3], by rw [Matrix.det_fin_two_of]; norm_num, by
    ext i j; fin_cases i <;> fin_cases j <;> rfl⟩

/-- Complement to C08.3 (completing the square): for symmetric `H` and any point `p₀` with
    `H p₀ + M y = 0`, `χ²(q, y) - χ²(p₀, y) = ½ (q - p₀)ᵀ H (q - p₀)` for every `q`.  Hence
    `H p + M y` really is the stationarity condition of the quadratic model and `p*(y)` is the
    minimiser whenever `H` is positive semidefinite. -/
theorem quad_complete_square {p n : ℕ} (H : Matrix (Fin p) (Fin p) ℝ) (hs : H.IsSymm)
    (M : Matrix (Fin p) (Fin n) ℝ) (c : (Fin n → ℝ) → ℝ) (y : Fin n → ℝ) (p₀ q : Fin p → ℝ)
    (hstat : H *ᵥ p₀ + M *ᵥ y = 0) :
    chisqQuad H M c q y - chisqQuad H M c p₀ y = (1 / 2) * ((q - p₀) ⬝ᵥ H *ᵥ (q - p₀)) := by
  have hMy : M *ᵥ y = -(H *ᵥ p₀) := eq_neg_of_add_eq_zero_right hstat
  have hsym : p₀ ⬝ᵥ H *ᵥ q = q ⬝ᵥ H *ᵥ p₀ := by
    rw [Matrix.dotProduct_mulVec, ← Matrix.mulVec_transpose, hs.eq, dotProduct_comm]
  unfold chisqQuad
  rw [hMy]
  simp only [Matrix.mulVec_sub, sub_dotProduct, dotProduct_sub, dotProduct_neg, hsym]
  ring

/-- Minimiser form: for symmetric `H` with `0 ≤ dᵀ H d` for all `d` (positive semidefinite) and
    invertible, `p*(y)` minimises the quadratic model. -/
theorem quad_pstar_isMin {p n : ℕ} (H : Matrix (Fin p) (Fin p) ℝ) (hs : H.IsSymm)
    (hH : IsUnit H.det) (hpsd : ∀ d : Fin p → ℝ, 0 ≤ d ⬝ᵥ H *ᵥ d)
    (M : Matrix (Fin p) (Fin n) ℝ) (c : (Fin n → ℝ) → ℝ) (y : Fin n → ℝ) (q : Fin p → ℝ) :
    chisqQuad H M c (pstar H M y) y ≤ chisqQuad H M c q y := by
  have h := quad_complete_square H hs M c y (pstar H M y) q
    (c08_stationary_shift H hH M y 0).1
  have h2 := hpsd (q - pstar H M y)
  linarith

/-! ### 4. block slicing of the total-least-squares second-derivative matrix -/

/-- The slice `J[:a, a:]` (rows `< a`, columns `≥ a`) of a matrix indexed by `Fin (a + b)`. -/
def sliceUR {a b : ℕ} (J : Matrix (Fin (a + b)) (Fin (a + b)) ℝ) : Matrix (Fin a) (Fin b) ℝ :=
  J.submatrix (Fin.castAdd b) (Fin.natAdd a)

/-- The slice `J[:a, :a]` (rows `< a`, columns `< a`). -/
def sliceUL {a b : ℕ} (J : Matrix (Fin (a + b)) (Fin (a + b)) ℝ) : Matrix (Fin a) (Fin a) ℝ :=
  J.submatrix (Fin.castAdd b) (Fin.castAdd b)

/-- `J` viewed as a 2×2 block matrix over `Fin a ⊕ Fin b`. -/
def asBlocks {a b : ℕ} (J : Matrix (Fin (a + b)) (Fin (a + b)) ℝ) :
    Matrix (Fin a ⊕ Fin b) (Fin a ⊕ Fin b) ℝ :=
  J.submatrix finSumFinEquiv finSumFinEquiv

/-- Entrywise (Fin arithmetic) description of the slices: entry `(i, j)` of `J[:a, a:]` is
    `J[i, a + j]`, and entry `(i, k)` of `J[:a, :a]` is `J[i, k]`. -/
theorem sliceUR_apply {a b : ℕ} (J : Matrix (Fin (a + b)) (Fin (a + b)) ℝ) (i : Fin a) (j : Fin b) :
    sliceUR J i j = J ⟨i.1, by omega⟩ ⟨a + j.1, by omega⟩ := rfl

theorem sliceUL_apply {a b : ℕ} (J : Matrix (Fin (a + b)) (Fin (a + b)) ℝ) (i k : Fin a) :
    sliceUL J i k = J ⟨i.1, by omega⟩ ⟨k.1, by omega⟩ := rfl

/-- C08.4 (index arithmetic of the total-least-squares code).  Let `J` be a square matrix indexed
    by `Fin (a + b)` (in the code: the matrix of second derivatives of the ODR χ² w.r.t. the
    concatenation (p, x̂, data); `a = n_parms + m` unknowns, `b` data entries).  Then
    (i)   the code's slice `J[:a, a:]` (rows `< a`, columns `≥ a`; entry `(i,j)` is `J[i, a+j]`, see
          `sliceUR_apply`) is exactly the upper-right block of `J` viewed as a block matrix over
          `Fin a ⊕ Fin b`, and `J[:a, :a]` is the upper-left block;
    (ii)  `J`, so viewed, is `fromBlocks` of its four slices;
    (iii) if the upper-left block (the Hessian w.r.t. the unknowns) is invertible, then the
          sensitivity `X` of the unknowns w.r.t. the data, defined by `UL · X + UR = 0`, is
          `X = -UL⁻¹ · UR`, which is what `-scipy.linalg.solve(hess, jac_jac[:a, a:])` computes
          (instance of `c08_ift_alg`).
    Hypothesis for (iii): `IsUnit (sliceUL J).det`. -/
theorem _root_.PV.c08_block_slices {a b : ℕ} (J : Matrix (Fin (a + b)) (Fin (a + b)) ℝ) :
    sliceUR J = (asBlocks J).toBlocks₁₂ ∧
    sliceUL J = (asBlocks J).toBlocks₁₁ ∧
    asBlocks J = Matrix.fromBlocks (sliceUL J) (sliceUR J)
      (J.submatrix (Fin.natAdd a) (Fin.castAdd b)) (J.submatrix (Fin.natAdd a) (Fin.natAdd a)) ∧
    (IsUnit (sliceUL J).det →
      ∀ X : Matrix (Fin a) (Fin b) ℝ,
        sliceUL J * X + sliceUR J = 0 ↔ X = -(sliceUL J)⁻¹ * sliceUR J) := by
  refine ⟨?_, ?_, ?_, ?_⟩
  · ext i j
    simp [sliceUR, asBlocks, Matrix.toBlocks₁₂]
  · ext i j
    simp [sliceUL, asBlocks, Matrix.toBlocks₁₁]
  · ext i j
    rcases i with i | i <;> rcases j with j | j <;>
      simp [sliceUL, sliceUR, asBlocks]
  · intro h X
    exact c08_ift_alg (sliceUL J) h (sliceUR J) X

/-- Non-vacuity of `c08_block_slices` (iii): a 3×3 matrix (`a = 2`, `b = 1`) whose upper-left
    2×2 slice is `!![2, 1; 1, 3]`, with determinant 5. -/
example : IsUnit (sliceUL (a := 2) (b := 1) (!![2, 1, 7; 1, 3, 8; 4, 5, 6] : Matrix (Fin 3) (Fin 3) ℝ)).det := by
  have : sliceUL (a := 2) (b := 1) (!![2, 1, 7; 1, 3, 8; 4, 5, 6] : Matrix (Fin 3) (Fin 3) ℝ)
      = !![2, 1; 1, 3] := by
    ext i j; fin_cases i <;> fin_cases j <;> rfl
  rw [this, Matrix.det_fin_two_of]; norm_num

/-! ### 5. total least squares versus ordinary least squares -/

/-- The `x`-residual part of the TLS objective, `Σ wx (x - x̂)²`. -/
def xres {m : ℕ} (wx x xh : Fin m → ℝ) : ℝ :=
  ∑ i, wx i * (x i - xh i) ^ 2

/-- The total-least-squares objective `Σ wy (y - f(x̂))² + Σ wx (x - x̂)²`. -/
def tls {m : ℕ} (f : ℝ → ℝ) (wx wy x y xh : Fin m → ℝ) : ℝ :=
  ∑ i, wy i * (y i - f (xh i)) ^ 2 + xres wx x xh

/-- The ordinary least-squares objective `Σ wy (y - f(x))²`. -/
def ols {m : ℕ} (f : ℝ → ℝ) (wy x y : Fin m → ℝ) : ℝ :=
  ∑ i, wy i * (y i - f (x i)) ^ 2

/-- C08.5a: with the x residuals forced to zero (`x̂ = x`) the TLS objective is the ordinary one.
    No hypotheses.  Backs: the TLS fit degenerates to the ordinary fit when x carries no error. -/
theorem _root_.PV.c08_tls_at_data {m : ℕ} (f : ℝ → ℝ) (wx wy x y : Fin m → ℝ) :
    tls f wx wy x y x = ols f wy x y := by
  simp [tls, ols, xres]

/-- C08.5b: for nonnegative weights, `TLS(x̂) ≥ Σ wx (x - x̂)² ≥ 0` for every `x̂` and every `f`. -/
theorem _root_.PV.c08_tls_lower {m : ℕ} (f : ℝ → ℝ) (wx wy x y xh : Fin m → ℝ)
    (hwx : ∀ i, 0 ≤ wx i) (hwy : ∀ i, 0 ≤ wy i) :
    0 ≤ xres wx x xh ∧ xres wx x xh ≤ tls f wx wy x y xh := by
  constructor
  · exact Finset.sum_nonneg fun i _ => mul_nonneg (hwx i) (sq_nonneg _)
  · have : 0 ≤ ∑ i, wy i * (y i - f (xh i)) ^ 2 :=
      Finset.sum_nonneg fun i _ => mul_nonneg (hwy i) (sq_nonneg _)
    unfold tls
    linarith

/-- Non-vacuity of `c08_tls_lower`. -/
example : (∀ i : Fin 2, (0 : ℝ) ≤ (fun _ => (3 : ℝ)) i) := fun _ => by norm_num

/-- C08.5 (large x-weights force small x residuals).  Let `f : P → ℝ → ℝ` be any model family
    (parameter space `P` arbitrary, `f q : ℝ → ℝ` arbitrary), weights `wy ≥ 0`, `wx i ≥ wmin > 0`,
    and let `(ps, xs)` be a minimiser of the TLS objective, in the weak sense actually needed:
    `TLS(ps, xs) ≤ TLS(q, x)` for the comparison parameter `q` at `x̂ = x` (true for every `q` if
    `(ps, xs)` is a global minimiser).  Then `Σ (x - xs)² ≤ OLS(q) / wmin`.  Taking `q = p_ols`
    gives the bound `OLS(p_ols)/wx_min`, which tends to 0 as `wx_min → ∞`: the TLS solution's
    x̂ converges to the data x, i.e. TLS approaches the ordinary fit. -/
theorem _root_.PV.c08_tls_limit {m : ℕ} {P : Type*} (f : P → ℝ → ℝ) (wx wy x y : Fin m → ℝ) (wmin : ℝ)
    (hwy : ∀ i, 0 ≤ wy i) (hwmin : 0 < wmin) (hwx : ∀ i, wmin ≤ wx i)
    (ps : P) (xs : Fin m → ℝ) (q : P)
    (hmin : tls (f ps) wx wy x y xs ≤ tls (f q) wx wy x y x) :
    ∑ i, (x i - xs i) ^ 2 ≤ ols (f q) wy x y / wmin := by
  have hwx0 : ∀ i, 0 ≤ wx i := fun i => le_trans hwmin.le (hwx i)
  have h1 := (c08_tls_lower (f ps) wx wy x y xs hwx0 hwy).2
  have h2 : wmin * ∑ i, (x i - xs i) ^ 2 ≤ xres wx x xs := by
    unfold xres
    rw [Finset.mul_sum]
    exact Finset.sum_le_sum fun i _ => mul_le_mul_of_nonneg_right (hwx i) (sq_nonneg _)
  rw [c08_tls_at_data] at hmin
  rw [le_div_iff₀ hwmin]
  linarith

/-- Global-minimiser corollary of `c08_tls_limit`: if `(ps, xs)` minimises TLS over all `(q, x̂)`,
    then `Σ (x - xs)² ≤ OLS(q)/wmin` for every `q`. -/
theorem tls_limit_global {m : ℕ} {P : Type*} (f : P → ℝ → ℝ) (wx wy x y : Fin m → ℝ) (wmin : ℝ)
    (hwy : ∀ i, 0 ≤ wy i) (hwmin : 0 < wmin) (hwx : ∀ i, wmin ≤ wx i)
    (ps : P) (xs : Fin m → ℝ)
    (hmin : ∀ (q : P) (xh : Fin m → ℝ), tls (f ps) wx wy x y xs ≤ tls (f q) wx wy x y xh) (q : P) :
    ∑ i, (x i - xs i) ^ 2 ≤ ols (f q) wy x y / wmin :=
  c08_tls_limit f wx wy x y wmin hwy hwmin hwx ps xs q (hmin q x)

/-- Non-vacuity of `c08_tls_limit`: constant model family `f q _ = q` on one data point
    `x = 0, y = 1`, weights `wx = wy = 1`, `wmin = 1`; `(ps, xs) = (1, 0)` has TLS = 0, which is
    ≤ TLS of anything (here compared with `q = 0`). -/
example : ∃ (f : ℝ → ℝ → ℝ) (wx wy x y : Fin 1 → ℝ) (wmin : ℝ) (ps : ℝ) (xs : Fin 1 → ℝ) (q : ℝ),
    (∀ i, 0 ≤ wy i) ∧ 0 < wmin ∧ (∀ i, wmin ≤ wx i) ∧
    tls (f ps) wx wy x y xs ≤ tls (f q) wx wy x y x :=
  ⟨fun q _ => q, fun _ => 1, fun _ => 1, fun _ => 0, fun _ => 1, 1, 1, fun _ => 0, 0,
    fun _ => by norm_num, by norm_num, fun _ => le_refl _, by simp [tls, xres]⟩

end PV.C08
