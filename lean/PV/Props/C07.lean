/-
  Property C07 — linear least-squares fits reproduce the closed-form GLS estimator.
  Property theorems only (the matrix-algebra backbone is appended from the proof task).
-/
import PV.Scalar
import PV.Props.C07Alg

namespace PV

/-- degrees of freedom: points + priors - parameters, with the natural-number caveat made explicit -/
theorem c07_dof_int (points priors params : Nat) (h : params ≤ points + priors) :
    ((points + priors - params : Nat) : Int) = (points : Int) - params + priors := by
  omega

end PV
