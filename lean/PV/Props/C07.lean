/-
  Property C07 — linear least-squares fits reproduce the closed-form GLS estimator.
  Property theorems only (the matrix-algebra backbone is appended from the proof task).
-/
import PV.Scalar
import PV.Props.C07Alg
import Mathlib.Data.List.Forall2
import PV.Model.Gls
import PV.Proofs.GlsBridge

namespace PV

/-- degrees of freedom: points + priors - parameters, with the natural-number caveat made explicit -/
theorem c07_dof_int (points priors params : Nat) (h : params ≤ points + priors) :
    ((points + priors - params : Nat) : Int) = (points : Int) - params + priors := by
  omega


/-! ### the executable closed-form estimator (PV/Model/Gls.lean), run by the harness on every fit -/

section executable
open PV.Gls

/-- whatever the checked solver returns solves the system exactly -/
theorem c07_solveChecked_sound (A : Mat) (b x : List Rat) (h : solveChecked A b = some x) :
    mulVec A x = b ∧ x.length = A.length := by
  unfold solveChecked at h
  split at h
  · cases h
  · split at h
    · rename_i hc
      injection h with h
      subst h
      simp only [Bool.and_eq_true, beq_iff_eq] at hc
      exact ⟨hc.2, hc.1⟩
    · cases h

theorem mapM_solveChecked (N : Mat) : ∀ (cols : Mat) (sols : Mat),
    cols.mapM (fun col => solveChecked N col) = some sols →
    List.Forall₂ (fun col s => mulVec N s = col) cols sols := by
  intro cols
  induction cols with
  | nil => intro sols h; simp at h; subst h; exact List.Forall₂.nil
  | cons c cs ih =>
    intro sols h
    simp only [List.mapM_cons, bind, Option.bind] at h
    cases hc : solveChecked N c with
    | none => rw [hc] at h; cases h
    | some s =>
      rw [hc] at h
      simp only at h
      cases hcs : cs.mapM (fun col => solveChecked N col) with
      | none => rw [hcs] at h; cases h
      | some ss =>
        rw [hcs] at h
        simp only [pure, Option.some.injEq] at h
        subst h
        exact List.Forall₂.cons (c07_solveChecked_sound N c s hc).1 (ih ss hcs)

/-- **C07 (the executable closed form).**  Whatever `gls` returns satisfies the normal equations exactly:
    `(Aᵀ W A) p̂ = Aᵀ W y`, and every column `s_k` of the sensitivity matrix solves
    `(Aᵀ W A) s_k = (Aᵀ W) e_k` - in exact rational arithmetic, for every design matrix, weight matrix
    (diagonal or full) and data vector. -/
theorem c07_gls_normal_equations (A W : Mat) (y p : List Rat) (S : Mat) (h : gls A W y = some (p, S)) :
    mulVec (normalMat A W) p = mulVec (atw A W) y ∧
    ∃ cols, S = transpose cols ∧
      List.Forall₂ (fun col s => mulVec (normalMat A W) s = col) (transpose (atw A W)) cols := by
  unfold gls at h
  simp only at h
  split at h
  · cases h
  · rename_i p' hp
    split at h
    · cases h
    · rename_i cols hcols
      simp only [Option.some.injEq, Prod.mk.injEq] at h
      obtain ⟨rfl, rfl⟩ := h
      exact ⟨(c07_solveChecked_sound _ _ _ hp).1, cols, rfl, mapM_solveChecked _ _ _ hcols⟩

/-- non-vacuity: a straight-line fit through three points with unit weights -/
example : gls [[1, 0], [1, 1], [1, 2]] [[1, 0, 0], [0, 1, 0], [0, 0, 1]] [1, 3, 5]
    = some ([1, 2], [[5 / 6, 1 / 3, -1 / 6], [-1 / 2, 0, 1 / 2]]) := by decide +kernel

/-- **C07 (the executable closed form IS the GLS estimator).**  For a well-shaped design matrix (m points, n
    parameters), weight matrix and data vector, what `gls` returns satisfies the normal equations as an identity
    between Mathlib matrices, and whenever the normal matrix is invertible it is `(AᵀWA)⁻¹ AᵀW y` - the estimator of
    the property statement, whose uniqueness, minimising property and sensitivities are the theorems of C07Alg. -/
theorem c07_gls_is_estimator (A W : Mat) (y p : List Rat) (S : Mat) (m n : Nat)
    (hA : Shaped A m n) (hW : Shaped W m m) (hy : y.length = m) (hm : 1 ≤ m)
    (h : gls A W y = some (p, S)) :
    ((toM A m n).transpose * toM W m m * toM A m n).mulVec (toV p n) = ((toM A m n).transpose * toM W m m).mulVec (toV y m) ∧
    (IsUnit ((toM A m n).transpose * toM W m m * toM A m n).det →
      toV p n = ((toM A m n).transpose * toM W m m * toM A m n)⁻¹.mulVec
        (((toM A m n).transpose * toM W m m).mulVec (toV y m))) :=
  gls_is_estimator A W y p S m n hA hW hy hm h

/-- the returned sensitivity matrix is `(AᵀWA)⁻¹ AᵀW`: the gradient with which every fluctuation and covariance
    input of the data is propagated to the parameters -/
theorem c07_gls_sensitivity (A W : Mat) (y p : List Rat) (S : Mat) (m n : Nat)
    (hA : Shaped A m n) (hW : Shaped W m m) (hm : 1 ≤ m) (hn : 1 ≤ n)
    (h : gls A W y = some (p, S)) :
    ((toM A m n).transpose * toM W m m * toM A m n) * toM S n m = (toM A m n).transpose * toM W m m ∧
    (IsUnit ((toM A m n).transpose * toM W m m * toM A m n).det →
      toM S n m = ((toM A m n).transpose * toM W m m * toM A m n)⁻¹ * ((toM A m n).transpose * toM W m m)) :=
  gls_sensitivity A W y p S m n hA hW hm hn h

/-- the shape hypotheses are satisfiable (the straight-line example above) -/
example : Shaped [[1, 0], [1, 1], [1, 2]] 3 2 ∧ Shaped [[1, 0, 0], [0, 1, 0], [0, 0, 1]] 3 3 := by
  constructor <;> simp [Shaped]

/-- **C07 (independent of the order of the dictionary keys).**  The linear problem of a combined fit - design matrix,
    weights, data vector, prior rows - assembled by the model of `least_squares` is the same for every order in which
    the data sets are handed over (they are stacked by sorted key), for any number of data sets with distinct keys. -/
theorem c07_assemble_key_order (bs bs' : List Block) (npar : Nat) (priors : List (Nat × Rat × Rat)) (hp : bs.Perm bs')
    (hnd : (bs.map (·.key)).Nodup) : assemble bs npar priors = assemble bs' npar priors :=
  assemble_perm bs bs' npar priors hp hnd

/-- hence the fitted parameters, their sensitivities and chi-square do not depend on that order either -/
theorem c07_fit_key_order (bs bs' : List Block) (npar : Nat) (priors : List (Nat × Rat × Rat)) (hp : bs.Perm bs')
    (hnd : (bs.map (·.key)).Nodup) : fitLinear bs npar priors = fitLinear bs' npar priors := by
  unfold fitLinear
  rw [assemble_perm bs bs' npar priors hp hnd]

/-- what the assembled fit returns is the checked closed form of the assembled problem (so `c07_gls_normal_equations`
    and `c07_gls_is_estimator` apply to it) -/
theorem c07_fit_is_gls (bs : List Block) (npar : Nat) (priors : List (Nat × Rat × Rat)) (p : List Rat) (S : Mat) (c : Rat)
    (h : fitLinear bs npar priors = some (p, S, c)) :
    gls (assemble bs npar priors).1 (assemble bs npar priors).2.1 (assemble bs npar priors).2.2 = some (p, S) ∧
    c = chisq (assemble bs npar priors).1 (assemble bs npar priors).2.1 (assemble bs npar priors).2.2 p := by
  unfold fitLinear at h
  simp only at h
  split at h
  · cases h
  · rename_i p' S' hg
    simp only [Option.some.injEq, Prod.mk.injEq] at h
    obtain ⟨rfl, rfl, rfl⟩ := h
    exact ⟨hg, rfl⟩

/-- a combined fit of two data sets with a shared offset and a prior on the slope of the second, handed over in both
    orders -/
example : fitLinear [⟨"b", [[1, 0, 1], [1, 0, 2]], [3, 5], [1, 1]⟩, ⟨"a", [[1, 1, 0], [1, 2, 0], [1, 3, 0]], [2, 3, 4], [1, 1, 1]⟩] 3 [(2, 2, 1)]
    = fitLinear [⟨"a", [[1, 1, 0], [1, 2, 0], [1, 3, 0]], [2, 3, 4], [1, 1, 1]⟩, ⟨"b", [[1, 0, 1], [1, 0, 2]], [3, 5], [1, 1]⟩] 3 [(2, 2, 1)] := by
  decide +kernel

end executable

end PV
