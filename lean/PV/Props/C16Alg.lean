/-
  PV.Todo.C16 — mathematical backbone of property C16:
  the GEVP solver and the matrix-pencil method satisfy the generalised eigen-equation and
  recover the exact spectrum of an N-state model.

  Setting.  `ι` is a finite index type of states (in the code `Fin n`); all matrices are real.
  The exact N-state correlator matrix is
      C(t) = Ψᵀ * diagonal (fun k => exp (-(E k) * t)) * Ψ            (`corrModel Ψ E t`)
  with an invertible overlap matrix Ψ (`IsUnit Ψ.det`).  The exact generalised eigenvectors are
      v_k = Ψ⁻¹ *ᵥ e_k                                                 (`gevpVec Ψ k`)
  with e_k = `Pi.single k 1` the k-th standard basis vector.

  All theorems are proved for every finite size; no `sorry`, no extra axioms.
-/
import Mathlib.Data.Matrix.Basic
import Mathlib.Data.Matrix.Mul
import Mathlib.Data.Real.Basic
import Mathlib.Data.List.Sort
import Mathlib.LinearAlgebra.Matrix.NonsingularInverse
import Mathlib.LinearAlgebra.Matrix.Symmetric
import Mathlib.LinearAlgebra.Vandermonde
import Mathlib.Analysis.SpecialFunctions.Exp
import Mathlib.Tactic.Ring
import Mathlib.Tactic.Linarith
import Mathlib.Tactic.FieldSimp
import Mathlib.Tactic.NormNum
import Mathlib.Tactic.FinCases

namespace PV
open Matrix

/-! ### Definitions -/

namespace C16
section model
variable {ι : Type*} [Fintype ι] [DecidableEq ι]

/-- The exact N-state correlator matrix `C(t) = Ψᵀ · diag(exp(-E_k t)) · Ψ`. -/
noncomputable def corrModel (Ψ : Matrix ι ι ℝ) (E : ι → ℝ) (t : ℝ) : Matrix ι ι ℝ :=
  Ψᵀ * diagonal (fun k => Real.exp (-(E k) * t)) * Ψ

/-- The exact generalised eigenvector `v_k = Ψ⁻¹ e_k`. -/
noncomputable def gevpVec (Ψ : Matrix ι ι ℝ) (k : ι) : ι → ℝ :=
  Ψ⁻¹ *ᵥ Pi.single k 1

/-- The `n × m` matrix whose `j`-th column is the exact generalised eigenvector `v_{s j}`
    (the basis onto which `prune` projects). -/
noncomputable def pruneMat {μ : Type*} (Ψ : Matrix ι ι ℝ) (s : μ → ι) : Matrix ι μ ℝ :=
  Matrix.of fun i j => gevpVec Ψ (s j) i

/-! ### Helper lemmas -/

/-- `C(t) v_k = exp(-E_k t) · Ψᵀ e_k`. -/
lemma corrModel_mulVec_gevpVec (Ψ : Matrix ι ι ℝ) (hΨ : IsUnit Ψ.det) (E : ι → ℝ) (k : ι)
    (t : ℝ) :
    corrModel Ψ E t *ᵥ gevpVec Ψ k = Real.exp (-(E k) * t) • (Ψᵀ *ᵥ Pi.single k 1) := by
  unfold corrModel gevpVec
  rw [mulVec_mulVec, mul_nonsing_inv_cancel_right _ _ hΨ, ← mulVec_mulVec,
    diagonal_mulVec_single, mul_one]
  have : (Pi.single k (Real.exp (-(E k) * t)) : ι → ℝ)
      = Real.exp (-(E k) * t) • (Pi.single k 1 : ι → ℝ) := by
    ext i
    by_cases h : i = k
    · subst h; simp
    · simp [Pi.single_eq_of_ne h]
  rw [this, mulVec_smul]

/-- `Ψ v_k = e_k`. -/
lemma mulVec_gevpVec (Ψ : Matrix ι ι ℝ) (hΨ : IsUnit Ψ.det) (k : ι) :
    Ψ *ᵥ gevpVec Ψ k = Pi.single k 1 := by
  unfold gevpVec
  rw [mulVec_mulVec, mul_nonsing_inv _ hΨ, one_mulVec]

/-- Bi-orthogonality: `v_j · C(t) v_k = δ_{jk} exp(-E_k t)`. -/
lemma gevpVec_dot_corrModel (Ψ : Matrix ι ι ℝ) (hΨ : IsUnit Ψ.det) (E : ι → ℝ) (j k : ι)
    (t : ℝ) :
    gevpVec Ψ j ⬝ᵥ (corrModel Ψ E t *ᵥ gevpVec Ψ k)
      = if j = k then Real.exp (-(E k) * t) else 0 := by
  rw [corrModel_mulVec_gevpVec Ψ hΨ, dotProduct_smul, dotProduct_mulVec, vecMul_transpose,
    mulVec_gevpVec Ψ hΨ, single_dotProduct, one_mul, smul_eq_mul]
  by_cases h : j = k
  · subst h; simp
  · simp [h]

end model
end C16
open C16

/-! ### 1. exact spectrum -/

section spectrum
variable {ι : Type*} [Fintype ι] [DecidableEq ι]

/-- **C16.1 (GEVP recovers the exact spectrum).**  For the exact N-state model
    `C(t) = Ψᵀ diag(exp(-E_k t)) Ψ` with `Ψ` invertible (hypothesis `IsUnit Ψ.det`, needed for
    `Ψ⁻¹` to be the inverse), the vector `v_k = Ψ⁻¹ e_k` satisfies, for all real `t`, `t0`,
    `C(t) v_k = exp(-E_k (t - t0)) · C(t0) v_k`.  I.e. the generalised eigenvalue problem
    `G(t) v = λ G(t0) v` solved by the GEVP code has the solution `λ = exp(-E_k (t - t0))`. -/
theorem c16_exact_spectrum (Ψ : Matrix ι ι ℝ) (hΨ : IsUnit Ψ.det) (E : ι → ℝ) (k : ι)
    (t t0 : ℝ) :
    corrModel Ψ E t *ᵥ (Ψ⁻¹ *ᵥ Pi.single k 1)
      = Real.exp (-(E k) * (t - t0)) • (corrModel Ψ E t0 *ᵥ (Ψ⁻¹ *ᵥ Pi.single k 1)) := by
  have h1 := corrModel_mulVec_gevpVec Ψ hΨ E k t
  have h2 := corrModel_mulVec_gevpVec Ψ hΨ E k t0
  unfold gevpVec at h1 h2
  rw [h1, h2, smul_smul, ← Real.exp_add]
  congr 2
  ring

/-- Non-vacuity of `c16_exact_spectrum`: a non-diagonal invertible 2×2 overlap matrix. -/
example : IsUnit (!![1, 2; 3, 4] : Matrix (Fin 2) (Fin 2) ℝ).det := by
  rw [Matrix.det_fin_two_of]; norm_num

/-! ### 2. projected correlator -/

/-- **C16.2 (projected correlator is a single exponential).**  With `v_k = Ψ⁻¹ e_k`
    (`Ψ` invertible):
    * `v_k · C(t) v_k = exp(-E_k t)`;
    * the rescaled vector `w = exp(E_k t0 / 2) · v_k` has the GEVP normalisation
      `w · C(t0) w = 1`;
    * with that normalisation the projected correlator is `w · C(t) w = exp(-E_k (t - t0))`.
    Backs the fact that projecting the correlator matrix onto a GEVP eigenvector yields the pure
    exponential of state `k`. -/
theorem c16_projected_exponential (Ψ : Matrix ι ι ℝ) (hΨ : IsUnit Ψ.det) (E : ι → ℝ) (k : ι)
    (t t0 : ℝ) :
    (Ψ⁻¹ *ᵥ Pi.single k 1) ⬝ᵥ (corrModel Ψ E t *ᵥ (Ψ⁻¹ *ᵥ Pi.single k 1))
        = Real.exp (-(E k) * t)
    ∧ (Real.exp (E k * t0 / 2) • (Ψ⁻¹ *ᵥ Pi.single k 1))
        ⬝ᵥ (corrModel Ψ E t0 *ᵥ (Real.exp (E k * t0 / 2) • (Ψ⁻¹ *ᵥ Pi.single k 1))) = 1
    ∧ (Real.exp (E k * t0 / 2) • (Ψ⁻¹ *ᵥ Pi.single k 1))
        ⬝ᵥ (corrModel Ψ E t *ᵥ (Real.exp (E k * t0 / 2) • (Ψ⁻¹ *ᵥ Pi.single k 1)))
        = Real.exp (-(E k) * (t - t0)) := by
  have key : ∀ s : ℝ, (Ψ⁻¹ *ᵥ Pi.single k 1) ⬝ᵥ (corrModel Ψ E s *ᵥ (Ψ⁻¹ *ᵥ Pi.single k 1))
      = Real.exp (-(E k) * s) := by
    intro s
    have := gevpVec_dot_corrModel Ψ hΨ E k k s
    simpa [gevpVec] using this
  have scaled : ∀ s : ℝ, (Real.exp (E k * t0 / 2) • (Ψ⁻¹ *ᵥ Pi.single k 1))
        ⬝ᵥ (corrModel Ψ E s *ᵥ (Real.exp (E k * t0 / 2) • (Ψ⁻¹ *ᵥ Pi.single k 1)))
        = Real.exp (-(E k) * (s - t0)) := by
    intro s
    rw [mulVec_smul, smul_dotProduct, dotProduct_smul, key s, smul_eq_mul, smul_eq_mul,
      ← Real.exp_add, ← Real.exp_add]
    congr 1
    ring
  refine ⟨key t, ?_, scaled t⟩
  have := scaled t0
  simpa using this

/-- Non-vacuity of `c16_projected_exponential`: the theorem instantiated on a concrete
    non-diagonal invertible overlap matrix, energies `(1/2, 6/5)`, state 1, `t = 3`, `t0 = 1`. -/
example :
    let Ψ : Matrix (Fin 2) (Fin 2) ℝ := !![1, 2; 3, 4]
    let E : Fin 2 → ℝ := ![1/2, 6/5]
    (Ψ⁻¹ *ᵥ Pi.single 1 1) ⬝ᵥ (corrModel Ψ E 3 *ᵥ (Ψ⁻¹ *ᵥ Pi.single 1 1))
      = Real.exp (-(6/5) * 3) := by
  intro Ψ E
  have hΨ : IsUnit Ψ.det := by
    simp only [Ψ]; rw [Matrix.det_fin_two_of]; norm_num
  simpa [E] using (c16_projected_exponential Ψ hΨ E 1 3 1).1

end spectrum

/-! ### 3. Cholesky route -/

section cholesky
variable {ι : Type*} [Fintype ι] [DecidableEq ι]

/-- **C16.3 (the Cholesky route is equivalent to the generalised problem).**  If `G0 = L Lᵀ`
    with `L` invertible (hypothesis `IsUnit L.det`; this is what a Cholesky factor of a positive
    definite `G(t0)` provides), then for every vector `w` and scalar `lam`:
    `w` is an ordinary eigenvector of `L⁻¹ Gt (L⁻¹)ᵀ` with eigenvalue `lam` iff
    `u = (L⁻¹)ᵀ w` solves the generalised problem `Gt u = lam · G0 u`.
    Backs the solver, which diagonalises `L⁻¹ G(t) L⁻ᵀ` and back-transforms with `L⁻ᵀ`. -/
theorem c16_cholesky_equivalence (G0 Gt L : Matrix ι ι ℝ) (hL : IsUnit L.det)
    (hG0 : G0 = L * Lᵀ) (w : ι → ℝ) (lam : ℝ) :
    (L⁻¹ * Gt * (L⁻¹)ᵀ) *ᵥ w = lam • w
      ↔ Gt *ᵥ ((L⁻¹)ᵀ *ᵥ w) = lam • (G0 *ᵥ ((L⁻¹)ᵀ *ᵥ w)) := by
  have hLT : Lᵀ * (L⁻¹)ᵀ = 1 := by
    rw [← transpose_mul, nonsing_inv_mul _ hL, transpose_one]
  have hG0u : G0 *ᵥ ((L⁻¹)ᵀ *ᵥ w) = L *ᵥ w := by
    rw [hG0, mulVec_mulVec, Matrix.mul_assoc, hLT, Matrix.mul_one]
  have hlhs : (L⁻¹ * Gt * (L⁻¹)ᵀ) *ᵥ w = L⁻¹ *ᵥ (Gt *ᵥ ((L⁻¹)ᵀ *ᵥ w)) := by
    simp only [mulVec_mulVec, Matrix.mul_assoc]
  rw [hlhs, hG0u]
  constructor
  · intro h
    have : L *ᵥ (L⁻¹ *ᵥ (Gt *ᵥ ((L⁻¹)ᵀ *ᵥ w))) = L *ᵥ (lam • w) := by rw [h]
    rw [mulVec_mulVec, mul_nonsing_inv _ hL, one_mulVec, mulVec_smul] at this
    exact this
  · intro h
    rw [h, mulVec_smul, mulVec_mulVec, nonsing_inv_mul _ hL, one_mulVec]

/-- Non-vacuity of `c16_cholesky_equivalence`: a lower-triangular Cholesky factor and the
    positive definite matrix it generates. -/
example : ∃ (G0 L : Matrix (Fin 2) (Fin 2) ℝ), IsUnit L.det ∧ G0 = L * Lᵀ :=
  ⟨!![4, 2; 2, 10], !![2, 0; 1, 3], by rw [Matrix.det_fin_two_of]; norm_num, by
    ext i j; fin_cases i <;> fin_cases j <;> simp [Matrix.mul_apply, Fin.sum_univ_two] <;> norm_num⟩

end cholesky

/-! ### 4. ordering of states -/

/-- **C16.4 (state 0 is the largest eigenvalue).**  If a list of reals is sorted ascending (as
    returned by the symmetric eigen-solver), then its reverse is sorted descending
    (both as `List.SortedGE` and as `List.Pairwise (· ≥ ·)`), and the first element of the
    reverse is the maximum of the list: it belongs to the list and dominates every element;
    equivalently `l.reverse.head? = l.max?`.
    Backs the `[::-1]` reordering after `eigh`, which makes state 0 the largest eigenvalue, i.e.
    the lowest energy. -/
theorem c16_order_reverse (l : List ℝ) (h : l.SortedLE) :
    l.reverse.SortedGE
    ∧ l.reverse.Pairwise (· ≥ ·)
    ∧ (∀ hne : l.reverse ≠ [],
        l.reverse.head hne ∈ l ∧ ∀ x ∈ l, x ≤ l.reverse.head hne)
    ∧ l.reverse.head? = l.max? := by
  have hs : l.reverse.SortedGE := List.sortedGE_reverse.mpr h
  have hp : l.reverse.Pairwise (· ≥ ·) := hs.pairwise
  have hmax : ∀ hne : l.reverse ≠ [],
      l.reverse.head hne ∈ l ∧ ∀ x ∈ l, x ≤ l.reverse.head hne := by
    intro hne
    refine ⟨List.mem_reverse.mp (List.head_mem hne), ?_⟩
    intro x hx
    have hx' : x ∈ l.reverse := List.mem_reverse.mpr hx
    obtain ⟨a, as, has⟩ := List.exists_cons_of_ne_nil hne
    have hhead : l.reverse.head hne = a := by simp [has]
    rw [hhead]
    rw [has] at hp hx'
    rcases List.mem_cons.mp hx' with rfl | hmem
    · exact le_rfl
    · exact (List.pairwise_cons.mp hp).1 x hmem
  refine ⟨hs, hp, hmax, ?_⟩
  by_cases hne : l.reverse = []
  · have : l = [] := by simpa using hne
    subst this; simp
  · obtain ⟨hm, hle⟩ := hmax hne
    have : l.max? = some (l.reverse.head hne) := by
      rw [List.max?_eq_some_iff]
      exact ⟨hm, hle⟩
    rw [this, List.head?_eq_some_head hne]

/-- Non-vacuity of `c16_order_reverse`: a genuinely ascending list. -/
example : ([1, 2, 5] : List ℝ).SortedLE := by
  rw [List.sortedLE_iff_pairwise]
  simp; norm_num

/-! ### 5. matrix pencil: Hankel factorisation -/

namespace C16
section hankeldefs

/-- The signal `y(t) = Σ_k a_k z_k^t` sampled at integer times. -/
def signal {κ : Type*} [Fintype κ] (a z : κ → ℝ) (t : ℕ) : ℝ := ∑ k, a k * z k ^ t

/-- Rectangular Vandermonde matrix `V k j = z_k ^ j`, `k` a state, `j < q`. -/
def vander {κ : Type*} (z : κ → ℝ) (q : ℕ) : Matrix κ (Fin q) ℝ :=
  Matrix.of fun k j => z k ^ (j : ℕ)

/-- The `p × q` Hankel matrix of `y` with offset `d`: `H i j = y (i + j + d)`. -/
def hankel (y : ℕ → ℝ) (p q d : ℕ) : Matrix (Fin p) (Fin q) ℝ :=
  Matrix.of fun i j => y ((i : ℕ) + (j : ℕ) + d)

@[simp] lemma hankel_zero_apply (y : ℕ → ℝ) (p q : ℕ) (i : Fin p) (j : Fin q) :
    hankel y p q 0 i j = y ((i : ℕ) + (j : ℕ)) := rfl

@[simp] lemma hankel_one_apply (y : ℕ → ℝ) (p q : ℕ) (i : Fin p) (j : Fin q) :
    hankel y p q 1 i j = y ((i : ℕ) + (j : ℕ) + 1) := rfl

@[simp] lemma vander_apply {κ : Type*} (z : κ → ℝ) (q : ℕ) (k : κ) (j : Fin q) :
    vander z q k j = z k ^ (j : ℕ) := rfl

/-- The square `vander` is Mathlib's `Matrix.vandermonde`. -/
lemma vander_eq_vandermonde {n : ℕ} (z : Fin n → ℝ) : vander z n = Matrix.vandermonde z := rfl

/-- General factorisation with offset `d`:
    `H^{(d)} = V_pᵀ · diag(a · z^d) · V_q`. -/
lemma hankel_signal_eq {κ : Type*} [Fintype κ] [DecidableEq κ] (a z : κ → ℝ) (p q d : ℕ) :
    hankel (signal a z) p q d
      = (vander z p)ᵀ * diagonal (fun k => a k * z k ^ d) * vander z q := by
  ext i j
  simp only [hankel, signal, vander, Matrix.of_apply, Matrix.mul_apply, Matrix.transpose_apply,
    Matrix.diagonal_apply, mul_ite, mul_zero, Finset.sum_ite_eq', Finset.mem_univ, if_true]
  refine Finset.sum_congr rfl fun k _ => ?_
  ring

end hankeldefs
end C16

section hankel

/-- **C16.5 (matrix pencil method recovers `z_k = exp(-E_k)`).**  For the signal
    `y(t) = Σ_k a_k z_k^t` (`t : ℕ`, `n` states) and the Vandermonde matrix `V k j = z_k ^ j`:
    * every `p × q` Hankel matrix `H i j = y(i + j)` factors as `V_pᵀ · diag(a) · V_q`;
    * the shifted Hankel matrix `H' i j = y(i + j + 1)` factors as `V_pᵀ · diag(a·z) · V_q`;
    * in the square `n × n` case with `V` invertible (hypothesis `IsUnit V.det`, equivalent to the
      `z_k` being pairwise distinct), `H' = H · (V⁻¹ · diag(z) · V)`;
    * if moreover all amplitudes `a_k ≠ 0`, then `H` is invertible and
      `H⁻¹ H' = V⁻¹ · diag(z) · V`, i.e. the pencil matrix `H⁻¹ H'` is similar to `diag(z)` and its
      eigenvalues are exactly the `z_k`.
    Backs `matrix_pencil_method`, which obtains the energies from the eigenvalues of `H⁻¹ H'`
    (pseudo-inverse in the code, equal to the inverse in the exact square case). -/
theorem c16_hankel_factor {n : ℕ} (a z : Fin n → ℝ) :
    (∀ p q : ℕ, hankel (signal a z) p q 0 = (vander z p)ᵀ * diagonal a * vander z q)
    ∧ (∀ p q : ℕ, hankel (signal a z) p q 1
        = (vander z p)ᵀ * diagonal (fun k => a k * z k) * vander z q)
    ∧ (IsUnit (Matrix.vandermonde z).det →
        hankel (signal a z) n n 1
          = hankel (signal a z) n n 0
              * ((Matrix.vandermonde z)⁻¹ * diagonal z * Matrix.vandermonde z))
    ∧ (IsUnit (Matrix.vandermonde z).det → (∀ k, a k ≠ 0) →
        IsUnit (hankel (signal a z) n n 0).det
        ∧ (hankel (signal a z) n n 0)⁻¹ * hankel (signal a z) n n 1
            = (Matrix.vandermonde z)⁻¹ * diagonal z * Matrix.vandermonde z) := by
  have h0 : ∀ p q : ℕ, hankel (signal a z) p q 0 = (vander z p)ᵀ * diagonal a * vander z q := by
    intro p q
    rw [hankel_signal_eq]
    simp
  have h1 : ∀ p q : ℕ, hankel (signal a z) p q 1
      = (vander z p)ᵀ * diagonal (fun k => a k * z k) * vander z q := by
    intro p q
    rw [hankel_signal_eq]
    simp
  have hshift : IsUnit (Matrix.vandermonde z).det →
      hankel (signal a z) n n 1
        = hankel (signal a z) n n 0
            * ((Matrix.vandermonde z)⁻¹ * diagonal z * Matrix.vandermonde z) := by
    intro hV
    rw [h0, h1, vander_eq_vandermonde]
    set V := Matrix.vandermonde z with hVdef
    have : Vᵀ * diagonal a * V * (V⁻¹ * diagonal z * V)
        = Vᵀ * diagonal a * (V * V⁻¹) * diagonal z * V := by
      simp only [Matrix.mul_assoc]
    rw [this, mul_nonsing_inv _ hV, Matrix.mul_one, Matrix.mul_assoc Vᵀ (diagonal a) (diagonal z),
      diagonal_mul_diagonal]
  refine ⟨h0, h1, hshift, ?_⟩
  intro hV ha
  have hH : IsUnit (hankel (signal a z) n n 0).det := by
    rw [h0, vander_eq_vandermonde, det_mul, det_mul, det_transpose, det_diagonal]
    refine (hV.mul ?_).mul hV
    rw [isUnit_iff_ne_zero]
    exact Finset.prod_ne_zero_iff.mpr fun k _ => ha k
  refine ⟨hH, ?_⟩
  rw [hshift hV, nonsing_inv_mul_cancel_left _ _ hH]

/-- Non-vacuity of `c16_hankel_factor`: two distinct decay factors give an invertible
    Vandermonde matrix, and the amplitudes are non-zero. -/
example : IsUnit (Matrix.vandermonde (![1/2, 1/3] : Fin 2 → ℝ)).det
    ∧ ∀ k, (![2, 5] : Fin 2 → ℝ) k ≠ 0 := by
  constructor
  · rw [isUnit_iff_ne_zero, Matrix.det_vandermonde_ne_zero_iff]
    intro i j hij
    fin_cases i <;> fin_cases j <;> simp at hij ⊢
  · intro k; fin_cases k <;> simp

end hankel

/-! ### 6. prune -/

section prune
variable {ι : Type*} [Fintype ι] [DecidableEq ι]
variable {μ : Type*} [DecidableEq μ]

/-- **C16.6 (prune preserves the retained energies).**  Let `P` be the `n × m` matrix whose
    `j`-th column is the exact generalised eigenvector `v_{s j} = Ψ⁻¹ e_{s j}`, for an injective
    selection `s` of `m` of the `n` states (`Ψ` invertible).  Then the projected correlator is
    diagonal with exactly the retained energies:
    `Pᵀ C(t) P = diag(exp(-E_{s j} t))`.
    Backs `Corr.prune`, which projects the correlator matrix onto the span of GEVP vectors. -/
theorem c16_prune_projection (Ψ : Matrix ι ι ℝ) (hΨ : IsUnit Ψ.det) (E : ι → ℝ)
    (s : μ → ι) (hs : Function.Injective s) (t : ℝ) :
    (pruneMat Ψ s)ᵀ * corrModel Ψ E t * pruneMat Ψ s
      = diagonal (fun j => Real.exp (-(E (s j)) * t)) := by
  ext j j'
  have hentry : ((pruneMat Ψ s)ᵀ * corrModel Ψ E t * pruneMat Ψ s) j j'
      = gevpVec Ψ (s j) ⬝ᵥ (corrModel Ψ E t *ᵥ gevpVec Ψ (s j')) := by
    rw [Matrix.mul_assoc, Matrix.mul_apply]
    simp only [dotProduct, mulVec, pruneMat, Matrix.transpose_apply, Matrix.of_apply,
      Matrix.mul_apply]
  rw [hentry, gevpVec_dot_corrModel Ψ hΨ, Matrix.diagonal_apply]
  by_cases h : j = j'
  · subst h; simp
  · have : s j ≠ s j' := fun e => h (hs e)
    simp [h, this]

/-- Non-vacuity of `c16_prune_projection`: keep states 0 and 2 of a 3-state model. -/
example : Function.Injective (![0, 2] : Fin 2 → Fin 3) := by
  intro i j hij
  fin_cases i <;> fin_cases j <;> simp_all

end prune

/-! ### 7. symmetrisation -/

section symm
variable {ι : Type*} [Fintype ι]

/-- **C16.7 (non-symmetric input is symmetrised first).**  For every square real matrix `G`,
    `(1/2)(G + Gᵀ)` is symmetric, coincides with `G` when `G` is already symmetric, and has the
    same quadratic form as `G`: `v · ((1/2)(G + Gᵀ)) v = v · G v` for all `v`.
    Backs the symmetrisation step applied to the correlator matrix before the GEVP. -/
theorem c16_symmetrize (G : Matrix ι ι ℝ) :
    ((1 / 2 : ℝ) • (G + Gᵀ)).IsSymm
    ∧ (G.IsSymm → (1 / 2 : ℝ) • (G + Gᵀ) = G)
    ∧ ∀ v : ι → ℝ, v ⬝ᵥ (((1 / 2 : ℝ) • (G + Gᵀ)) *ᵥ v) = v ⬝ᵥ (G *ᵥ v) := by
  refine ⟨?_, ?_, ?_⟩
  · unfold Matrix.IsSymm
    rw [transpose_smul, transpose_add, transpose_transpose, add_comm]
  · intro hG
    rw [hG.eq]
    ext i j
    simp only [Matrix.smul_apply, Matrix.add_apply, smul_eq_mul]
    ring
  · intro v
    have hT : v ⬝ᵥ (Gᵀ *ᵥ v) = v ⬝ᵥ (G *ᵥ v) := by
      rw [mulVec_transpose, dotProduct_comm, ← dotProduct_mulVec]
    rw [smul_mulVec, add_mulVec, dotProduct_smul, dotProduct_add, hT, smul_eq_mul]
    ring

/-- Non-vacuity of the middle clause of `c16_symmetrize`: a symmetric non-diagonal matrix. -/
example : (!![1, 2; 2, 3] : Matrix (Fin 2) (Fin 2) ℝ).IsSymm := by
  ext i j; fin_cases i <;> fin_cases j <;> simp

end symm

end PV

