/-
  Property C02 — the Gamma-method estimate equals Wolff's estimator on every chain layout.
  Property theorems only; helper lemmas live in PV/Proofs.
-/
import PV.Proofs.Window
import PV.Proofs.C02aLemmas
import PV.Proofs.C02bLemmas
import PV.Proofs.C02cLemmas
import PV.Proofs.C02dLemmas

namespace PV
open Scalar

variable {α : Type} [Scalar α]

/-- C02 (window): the loop `for n in range(1, w_max): if g_w[n-1] < 0 or n >= w_max-1: break`
    stops at the first lag whose automatic-windowing criterion is negative, else at the largest
    admissible lag `w_max - 1` — for every `w_max ≥ 2`, every criterion sequence, every scalar type
    (in particular IEEE doubles: no law of arithmetic is used). -/
theorem c02_window (gw : List α) (wmax : Nat) (h : 2 ≤ wmax) :
    windowLoop gw wmax (wmax - 1) 1 = some (Spec.window (fun n => gw.getD (n - 1) 0) wmax) := by
  obtain ⟨W, hW, hfirst⟩ := windowLoop_isFirst gw wmax (wmax - 1) 1 (Nat.le_refl 1) (by omega) (by omega)
  have hspec := specWindow_isFirst (fun n => gw.getD (n - 1) 0) wmax h
  rw [hW, IsFirst.unique hfirst hspec]

/-- non-vacuity: a criterion sequence that turns negative at lag 3 -/
example : windowLoop ([1, 1, -1, 1, -1] : List Rat) 6 5 1 = some 3 := by decide


/-- C02 (δρ): the four Python slices of `_compute_drho(i)` line up with
    (1/N) Σ_{k=1}^{w_max-1-i} (ρ(i+k) + ρ(|i-k|) - 2 ρ(i) ρ(k))² for every `w_max` and every
    `1 ≤ i < w_max` — the two expressions are the same arithmetic term for term, so this holds
    for every scalar type. -/
theorem c02_drho_slices (rho : List α) (wmax i : Nat) (eN : α)
    (hlen : rho.length = wmax) (hi : 1 ≤ i) (hiw : i < wmax) :
    drhoSq rho wmax eN i = Spec.drhoSq (fun t => rho.getD t 0) wmax eN i := by
  have hlen' : i - 1 < rho.length := by omega
  -- a = rho[i+1 : w]
  have ha : Py.slice rho (some ((i : Int) + 1)) (some (wmax : Int))
      = (List.range (wmax - 1 - i)).map (fun k => rho.getD (i + (k + 1)) 0) := by
    have h := slice_fwd rho 0 (i + 1) wmax (by omega) (by omega)
    rw [show (((i + 1 : Nat) : Int)) = (i : Int) + 1 from by omega] at h
    rw [h, show wmax - (i + 1) = wmax - 1 - i from by omega]
    apply List.map_congr_left
    intro k _
    congr 1
    omega
  -- c = rho[1 : w-i]
  have hc : Py.slice rho (some 1) (some ((wmax : Int) - (i : Int)))
      = (List.range (wmax - 1 - i)).map (fun k => rho.getD (k + 1) 0) := by
    have h := slice_fwd rho 0 1 (wmax - i) (by omega) (by omega)
    rw [show (((1 : Nat) : Int)) = 1 from by omega,
      show (((wmax - i : Nat) : Int)) = (wmax : Int) - (i : Int) from by omega] at h
    rw [h, show wmax - i - 1 = wmax - 1 - i from by omega]
    apply List.map_congr_left
    intro k _
    congr 1
    omega
  -- b = rho[i-1 : stop : -1] ++ rho[1 : max 1 (w-2i)]
  have hb : Py.slice rho (some ((i : Int) - 1))
        (if (i : Int) - ((wmax : Int) - 1) / 2 ≤ 0 then none
          else some (2 * (i : Int) - (2 * (wmax : Int)) / 2)) (-1)
        ++ Py.slice rho (some 1) (some (max 1 ((wmax : Int) - 2 * (i : Int))))
      = (List.range (wmax - 1 - i)).map
          (fun k => rho.getD (if i ≥ k + 1 then i - (k + 1) else k + 1 - i) 0) := by
    by_cases hcase : (i : Int) - ((wmax : Int) - 1) / 2 ≤ 0
    · rw [if_pos hcase]
      have h1 := slice_bwd_none rho 0 (i - 1) hlen'
      rw [show (((i - 1 : Nat) : Int)) = (i : Int) - 1 from by omega] at h1
      have h2 := slice_fwd rho 0 1 (wmax - 2 * i) (by omega) (by omega)
      rw [show (((1 : Nat) : Int)) = 1 from by omega,
        show (((wmax - 2 * i : Nat) : Int)) = max 1 ((wmax : Int) - 2 * (i : Int)) from by omega] at h2
      rw [h1, h2, range_map_append,
        show i - 1 + 1 + (wmax - 2 * i - 1) = wmax - 1 - i from by omega]
      apply List.map_congr_left
      intro k hk
      have hk' : k < wmax - 1 - i := by simpa using hk
      by_cases hki : k < i - 1 + 1
      · have : i ≥ k + 1 := by omega
        rw [if_pos hki, if_pos this]
        congr 1
        omega
      · have : ¬ (i ≥ k + 1) := by omega
        rw [if_neg hki, if_neg this]
        congr 1
        omega
    · rw [if_neg hcase]
      have h1 := slice_bwd_some rho 0 (i - 1) (2 * i - wmax) hlen'
      rw [show (((i - 1 : Nat) : Int)) = (i : Int) - 1 from by omega,
        show (((2 * i - wmax : Nat) : Int)) = 2 * (i : Int) - (2 * (wmax : Int)) / 2 from by omega] at h1
      have h2 := slice_fwd rho 0 1 1 (by omega) (by omega)
      rw [show (((1 : Nat) : Int)) = 1 from by omega] at h2
      rw [show max 1 ((wmax : Int) - 2 * (i : Int)) = 1 from by omega, h1, h2]
      simp only [Nat.sub_self, List.range_zero, List.map_nil, List.append_nil]
      rw [show i - 1 - (2 * i - wmax) = wmax - 1 - i from by omega]
      apply List.map_congr_left
      intro k hk
      have hk' : k < wmax - 1 - i := by simpa using hk
      have : i ≥ k + 1 := by omega
      rw [if_pos this]
      congr 1
      omega
  simp only [drhoSq, Spec.drhoSq, ha, hb, hc, List.map_map, zipWith_range_map]
  rfl

/-- C02 (tau_exp loop): the loop breaks at the first `n ≥ 1` with
    `ρ(n) - Nσ δρ(n) < 0`, or at `max 1 (w_max/2 - 2)` if there is none before; the stored
    `e_drho` array is zero except for the entries `1 .. n+1`, which hold `δρ`. -/
theorem c02_texp_loop (rho : List α) (nSigma : α) (drhoAt : Nat → α) (wmax : Nat)
    (h : 2 ≤ wmax / 2) :
    ∃ W drho,
      texpLoop rho nSigma drhoAt wmax (wmax / 2 - 1) 1 ((List.replicate wmax (0 : α)).set 1 (drhoAt 1))
        = some (W, drho) ∧
      IsFirst (fun n => rho.getD n 0 - nSigma * drhoAt n < 0) 1 (max 1 (wmax / 2 - 2)) W ∧
      drho = (List.range wmax).map (fun j => if 1 ≤ j ∧ j ≤ W + 1 then drhoAt j else 0) := by
  obtain ⟨W, hW, hfirst⟩ :=
    texpLoop_spec rho nSigma drhoAt wmax h (wmax / 2 - 1) 1 (Nat.le_refl 1) (by omega) (by omega)
  refine ⟨W, drhoFilled drhoAt wmax (W + 1), ?_, hfirst, rfl⟩
  rw [drhoFilled_init]
  exact hW

/-- well-formed chain for the Gamma method: strictly increasing configuration numbers, one
    fluctuation per configuration, all distances multiples of the positive spacing `gap`
    (for a `range` chain the model additionally uses `step = gap ∨ step ≠ gap` as the code does) -/
def ChainOK (r : Rep ℝ) (gap : Int) : Prop :=
  0 < gap ∧ Idl.strictInc r.idl.toList = true ∧ r.deltas.length = r.idl.len ∧ 0 < r.idl.len ∧
  (∀ c ∈ r.idl.toList, (c - r.idl.first) % gap = 0) ∧
  (match r.idl with | .range _ _ st => 0 < st | .list _ => True)

/-- C02 (Γ by configuration number): entry `t` of `_calc_gamma` (expand to spacing `gap`,
    shift by `t`, dot product) is the sum over all pairs of configurations of the chain that
    are exactly `t·gap` apart of the products of their fluctuations. -/
theorem c02_gamma_pairs (r : Rep ℝ) (gap : Int) (wmax t : Nat) (h : ChainOK r gap) (ht : t < wmax) :
    (calcGamma r.deltas r.idl wmax gap).getD t 0 = Spec.gammaRep r gap t := by
  obtain ⟨hgap, hinc, hlen, hpos, hmod, _⟩ := h
  have hexp := expandDeltas_isExpansion r gap hgap hinc hlen hpos hmod
  have hdot := dot_shift_eq_gammaRep r gap _ hgap (strictInc_pairwise _ hinc) hexp t
  rw [← hdot]
  unfold calcGamma
  simp [List.getD_eq_getElem?_getD, List.getElem?_map, List.getElem?_range ht]

/-- the same on a chain of ones counts the pairs -/
theorem c02_gamma_count (r : Rep ℝ) (gap : Int) (wmax t : Nat) (h : ChainOK r gap) (ht : t < wmax)
    (hones : r.deltas = List.replicate r.idl.len 1) :
    (calcGamma r.deltas r.idl wmax gap).getD t 0 = (Spec.pairsRep r gap t : ℝ) := by
  rw [c02_gamma_pairs r gap wmax t h ht]
  exact gammaRep_ones r gap t hones

/-! ### the assembled statement: the model of `gamma_method` IS the Wolff specification -/

section assembled
open PV.RealS PV.C02c
set_option linter.unusedSimpArgs false
set_option linter.unusedVariables false

local notation "𝟘" => (@OfNat.ofNat ℝ 0 (Scalar.instOfNatScalar 0))

/-- **C02 (Γ table).** -/
theorem c02_gamma_table_real (reps : List (Rep ℝ)) (gap : Int) (wmax : Nat) (h : ∀ r ∈ reps, ChainOK r gap) :
    List.zipWith (· / ·)
      (reps.foldl (fun acc r => addL acc (calcGamma r.deltas r.idl wmax gap)) (List.replicate wmax 0))
      ((reps.foldl (fun acc r => addL acc (calcGamma (List.replicate r.idl.len (1 : ℝ)) r.idl wmax gap))
          (List.replicate wmax 0)).map (fun x => if x < 1 then 1 else x))
      = (List.range wmax).map (Spec.gamma reps gap) := by
  apply List.ext_getElem
  · simp [foldl_addL_length', calcGamma_length]
  · intro t h1 h2
    have ht : t < wmax := by simpa using h2
    simp only [List.getElem_zipWith, List.getElem_map, List.getElem_range]
    have hnum := foldl_addL_getD reps (fun r => calcGamma r.deltas r.idl wmax gap) wmax
      (fun r _ => calcGamma_length _ _ _ _) t
    have hden := foldl_addL_getD reps (fun r => calcGamma (List.replicate r.idl.len (1 : ℝ)) r.idl wmax gap) wmax
      (fun r _ => calcGamma_length _ _ _ _) t
    rw [List.getD_eq_getElem?_getD, List.getElem?_eq_getElem (by simp [foldl_addL_length', calcGamma_length, ht])] at hnum hden
    simp only [Option.getD_some] at hnum hden
    rw [hnum, hden]
    -- numerator
    have hn : (reps.map (fun r => (calcGamma r.deltas r.idl wmax gap).getD t 0)).sum
        = (reps.map (fun r => Spec.gammaRep r gap t)).sum := by
      congr 1
      apply List.map_congr_left
      intro r hr
      exact c02_gamma_pairs r gap wmax t (h r hr) ht
    -- denominator: the pair counts
    have hd : (reps.map (fun r => (calcGamma (List.replicate r.idl.len (1 : ℝ)) r.idl wmax gap).getD t 0)).sum
        = (((reps.map (fun r => Spec.pairsRep r gap t)).foldr (· + ·) 0 : Nat) : ℝ) := by
      rw [natSum_cast, List.map_map]
      congr 1
      apply List.map_congr_left
      intro r hr
      obtain ⟨hgap, hinc, hlen, hpos, hmod, hst⟩ := h r hr
      have hr' : ChainOK { r with deltas := List.replicate r.idl.len 1 } gap :=
        ⟨hgap, hinc, by simp, hpos, hmod, hst⟩
      have := c02_gamma_count { r with deltas := List.replicate r.idl.len 1 } gap wmax t hr' ht rfl
      simpa [Spec.pairsRep] using this
    rw [hn, hd]
    unfold Spec.gamma
    simp only [sum_eq, ofNatS_eq]
    congr 1
    set cnt := (reps.map (fun r => Spec.pairsRep r gap t)).foldr (· + ·) 0
    by_cases hc : cnt = 0
    · simp [hc]
    · have : (1 : ℝ) ≤ (cnt : ℝ) := by exact_mod_cast Nat.one_le_iff_ne_zero.mpr hc
      have h1 : ¬ ((cnt : ℝ) < 1) := not_lt.mpr this
      simp [h1, Nat.max_eq_right (Nat.one_le_iff_ne_zero.mpr hc)]

/-- **C02 (Γ table).**  The table the code accumulates (expanded fluctuations, shifted dot products, pair
    counts clamped at 1, summed over replicas) is Γ(t) by configuration number for every lag. -/
theorem c02_gamma_table (reps : List (Rep ℝ)) (gap : Int) (wmax : Nat) (h : ∀ r ∈ reps, ChainOK r gap) :
    gammaTable reps wmax gap = (List.range wmax).map (Spec.gamma reps gap) := by
  have := c02_gamma_table_real reps gap wmax h
  unfold gammaTable
  simp only [ofNat_eq_lit, lit_eq, Nat.cast_zero, Nat.cast_one]
  exact this

/-- `gammaEnsemble` is `determineGap`, then the table, then `analyseGamma` (definitional) -/
theorem gammaEnsemble_eq_analyse {α : Type} [Transc α] (fp : FpConsts α) (ens : String) (reps : List (Rep α)) (S tauExp nSigma : α) :
    gammaEnsemble fp ens reps S tauExp nSigma =
      (determineGap ens reps).bind (fun gap =>
        let wmax := (Py.fdiv ((reps.map (fun r => rLength r.idl gap)).foldl max 0) 2).toNat
        analyseGamma fp ens (ofNatS ((reps.map (·.idl.len)).foldr (· + ·) 0)) wmax (gammaTable reps wmax gap) S tauExp nSigma) := rfl

theorem ensemble_eq_analyse {α : Type} [Transc α] (fp : FpConsts α) (ens : String) (reps : List (Rep α)) (gap : Int) (wmax : Nat)
    (S tauExp nSigma : α) :
    Spec.ensemble fp ens reps gap wmax S tauExp nSigma =
      Spec.analyse fp ens (ofNatS ((reps.map (·.idl.len)).foldr (· + ·) 0)) wmax
        ((List.range wmax).map (Spec.gamma reps gap)) S tauExp nSigma := rfl

theorem IsFirst.congr {p p' : Nat → Prop} {lo hi W : Nat} (h : IsFirst p lo hi W)
    (hpp : ∀ m, lo ≤ m → m ≤ hi → (p m ↔ p' m)) : IsFirst p' lo hi W := by
  obtain ⟨h1, h2, h3, h4⟩ := h
  refine ⟨h1, h2, ?_, ?_⟩
  · intro m hm1 hm2 hp'
    exact h3 m hm1 hm2 ((hpp m hm1 (by omega)).mpr hp')
  · intro hlt
    exact (hpp W h1 h2).mp (h4 hlt)


/-- **C02 (everything computed from the table).**  For every table of length `wmax ≥ 1` and all parameters:
    ρ, τ_int(W) with the clamp, its error, δρ, the automatic window, the tau_exp analysis, the S = 0 branch,
    the bias correction, the error and the error of the error computed by the model of the code are exactly
    what the specification prescribes. -/
theorem c02_analyse (fp : FpConsts ℝ) (ens : String) (eN : ℝ) (wmax : Nat) (G : List ℝ) (S tauExp nSigma : ℝ)
    (hlen : G.length = wmax) (hw : 1 ≤ wmax) :
    analyseGamma fp ens eN wmax G S tauExp nSigma = Spec.analyse fp ens eN wmax G S tauExp nSigma := by
  unfold analyseGamma Spec.analyse
  extract_lets zero g0 rho nTau0 nTau nDtau0 nDtau drhoAt biasTau drho1 jp dv tauL gw Gf rhoL rhof tauRaw nTauS tauS dtauS drhoS biasS nDtauS stop dvS tauSS g W t dvW
  have hg0 : g0 = Gf 0 := rfl
  have hrho : rho = rhoL := rfl
  have hrholen : rho.length = wmax := by simp [rho, hlen]
  have hnTau : nTau = nTauS := ntau_eq' rho fp.half fp.eps wmax hrholen hw
  have hnTaulen : nTau.length = wmax := by rw [hnTau]; simp [nTauS]
  have hnDtau : nDtau = nDtauS := by
    have := ndtau_eq' nTau wmax hnTaulen (fun i t => t * 2 * Transc.sqrt (absS (ofNatS i + fp.half - t) / eN))
    simp only [nDtau, nDtau0, nDtauS, dtauS, tauS]
    rw [← hnTau]
    exact this
  have hdrho : ∀ i, 1 ≤ i → i < wmax → drhoAt i = drhoS i := by
    intro i h1 h2
    simp only [drhoAt, drhoS]
    rw [c02_drho_slices rho wmax i eN hrholen h1 h2]
  have hbias : ∀ n, biasTau n = biasS n := by
    intro n; simp only [biasTau, biasS, tauS, hnTau]
  have hnD : ∀ n, n < wmax → nDtau.getD n 𝟘 = dtauS n := by
    intro n hn
    rw [hnDtau]
    simp [nDtauS, List.getD_eq_getElem?_getD, hn]
  have hnDS : ∀ n, n < wmax → nDtauS.getD n 𝟘 = dtauS n := by
    intro n hn
    rw [← hnDtau]; exact hnD n hn
  split
  · rfl
  · split
    · -- tau_exp branch
      by_cases hM : wmax / 2 ≤ 1
      · simp [hM, bind, Except.bind, throw, throwThe, MonadExceptOf.throw]
      · have hM2 : 2 ≤ wmax / 2 := by omega
        simp only [hM, if_false]
        obtain ⟨Wl, drho, hloop, hfirst, hdr⟩ := c02_texp_loop rho nSigma drhoAt wmax hM2
        obtain ⟨k, hfind, hfirst'⟩ := specTexp_isFirst (fun n => rhof n - nSigma * drhoS n < 𝟘) stop wmax hM2
          (fun n => by simp only [stop, decide_eq_true_eq])
        have hcongr : IsFirst (fun n => rhof n - nSigma * drhoS n < 𝟘) 1 (max 1 (wmax / 2 - 2)) Wl := by
          apply hfirst.congr
          intro m hm1 hm2
          have : m < wmax := by omega
          rw [hdrho m hm1 this]
        have hWk : Wl = k + 1 := IsFirst.unique hcongr hfirst'
        have hWlt : Wl + 1 < wmax := by
          have := hcongr.2.1
          omega
        simp only [jp, drho1, zero]
        rw [hloop]
        rw [hfind]
        simp only [pure, Except.pure]
        subst hWk
        congr 1
        have e1 : drho.getD (k + 1 + 1) 𝟘 = drhoS (k + 1 + 1) := by
          rw [hdr]
          have : k + 1 + 1 < wmax := hWlt
          simp [List.getD_eq_getElem?_getD, this]
          exact hdrho _ (by omega) this
        have e2 : drho = List.map (fun i => if 1 ≤ i ∧ i ≤ k + 1 + 1 then drhoS i else 𝟘) (List.range wmax) := by
          rw [hdr]
          apply List.map_congr_left
          intro i hi
          have hi' : i < wmax := by simpa using hi
          by_cases hc : 1 ≤ i ∧ i ≤ k + 1 + 1
          · simp only [hc, and_self, if_true]; exact hdrho i hc.1 hi'
          · simp only [hc, if_false]
        have e3 : List.map (fun j => rho.getD (j + 1) 𝟘 - nSigma * drhoAt (j + 1)) (List.range (k + 1))
            = List.map (fun j => rhof (j + 1) - nSigma * drhoS (j + 1)) (List.range (k + 1)) := by
          apply List.map_congr_left
          intro j hj
          have hj' : j < k + 1 := by simpa using hj
          rw [hdrho (j + 1) (by omega) (by omega)]
        have e1' : (List.map (fun i => if 1 ≤ i ∧ i ≤ k + 1 + 1 then drhoS i else 𝟘) (List.range wmax)).getD (k + 1 + 1) 𝟘
            = drhoS (k + 1 + 1) := by rw [← e2]; exact e1
        simp only [hbias, e2, e3]
        simp only [hnTau, hnDtau, hrho, hg0, rhof]
        simp only [hnDS (k + 1) (by omega), e1']
    · split
      · -- S = 0
        simp only [pure, Except.pure, hnTau, hnDtau, hrho, hg0, dv, dvS]
      · -- automatic windowing
        by_cases hw1 : wmax ≤ 1
        · have : wmax = 1 := by omega
          subst this
          simp [windowLoop, throw, throwThe, MonadExceptOf.throw]
        · have hw2 : 2 ≤ wmax := by omega
          simp only [hw1, if_false]
          have htauLlen : tauL.length = wmax - 1 := by simp [tauL, hnTaulen]
          have hgw : gw = (List.range (wmax - 1)).map (fun k => g (k + 1)) := by
            apply List.ext_getElem
            · simp [gw, htauLlen]
            · intro i h1 h2
              have hi : i < wmax - 1 := by simpa using h2
              simp only [gw, List.getElem_map, List.getElem_zip, List.getElem_range, g, tauSS, tauS, tauL]
              simp only [List.getElem_drop, ← hnTau]
              have : (nTau.getD (i + 1) 𝟘) = nTau[1 + i]'(by omega) := by
                simp [List.getD_eq_getElem?_getD, Nat.add_comm, List.getElem?_eq_getElem (by omega : i + 1 < nTau.length)]
              rw [this]
          have hwin := c02_window gw wmax hw2
          have hcongr : Spec.window (fun n => gw.getD (n - 1) 𝟘) wmax = W := by
            apply window_congr
            intro n hn1 hn2
            rw [hgw]
            have : n - 1 < wmax - 1 := by omega
            simp [List.getD_eq_getElem?_getD, this]
            congr 1 <;> omega
          rw [hwin, hcongr]
          simp only [pure, Except.pure]
          have hWfirst := specWindow_isFirst g wmax hw2
          have hW1 : 1 ≤ W := hWfirst.1
          have hW2 : W ≤ wmax - 1 := hWfirst.2.1
          congr 1
          have e1 : zero.set W (drhoAt W) = List.map (fun i => if i = W then drhoS i else 𝟘) (List.range wmax) := by
            apply List.ext_getElem
            · simp [zero]
            · intro i h1 h2
              have hi : i < wmax := by simpa using h2
              simp only [zero, List.getElem_set, List.getElem_replicate, List.getElem_map, List.getElem_range]
              by_cases hiW : W = i
              · subst hiW; simp only [if_true]; exact hdrho _ hW1 hi
              · have : ¬ (i = W) := fun e => hiW e.symm
                simp only [hiW, this, if_false]
          have e2 : List.take W gw = List.map (fun k => g (k + 1)) (List.range W) := by
            rw [hgw, ← List.map_take, List.take_range, Nat.min_eq_left hW2]
          simp only [hbias, e1, e2, hnTau, hnDtau, hrho, hg0, t, dvW]
          simp only [hnDS W (by omega)]

/-- **C02 (per ensemble): model = Wolff specification.**  Whenever the chains of the ensemble have a common
    spacing and are well-formed, the analysis the code performs is the specified estimator, for every
    number of replicas, every chain layout, every parameter choice. -/
theorem c02_ensemble (fp : FpConsts ℝ) (ens : String) (reps : List (Rep ℝ)) (gap : Int) (S tauExp nSigma : ℝ)
    (hgap : determineGap ens reps = .ok gap) (hok : ∀ r ∈ reps, ChainOK r gap)
    (hw : 1 ≤ Spec.wMax reps gap) :
    gammaEnsemble fp ens reps S tauExp nSigma
      = Spec.ensemble fp ens reps gap (Spec.wMax reps gap) S tauExp nSigma := by
  rw [gammaEnsemble_eq_analyse, ensemble_eq_analyse, hgap]
  simp only [Except.bind]
  have htab : gammaTable reps (Spec.wMax reps gap) gap
      = (List.range (Spec.wMax reps gap)).map (Spec.gamma reps gap) :=
    c02_gamma_table reps gap (Spec.wMax reps gap) hok
  show analyseGamma fp ens _ (Spec.wMax reps gap) (gammaTable reps (Spec.wMax reps gap) gap) S tauExp nSigma = _
  rw [htab]
  exact c02_analyse fp ens _ _ _ S tauExp nSigma (by simp) hw

theorem mapM_congr_except {ε β γ : Type} (l : List β) (f g : β → Except ε γ) (h : ∀ x ∈ l, f x = g x) :
    l.mapM f = l.mapM g := by
  induction l with
  | nil => rfl
  | cons x xs ih =>
    simp only [List.mapM_cons]
    rw [h x (by simp), ih (fun y hy => h y (by simp [hy]))]

/-- **C02: the model of `gamma_method` is the Wolff specification.**  For every observable whose ensembles
    have well-formed chains with a common spacing (any number of ensembles, replicas, covariance inputs; any
    layout: contiguous, strided, gapped, irregular; any S, tau_exp, N_sigma per ensemble), the whole result
    record of the model of the code - per ensemble τ_int, its error, the error, the error of the error, the
    window, ρ, δρ, the cumulative τ_int(W) arrays, and the total error with the covariance-input terms -
    equals the specification written by configuration number from the papers.  The executable model is what
    the harness compares with pyerrors on every generated case. -/
theorem c02_formulas (fp : FpConsts ℝ) (o : Obs ℝ) (p : GmParams ℝ)
    (h : ∀ e ∈ o.mcNames, ∀ gap, determineGap e (o.eContent e) = .ok gap →
      (∀ r ∈ o.eContent e, ChainOK r gap) ∧ 1 ≤ Spec.wMax (o.eContent e) gap) :
    gammaMethod fp o p = Spec.gammaMethod fp o p := by
  unfold gammaMethod Spec.gammaMethod
  have hm : o.mcNames.mapM (fun e => gammaEnsemble fp e (o.eContent e) (p.S e) (p.tauExp e) (p.nSigma e))
      = o.mcNames.mapM (fun e => do
          let reps := o.eContent e
          let gap ← determineGap e reps
          Spec.ensemble fp e reps gap (Spec.wMax reps gap) (p.S e) (p.tauExp e) (p.nSigma e)) := by
    apply mapM_congr_except
    intro e he
    cases hg : determineGap e (o.eContent e) with
    | error err =>
      rw [gammaEnsemble_eq_analyse, hg]
      simp only [hg, bind, Except.bind]
    | ok gap =>
      obtain ⟨hok, hw⟩ := h e he gap hg
      rw [c02_ensemble fp e (o.eContent e) gap _ _ _ hg hok hw]
      simp only [hg, bind, Except.bind]
  rw [hm]

/-- non-vacuity: an irregular chain with common spacing 2 satisfies `ChainOK` -/
example : ChainOK { name := "A|r1", idl := .list [1, 3, 5, 9], deltas := [1, -1, 2, -2], rvalue := 0 } 2 := by
  refine ⟨by decide, by decide, by simp [Idl.len, Idl.toList], by simp [Idl.len, Idl.toList], ?_, trivial⟩
  intro c hc
  simp [Idl.toList] at hc
  rcases hc with rfl | rfl | rfl | rfl <;> decide

end assembled

/-- **C02 (the window bound counts the positions of the expanded chain).**  `r_length`, from which
    `w_max = max(r_length) // 2` is taken, is the length of the array `_expand_deltas` builds for that replica on the
    ensemble's spacing - for ranges of any stride and for lists alike (a range of stride k·gap used to be counted as
    `len·k`, k - 1 positions that do not exist; repaired in /repo 98abf56, and the model has the one formula). -/
theorem c02_window_bound_counts_expanded_chain (d : List α) (idx : Idl) (gap : Int) (hg : 0 < gap)
    (hlen : d.length = idx.len) (hne : 0 < idx.len) (hle : idx.first ≤ idx.last) :
    ((expandDeltas d idx gap).length : Int) = rLength idx gap :=
  C02d.rLength_eq_expanded_length d idx gap hg hlen hne hle

/-- the witness of the repaired defect: `range(1, 41, 4)` next to a replica of stride 2 occupies 19 positions, not 20 -/
example : rLength (.range 1 10 4) 2 = 19 ∧ (Idl.range 1 10 4).first ≤ (Idl.range 1 10 4).last := by decide

end PV
