/-
  Property C02 — the Gamma-method estimate equals Wolff's estimator on every chain layout.
  Property theorems only; helper lemmas live in PV/Proofs.
-/
import PV.Proofs.Window
import PV.Proofs.C02aLemmas
import PV.Proofs.C02bLemmas

namespace PV
open Scalar

variable {α : Type} [Scalar α]

/-- C02 (window): the loop `for n in range(1, w_max): if g_w[n-1] < 0 or n >= w_max-1: break`
    stops at the first lag whose automatic-windowing criterion is negative, else at the largest
    admissible lag `w_max - 1` — for every `w_max ≥ 2`, every criterion sequence, every scalar type
    (in particular IEEE doubles: no law of arithmetic is used). -/
theorem c02_window (gw : List α) (wmax : Nat) (h : 2 ≤ wmax) :
    windowLoop gw wmax (wmax - 1) 1 = some (Spec.window (fun n => gw.getD (n - 1) 0) wmax) := by
  obtain ⟨W, hW, hfirst⟩ := windowLoop_isFirst gw wmax (wmax - 1) 1 (Nat.le_refl 1) (by omega) (by omega)
  have hspec := specWindow_isFirst (fun n => gw.getD (n - 1) 0) wmax h
  rw [hW, IsFirst.unique hfirst hspec]

/-- non-vacuity: a criterion sequence that turns negative at lag 3 -/
example : windowLoop ([1, 1, -1, 1, -1] : List Rat) 6 5 1 = some 3 := by decide


/-- C02 (δρ): the four Python slices of `_compute_drho(i)` line up with
    (1/N) Σ_{k=1}^{w_max-1-i} (ρ(i+k) + ρ(|i-k|) - 2 ρ(i) ρ(k))² for every `w_max` and every
    `1 ≤ i < w_max` — the two expressions are the same arithmetic term for term, so this holds
    for every scalar type. -/
theorem c02_drho_slices (rho : List α) (wmax i : Nat) (eN : α)
    (hlen : rho.length = wmax) (hi : 1 ≤ i) (hiw : i < wmax) :
    drhoSq rho wmax eN i = Spec.drhoSq (fun t => rho.getD t 0) wmax eN i := by
  have hlen' : i - 1 < rho.length := by omega
  -- a = rho[i+1 : w]
  have ha : Py.slice rho (some ((i : Int) + 1)) (some (wmax : Int))
      = (List.range (wmax - 1 - i)).map (fun k => rho.getD (i + (k + 1)) 0) := by
    have h := slice_fwd rho 0 (i + 1) wmax (by omega) (by omega)
    rw [show (((i + 1 : Nat) : Int)) = (i : Int) + 1 from by omega] at h
    rw [h, show wmax - (i + 1) = wmax - 1 - i from by omega]
    apply List.map_congr_left
    intro k _
    congr 1
    omega
  -- c = rho[1 : w-i]
  have hc : Py.slice rho (some 1) (some ((wmax : Int) - (i : Int)))
      = (List.range (wmax - 1 - i)).map (fun k => rho.getD (k + 1) 0) := by
    have h := slice_fwd rho 0 1 (wmax - i) (by omega) (by omega)
    rw [show (((1 : Nat) : Int)) = 1 from by omega,
      show (((wmax - i : Nat) : Int)) = (wmax : Int) - (i : Int) from by omega] at h
    rw [h, show wmax - i - 1 = wmax - 1 - i from by omega]
    apply List.map_congr_left
    intro k _
    congr 1
    omega
  -- b = rho[i-1 : stop : -1] ++ rho[1 : max 1 (w-2i)]
  have hb : Py.slice rho (some ((i : Int) - 1))
        (if (i : Int) - ((wmax : Int) - 1) / 2 ≤ 0 then none
          else some (2 * (i : Int) - (2 * (wmax : Int)) / 2)) (-1)
        ++ Py.slice rho (some 1) (some (max 1 ((wmax : Int) - 2 * (i : Int))))
      = (List.range (wmax - 1 - i)).map
          (fun k => rho.getD (if i ≥ k + 1 then i - (k + 1) else k + 1 - i) 0) := by
    by_cases hcase : (i : Int) - ((wmax : Int) - 1) / 2 ≤ 0
    · rw [if_pos hcase]
      have h1 := slice_bwd_none rho 0 (i - 1) hlen'
      rw [show (((i - 1 : Nat) : Int)) = (i : Int) - 1 from by omega] at h1
      have h2 := slice_fwd rho 0 1 (wmax - 2 * i) (by omega) (by omega)
      rw [show (((1 : Nat) : Int)) = 1 from by omega,
        show (((wmax - 2 * i : Nat) : Int)) = max 1 ((wmax : Int) - 2 * (i : Int)) from by omega] at h2
      rw [h1, h2, range_map_append,
        show i - 1 + 1 + (wmax - 2 * i - 1) = wmax - 1 - i from by omega]
      apply List.map_congr_left
      intro k hk
      have hk' : k < wmax - 1 - i := by simpa using hk
      by_cases hki : k < i - 1 + 1
      · have : i ≥ k + 1 := by omega
        rw [if_pos hki, if_pos this]
        congr 1
        omega
      · have : ¬ (i ≥ k + 1) := by omega
        rw [if_neg hki, if_neg this]
        congr 1
        omega
    · rw [if_neg hcase]
      have h1 := slice_bwd_some rho 0 (i - 1) (2 * i - wmax) hlen'
      rw [show (((i - 1 : Nat) : Int)) = (i : Int) - 1 from by omega,
        show (((2 * i - wmax : Nat) : Int)) = 2 * (i : Int) - (2 * (wmax : Int)) / 2 from by omega] at h1
      have h2 := slice_fwd rho 0 1 1 (by omega) (by omega)
      rw [show (((1 : Nat) : Int)) = 1 from by omega] at h2
      rw [show max 1 ((wmax : Int) - 2 * (i : Int)) = 1 from by omega, h1, h2]
      simp only [Nat.sub_self, List.range_zero, List.map_nil, List.append_nil]
      rw [show i - 1 - (2 * i - wmax) = wmax - 1 - i from by omega]
      apply List.map_congr_left
      intro k hk
      have hk' : k < wmax - 1 - i := by simpa using hk
      have : i ≥ k + 1 := by omega
      rw [if_pos this]
      congr 1
      omega
  simp only [drhoSq, Spec.drhoSq, ha, hb, hc, List.map_map, zipWith_range_map]
  rfl

/-- C02 (tau_exp loop): the loop breaks at the first `n ≥ 1` with
    `ρ(n) - Nσ δρ(n) < 0`, or at `max 1 (w_max/2 - 2)` if there is none before; the stored
    `e_drho` array is zero except for the entries `1 .. n+1`, which hold `δρ`. -/
theorem c02_texp_loop (rho : List α) (nSigma : α) (drhoAt : Nat → α) (wmax : Nat)
    (h : 2 ≤ wmax / 2) :
    ∃ W drho,
      texpLoop rho nSigma drhoAt wmax (wmax / 2 - 1) 1 ((List.replicate wmax (0 : α)).set 1 (drhoAt 1))
        = some (W, drho) ∧
      IsFirst (fun n => rho.getD n 0 - nSigma * drhoAt n < 0) 1 (max 1 (wmax / 2 - 2)) W ∧
      drho = (List.range wmax).map (fun j => if 1 ≤ j ∧ j ≤ W + 1 then drhoAt j else 0) := by
  obtain ⟨W, hW, hfirst⟩ :=
    texpLoop_spec rho nSigma drhoAt wmax h (wmax / 2 - 1) 1 (Nat.le_refl 1) (by omega) (by omega)
  refine ⟨W, drhoFilled drhoAt wmax (W + 1), ?_, hfirst, rfl⟩
  rw [drhoFilled_init]
  exact hW

/-- well-formed chain for the Gamma method: strictly increasing configuration numbers, one
    fluctuation per configuration, all distances multiples of the positive spacing `gap`
    (for a `range` chain the model additionally uses `step = gap ∨ step ≠ gap` as the code does) -/
def ChainOK (r : Rep ℝ) (gap : Int) : Prop :=
  0 < gap ∧ Idl.strictInc r.idl.toList = true ∧ r.deltas.length = r.idl.len ∧ 0 < r.idl.len ∧
  (∀ c ∈ r.idl.toList, (c - r.idl.first) % gap = 0) ∧
  (match r.idl with | .range _ _ st => 0 < st | .list _ => True)

/-- C02 (Γ by configuration number): entry `t` of `_calc_gamma` (expand to spacing `gap`,
    shift by `t`, dot product) is the sum over all pairs of configurations of the chain that
    are exactly `t·gap` apart of the products of their fluctuations. -/
theorem c02_gamma_pairs (r : Rep ℝ) (gap : Int) (wmax t : Nat) (h : ChainOK r gap) (ht : t < wmax) :
    (calcGamma r.deltas r.idl wmax gap).getD t 0 = Spec.gammaRep r gap t := by
  obtain ⟨hgap, hinc, hlen, hpos, hmod, _⟩ := h
  have hexp := expandDeltas_isExpansion r gap hgap hinc hlen hpos hmod
  have hdot := dot_shift_eq_gammaRep r gap _ hgap (strictInc_pairwise _ hinc) hexp t
  rw [← hdot]
  unfold calcGamma
  simp [List.getD_eq_getElem?_getD, List.getElem?_map, List.getElem?_range ht]

/-- the same on a chain of ones counts the pairs -/
theorem c02_gamma_count (r : Rep ℝ) (gap : Int) (wmax t : Nat) (h : ChainOK r gap) (ht : t < wmax)
    (hones : r.deltas = List.replicate r.idl.len 1) :
    (calcGamma r.deltas r.idl wmax gap).getD t 0 = (Spec.pairsRep r gap t : ℝ) := by
  rw [c02_gamma_pairs r gap wmax t h ht]
  exact gammaRep_ones r gap t hones

end PV
