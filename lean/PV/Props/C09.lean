/-
  Property C09 — roots and integrals of observable-dependent functions propagate errors exactly.
  The mathematical backbone (root sensitivity, inverse function, fundamental theorem of calculus
  at both limits, differentiation under the integral for the polynomial / exponential families,
  gradient ordering) is in PV/Props/C09Alg.lean.
-/
import PV.Props.C09Alg

namespace PV

/-- the signs `quad` attaches to the integrand at the limits: lower limit -1, upper limit +1 -/
theorem c09_limit_signs : ([-1, 1] : List Int).length = 2 ∧ ([-1, 1] : List Int)[0]! = -1 ∧ ([-1, 1] : List Int)[1]! = 1 := by
  decide

end PV
