/-
  Property C03 — the error analysis is invariant under relabelling, rescaling and call history.
  Property theorems only.  (Invariance theorems are appended below the frame theorems.)
-/
import PV.Gen.Frames
import PV.Model.History
import PV.Model.Relabel

namespace PV
open Scalar
open PV.Gen.Frames

/-- the attributes that hold an observable's data (everything the property says the analysis
    must never alter) -/
def dataAttrs : List String :=
  ["names", "shape", "r_values", "deltas", "N", "_value", "reweighted", "idl", "tag", "_covobs"]

/-- the translator recognised the source -/
theorem c03_frames_translated : translated = true := by decide

/-- C03 (frame): `gamma_method` — including the helpers it hands the object to — assigns no
    attribute that holds the observable's data: central value, fluctuations, configuration
    lists, replica means, names, covariance inputs, flags.  (Regenerated from the AST of
    pyerrors/obs.py on every run.) -/
theorem c03_frame : ∀ a ∈ gmWrites ++ helperWrites, a ∉ dataAttrs := by decide

/-- C03 (no stale results): every attribute `gamma_method` fills entry by entry is first
    replaced by a fresh empty container at the top of the same call, so nothing written by an
    earlier analysis (with other parameters, or of an object with other ensembles) survives -/
theorem c03_reset_complete : ∀ a ∈ gmSubscriptWrites ++ gmDynamic, a ∈ gmResets := by decide

/-- C03 (derivation is blind to analyses): `derived_observable` reads no attribute that
    `gamma_method` writes, hence deriving from an analysed object equals deriving from a fresh one -/
theorem c03_derive_blind : ∀ a ∈ derivedReads, a ∉ gmWrites := by decide

end PV
