/-
  Property C03 — the error analysis is invariant under relabelling, rescaling and call history.
  Property theorems only.  (Invariance theorems are appended below the frame theorems.)
-/
import PV.Gen.Frames
import PV.Model.History
import PV.Model.Relabel
import PV.Proofs.RealScalar
import PV.Proofs.C03Lemmas
import PV.Proofs.C03bLemmas

namespace PV
open Scalar
open PV.Gen.Frames

/-- the attributes that hold an observable's data (everything the property says the analysis
    must never alter) -/
def dataAttrs : List String :=
  ["names", "shape", "r_values", "deltas", "N", "_value", "reweighted", "idl", "tag", "_covobs"]

/-- the translator recognised the source -/
theorem c03_frames_translated : translated = true := by decide

/-- C03 (frame): `gamma_method` — including the helpers it hands the object to — assigns no
    attribute that holds the observable's data: central value, fluctuations, configuration
    lists, replica means, names, covariance inputs, flags.  (Regenerated from the AST of
    pyerrors/obs.py on every run.) -/
theorem c03_frame : ∀ a ∈ gmWrites ++ helperWrites, a ∉ dataAttrs := by decide

/-- C03 (no stale results): every attribute `gamma_method` fills entry by entry is first
    replaced by a fresh empty container at the top of the same call, so nothing written by an
    earlier analysis (with other parameters, or of an object with other ensembles) survives -/
theorem c03_reset_complete : ∀ a ∈ gmSubscriptWrites ++ gmDynamic, a ∈ gmResets := by decide

/-- C03 (derivation is blind to analyses): `derived_observable` reads no attribute that
    `gamma_method` writes, hence deriving from an analysed object equals deriving from a fresh one -/
theorem c03_derive_blind : ∀ a ∈ derivedReads, a ∉ gmWrites := by decide

section generic
variable {α : Type} [Transc α]

/-- C03 (relabelling): multiplying all configuration numbers of an ensemble by `a ≥ 1` and
    shifting them by `b` leaves every output of the analysis of that ensemble unchanged —
    tau_int, its error, the error, the error of the error, the window, ρ, δρ.  Holds for every
    scalar type (the integer bookkeeping is literally identical). -/
theorem c03_affine (fp : FpConsts α) (ens : String) (reps : List (Rep α)) (S te ns : α)
    (a b : Int) (ha : 1 ≤ a) :
    gammaEnsemble fp ens (reps.map (Rep.affine a b)) S te ns = gammaEnsemble fp ens reps S te ns := by
  by_cases hne : reps = []
  · subst hne; rfl
  unfold gammaEnsemble
  rw [determineGap_affine ens reps a b ha hne]
  cases determineGap ens reps with
  | error e => rfl
  | ok g =>
    simp only [bind, Except.bind, List.map_map, List.foldl_map, Function.comp_def, Rep.affine_idl, Rep.affine_deltas,
      rLength_affine a b ha, calcGamma_affine a b ha, Idl.len_affine]

/-- C03 (renaming): the per-ensemble analysis never looks at replica names -/
theorem c03_rename (fp : FpConsts α) (ens : String) (reps : List (Rep α)) (S te ns : α)
    (f : String → String) :
    gammaEnsemble fp ens (reps.map (Rep.rename f)) S te ns = gammaEnsemble fp ens reps S te ns := by
  unfold gammaEnsemble determineGap
  simp only [List.map_map, List.foldl_map, Function.comp_def, Rep.rename]
end generic

section history
variable {α : Type} [Scalar α] {R : Type}

/-- analyses never change the defaults -/
theorem c03_globals (enss : Nat → List String) (analyse : Nat → List (String × α × α × α) → Option R)
    (w : World α R) (ops : List (HOp α)) :
    (run enss analyse w ops).g = globalsAfter w.g ops := by
  induction ops generalizing w with
  | nil => rfl
  | cons op r ih =>
    simp only [run, List.foldl_cons] at ih ⊢
    rw [ih]
    cases op <;> simp only [step, globalsAfter]
    split <;> rfl

/-- C03 (history): after ANY sequence of operations (changes of the global and per-ensemble
    defaults, analyses of this and of other objects with any arguments, arithmetic) the stored
    analysis of object `i` is the one determined by its last analysis alone: the data of `i` and
    the parameters effective at that moment (argument over dictionary over global). -/
theorem c03_history (enss : Nat → List String) (analyse : Nat → List (String × α × α × α) → Option R)
    (w : World α R) (ops : List (HOp α)) (i : Nat) (hi : i < w.res.length) :
    (run enss analyse w ops).res.getD i none
      = lastResult enss analyse w.g (w.res.getD i none) i ops := by
  induction ops generalizing w with
  | nil => rfl
  | cons op r ih =>
    simp only [run, List.foldl_cons] at ih ⊢
    have hlen : i < (step enss analyse w op).res.length := by
      cases op <;> simp only [step] <;> try exact hi
      split <;> simpa using hi
    rw [ih _ hlen]
    cases op with
    | gm j kw =>
      simp only [lastResult, step, globalsAfter]
      by_cases hj : j = i
      · subst hj
        cases effective w.g kw (enss j) <;> simp [hi]
      · cases effective w.g kw (enss j) <;> simp [hj, List.getD_eq_getElem?_getD, List.getElem?_set_ne hj]
    | _ => simp only [lastResult, step, globalsAfter]

/-- C03 (precedence): explicit argument over per-ensemble dictionary over global default;
    a negative explicit argument is rejected -/
theorem c03_precedence (g : Globals α) (kw : List (Kw × α)) (k : Kw) (e : String) :
    effective1 g kw k e =
      (match kw.find? (·.1 == k) with
       | some (_, v) => if v < 0 then .error .negativeParam else .ok v
       | none => .ok ((dictGet? (g.dict k) e).getD (g.glob k))) := by
  unfold effective1
  cases kw.find? (·.1 == k) with
  | some p => rfl
  | none => cases dictGet? (g.dict k) e <;> rfl
end history

section real
open RealS
/-- the clamp and the bias factor keep tau_int above 1/2 and all errors non-negative:
    whenever the analysis of an ensemble succeeds (over ℝ, with positive eps, half = 1/2,
    at least two configurations) -/
theorem c03_tau_ge_half (fp : FpConsts ℝ) (ens : String) (reps : List (Rep ℝ)) (S te ns : ℝ)
    (r : EnsResult ℝ) (hfp : fp.half = 1 / 2 ∧ 0 < fp.eps)
    (hN : 2 ≤ (reps.map (·.idl.len)).foldr (· + ·) 0) (hte : 0 ≤ te)
    (h : gammaEnsemble fp ens reps S te ns = .ok r) :
    1 / 2 ≤ r.tauint ∧ 0 ≤ r.dtauint ∧ 0 ≤ r.dvalue ∧ 0 ≤ r.ddvalue := by
  unfold gammaEnsemble at h
  cases hg : determineGap ens reps with
  | error e => rw [hg] at h; cases h
  | ok gap =>
    rw [hg, Except.ok_bind'] at h
    extract_lets rl eNn eN wmax zero gam0 div0 div gamma g0 rho nTau0 nTau nDtau0 nDtau drhoAt biasTau
      drho1 jp dv tau gw at h
    have heN : (2 : ℝ) ≤ eN := by
      simp only [eN, ofNatS_eq]
      exact_mod_cast hN
    have hgamma : gamma.length = wmax := by
      have h1 : gam0.length = wmax :=
        foldl_addL_length _ wmax (fun r => calcGamma_length _ _ _ _) reps zero (by simp [zero])
      have h2 : div0.length = wmax :=
        foldl_addL_length _ wmax (fun r => calcGamma_length _ _ _ _) reps zero (by simp [zero])
      simp [gamma, div, h1, h2]
    have hnTauLen : nTau.length = 1 + (wmax - 1) := by
      simp [nTau, nTau0, cumsum_length, rho, hgamma]
      omega
    have hnTauMem : ∀ t ∈ nTau, fp.half < t := by
      intro t ht
      simp only [nTau, List.mem_map] at ht
      obtain ⟨x, _, hx⟩ := ht
      split at hx
      · rw [← hx]; exact lt_add_of_pos_right _ hfp.2
      · rw [← hx]; rename_i hc; exact not_le.mp hc
    have hz : (0:ℝ) ≤ (Scalar.lit 0 : ℝ) := by simp
    have hnDtau : ∀ n, 0 ≤ nDtau.getD n (Scalar.lit 0) := by
      apply getD_nonneg_of_forall _ _ _ hz
      intro x hx
      rcases List.mem_or_eq_of_mem_set hx with hx | hx
      · simp only [nDtau0, List.mem_map] at hx
        obtain ⟨⟨i, t⟩, hit, rfl⟩ := hx
        have ht := hnTauMem t (List.of_mem_zip hit).2
        rw [hfp.1] at ht
        have : (0:ℝ) ≤ t * (Scalar.lit 2 : ℝ) := by
          rw [lit_eq]; push_cast; linarith
        exact mul_nonneg this (Real.sqrt_nonneg _)
      · rw [hx]; exact hz
    have hbias : ∀ n, n < wmax → 1 / 2 ≤ biasTau n := by
      intro n hn
      have hmem : nTau.getD n (Scalar.lit 0) ∈ nTau := by
        have : n < nTau.length := by omega
        simp [List.getD_eq_getElem?_getD, this]
      have ht := hnTauMem _ hmem
      rw [hfp.1] at ht
      have := bias_ge (nTau.getD n (Scalar.lit 0)) eN n ht (by linarith) (Nat.cast_nonneg n)
      simpa [biasTau] using this
    split at h
    · cases h
      refine ⟨?_, ?_, ?_, ?_⟩ <;> simp [hfp.1]
    · split at h
      · split at h
        · cases h
        · simp only [jp] at h
          split at h
          · cases h
          · cases h
            rename_i W d hW
            have hb := texpLoop_bound _ _ _ _ _ _ _ _ _ hW
            have hWlt : W < wmax := by omega
            refine ⟨?_, Real.sqrt_nonneg _, Real.sqrt_nonneg _,
              mul_nonneg (Real.sqrt_nonneg _) (Real.sqrt_nonneg _)⟩
            have h1 := hbias W hWlt
            have h2 : (0:ℝ) ≤ te * absS (rho.getD (W + 1) (Scalar.lit 0)) := by
              rw [absS_eq]; exact mul_nonneg hte (abs_nonneg _)
            show 1 / 2 ≤ biasTau W + te * absS (rho.getD (W + 1) (Scalar.lit 0))
            linarith
      · split at h
        · cases h
          refine ⟨?_, ?_, Real.sqrt_nonneg _, mul_nonneg (Real.sqrt_nonneg _) (Real.sqrt_nonneg _)⟩
          · simp [hfp.1]
          · simp
        · split at h
          · cases h
          · cases h
            rename_i W hW
            have hb := windowLoop_bound _ _ _ _ _ hW
            have hWlt : W < wmax := by omega
            exact ⟨hbias W hWlt, hnDtau W, Real.sqrt_nonneg _,
              mul_nonneg (Real.sqrt_nonneg _) (Real.sqrt_nonneg _)⟩
end real



section rescaling
open PV.C03b

/-- C03 (multiplying the data by c): in the Gamma method of the specification (which `c02_formulas` shows
    the model of the code to compute), multiplying every fluctuation of an ensemble by `c ≠ 0` leaves
    τ_int, its error, the summation window, ρ, δρ and every τ_int(W) unchanged and multiplies the error
    and the error of the error by |c| — for every chain layout, S, τ_exp and N_σ.  The two hypotheses
    say that neither data set falls under the implementation's zero-variance guard
    (Γ(0) < 10·tiny), where the analysis deliberately reports zero error. -/
theorem c03_scale_data (fp : FpConsts ℝ) (ens : String) (reps : List (Rep ℝ)) (gap : Int) (wmax : Nat)
    (S te ns c : ℝ) (hc : c ≠ 0) (hw : 1 ≤ wmax)
    (hg1 : ¬ absS (Spec.gamma reps gap 0) < fp.tenTiny)
    (hg2 : ¬ absS (c ^ 2 * Spec.gamma reps gap 0) < fp.tenTiny) :
    Spec.ensemble fp ens (reps.map (scaleRep c)) gap wmax S te ns
      = (Spec.ensemble fp ens reps gap wmax S te ns).map (scaleRes |c|) :=
  ensemble_scale fp ens reps gap wmax S te ns c hc hw hg1 hg2

/-- what `scaleRes` leaves alone and what it scales -/
theorem c03_scaleRes_fields (s : ℝ) (r : EnsResult ℝ) :
    (scaleRes s r).tauint = r.tauint ∧ (scaleRes s r).dtauint = r.dtauint ∧
    (scaleRes s r).windowsize = r.windowsize ∧ (scaleRes s r).rho = r.rho ∧ (scaleRes s r).drho = r.drho ∧
    (scaleRes s r).nTauint = r.nTauint ∧ (scaleRes s r).dvalue = s * r.dvalue ∧
    (scaleRes s r).ddvalue = s * r.ddvalue := ⟨rfl, rfl, rfl, rfl, rfl, rfl, rfl, rfl⟩

/-- Γ(t) of the rescaled data is c²·Γ(t), for every lag and layout -/
theorem c03_gamma_scale (c : ℝ) (reps : List (Rep ℝ)) (gap : Int) (t : Nat) :
    Spec.gamma (reps.map (scaleRep c)) gap t = c ^ 2 * Spec.gamma reps gap t := gamma_scale c reps gap t

/-- C03 (adding a constant to the data): the fluctuations the constructor stores (sample minus
    replica mean) do not change, and the replica mean moves by the constant; the analysis, which reads
    only fluctuations and configuration numbers (`c03_frame`), is therefore unchanged -/
theorem c03_addconst (s : List ℝ) (c : ℝ) (hs : s ≠ []) :
    (s.map (· + c)).map (· - mean (s.map (· + c))) = s.map (· - mean s) ∧
    mean (s.map (· + c)) = mean s + c :=
  ⟨addconst_fluct s c hs, mean_add_const s c hs⟩

end rescaling

end PV
