/-
  Property C17 - file readers return exactly the stored numbers at the right configurations.
  Property theorems only (record structure of the binary formats).
-/
import PV.Model.Bytes
import PV.Proofs.BytesLemmas

namespace PV
open PV.Bytes

/-- little-endian 32-bit integers round-trip -/
theorem c17_le32_enc32 (i : Int) (h1 : -2147483648 ≤ i) (h2 : i < 2147483648) : le32 (enc32 i) = some i :=
  le32_enc32_aux i h1 h2

/-- C17 (stream readers): reading back what was written returns exactly the records -/
theorem c17_decode_encode (P : Nat) (rs : List Rec) (h : RecsOK P rs) (fuel : Nat) (hf : rs.length < fuel) :
    readRecords P fuel (encodeRecords rs) [] = .ok rs := by
  obtain ⟨f, rfl⟩ : ∃ f, fuel = rs.length + f := ⟨fuel - rs.length, by omega⟩
  have := readRecords_append P rs h f [] []
  rw [List.append_nil] at this
  rw [this, readRecords_short P f [] _ (by simp)]
  simp


/-- C17 (chunked reader) -/
theorem c17_decode_encode_chunks (P : Nat) (rs : List Rec) (h : RecsOK P rs) (fuel : Nat) (hf : rs.length < fuel) :
    readChunks P fuel (encodeRecords rs) [] = .ok rs := by
  obtain ⟨f, rfl⟩ : ∃ f, fuel = rs.length + f := ⟨fuel - rs.length, by omega⟩
  have := readChunks_append P rs h f [] []
  rw [List.append_nil] at this
  rw [this, readChunks_nil]
  simp


end PV
